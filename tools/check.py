#!/usr/bin/env python3
"""The check driver: `check.py setup` | `check.py <Cxx> [--tier quick|thorough]` | `check.py --replay <file>`.

For one property it (1) re-checks the Coq theorems of theories/props/Cxx.v and audits the development,
(2) rebuilds the Rust harness against /repo's working tree and the extracted model driver,
(3) generates histories, runs them on both, (4) applies the independent oracles to the
implementation trace (failing-input search), (5) compares implementation and model traces on the
views relevant to the property (correspondence), (6) prints the verdict and writes the evidence.
"""
import sys, os, json, time, subprocess, hashlib, re, random, fcntl, glob, shutil
from concurrent.futures import ThreadPoolExecutor

ROOT = '/verif'
sys.path.insert(0, ROOT + '/tools')
import gen, pyref, tracecmp, oracles, coqcases, srcmap   # noqa: E402

BUILD = ROOT + '/build'
COQ = ROOT + '/coq'
# The implementation under test is /repo. For evaluating seeded changes in scratch worktrees without touching
# /repo, VERIF_REPO=<dir> points a run at another checkout: it gets its own harness copy, cargo target, work,
# evidence and replay directories under build/alt-<hash>/ (nothing registered in MANIFEST.json sets it).
REPO = os.path.realpath(os.environ.get('VERIF_REPO', '/repo'))
ALT = REPO != '/repo'
HB = BUILD if not ALT else '%s/alt-%s' % (BUILD, hashlib.sha256(REPO.encode()).hexdigest()[:10])
OUT = ROOT if not ALT else HB
HARNESS_SRC = ROOT + '/harness' if not ALT else HB + '/harness'
HARNESS = HB + '/cargo-target/release/harness'
MODEL = BUILD + '/model/model_driver'
WORK = '%s/work/%d' % (HB, os.getpid())      # per process: concurrent checks never share scratch files

ROOT_OPS = {'hash', 'par_hash', 'par_mix'}
EQ_OPS = {'eq'}
SSZ_OPS = {'ssz_enc', 'ssz_list', 'ssz_vec'}
SERDE_OPS = {'serde_ser', 'serde_list', 'serde_vec'}
BUILDER_OPS = {'b_new', 'b_push', 'b_push_node', 'b_finish'}
CTOR_OPS = {'new_list', 'new_vec', 'list_slow', 'vec_iter', 'empty', 'repeat', 'repeat_slow', 'from_elem',
            'default_vec', 'ssz_list', 'ssz_vec', 'serde_list', 'serde_vec', 'to_vector', 'to_list', 'push', 'bulk'}
SUFFIX_OPS = {'iter_from', 'level_iter', 'pop_front', 'pop_front_slow'}


def f_all(kind, opname):
    return True


REBASE_OPS = {'rebase_on', 'rebase'}
POP_OPS = {'pop_front', 'pop_front_slow'}

# What each property's check looks at. The rule throughout: a check demands what ITS property states and nothing else.
#   fams     scenario families (tools/gen.py)
#   filt     (line kind R|O, operation name) -> is this result / observation line the property's business?  It selects
#            (a) whether the FIRST line on which the implementation deviates from the reference semantics (pyref) is a
#            finding for this property (later deviations are consequences and are not attributed), when `pyref` is on;
#            (b) whether the first model/implementation difference in the obs view is a broken correspondence for it.
#   pyref    compare with the independent reference semantics at all (off where the property is relative: "unchanged by",
#            "same as on the other map", "same as sequentially" - those have their own oracles on the implementation trace)
#   views    structural views (shape/memo/ident/fresh) whose first model/implementation difference matters, restricted to the
#            operations in `vops` (None = every operation)
#   oracles  independent oracles on the implementation trace; `oops` restricts their findings to steps running these operations
#   twin     a second run of a transformed history on the implementation itself (run-level theorems of InvisibleP.v):
#            'hash' = all but the last root request per handle removed, 'rebase' = rebases removed, 'intra' = intra -> apply
PROPS = {
    'C01': dict(fams=['crud', 'versions', 'suffix', 'bulk', 'big', 'rebase_pairs', 'intra'], views=['obs'],
                oracles=['wellformed'], pyref=True,
                filt=lambda k, o: not (k == 'R' and o in (ROOT_OPS | EQ_OPS | SSZ_OPS | SERDE_OPS | BUILDER_OPS)),
                key=lambda ops: True),
    'C02': dict(fams=['crud', 'versions', 'rebase_pairs', 'intra', 'suffix', 'capacity', 'big', 'deep', 'hash_placement', 'fault', 'par'],
                views=['obs'], oracles=['root'], pyref=True, filt=lambda k, o: k == 'R' and o in ROOT_OPS,
                key=lambda ops: any(o.startswith('hash') for o in ops)),
    'C03': dict(fams=['hash_placement', 'rebase_pairs', 'intra', 'versions', 'crud', 'fault', 'par'], views=['obs'],
                oracles=['memo', 'root'], pyref=True, filt=lambda k, o: k == 'R' and o in ROOT_OPS, twin='hash',
                key=lambda ops: sum(o.startswith('hash') for o in ops) >= 2),
    'C04': dict(fams=['versions', 'rebase_pairs', 'hash_placement', 'intra', 'eq_stable'], views=['obs'], oracles=['isolation', 'memo'],
                pyref=False, filt=lambda k, o: False,
                key=lambda ops: any(o.startswith(('clone', 'to_vector', 'to_list', 'rebase')) for o in ops)),
    'C05': dict(fams=['capacity', 'codec', 'bulk', 'invalid_args', 'crud'], views=['obs'], oracles=['capacity'], pyref=True,
                filt=lambda k, o: k == 'R' and o in CTOR_OPS,
                key=lambda ops: True),
    'C06': dict(fams=['crud', 'versions', 'rebase_pairs', 'intra', 'suffix', 'capacity', 'codec', 'bulk'],
                views=['obs', 'shape'], oracles=['canonical', 'eq'], pyref=True, filt=lambda k, o: k == 'R' and o in EQ_OPS,
                key=lambda ops: any(o.startswith('eq') for o in ops)),
    'C07': dict(fams=['rebase_pairs', 'versions'], views=['obs'], oracles=['unchanged', 'canonical', 'memo'], oops=REBASE_OPS, pyref=False,
                filt=lambda k, o: o in REBASE_OPS, twin='rebase',
                key=lambda ops: any(o.startswith('rebase') for o in ops)),
    'C08': dict(fams=['rebase_pairs'], views=['obs', 'ident', 'shape'], vops=REBASE_OPS, oracles=['sharing'], pyref=False,
                filt=lambda k, o: False, key=lambda ops: any(o.startswith('rebase_on') for o in ops)),
    'C09': dict(fams=['intra', 'versions'], views=['obs', 'shape'], vops={'intra'}, oracles=['unchanged', 'canonical', 'memo'], oops={'intra'},
                pyref=False, filt=lambda k, o: o == 'intra', twin='intra',
                key=lambda ops: any(o.startswith('intra') for o in ops)),
    'C10': dict(fams=['cost', 'crud', 'suffix', 'big', 'versions'], views=['obs', 'ident', 'fresh', 'memo'], oracles=['cost'], pyref=False,
                vops={'clone', 'apply', 'pop_front', 'pop_front_slow', 'push', 'set', 'cow_into', 'cow_make', 'cow_make2', 'cow_read',
                      'touch', 'iter_cow', 'to_vector', 'to_list', 'new_list', 'new_vec', 'list_slow', 'vec_iter', 'repeat',
                      'repeat_slow', 'from_elem', 'empty', 'ssz_list', 'ssz_vec', 'hash', 'get', 'len', 'iter_from', 'level_iter',
                      'eq', 'ssz_enc', 'serde_ser', 'drop', 'bulk'},
                filt=lambda k, o: False, key=lambda ops: any(o.startswith(('apply', 'pop_front', 'clone')) for o in ops)),
    'C11': dict(fams=['suffix', 'crud', 'invalid_args'], views=['obs', 'shape'], vops=POP_OPS, oracles=['suffix', 'canonical'], oops=SUFFIX_OPS,
                pyref=False, filt=lambda k, o: (k == 'R' and o in SUFFIX_OPS and o != 'level_iter') or (k == 'O' and o in POP_OPS),
                key=lambda ops: any(o.split()[0] in SUFFIX_OPS for o in ops)),
    'C12': dict(fams=['codec', 'crud', 'versions', 'roundtrip'], views=['obs'], oracles=['ssz', 'roundtrip_ssz'], pyref=True,
                filt=lambda k, o: k == 'R' and o in SSZ_OPS, key=lambda ops: any(o.split()[0] in SSZ_OPS for o in ops)),
    'C13': dict(fams=['codec', 'crud', 'roundtrip'], views=['obs'], oracles=['serde', 'roundtrip_serde'], pyref=True,
                filt=lambda k, o: k == 'R' and o in SERDE_OPS, key=lambda ops: any(o.split()[0] in SERDE_OPS for o in ops)),
    'C14': dict(fams=['crud', 'versions', 'bulk', 'suffix', 'codec'], views=['obs'], oracles=[], pyref=False,
                filt=lambda k, o: False, key=lambda ops: True, lockstep=True),
    'C15': dict(fams=['invalid_args', 'bulk', 'capacity', 'deep', 'codec', 'builder', 'crud', 'versions', 'bulk_via', 'rebase_pairs', 'intra'], views=['obs'],
                oracles=['wellformed', 'error_preserves'], pyref=True, errors_only=True, filt=lambda k, o: k == 'R',
                key=lambda ops: True),
    'C16': dict(fams=['par', 'fault'], views=['obs'], oracles=['par'], pyref=True, par_only=True, twin='fault', no_corr=True,
                filt=lambda k, o: k == 'R' and o in ('par_hash', 'par_mix'),
                key=lambda ops: any(o.startswith('par_') for o in ops), repeat=True),
    'C17': dict(fams=['builder', 'builder_nodes'], views=['obs'], oracles=['builder'], pyref=True,
                filt=lambda k, o: k == 'R' and o in BUILDER_OPS,
                key=lambda ops: any(o.startswith('b_finish') for o in ops)),
}

KERNEL_CASES = {'quick': 12, 'thorough': 60}      # histories re-evaluated inside Coq per check
ZERO_CAP_PROPS = {'C01', 'C05', 'C12', 'C13', 'C15'}      # these also run their families at capacity N = 0 (u8/u64/h256)
SMALL_SCOPE_PROPS = {'C01', 'C02', 'C03', 'C04', 'C06', 'C07', 'C09'}
# histories per scenario family (a property with more families gets proportionally more histories)
PER_FAMILY = {'quick': 500, 'thorough': 8000}
TRUSTED_BASE = [
    'Coq 8.16.1 kernel (coqc; coqchk in the thorough tier); vm_compute in Examples, *_refuted witnesses and the kernel-evaluated cases; no native_compute',
    'axioms: none (every Print Assumptions reports "Closed under the global context"); hypotheses of theorems, not axioms: '
    'collision_free H / nonzero_hash H (SHA-256 idealised), ek_wf / ek_codec_on (element type laws), umap_lawful (update map laws, proved for the three implementations)',
    'hand-written Gallina model of milhouse (theories/model), tied to /repo only by the correspondence check of this run',
    'extraction: Coq extraction plugin with ExtrOcamlBasic only (bool, option, unit, list, prod, sumbool, sumor; andb/orb inlined), no Extract Constant/Inductive of our own; OCaml 4.13.1, zarith',
    'kernel-evaluated cases (tools/coqcases.py): per run a sample of the executed histories is re-evaluated inside Coq by vm_compute (model/Cases.v, Gallina SHA-256 model/Sha256.v checked against FIPS vectors) and must reproduce the implementation\'s answers; this path uses neither extraction nor the OCaml driver',
    'model_driver/driver.ml and sha256.ml (hand-written), Rust harness (/verif/harness), Python orchestrator, generators, reference oracle tools/pyref.py + tools/ssz_ref.py (from-scratch SSZ over hashlib) and tools/oracles.py',
    'modelled rather than verified: SHA-256 / ZERO_HASHES / mix_in_length, element Encode/Decode/TreeHash impls, ethereum_ssz decode_list_of_variable_length_items and SszEncoder, serde/serde_json, vec_map::VecMap and BTreeMap, Arc identity, RwLock atomicity, rayon::join (Par); not modelled: memory safety, allocation failure, stack depth, timing, the OS scheduler',
]


def log(*a):
    print(*a, file=sys.stderr, flush=True)


def run(cmd, timeout=3600, cwd=None, env=None, capture=True):
    e = dict(os.environ)
    e.update({'CARGO_NET_OFFLINE': 'true', 'CARGO_TARGET_DIR': HB + '/cargo-target'})
    if env:
        e.update(env)
    return subprocess.run(cmd, cwd=cwd, env=e, timeout=timeout, text=True,
                          stdout=subprocess.PIPE if capture else None, stderr=subprocess.STDOUT if capture else None)


class Lock:
    def __init__(self, name):
        os.makedirs(BUILD, exist_ok=True)
        self.f = open('%s/.%s.lock' % (BUILD, name), 'w')

    def __enter__(self):
        fcntl.flock(self.f, fcntl.LOCK_EX)

    def __exit__(self, *a):
        fcntl.flock(self.f, fcntl.LOCK_UN)


# ------------------------------------------------------------------------------------ builds
def build_coq(target=None):
    """full .vo build of the development (or of one target); returns (ok, output)"""
    with Lock('coq'):
        if not os.path.exists(COQ + '/Makefile'):
            run(['coq_makefile', '-f', '_CoqProject', '-o', 'Makefile'], cwd=COQ)
        cmd = ['timeout', '3000', 'make', '-j16'] + ([target] if target else [])
        r = run(['bash', '-c', 'ulimit -v 16000000; ' + ' '.join(cmd)], cwd=COQ, timeout=3100)
        return r.returncode == 0, r.stdout


def build_model():
    with Lock('model'):
        ok, out = build_coq('theories/model/Extract.vo')
        if not ok:
            return False, out
        os.makedirs(BUILD + '/model', exist_ok=True)
        srcs = ['model.mli', 'model.ml', 'sha256.ml', 'driver.ml']
        newest = max(os.path.getmtime(ROOT + '/model_driver/' + f) for f in srcs)
        if os.path.exists(MODEL) and os.path.getmtime(MODEL) >= newest:
            return True, ''
        for f in srcs:
            shutil.copy(ROOT + '/model_driver/' + f, BUILD + '/model/' + f)
        r = run(['ocamlfind', 'ocamlopt', '-package', 'zarith', '-linkpkg', '-O2', '-w', '-a'] + srcs + ['-o', 'model_driver'],
                cwd=BUILD + '/model', timeout=600)
        if r.returncode != 0:
            return False, r.stdout
        r2 = run([MODEL, '--self-test'], timeout=60)
        return r2.returncode == 0, r.stdout + r2.stdout


def build_harness():
    with Lock('harness' if not ALT else 'harness-' + os.path.basename(HB)):
        if ALT:
            os.makedirs(HB, exist_ok=True)
            if os.path.exists(HARNESS_SRC):
                shutil.rmtree(HARNESS_SRC)
            shutil.copytree(ROOT + '/harness', HARNESS_SRC)
            ct = open(HARNESS_SRC + '/Cargo.toml').read().replace('path = "/repo"', 'path = "%s"' % REPO)
            open(HARNESS_SRC + '/Cargo.toml', 'w').write(ct)
            if not os.path.exists(HB + '/cargo-target') and os.path.exists(BUILD + '/cargo-target'):
                subprocess.run(['cp', '-a', BUILD + '/cargo-target', HB + '/cargo-target'])
        if not os.path.exists(HARNESS_SRC + '/Cargo.lock'):
            shutil.copy(REPO + '/Cargo.lock', HARNESS_SRC + '/Cargo.lock')
        r = run(['cargo', 'build', '--release', '--offline'], cwd=HARNESS_SRC, timeout=3000)
        if r.returncode != 0 and not re.search(r'^error(\[E\d+\])?: (?!linking|could not compile|aborting due to)', r.stdout, re.M):
            # no compiler diagnostic: a linker / incremental-cache problem, not a property of /repo.
            # Throw the incremental state of the two crates away and build again without it.
            log('harness build failed without a compiler error; retrying without the incremental cache')
            run(['cargo', 'clean', '--release', '--offline', '-p', 'harness', '-p', 'milhouse'], cwd=HARNESS_SRC, timeout=600)
            shutil.rmtree(HB + '/cargo-target/release/incremental', ignore_errors=True)
            r = run(['cargo', 'build', '--release', '--offline'], cwd=HARNESS_SRC, timeout=3000,
                    env={'CARGO_INCREMENTAL': '0'})
        return r.returncode == 0, r.stdout


def audit_sources():
    """no Admitted/admit/Axiom/Parameter/Conjecture, no guard or universe switches, anywhere"""
    bad = []
    pat = re.compile(r'(\bAdmitted\b|\badmit\b|^\s*(Axiom|Parameter|Conjecture|Axioms|Parameters)\b|Admit Obligations|'
                     r'Unset Guard|bypass_check|type-in-type|Unset Universe Checking|Unset Positivity)', re.M)
    for f in glob.glob(COQ + '/theories/**/*.v', recursive=True):
        txt = open(f).read()
        txt = re.sub(r'\(\*.*?\*\)', '', txt, flags=re.S)       # strip comments (non-nested is enough here)
        for m in pat.finditer(txt):
            bad.append('%s: %s' % (os.path.relpath(f, COQ), m.group(0).strip()))
    # Variable/Hypothesis outside sections
    for f in glob.glob(COQ + '/theories/**/*.v', recursive=True):
        depth = 0
        txt = re.sub(r'\(\*.*?\*\)', '', open(f).read(), flags=re.S)
        for line in txt.splitlines():
            s = line.strip()
            if re.match(r'(Section|Module)\s+\w+', s) and not s.startswith('Module Type') and ':=' not in s:
                depth += 1
            elif re.match(r'End\s+\w+\s*\.', s):
                depth = max(0, depth - 1)
            elif depth == 0 and re.match(r'(Variable|Variables|Hypothesis|Hypotheses|Context)\b', s):
                bad.append('%s: %s outside a section' % (os.path.relpath(f, COQ), s[:40]))
    return bad


def check_proofs(prop, tier):
    """returns dict(ok, theorems, obligations, discharged, assumptions, detail)"""
    target = 'theories/props/%s.vo' % prop
    ok, out = build_coq(target)
    res = dict(ok=ok, detail='', theorems=[], obligations=0, discharged=0, assumptions=[])
    if not ok:
        res['detail'] = 'make %s failed:\n%s' % (target, out[-3000:])
        m = re.search(r'File "([^"]+)", line (\d+)', out)
        res['broken'] = m.group(0) if m else target
        return res
    # re-run coqc on the props file to capture Print Assumptions
    os.makedirs(BUILD + '/props', exist_ok=True)
    # the output of this coqc run is a function of the sources: reuse it while no .v file (nor the Coq version) changed
    dig = hashlib.sha256()
    for f in sorted(glob.glob(COQ + '/theories/**/*.v', recursive=True)) + [COQ + '/_CoqProject']:
        dig.update(f.encode() + b'\0' + open(f, 'rb').read())
    dig.update(subprocess.run(['coqc', '--version'], stdout=subprocess.PIPE).stdout)
    cache = BUILD + '/props/%s.assumptions' % prop
    cached = None
    if os.path.exists(cache):
        try:
            cj = json.load(open(cache))
            if cj.get('digest') == dig.hexdigest():
                cached = cj['stdout']
        except Exception:
            cached = None
    if cached is None:
        r = run(['coqc', '-Q', 'theories', 'MH', '-o', BUILD + '/props/%s.vo' % prop, 'theories/props/%s.v' % prop],
                cwd=COQ, timeout=900)
        if r.returncode != 0:
            res['ok'] = False
            res['detail'] = 'coqc of the props file failed:\n' + r.stdout[-3000:]
            res['broken'] = 'theories/props/%s.v' % prop
            return res
        json.dump(dict(digest=dig.hexdigest(), stdout=r.stdout), open(cache, 'w'))
    else:
        class _R:
            pass
        r = _R()
        r.stdout = cached
    src = open('%s/theories/props/%s.v' % (COQ, prop)).read()
    thms = re.findall(r'^Theorem (\w+)', src, re.M)
    closed = r.stdout.count('Closed under the global context')
    axioms = re.findall(r'^Axioms:\n((?:.+\n)+)', r.stdout, re.M)
    res['theorems'] = thms
    res['assumptions'] = ['Closed under the global context'] * closed + axioms
    if closed != len(thms) or axioms:
        res['ok'] = False
        res['detail'] = 'Print Assumptions: %d of %d theorems closed; axioms: %s' % (closed, len(thms), axioms)
        res['broken'] = 'Print Assumptions of theories/props/%s.v' % prop
        return res
    bad = audit_sources()
    if bad:
        res['ok'] = False
        res['detail'] = 'source audit: ' + '; '.join(bad[:10])
        res['broken'] = bad[0]
        return res
    # obligations = Qed-closed statements in the dependency cone of the props file
    r = run(['coqdep', '-Q', 'theories', 'MH', '-sort', 'theories/props/%s.v' % prop], cwd=COQ, timeout=120)
    files = [f for f in r.stdout.split() if f.endswith('.v')]
    n = 0
    for f in files:
        p = f if os.path.isabs(f) else COQ + '/' + f
        if os.path.exists(p):
            n += len(re.findall(r'\b(Qed|Defined)\.', open(p).read()))
    res['obligations'] = res['discharged'] = n
    res['cone'] = files
    if tier == 'thorough':
        r = run(['bash', '-c', 'ulimit -v 16000000; timeout 2400 coqchk -silent -o -Q theories MH MH.props.%s' % prop], cwd=COQ, timeout=2500)
        res['coqchk'] = r.stdout[-1500:]
        if r.returncode != 0:
            res['ok'] = False
            res['detail'] = 'coqchk failed: ' + r.stdout[-1500:]
            res['broken'] = 'coqchk MH.props.%s' % prop
    return res


# ------------------------------------------------------------------------------------ running histories
def write_shards(hs, tag, nshards):
    os.makedirs(WORK, exist_ok=True)
    shards = [[] for _ in range(nshards)]
    for i, h in enumerate(hs):
        shards[i % nshards].append((i, h))
    files = []
    for k, sh in enumerate(shards):
        if not sh:
            continue
        path = '%s/%s.%d.hist' % (WORK, tag, k)
        with open(path, 'w') as f:
            for _, h in sh:
                f.write(h)
        files.append((path, [i for i, _ in sh]))
    return files


HARNESS_TIMEOUT = 60      # seconds of wall clock per history (harness --isolate): a hang costs one history


def exec_trace(binary, path, env=None, timeout=1500):
    # the implementation runs every history in a forked child (harness --isolate): an abort, a stack
    # overflow, an allocation failure or an endless loop / deadlock inside the crate costs that
    # history only and shows up in its trace as `R <n> abort` / `R <n> timeout`
    args = ['--isolate', '--timeout=%d' % HARNESS_TIMEOUT, '--mem-mb=8192'] if binary == HARNESS else []
    try:
        r = subprocess.run([binary] + args + [path], stdout=subprocess.PIPE, stderr=subprocess.PIPE, text=True, timeout=timeout,
                           env=dict(os.environ, **(env or {})))
        return r.returncode, r.stdout, r.stderr
    except subprocess.TimeoutExpired as e:
        return -9, (e.stdout or b'').decode() if isinstance(e.stdout, bytes) else (e.stdout or ''), 'timeout'


def run_all(texts, tag, env=None, want_model=True):
    """texts: list of history texts. returns (impl, model): lists (per history) of dict(header, lines, cov) or None"""
    files = write_shards(texts, tag, 16)
    impl = [None] * len(texts)
    model = [None] * len(texts)
    problems = []

    def job(binary, path, idxs, dest, e):
        rc, out, err = exec_trace(binary, path, e)
        hs = tracecmp.split(out)
        for j, i in enumerate(idxs):
            if j < len(hs):
                dest[i] = hs[j]
        if rc != 0 or len(hs) != len(idxs):
            problems.append((binary, path, rc, err[-500:], len(hs), len(idxs)))

    with ThreadPoolExecutor(max_workers=16) as ex:
        futs = []
        for path, idxs in files:
            futs.append(ex.submit(job, HARNESS, path, idxs, impl, env))
            if want_model:
                futs.append(ex.submit(job, MODEL, path, idxs, model, None))
        for f in futs:
            f.result()
    return impl, model, problems


def classify(line):
    return line[0] if line else '?'


def pyref_findings(prop, text, trace):
    """deviation of the implementation trace from the reference semantics on a line that is the property's business
    (PROPS[prop]['filt']); used by the properties that are stated absolutely ("equals what a plain vector / the SSZ
    specification gives"). The relative properties (unchanged by, same as, isolated from) have pyref off and their own oracles.
    A panic / abort / time-out is a finding for C15 wherever it happens (C16: time-outs), for the others when
    the operation that died is relevant."""
    spec = PROPS[prop]
    hist = pyref.parse_histories(text)[0]
    lines = [pyref.header(hist)] + trace['lines']       # shards renumber the histories
    try:
        mm = pyref.check_trace(hist, lines)
    except Exception:
        return []                                       # reference could not replay: no prediction
    if not mm:
        return []
    filt = spec['filt']
    out = []
    # abandonment (panic / abort / timeout) anywhere
    for m in mm:
        act = (m.actual or '')
        if act.endswith((' panic', ' abort', ' timeout')):
            what = act.rsplit(' ', 1)[1]
            opname = m.op_text.split()[0] if m.op_text else ''
            if prop == 'C15' or (prop == 'C16' and what == 'timeout') or filt('R', opname):
                out.append(oracles.Finding(m.op, {'panic': 'panic in `%s`', 'abort': 'the process died (abort / stack overflow / out of memory) in `%s`',
                                                  'timeout': '`%%s` did not terminate within %d s' % HARNESS_TIMEOUT}[what] % m.op_text))
            return out
    if not spec.get('pyref', True):
        return out
    first = None
    if spec.get('par_only'):
        # C16: a parallel result that differs from the reference counts only when the sequential root computations
        # of the same history are right (otherwise hashing as such is broken: C02's business)
        if any(l.startswith('fault ') for l in text.splitlines()[1:]):
            return out          # fault histories are judged by their twin without the fault (twin_findings)
        seq_bad = any((m.op_text or '').split()[:1] == ['hash'] for m in mm)
        if seq_bad:
            return out
        first = next((m.op for m in mm if (m.op_text or '').split()[:1] and (m.op_text or '').split()[0] in ('par_hash', 'par_mix')), None)
        if first is None:
            return out
    for m in mm:
        if first is not None and m.op != first:
            continue
        ln = m.predicted or m.actual or ''
        opname = m.op_text.split()[0] if m.op_text else ''
        if spec.get('errors_only'):
            # C15: whether, and with which error, a call is rejected (values of successful calls are C01's business)
            pa = [(x or '').split(' ', 2)[2] if (x or '').startswith('R ') else '' for x in (m.predicted, m.actual)]
            if not any(x.startswith('err:') and x not in ('err:pending', 'err:badreg') for x in pa) or '?' in pa[0]:
                continue
        if filt(classify(ln), opname):
            out.append(oracles.Finding(m.op, 'after `%s`: expected `%s`, got `%s`' % (m.op_text, (m.predicted or '')[:200], (m.actual or '')[:200])))
            break
    return out


def oracle_findings(prop, text, trace):
    cfg = oracles.Cfg(trace['header'])
    ops = [l for l in text.splitlines() if l and not l.startswith(('#', 'config'))]
    steps = oracles.decode(trace['lines'])
    out = []
    oops = PROPS[prop].get('oops')
    for name in PROPS[prop]['oracles']:
        try:
            fs = oracles.ORACLES[name](cfg, ops, steps)
        except Exception as e:
            fs = [oracles.Finding(0, 'oracle %s crashed on this trace: %r' % (name, e))]
        if prop == 'C04' and name == 'memo':
            # isolation: a memo that goes wrong, at this very operation, in a handle the operation did NOT target
            stale = {}
            for f in fs:
                stale.setdefault(f.op, set()).add(f.msg.split(':', 1)[0])
            fs = [f for f in fs if 0 < f.op <= len(ops) and f.msg.split(':', 1)[0] not in oracles.targets(ops[f.op - 1])
                  and f.msg.split(':', 1)[0] not in stale.get(f.op - 1, set())]
        if oops is not None and name in ('canonical', 'memo', 'unchanged'):
            # these two audit every state; for this property only the states right after its operations count
            fs = [f for f in fs if 0 < f.op <= len(ops) and ops[f.op - 1].split()[0] in oops]
        out += fs
    return out


def correspondence(prop, text, it, mt):
    """differences between implementation and model that are this property's business: per view, the FIRST
    differing line, if it is relevant (obs: PROPS filt; structural views: at the operations in vops)"""
    if it is None or mt is None:
        return {'obs': (0, 'missing trace', 'missing trace')}, {}
    if mt['header'].endswith('unsupported'):
        return {}, {}
    spec = PROPS[prop]
    filt = spec['filt']
    ops = [l for l in text.splitlines() if l and not l.startswith(('#', 'config'))]
    vops = spec.get('vops')

    def relevant(view, n, a, b, state):
        if spec.get('no_corr'):
            # C16 compares the implementation with ITSELF (parallel vs sequential, with vs without a fault, run vs run);
            # a root that differs from the model's is C02's business
            return False
        optoks = ops[n - 1].split() if 0 < n <= len(ops) else ['']
        opname = optoks[0]
        if view == 'obs':
            if a[0] == 'R' or b[0] == 'R':
                # an answer that differs because the handle it was asked of had ALREADY diverged from the model
                # (its observation line differed after the previous operation) is a consequence, not a new difference
                regs = [x for x in optoks[1:] if len(x) == 2 and x[0] == 'h' and x[1].isdigit()]
                if any(state.get(('O', r)) is False for r in regs):
                    return False
            if spec.get('errors_only'):
                return a[0] == 'R' and any((' err:' in x and not x.endswith(('err:pending', 'err:badreg'))) or x.endswith(' panic') for x in (a, b))
            return filt(classify(a if a != '<missing>' else b), opname)
        return view in spec['views'] and (vops is None or opname in vops)

    d = tracecmp.compare(it['lines'], mt['lines'], relevant=relevant)
    rel = {v: x for v, x in d.items() if not v.startswith('drift:')}
    drift = {v[6:]: x for v, x in d.items() if v.startswith('drift:')}
    return rel, drift


# ------------------------------------------------------------------------------------ twin histories
def twin_text(text, mode):
    """(transformed history, [original op index per transformed op], [is the op itself transformed])"""
    lines = [l for l in text.strip().split('\n') if not l.startswith('#')]
    cfg, ops = lines[0], lines[1:]
    if any(o.startswith('fault') for o in ops) and mode != 'fault':
        return None
    last = {}
    if mode == 'hash':
        for i, o in enumerate(ops):
            p = o.split()
            if p[0] == 'hash':
                last[p[1]] = i
    out, mapping, changed = [], [], []
    touched = False
    for i, o in enumerate(ops):
        p = o.split()
        ch = False
        if mode == 'rebase':
            if p[0] == 'rebase_on':
                touched = True
                continue
            if p[0] == 'rebase':
                o, ch, touched = 'clone %s %s' % (p[1], p[3]), True, True
        elif mode == 'intra':
            if p[0] == 'intra':
                o, ch, touched = 'apply %s' % p[1], True, True
        elif mode == 'hash':
            if (p[0] == 'hash' and last.get(p[1]) != i) or p[0] in ('par_hash', 'par_mix'):
                touched = True
                continue
        elif mode == 'fault':
            if p[0] == 'fault':
                touched = True
                continue
            if i > 0 and ops[i - 1].startswith('fault '):
                ch = True          # the operation the fault is aimed at: it may be abandoned, its answer is not compared
        out.append(o)
        mapping.append(i)
        changed.append(ch)
    if not touched:
        return None
    return cfg + '\n' + '\n'.join(out) + '\n', mapping, changed


def twin_compare(mode, orig_trace, twin_trace, mapping, changed, ops):
    """first difference between the original run and its twin on the lines both have"""
    a = tracecmp.by_op(orig_trace['lines'])
    b = tracecmp.by_op(twin_trace['lines'])
    for k, i in enumerate(mapping):
        ao, bo = a.get(i + 1), b.get(k + 1)
        if ao is None or bo is None:
            if (ao is None) != (bo is None):
                return oracles.Finding(i + 1, 'the history and its twin do not both reach `%s`' % ops[i][:80])
            return None
        ra, rb = ao['R'][0].split(' ', 2)[2], bo['R'][0].split(' ', 2)[2]
        if ra in ('panic', 'abort', 'timeout') or rb in ('panic', 'abort', 'timeout'):
            return None
        if mode == 'fault' and changed[k]:
            continue
        if not changed[k] and ra != rb:
            return oracles.Finding(i + 1, '`%s` answers `%s`, but `%s` in the same history %s' % (
                ops[i][:80], ra[:120], rb[:120], {'hash': 'with the earlier root requests removed', 'rebase': 'without the rebases',
                                                  'intra': 'with a plain flush in place of the self-deduplication',
                                                  'fault': 'without the injected fault'}[mode]))
        if changed[k] and mode == 'intra' and ra != rb:
            return oracles.Finding(i + 1, 'self-deduplication answered `%s` where a flush answers `%s`' % (ra[:120], rb[:120]))
        if ao.get('O', []) != bo.get('O', []):
            la, lb = ao.get('O', []), bo.get('O', [])
            j = next((x for x in range(min(len(la), len(lb))) if la[x] != lb[x]), min(len(la), len(lb)))
            return oracles.Finding(i + 1, 'after `%s` the handles show `%s`, but `%s` in the same history %s' % (
                ops[i][:80], (la[j] if j < len(la) else '<none>')[:140], (lb[j] if j < len(lb) else '<none>')[:140],
                {'hash': 'with the earlier root requests removed', 'rebase': 'without the rebases',
                 'intra': 'with a plain flush in place of the self-deduplication', 'fault': 'without the injected fault'}[mode]))
    return None


_AN = None


def _analyse(i):
    prop, hs, impl, model = _AN
    t = hs[i]
    if impl[i] is None:
        return i, [oracles.Finding(0, 'the harness produced no trace for this history (crash or timeout)')], None, False
    if impl[i]['header'].endswith('unsupported'):
        return i, [], None, False
    f = pyref_findings(prop, t, impl[i]) + oracle_findings(prop, t, impl[i])
    rel, drift = (None, False)
    if model[i] is not None:
        rel, drift = correspondence(prop, t, impl[i], model[i])
    return i, f, rel, bool(drift)


def twin_findings(prop, hs, impl, tag):
    """run the twin histories of this property on the implementation and compare; -> {index: Finding}"""
    mode = PROPS[prop].get('twin')
    if not mode:
        return {}
    jobs = []
    for i, t in enumerate(hs):
        if impl[i] is None or impl[i]['header'].endswith('unsupported'):
            continue
        tw = twin_text(t, mode)
        if tw is not None:
            jobs.append((i,) + tw)
    if not jobs:
        return {}
    timpl, _, _ = run_all([j[1] for j in jobs], tag + '.twin', want_model=False)
    out = {}
    for (i, ttext, mapping, changed), tt in zip(jobs, timpl):
        if tt is None:
            continue
        ops = [l for l in hs[i].splitlines()[1:] if l and not l.startswith('#')]
        f = twin_compare(mode, impl[i], tt, mapping, changed, ops)
        if f:
            out[i] = f
    return out


# ------------------------------------------------------------------------------------ shrinking
def violates(prop, text):
    impl, _, _ = run_all([text], 'shrink', want_model=False)
    if impl[0] is None:
        return True
    return bool(pyref_findings(prop, text, impl[0]) or oracle_findings(prop, text, impl[0])
                or twin_findings(prop, [text], impl, 'shrink'))


def shrink(prop, text, budget=150):
    """delta debugging on the operation list, within a wall-clock budget; while shrinking a single small history gets
    a short watchdog (a candidate that hangs must not cost a minute)"""
    global HARNESS_TIMEOUT
    lines = text.strip().split('\n')
    cfg, ops = lines[0], [l for l in lines[1:] if not l.startswith('#')]
    saved, HARNESS_TIMEOUT = HARNESS_TIMEOUT, min(HARNESS_TIMEOUT, 8)
    t0 = time.time()
    try:
        # cut the tail after the failing operation is not needed: try dropping single ops, last to first
        changed = True
        rounds = 0
        while changed and rounds < 4 and time.time() - t0 < budget:
            changed = False
            rounds += 1
            i = len(ops) - 1
            while i >= 0 and time.time() - t0 < budget:
                cand = ops[:i] + ops[i + 1:]
                t = cfg + '\n' + '\n'.join(cand) + '\n'
                try:
                    if cand and violates(prop, t):
                        ops = cand
                        changed = True
                except Exception:
                    pass
                i -= 1
    finally:
        HARNESS_TIMEOUT = saved
    return cfg + '\n' + '\n'.join(ops) + '\n'


# ------------------------------------------------------------------------------------ known findings
def load_known():
    p = ROOT + '/known_findings.json'
    return json.load(open(p)) if os.path.exists(p) else []


def _pred_maxmap_bulk_via_extension(text):
    """F8: the history runs on the `max` map and contains a `bulk_via` whose map holds a key >= the length the target
    list has at that point (computed with the reference semantics)"""
    lines = [l for l in text.splitlines() if l and not l.startswith('#')]
    if not lines or not lines[0].startswith('config ') or lines[0].split()[3] != 'max':
        return False
    try:
        hist = pyref.parse_histories(text)[0]
        m = pyref.Machine(hist.kind, hist.n)
    except Exception:
        return False
    for op in lines[1:]:
        p = op.split()
        if p[0] == 'bulk_via' and len(p) == 4 and p[3] != '-':
            try:
                reg = m.regs[int(p[1][1:])]
                ln = len(reg.vals) if reg is not None else None
            except Exception:
                ln = None
            keys = [int(x.split(':')[0]) for x in p[3].split(',')]
            if ln is not None and any(k >= ln for k in keys):
                return True
        try:
            m.step(op)
        except Exception:
            return False
    return False


KNOWN_PREDICATES = {'maxmap_bulk_via_extension': _pred_maxmap_bulk_via_extension}


def known_match(prop, text, msg):
    for k in load_known():
        if k.get('status') != 'known' or prop not in k.get('properties', [k.get('property')]):
            continue
        ops = text
        if k.get('predicate'):
            if KNOWN_PREDICATES[k['predicate']](text) and re.search(k.get('message_pattern', '.'), msg):
                return k
            continue
        if all(re.search(p, ops, re.M) for p in k.get('history_patterns', [])) and re.search(k.get('message_pattern', '.'), msg):
            return k
    return None


# ------------------------------------------------------------------------------------ the check
def corpus_for(prop):
    out = []
    for f in sorted(glob.glob(ROOT + '/corpus/*.hist')):
        txt = open(f).read()
        m = re.search(r'^# props: (.*)$', txt, re.M)
        if m and prop in m.group(1).replace(' ', '').split(','):
            for h in re.split(r'(?m)^(?=config )', txt):
                if h.startswith('config'):
                    out.append(('corpus:' + os.path.basename(f), h if h.endswith('\n') else h + '\n'))
    return out


def make_histories(prop, tier, seed, boost=1):
    spec = PROPS[prop]
    fams = [f for f in spec['fams'] if f in gen.FAMILIES]
    count = max(1500, PER_FAMILY[tier] * len(fams)) if tier == 'quick' else PER_FAMILY[tier] * max(3, len(fams))
    hs = [(h.family, h.text()) for h in gen.generate(seed, fams, count)]
    # the source is not the one the model was aligned with (tools/srcmap.py): further seeds through the whole pipeline
    for extra in range(1, boost):
        hs += [(h.family, h.text()) for h in gen.generate(seed + 104729 * extra, fams, count)]
    if prop == 'C11':
        hs += [('suffix_exhaustive', h.text()) for h in gen.suffix_exhaustive(seed, ns=(4, 5, 8) if tier == 'quick' else (4, 5, 8, 9, 17, 33))]
    if prop in SMALL_SCOPE_PROPS:
        # small scope: every operation sequence of length 3 over a reduced alphabet (thorough); a sample of length-5 ones (quick)
        hs += [('small_scope', h.text()) for h in (gen.small_scope(seed, depth=3) if tier == 'thorough' else gen.small_scope(seed, depth=5, sample=360))]
    hs += [('extra_kind_quad', h.text()) for h in gen.extra_kind(seed, fams, 150 * boost if tier == 'quick' else 2000)]
    hs += [('extra_kind_bu16', h.text()) for h in gen.extra_kind(seed + 1, fams, 100 * boost if tier == 'quick' else 1200, kind='bu16')]
    if prop in ZERO_CAP_PROPS:
        hs += [('zero_capacity', h.text()) for h in gen.zero_capacity(seed, fams=[f for f in spec['fams'] if f != 'big' and f != 'deep'])]
    if prop == 'C17':
        hs += [('builder_exhaustive', h.text()) for h in gen.builder_exhaustive(seed, dmax=4 if tier == 'quick' else 7)]
    if spec.get('lockstep'):
        # the same history on the three update-map types
        out = []
        for fam, t in hs[:len(hs) // 3 + 1]:
            first, rest = t.split('\n', 1)
            p = first.split()
            if re.search(r'(^|[ ,])(\d{5,}):', rest):
                continue        # huge bulk keys are only meaningful for the B-tree map (VecMap would allocate key+1 slots)
            for mp in ('max', 'vec', 'bt'):
                out.append((fam, ' '.join(p[:3] + [mp]) + '\n' + rest))
        hs = out
    return corpus_for(prop) + hs


def write_replay(prop, kind, text, info):
    os.makedirs(OUT + '/replays', exist_ok=True)
    h = hashlib.sha256((prop + kind + text + json.dumps(info, sort_keys=True)).encode()).hexdigest()[:12]
    path = '%s/replays/%s-%s.json' % (OUT, prop, h)
    lines = text.strip().split('\n')
    json.dump(dict(property=prop, kind=kind, config=lines[0] if lines else '', history=lines[1:], **info), open(path, 'w'), indent=1)
    return path


def check(prop, tier, seed):
    global HARNESS_TIMEOUT
    if prop == 'C16':
        HARNESS_TIMEOUT = 20
    t0 = time.time()
    spec = PROPS[prop]
    violations = []           # (replay path, suffix)
    known_lines = []
    notes = []

    pr = check_proofs(prop, tier)
    okm, outm = build_model()
    okh, outh = build_harness()
    if not okm:
        log('model driver build failed:\n' + outm[-2000:])
    # function-level alignment of the model with the source (tools/srcmap.py). Never an alarm by itself; when the
    # source differs from the one the model was aligned with, the quick tier runs three times the histories.
    try:
        align = srcmap.status(REPO)
    except Exception as e:
        align = dict(error=repr(e), changed=[], removed=[], added=[])
    src_changed = bool(align.get('changed') or align.get('removed') or align.get('added'))
    boost = 3 if (src_changed and tier == 'quick') else 1
    if src_changed:
        log('source differs from the one the model was aligned with: changed %s removed %s added %s -> %dx histories' % (
            align.get('changed'), align.get('removed'), align.get('added'), boost))
    texts = make_histories(prop, tier, seed, boost)
    fam_of = [f for f, _ in texts]
    hs = [t for _, t in texts]
    impl = model = None
    kc = dict(cases=0, ok=None)
    findings = []             # (index, Finding list)
    corr = []                 # (index, rel diffs)
    drift_count = 0
    drift_only = set()       # histories whose model/implementation differences are all irrelevant to this property
    problems = []
    if okh and okm:
        env = None
        impl, model, problems = run_all(hs, prop)
        # kernel-evaluated correspondence (tools/coqcases.py): a sample of these histories, preferably ones that
        # exercise the property's key operations, evaluated inside Coq and compared with the implementation's answers
        kc = dict(cases=0, ok=None, detail='')
        order = sorted(range(len(hs)), key=lambda i: (not spec['key']([l for l in hs[i].splitlines()[1:] if l]), i))
        order = [i for i in order if impl[i] is not None][:400]
        os.makedirs(WORK, exist_ok=True)
        kc_n, kc_idx = coqcases.write_cases([hs[i] for i in order], [impl[i] for i in order], WORK + '/cases.v',
                                            limit=KERNEL_CASES[tier] * (2 if boost > 1 else 1), relevant=lambda o: spec['filt']('R', o))
        kc_idx = [order[j] for j in kc_idx]
        kc_pool = ThreadPoolExecutor(max_workers=1)
        kc_future = kc_pool.submit(coqcases.run_cases, WORK + '/cases.v') if kc_n else None
        hung = sum(1 for t in impl if t and any(l.endswith(' timeout') for l in t['lines'] if l.startswith('R ')))
        if spec.get('repeat') and hung:
            log('%d histories did not terminate; skipping the repetitions' % hung)
        if spec.get('repeat') and not hung:
            # concurrency: repeat the par histories under several rayon pool sizes
            reps = 3 if tier == 'quick' else 12
            for r in range(reps):
                for nt in ('1', '2', '16'):
                    impl_r, _, pr_r = run_all(hs, '%s.r%d.%s' % (prop, r, nt), env={'RAYON_NUM_THREADS': nt}, want_model=False)
                    problems += pr_r
                    for i, t in enumerate(impl_r):
                        if t is None or impl[i] is None:
                            continue
                        # whether an injected fault fires inside a racing operation is schedule dependent: the
                        # result line of the operation that follows a `fault k` is not compared between runs
                        ops_i = [l for l in hs[i].splitlines()[1:] if l and not l.startswith('#')]
                        skip = {'R %d ' % (k + 2) for k, o in enumerate(ops_i) if o.startswith('fault ')}
                        ro = lambda tr: [l for l in tr['lines'] if l[0] in 'RO' and not any(l.startswith(p) for p in skip)]
                        if ro(t) != ro(impl[i]):
                            findings.append((i, [oracles.Finding(0, 'results differ between runs (RAYON_NUM_THREADS=%s, repetition %d)' % (nt, r))]))
        # per-history analysis (reference semantics, structural oracles, model/implementation comparison) in
        # forked workers: the traces are inherited through the module-level _AN
        global _AN
        _AN = (prop, hs, impl, model)
        import multiprocessing
        with multiprocessing.get_context('fork').Pool(min(16, os.cpu_count() or 4)) as pool:
            for i, f, rel, drift in pool.imap(_analyse, range(len(hs)), chunksize=32):
                if f:
                    findings.append((i, f))
                if rel:
                    corr.append((i, rel))
                if drift:
                    drift_count += 1
                    drift_only.add(i) if not rel else None
        if spec.get('lockstep'):
            # implementation vs implementation across the three map types
            for i in range(0, len(hs) - 2):
                a = hs[i].split('\n', 1)
                if i + 2 < len(hs) and hs[i + 1].split('\n', 1)[1:] == a[1:] and hs[i + 2].split('\n', 1)[1:] == a[1:] \
                        and a[0].endswith(' max') and impl[i] and impl[i + 1] and impl[i + 2]:
                    # lines the reference does not predict (`?`: equality of collections with pending
                    # writes, which is intensional) are not part of the property
                    try:
                        pred = pyref.predict(pyref.parse_histories(hs[i])[0])
                    except Exception:
                        pred = []
                    skip = {k for k, pl in enumerate(pred) if '?' in pl}
                    ro = [[l for k, l in enumerate(x for x in impl[j]['lines'] if x[0] in 'RO') if k not in skip] for j in (i, i + 1, i + 2)]
                    for j in (1, 2):
                        if ro[j] != ro[0]:
                            k = next((x for x in range(min(len(ro[0]), len(ro[j]))) if ro[0][x] != ro[j][x]), 0)
                            findings.append((i + j, [oracles.Finding(0, 'update-map choice is observable: `%s` vs `%s`' % (
                                ro[0][k][:160] if k < len(ro[0]) else '<end>', ro[j][k][:160] if k < len(ro[j]) else '<end>'))]))
        twins = twin_findings(prop, hs, impl, prop)
        have = {i for i, _ in findings}
        for i, f in sorted(twins.items()):
            if i not in have:
                findings.append((i, [f]))
        findings.sort(key=lambda x: x[0])
        if kc_future is not None:
            try:
                kok, kbad, kout = kc_future.result()
                kc = dict(cases=kc_n, ok=kok, detail='' if kok else kout[-1200:], bad=[kc_idx[k] for k in kbad if k < len(kc_idx)])
                if not kok and not kbad:
                    # coqc failed without locating a disagreeing case (time-out, resource limit): not evaluated
                    kc['ok'] = None
                    notes.append('kernel-evaluated cases could not be evaluated: ' + kout[-300:])
            except Exception as e:
                kc = dict(cases=kc_n, ok=None, detail='not evaluated: %r' % (e,))
        if kc.get('ok') is False:
            # a disagreement on a history where the extracted model ALSO differs from the implementation, but only on
            # lines that are not this property's business (or are consequences), is the same irrelevant difference
            kc['bad'] = [i for i in kc['bad'] if i not in drift_only]
            if not kc['bad']:
                kc['ok'] = None
                notes.append('kernel-evaluated cases differ only where the extracted model differs irrelevantly (drift)')
            for i in kc['bad'][:3]:
                corr.append((i, {'obs': (0, 'the implementation trace of this history', 'differs from the model evaluated inside Coq (vm_compute): ' + kc['detail'][-400:])}))
    # ---------------- verdict
    reported = set()
    known_idx = set()
    # histories in the input class of a known finding: their model/implementation differences are that finding
    for i, t in enumerate(hs):
        if any(k.get('status') == 'known' and prop in k.get('properties', []) and k.get('predicate') and KNOWN_PREDICATES[k['predicate']](t)
               for k in load_known()):
            known_idx.add(i)
    for i, fl in findings[:200]:
        text = hs[i]
        msg = fl[0].msg
        k = known_match(prop, text, msg)
        if k:
            line = 'KNOWN-FINDING: property=%s %s' % (prop, k.get('what', msg))
            if line not in known_lines:
                known_lines.append(line)
            known_idx.add(i)
            continue
        if len(violations) >= 3:
            continue
        try:
            small = shrink(prop, text) if tier == 'quick' or len(violations) == 0 else text
        except Exception:
            small = text
        key = small
        if key in reported:
            continue
        reported.add(key)
        path = write_replay(prop, 'failing-input', small, dict(step=fl[0].op, oracle=msg, seed=seed, family=fam_of[i],
                                                               found_by='independent oracle on the implementation trace'))
        violations.append((path, ''))
    corr = [(i, rel) for i, rel in corr if i not in known_idx]
    if not violations:
        broken = None
        if not pr['ok']:
            broken = dict(theorem=pr.get('broken', 'props/%s.v' % prop), detail=pr['detail'][:1500])
        elif not okh:
            broken = dict(correspondence='the harness no longer builds against the repository', detail=outh[-1500:])
        elif not okm:
            broken = dict(correspondence='the model driver does not build', detail=outm[-1500:])
        elif corr:
            i, rel = corr[0]
            v, (n, a, b) = next(iter(rel.items()))
            broken = dict(correspondence='view %s, operation %d: implementation `%s` vs model `%s`' % (v, n, a[:300], b[:300]),
                          history_index=i)
        elif problems:
            broken = dict(correspondence='a run did not complete: %s' % (problems[0],))
        if broken:
            # directed search: more seeds on the property's families with the oracles
            found = None
            if okh and okm:
                for extra in range(1, 4 if tier == 'quick' else 8):
                    more = [t for _, t in make_histories(prop, 'quick', seed + 7919 * extra)]
                    im, _, _ = run_all(more, prop + '.x%d' % extra, want_model=False)
                    tw = twin_findings(prop, more, im, prop + '.x%d' % extra)
                    for j, t in enumerate(more):
                        if im[j] is None:
                            continue
                        f = pyref_findings(prop, t, im[j]) + oracle_findings(prop, t, im[j]) + ([tw[j]] if j in tw else [])
                        if f and not known_match(prop, t, f[0].msg):
                            found = (t, f[0])
                            break
                    if found:
                        break
            if found:
                small = shrink(prop, found[0])
                path = write_replay(prop, 'failing-input', small, dict(step=found[1].op, oracle=found[1].msg, seed=seed,
                                                                      found_by='directed search after a broken proof/correspondence', broken=broken))
                violations.append((path, ''))
            else:
                text = hs[broken['history_index']] if 'history_index' in broken else ''
                path = write_replay(prop, 'proof' if 'theorem' in broken else 'correspondence', text, dict(broken=broken, seed=seed))
                violations.append((path, ' no-failing-input-found'))
    # ---------------- evidence
    nontrivial = set()
    samples = []
    dist = {}
    for i, t in enumerate(hs):
        ops = [l for l in t.splitlines() if l and not l.startswith(('#', 'config'))]
        dist[fam_of[i]] = dist.get(fam_of[i], 0) + 1
        ok_trace = impl is not None and impl[i] is not None and not impl[i]['header'].endswith('unsupported')
        if ok_trace and spec['key'](ops):
            nontrivial.add(hashlib.sha256(t.encode()).hexdigest())
            if len(samples) < 3:
                samples.append(dict(family=fam_of[i], history=t.strip().split('\n')[:14]))
    cov = {}
    if model:
        for m in model:
            if m:
                for c in m['cov']:
                    _, tag, cnt = c.split()
                    cov[tag] = cov.get(tag, 0) + int(cnt)
    ev = dict(
        property_id=prop, tier=tier, seed=seed, level='proof',
        coverage=dict(
            obligations=max(pr.get('obligations', 0), 1) if pr['ok'] else max(pr.get('obligations', 0), 1),
            discharged=pr.get('discharged', 0) if pr['ok'] else 0,
            checker_cmd='make -C /verif/coq theories/props/%s.vo && coqc -Q theories MH theories/props/%s.v (Print Assumptions)%s' % (
                prop, prop, ' && coqchk -o MH.props.%s' % prop if tier == 'thorough' else ''),
            trusted_base=TRUSTED_BASE,
            theorems=pr.get('theorems', []),
            print_assumptions=sorted(set(pr.get('assumptions', []))),
            proof_files=pr.get('cone', []),
            evaluations=len(hs),
            distinct_nontrivial=len(nontrivial),
            rule='histories generated by tools/gen.py families %s (seed-derived, structured, adversarial value pools) plus corpus; '
                 'a history counts as non-trivial when the implementation produced a trace for it and it exercises the property\'s key operations; distinct by text' % spec['fams'],
            samples=samples,
            traces_validated_against_impl=sum(1 for i in range(len(hs)) if impl and impl[i] is not None and model and model[i] is not None),
            families=dist,
            model_branch_coverage=cov,
            correspondence_views=spec['views'],
            model_alignment=dict(align, note='function-level fingerprints of /repo/src against coq/SRCMAP.json (the source the hand-written '
                                            'model mirrors, function by function); `changed`/`removed`/`added` list what differs now; '
                                            'a difference is not a violation, it triples the histories of the quick tier'),
            history_boost=boost,
            kernel_evaluated_cases=kc.get('cases', 0) if okh and okm else 0,
            kernel_evaluated_agree=(kc.get('ok') if okh and okm else None),
            correspondence_differences=len(corr),
            drift_in_other_views=drift_count,
            oracle_findings=len(findings),
            known_findings=known_lines,
            histories_in_a_known_finding_class=len(known_idx),
            run_problems=[str(p)[:300] for p in problems[:5]],
        ),
        assumptions=['collision_free H / nonzero_hash H where a memoised hash is compared', 'element kinds satisfy ek_wf / ek_codec_on (proved for the concrete kinds)',
                     'update maps satisfy umap_lawful (proved for VecMap, BTreeMap, MaxMap)',
                     'the correspondence is bounded by the configurations and history lengths generated in this run'],
        wall_s=round(time.time() - t0, 1),
        violations=len(violations),
    )
    os.makedirs(OUT + '/evidence', exist_ok=True)
    json.dump(ev, open('%s/evidence/%s.json' % (OUT, prop), 'w'), indent=1)
    for l in known_lines:
        print(l)
    for path, suffix in violations:
        print('VIOLATION property=%s replay=%s%s' % (prop, path, suffix))
    log('%s %s: %d histories, %d findings, %d correspondence differences, %d drift, proofs %s, %.0fs' % (
        prop, tier, len(hs), len(findings), len(corr), drift_count, 'ok' if pr['ok'] else 'BROKEN', time.time() - t0))
    return 1 if violations else 0


def replay(path):
    r = json.load(open(path))
    text = r['config'] + '\n' + '\n'.join(r['history']) + '\n'
    okh, out = build_harness()
    okm, _ = build_model()
    impl, model, _ = run_all([text], 'replay')
    prop = r['property']
    print('replay of', path, '(%s)' % r.get('kind'))
    if impl[0] is None:
        print('harness produced no trace')
        return 1
    f = pyref_findings(prop, text, impl[0]) + oracle_findings(prop, text, impl[0]) + list(twin_findings(prop, [text], impl, 'replay').values())
    for x in f[:10]:
        print('  oracle: op %d: %s' % (x.op, x.msg))
    if model[0] is not None:
        d = tracecmp.compare(impl[0]['lines'], model[0]['lines'])
        for v, (n, a, b) in d.items():
            print('  model/impl differ in view %s at op %d:\n     impl : %s\n     model: %s' % (v, n, a[:300], b[:300]))
    print('violation reproduced' if f else 'no oracle finding on the current tree')
    return 1 if f else 0


def setup():
    ok, out = build_coq()
    print(out[-1500:])
    if not ok:
        return 1
    okm, outm = build_model()
    print(outm[-800:])
    okh, outh = build_harness()
    print(outh[-800:])
    return 0 if (okm and okh) else 1


def main():
    a = sys.argv[1:]
    if not a:
        print(__doc__)
        return 2
    if a[0] == 'setup':
        return setup()
    if a[0] == '--replay':
        return replay(a[1])
    prop = a[0]
    tier = os.environ.get('VERIF_TIER', 'quick')
    if '--tier' in a:
        tier = a[a.index('--tier') + 1]
    seed = int(os.environ.get('VERIF_SEED', '1'))
    try:
        return check(prop, tier, seed)
    finally:
        shutil.rmtree(WORK, ignore_errors=True)


if __name__ == '__main__':
    sys.exit(main())
