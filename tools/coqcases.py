#!/usr/bin/env python3
"""Kernel-evaluated correspondence: a sample of the histories a check has just run on the real crate is turned
into a Coq file (`cases.v`) that states, for each of them, "the model evaluated inside Coq (vm_compute, with the
Gallina SHA-256 of model/Sha256.v as the hash) prints exactly the `R` lines the implementation printed", and
`coqc` checks it. Neither the extraction plugin nor the OCaml driver is involved on this path: it validates the
extracted-model route (which carries the volume) and is itself a tie between the implementation and the very
terms the theorems are about.

  write_cases(histories, traces, path) -> number of cases written
  run_cases(path)                       -> (ok, [(case index, expected, actual)], raw output)
"""
import os, re, subprocess

COQ = '/verif/coq'

UINT = {'u8': 0, 'u16': 1, 'bu16': 1, 'u32': 2, 'u64': 3, 'u128': 4, 'u256': 5}


def ekind_term(kind):
    if kind in UINT:
        return '(ek_uint %d)' % UINT[kind]
    return {'h256': 'ek_h256', 'pair': '(ek_pair Hsha)', 'quad': '(ek_quad Hsha)', 'var': '(ek_var Hsha)', 'nl': '(ek_nl Hsha)'}.get(kind)


def map_term(mp):
    return {'max': ('(maxmap_impl (@vecmap_impl bytes))', 'true'), 'vec': ('(@vecmap_impl bytes)', 'true'),
            'bt': ('(@btmap_impl bytes)', 'false')}[mp]


def gbytes(h):
    if h == '.':
        return '[]'
    return '[' + ';'.join(str(b) for b in bytes.fromhex(h)) + ']'


def gvals(s):
    if s == '-':
        return '[]'
    return '[' + '; '.join(gbytes(v) for v in s.split(',')) + ']'


def reg(s):
    assert s[0] == 'h'
    return '%d%%nat' % int(s[1:])


def num(s):
    return '%d' % int(s)


def op_term(line):
    t = line.split()
    n, a = t[0], t[1:]
    R, V, I, VS, B = reg, gbytes, num, gvals, gbytes
    simple = {
        'new_list': ('ONewList', [R, VS]), 'new_vec': ('ONewVec', [R, VS]), 'list_slow': ('OListSlow', [R, VS]),
        'vec_iter': ('OVecIter', [R, VS]), 'empty': ('OEmpty', [R]), 'repeat': ('ORepeat', [R, V, I]),
        'repeat_slow': ('ORepeatSlow', [R, V, I]), 'from_elem': ('OFromElem', [R, V]), 'default_vec': ('ODefaultVec', [R]),
        'ssz_list': ('OSszList', [R, B]), 'ssz_vec': ('OSszVec', [R, B]), 'serde_list': ('OSerdeList', [R, VS]),
        'serde_vec': ('OSerdeVec', [R, VS]), 'get': ('OGet', [R, I]), 'len': ('OLen', [R]), 'iter_from': ('OIterFrom', [R, I]),
        'level_iter': ('OLevelIter', [R, I]), 'eq': ('OEq', [R, R]), 'ssz_enc': ('OSszEnc', [R]), 'serde_ser': ('OSerdeSer', [R]),
        'set': ('OSet', [R, I, V]), 'touch': ('OTouch', [R, I]), 'cow_read': ('OCowRead', [R, I]),
        'cow_into': ('OCowInto', [R, I, V]), 'cow_make': ('OCowMake', [R, I, V]), 'cow_make2': ('OCowMake2', [R, I, V, V]),
        'push': ('OPush', [R, V]), 'apply': ('OApply', [R]), 'pop_front': ('OPopFront', [R, I]),
        'pop_front_slow': ('OPopFrontSlow', [R, I]), 'clone': ('OClone', [R, R]), 'to_vector': ('OToVector', [R, R]),
        'to_list': ('OToList', [R, R]), 'rebase_on': ('ORebaseOn', [R, R]), 'rebase': ('ORebase', [R, R, R]),
        'intra': ('OIntra', [R]), 'hash': ('OHash', [R]), 'drop': ('ODrop', [R]), 'b_new': ('OBNew', [I, I]),
        'b_push': ('OBPush', [V]), 'par_hash': ('OParHash', [R, I]), 'par_mix': ('OParMix', [R, VS]),
    }
    if n in simple:
        c, fs = simple[n]
        assert len(fs) == len(a), line
        return '(%s %s)' % (c, ' '.join(f(x) for f, x in zip(fs, a))) if fs else c
    if n == 'b_finish':
        return 'OBFinish'
    if n == 'b_push_node':
        p = '[]' if a[1] == '.' else '[' + ';'.join('true' if c == 'R' else 'false' for c in a[1]) + ']'
        return '(OBPushNode %s %s)' % (reg(a[0]), p)
    if n == 'iter_cow':
        items = '[]' if a[1] == '-' else '[' + '; '.join('None' if x == '_' else '(Some %s)' % gbytes(x) for x in a[1].split(',')) + ']'
        return '(OIterCow %s %s)' % (reg(a[0]), items)
    if n == 'bulk':
        ps = '[]' if a[1] == '-' else '[' + '; '.join('(%d, %s)' % (int(x.split(':')[0]), gbytes(x.split(':')[1])) for x in a[1].split(',')) + ']'
        return '(OBulk %s %s)' % (reg(a[0]), ps)
    raise ValueError('no Gallina form for `%s`' % line)


def eligible(text, trace, max_ops=18, max_chars=6000, max_n=1024):
    lines = text.strip().split('\n')
    cfg = lines[0].split()
    ops = [l for l in lines[1:] if l and not l.startswith('#')]
    if len(cfg) != 4 or ekind_term(cfg[1]) is None or int(cfg[2]) > max_n or cfg[3] not in ('max', 'vec', 'bt'):
        return None
    if not ops or len(ops) > max_ops or len(text) > max_chars or any(o.startswith('fault') for o in ops):
        return None
    if trace is None or trace['header'].endswith('unsupported'):
        return None
    rs = [l for l in trace['lines'] if l.startswith('R ')]
    if any(l.split(' ', 2)[2] in ('abort', 'timeout', 'fault') for l in rs):
        return None
    exp = []
    for l in rs:
        p = l.split(' ', 2)[2]
        p = re.sub(r'\|f=\d:\d+$', '', p)       # the static SSZ flags are printed by the drivers, not by `pres`
        exp.append(p)
    if any(re.search(r'[^ -~]|"', p) for p in exp):
        return None
    if len(exp) != len(ops) and not (exp and exp[-1] == 'panic'):
        return None
    return cfg, ops, exp


def write_cases(texts, traces, path, limit=40, relevant=lambda opname: True):
    out = ['From MH Require Import Cases.', 'From Coq Require Import String.', 'Import ListNotations.',
           'Local Open Scope N_scope.', 'Local Open Scope string_scope.', '']
    names = []
    index = []
    for i, (t, tr) in enumerate(zip(texts, traces)):
        if len(names) >= limit:
            break
        e = eligible(t, tr)
        if e is None:
            continue
        cfg, ops, exp = e
        try:
            terms = [op_term(o) for o in ops]
        except (ValueError, AssertionError):
            continue
        mt, vb = map_term(cfg[3])
        # answers to operations that are not this property's business are not compared (wildcard `_`)
        exp = [p if relevant(o.split()[0]) else '_' for p, o in zip(exp, ops)] + exp[len(ops):]
        if all(p == '_' for p in exp):
            continue
        k = len(names)
        out.append('Definition ops%d : list (@op bytes) := [%s].' % (k, ';\n  '.join(terms)))
        out.append('Definition act%d : list string := run_case %s %s Hsha %d %s ops%d.' % (k, ekind_term(cfg[1]), mt, int(cfg[2]), vb, k))
        out.append('Definition exp%d : list string := [%s].' % (k, '; '.join('"%s"' % p for p in exp)))
        names.append(k)
        index.append(i)
    if not names:
        return 0, []
    out.append('')
    out.append('Fixpoint same (a b : list string) : bool :=')
    out.append('  match a, b with [], [] => true | x :: a\', y :: b\' => (String.eqb y "_" || String.eqb x y) && same a\' b\' | _, _ => false end.')
    out.append('Definition verdicts : list bool := [%s].' % '; '.join('same act%d exp%d' % (k, k) for k in names))
    out.append('(* the statement: on every one of these histories the model, evaluated by the kernel, answers what the implementation printed *)')
    out.append('Theorem kernel_cases_agree : forallb (fun b => b) verdicts = true.')
    out.append('Proof. vm_compute. reflexivity. Qed.')
    open(path, 'w').write('\n'.join(out) + '\n')
    # a second file that only locates the disagreements (evaluated when the theorem above fails)
    loc = out[:-3]
    loc.append('Eval vm_compute in verdicts.')
    for k in names:
        loc.append('Eval vm_compute in (if same act%d exp%d then [] else "CASE %d" :: act%d).' % (k, k, k, k))
    open(path.replace('.v', '_locate.v'), 'w').write('\n'.join(loc) + '\n')
    return len(names), index


def run_cases(path, timeout=900):
    d, f = os.path.dirname(path), os.path.basename(path)
    cmd = 'ulimit -v 16000000; timeout %d coqc -q -Q %s/theories MH -Q %s KC %s' % (timeout, COQ, d, f)
    r = subprocess.run(['bash', '-c', cmd], cwd=d, stdout=subprocess.PIPE, stderr=subprocess.STDOUT, text=True, timeout=timeout + 60)
    if r.returncode == 0:
        return True, [], r.stdout
    r2 = subprocess.run(['bash', '-c', cmd.replace(f, f.replace('.v', '_locate.v'))], cwd=d, stdout=subprocess.PIPE,
                        stderr=subprocess.STDOUT, text=True, timeout=timeout + 60)
    bad = [int(m) for m in re.findall(r'"CASE (\d+)"', r2.stdout)]
    return False, bad, r.stdout[-1500:] + '\n' + r2.stdout[-3000:]
