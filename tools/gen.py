#!/usr/bin/env python3
"""History generators (docs/FORMAT.md). Every random choice derives from one random.Random(seed).

A generator keeps a light abstract state per register (kind, values, pending flag, backing length) so
that most generated operations are valid, and deliberately mixes in a controlled share of invalid
ones. Values are drawn from small adversarial pools (zero, one, max, repeats) so that zero-valued
tails, duplicates and equal-hash subtrees are the norm rather than measure zero.
"""
import random

SIZES = {'u8': 1, 'u16': 2, 'u32': 4, 'u64': 8, 'u128': 16, 'u256': 32, 'h256': 32, 'pair': 16, 'quad': 32, 'var': None, 'nl': None, 'fu64': 8, 'bu16': 2}
PF = {'u8': 32, 'u16': 16, 'u32': 8, 'u64': 4, 'u128': 2, 'u256': 1, 'fu64': 4, 'bu16': 16}
USIZE_MAX = 2 ** 64 - 1
SMALL_NS = [1, 2, 3, 4, 5, 7, 8, 9, 16, 17, 32, 33, 64]
ALL_NS = SMALL_NS + [1024, 2 ** 40]
DEEP_NS = [2 ** 48, 2 ** 49, 2 ** 63]
KINDS = [k for k in SIZES if k not in ('fu64', 'quad', 'bu16')]      # quad: see extra_kind()      # fu64 (fault injection) is used by the `fault` family only
MAPS = ['max', 'vec', 'bt']


def pool(kind):
    s = SIZES[kind]
    if kind == 'var':
        return ['.', '00', '01', 'ff', '0000', '00000000', '01020304', 'aabb', '000001']
    if kind == 'nl':
        u = lambda *xs: ''.join(int(x).to_bytes(8, 'little').hex() for x in xs)
        return ['.', u(0), u(1), u(0, 0, 0, 0), u(1, 2, 3, 4, 5), u(*range(64)), u(*([7] * 9)), u(*([0] * 8)), u(2 ** 64 - 1, 0)]
    z = '00' * s
    one = '01' + '00' * (s - 1)
    mx = 'ff' * s
    hi = '00' * (s - 1) + '80'
    a = ''.join('%02x' % ((7 * i + 3) % 256) for i in range(s))
    b = ''.join('%02x' % ((13 * i + 1) % 256) for i in range(s))
    return [z, z, one, mx, hi, a, b, one]


def ceil_log2(n):
    d = 0
    while (1 << d) < n:
        d += 1
    return d


class Cfg:
    def __init__(self, kind, n, mp):
        self.kind, self.n, self.map = kind, n, mp
        self.pf = PF.get(kind)
        self.pd = ceil_log2(self.pf) if self.pf else 0
        self.depth = max(ceil_log2(n) - self.pd, 0)
        self.cap = 1 << (self.depth + self.pd)

    def line(self):
        return 'config %s %d %s' % (self.kind, self.n, self.map)

    def key(self):
        return (self.kind, self.n, self.map)


def vals_str(vs):
    return ','.join(vs) if vs else '-'


def serialize(kind, vs):
    """SSZ bytes (hex) of a list of element hex strings (for decode scenarios)."""
    if SIZES[kind] is not None:
        out = ''.join(vs)
    else:
        bs = [('' if v == '.' else v) for v in vs]
        off = 4 * len(bs)
        table = ''
        for b in bs:
            table += off.to_bytes(4, 'little').hex()
            off += len(b) // 2
        out = table + ''.join(bs)
    return out if out else '.'


class H:
    """One history under construction."""

    def __init__(self, cfg, rng, family):
        self.cfg, self.rng, self.family = cfg, rng, family
        self.ops = []
        self.regs = {}
        self.pool = pool(cfg.kind)

    # ----- value helpers -----
    def val(self, near=None):
        r = self.rng
        if near and r.random() < 0.3:
            return r.choice(near)
        return r.choice(self.pool)

    def vals(self, n, style=None):
        r = self.rng
        style = style or r.choice(['mixed', 'zeros', 'same', 'blocks', 'zero_tail', 'mixed'])
        if style == 'zeros':
            return [self.pool[0]] * n
        if style == 'same':
            return [r.choice(self.pool)] * n
        if style == 'blocks':
            blk = [r.choice(self.pool) for _ in range(r.choice([1, 2, 4, max(1, (self.cfg.pf or 1))]))]
            return [blk[i % len(blk)] for i in range(n)]
        if style == 'zero_tail':
            k = r.randint(0, n)
            return [r.choice(self.pool) for _ in range(k)] + [self.pool[0]] * (n - k)
        return [r.choice(self.pool) for _ in range(n)]

    def maxlen(self, cap=40):
        if self.cfg.kind == 'nl':
            cap = min(cap, 12)       # values are up to 512 bytes each: keep the traces small
        return min(self.cfg.n, cap)

    # ----- emitters that also track the abstract state -----
    def emit(self, s):
        self.ops.append(s)

    def new_list(self, d, vs, slow=False):
        self.emit('%s h%d %s' % ('list_slow' if slow else 'new_list', d, vals_str(vs)))
        if len(vs) <= self.cfg.n:
            self.regs[d] = dict(k='L', v=list(vs), p=False, b=len(vs))

    def new_vec(self, d, vs, it=False):
        self.emit('%s h%d %s' % ('vec_iter' if it else 'new_vec', d, vals_str(vs)))
        if len(vs) == self.cfg.n:
            self.regs[d] = dict(k='V', v=list(vs), p=False, b=len(vs))

    def fresh_like(self, a, d):
        """A freshly built, unrelated collection with the same contents as register a."""
        st = self.regs[a]
        if st['k'] == 'L':
            how = self.rng.choice(['new', 'ssz', 'slow'])
            if how == 'ssz':
                self.emit('ssz_list h%d %s' % (d, serialize(self.cfg.kind, st['v'])))
                self.regs[d] = dict(k='L', v=list(st['v']), p=False, b=len(st['v']))
            else:
                self.new_list(d, st['v'], slow=(how == 'slow' and len(st['v']) <= 64))
        else:
            how = self.rng.choice(['new', 'ssz'])
            if how == 'ssz' and st['v']:
                self.emit('ssz_vec h%d %s' % (d, serialize(self.cfg.kind, st['v'])))
                self.regs[d] = dict(k='V', v=list(st['v']), p=False, b=len(st['v']))
            else:
                self.new_vec(d, st['v'])

    def check_fresh(self, a, scratch=7):
        """Compare register a (if clean) with a fresh build of the same contents; hash both."""
        st = self.regs.get(a)
        if not st:
            return
        if st['p']:
            return
        self.fresh_like(a, scratch)
        self.emit('eq h%d h%d' % (a, scratch))
        self.emit('hash h%d' % a)
        self.emit('hash h%d' % scratch)
        self.emit('drop h%d' % scratch)
        self.regs.pop(scratch, None)

    def apply(self, a):
        self.emit('apply h%d' % a)
        st = self.regs[a]
        st['p'] = False
        st['b'] = len(st['v'])

    def hash(self, a):
        self.emit('hash h%d' % a)

    def write(self, a, i=None, v=None, how=None):
        st = self.regs[a]
        n = len(st['v'])
        r = self.rng
        if i is None:
            i = r.randrange(n) if n and r.random() < 0.92 else n + r.randint(0, 1)
        v = v or self.val(st['v'])
        how = how or r.choice(['set', 'set', 'cow_into', 'cow_make', 'cow_make2', 'touch'])
        if how == 'cow_make2':
            w = self.val(st['v'])
            self.emit('cow_make2 h%d %d %s %s' % (a, i, v, w))
            v = w
        elif how == 'touch':
            self.emit('touch h%d %d' % (a, i))
            v = st['v'][i] if i < n else None
        else:
            self.emit('%s h%d %d %s' % (how, a, i, v))
        if i < n:
            st['v'][i] = v
            st['p'] = True

    def push(self, a, v=None):
        st = self.regs[a]
        v = v or self.val(st['v'])
        self.emit('push h%d %s' % (a, v))
        if st['k'] == 'L' and len(st['v']) < self.cfg.n:
            st['v'].append(v)
            st['p'] = True

    def pop_front(self, a, n=None, slow=False):
        st = self.regs[a]
        ln = len(st['v'])
        if n is None:
            n = self.rng.randint(0, ln) if self.rng.random() < 0.9 else ln + 1
        self.emit('%s h%d %d' % ('pop_front_slow' if slow else 'pop_front', a, n))
        if st['k'] != 'L':
            return
        if slow:
            if n <= ln:
                st['v'] = st['v'][n:]
                st['p'] = False
                st['b'] = len(st['v'])
        else:
            st['p'] = False
            st['b'] = ln
            if n <= ln:
                st['v'] = st['v'][n:]
                st['b'] = len(st['v'])

    def clone(self, a, b):
        self.emit('clone h%d h%d' % (a, b))
        st = self.regs[a]
        self.regs[b] = dict(k=st['k'], v=list(st['v']), p=st['p'], b=st['b'])

    def convert(self, a, b):
        st = self.regs[a]
        if st['k'] == 'L':
            self.emit('to_vector h%d h%d' % (a, b))
            if len(st['v']) == self.cfg.n:
                p = st['p'] if st['b'] == self.cfg.n else False
                self.regs[b] = dict(k='V', v=list(st['v']), p=p, b=self.cfg.n)
        else:
            self.emit('to_list h%d h%d' % (a, b))
            self.regs[b] = dict(k='L', v=list(st['v']), p=st['p'], b=self.cfg.n)

    def rebase_on(self, a, b):
        self.emit('rebase_on h%d h%d' % (a, b))

    def intra(self, a):
        self.emit('intra h%d' % a)
        st = self.regs[a]
        st['p'] = False
        st['b'] = len(st['v'])

    def reads(self, a):
        st = self.regs[a]
        n = len(st['v'])
        r = self.rng
        c = r.random()
        if c < 0.3:
            self.emit('iter_from h%d %d' % (a, r.randint(0, n + 1)))
        elif c < 0.45 and st['k'] == 'L':
            self.emit('level_iter h%d %d' % (a, r.randint(0, n + 1)))
        elif c < 0.6:
            self.emit('get h%d %d' % (a, r.choice([0, n, n + 1, USIZE_MAX, r.randint(0, n + 1)])))
        elif c < 0.7:
            self.emit('ssz_enc h%d' % a)
        elif c < 0.8:
            self.emit('serde_ser h%d' % a)
        elif c < 0.9:
            self.emit('cow_read h%d %d' % (a, r.randint(0, n + 1)))
        else:
            self.emit('len h%d' % a)

    def text(self):
        return self.cfg.line() + '\n' + '\n'.join(self.ops) + '\n'


# ======================================================================================
# families
# ======================================================================================

def start(h, d=0, kind=None, n=None):
    """Create a collection in register d."""
    cfg, r = h.cfg, h.rng
    kind = kind or r.choice(['L', 'L', 'L', 'V'])
    if kind == 'V' and cfg.n > 64:
        kind = 'L'
    if kind == 'V':
        vs = h.vals(cfg.n)
        c = r.random()
        if c < 0.6:
            h.new_vec(d, vs, it=r.random() < 0.3)
        elif c < 0.8:
            v = h.val()
            h.emit('from_elem h%d %s' % (d, v))
            h.regs[d] = dict(k='V', v=[v] * cfg.n, p=False, b=cfg.n)
        else:
            h.emit('default_vec h%d' % d)
            dz = '.' if cfg.kind in ('var', 'nl') else '00' * SIZES[cfg.kind]
            h.regs[d] = dict(k='V', v=[dz] * cfg.n, p=False, b=cfg.n)
        return
    if n is None:
        n = r.choice([0, 1, h.maxlen() // 2, h.maxlen(), r.randint(0, h.maxlen()), r.randint(0, h.maxlen())])
    c = r.random()
    if c < 0.55:
        h.new_list(d, h.vals(n), slow=r.random() < 0.25)
    elif c < 0.75:
        v = h.val()
        h.emit('%s h%d %s %d' % (r.choice(['repeat', 'repeat', 'repeat_slow']), d, v, n))
        h.regs[d] = dict(k='L', v=[v] * n, p=False, b=n)
    elif c < 0.9:
        vs = h.vals(n)
        h.emit('ssz_list h%d %s' % (d, serialize(cfg.kind, vs)))
        h.regs[d] = dict(k='L', v=vs, p=False, b=n)
    else:
        h.emit('empty h%d' % d)
        h.regs[d] = dict(k='L', v=[], p=False, b=0)


def mutate(h, a, steps):
    r = h.rng
    for _ in range(steps):
        st = h.regs.get(a)
        if not st:
            return
        c = r.random()
        if c < 0.35:
            h.write(a)
        elif c < 0.55 and st['k'] == 'L':
            h.push(a)
        elif c < 0.65:
            h.apply(a)
        elif c < 0.75:
            if not st['p']:
                h.hash(a)
            else:
                h.reads(a)
        elif c < 0.80 and st['k'] == 'L':
            h.pop_front(a, slow=r.random() < 0.2)
        elif c < 0.85:
            items = []
            for j in range(r.randint(0, len(st['v']) + 1)):
                if r.random() < 0.4:
                    v = h.val(st['v'])
                    items.append(v)
                    if j < len(st['v']):
                        st['v'][j] = v
                        st['p'] = True
                else:
                    items.append('_')
            h.emit('iter_cow h%d %s' % (a, ','.join(items) if items else '-'))
        else:
            h.reads(a)


def fam_crud(cfg, rng):
    h = H(cfg, rng, 'crud')
    start(h, 0)
    mutate(h, 0, rng.randint(4, 14))
    if 0 in h.regs:
        if rng.random() < 0.7:
            h.apply(0)
            h.check_fresh(0)
    return h


def fam_versions(cfg, rng):
    h = H(cfg, rng, 'versions')
    start(h, 0)
    live = [0]
    for step in range(rng.randint(5, 14)):
        a = rng.choice(live)
        if a not in h.regs:
            continue
        c = rng.random()
        if c < 0.2 and len(live) < 4:
            b = len(live)
            h.clone(a, b)
            live.append(b)
        elif c < 0.3 and len(live) < 4:
            b = len(live)
            h.convert(a, b)
            if b in h.regs:
                live.append(b)
        elif c < 0.4 and len(live) < 4:
            b = len(live)
            h.fresh_like(a, b)
            if b in h.regs:
                live.append(b)
        elif c < 0.5 and len(live) > 1:
            b = rng.choice([x for x in live if x != a])
            if b in h.regs and h.regs[b]['k'] == h.regs[a]['k']:
                h.rebase_on(a, b)
        elif c < 0.55:
            h.intra(a)
        else:
            mutate(h, a, rng.randint(1, 3))
    for a in live:
        if a in h.regs and not h.regs[a]['p']:
            h.hash(a)
    for a in live:
        if a in h.regs and rng.random() < 0.5:
            h.apply(a)
            h.check_fresh(a)
    return h


def fam_hash_placement(cfg, rng):
    """A write history with root requests inserted at random positions on every handle."""
    h = H(cfg, rng, 'hash_placement')
    start(h, 0)
    if 0 not in h.regs:
        return h
    if rng.random() < 0.7:
        h.hash(0)
    h.clone(0, 1)
    for step in range(rng.randint(3, 8)):
        a = rng.choice([0, 1])
        st = h.regs[a]
        c = rng.random()
        if c < 0.45:
            h.write(a, how=rng.choice(['set', 'cow_into', 'cow_make']))
        elif c < 0.7 and st['k'] == 'L':
            h.push(a)
        else:
            h.apply(a)
        for b in (0, 1):
            if rng.random() < 0.4 and not h.regs[b]['p']:
                h.hash(b)
        if rng.random() < 0.3:
            h.apply(a)
            h.hash(a)
    for a in (0, 1):
        h.apply(a)
        h.check_fresh(a)
    return h


def fam_rebase_pairs(cfg, rng):
    c0 = rng.random()
    if c0 < 0.3:
        return fam_rebase_adv(cfg, rng)
    if c0 < 0.5:
        return fam_rebase_memo(cfg, rng)
    h = H(cfg, rng, 'rebase_pairs')
    kind = rng.choice(['L', 'L', 'V']) if cfg.n <= 64 else 'L'
    n = cfg.n if kind == 'V' else rng.choice([h.maxlen(), h.maxlen() // 2, rng.randint(0, h.maxlen()), rng.randint(1, max(1, h.maxlen()))])
    base = h.vals(n)
    rel = rng.choice(['equal', 'diff1', 'diffk', 'prefix', 'extend_zero', 'extend_zero', 'extend_zero', 'extend', 'unrelated', 'zero_pending'])
    zero_pending = 0
    if rel == 'zero_pending':
        # the shorter side reaches the longer side's length through pending pushes of zero values,
        # made after hashing: equal len(), equal hashes of the backing trees, different backing lengths
        rel = 'extend_zero'
        zero_pending = 1
    orig = list(base)
    if rel == 'diff1' and n:
        orig[rng.randrange(n)] = h.val()
    elif rel == 'diffk' and n:
        for _ in range(rng.randint(1, 4)):
            orig[rng.randrange(n)] = h.val()
    elif rel == 'prefix' and kind == 'L':
        orig = orig[:rng.randint(0, n)]
    elif rel == 'extend_zero' and kind == 'L':
        orig = orig + [h.pool[0]] * rng.randint(0, max(0, min(cfg.n, 40) - n))
    elif rel == 'extend' and kind == 'L':
        orig = orig + h.vals(rng.randint(0, max(0, min(cfg.n, 40) - n)))
    elif rel == 'unrelated':
        orig = h.vals(len(orig))
    if rng.random() < 0.5:
        orig, base = base, orig

    def build(d, vs):
        if kind == 'L':
            c = rng.random()
            if c < 0.5:
                h.new_list(d, vs)
            elif c < 0.8:
                h.emit('ssz_list h%d %s' % (d, serialize(cfg.kind, vs)))
                h.regs[d] = dict(k='L', v=list(vs), p=False, b=len(vs))
            else:
                # reach the contents through pending pushes
                k = rng.randint(0, len(vs))
                h.new_list(d, vs[:k])
                for v in vs[k:]:
                    h.push(d, v)
                if rng.random() < 0.5:
                    h.apply(d)
        else:
            c = rng.random()
            if c < 0.6 or len(vs) != cfg.n:
                h.new_vec(d, vs)
            elif c < 0.8:
                h.emit('ssz_vec h%d %s' % (d, serialize(cfg.kind, vs)))
                h.regs[d] = dict(k='V', v=list(vs), p=False, b=len(vs))
            else:
                # vector from a list with pending pushes (F5 scenario)
                k = rng.randint(0, len(vs))
                h.new_list(d + 4, vs[:k])
                for v in vs[k:]:
                    h.push(d + 4, v)
                h.convert(d + 4, d)
                h.emit('drop h%d' % (d + 4))
                h.regs.pop(d + 4, None)

    build(0, orig)
    build(1, base)
    if 0 not in h.regs or 1 not in h.regs:
        return h
    # memo states
    adversarial = rel in ('extend_zero', 'prefix', 'equal')
    for d in (0, 1):
        if not h.regs[d]['p'] and rng.random() < (0.85 if adversarial else 0.6):
            h.hash(d)
    if zero_pending and kind == 'L':
        short, long_ = (0, 1) if len(h.regs[0]['v']) <= len(h.regs[1]['v']) else (1, 0)
        while len(h.regs[short]['v']) < len(h.regs[long_]['v']) and len(h.regs[short]['v']) < cfg.n:
            h.push(short, h.pool[0])
    elif rng.random() < 0.2 and kind == 'L':
        d = rng.choice((0, 1))
        for _ in range(rng.randint(1, 3)):
            if len(h.regs[d]['v']) < cfg.n:
                h.push(d, h.pool[0] if rng.random() < 0.6 else None)
    # partial memo state: write after hashing
    for d in (0, 1):
        if rng.random() < 0.25 and h.regs[d]['v']:
            i = rng.randrange(len(h.regs[d]['v']))
            h.write(d, i=i, v=h.regs[d]['v'][i], how='set')   # same value: contents unchanged
            if rng.random() < 0.6:
                h.apply(d)
    # pending writes on either side
    for d in (0, 1):
        if rng.random() < 0.2 and h.regs[d]['v']:
            h.write(d, how='set')
    c = rng.random()
    if c < 0.7:
        h.rebase_on(0, 1)
    else:
        h.emit('rebase h0 h1 h2')
        st = h.regs[0]
        h.regs[2] = dict(k=st['k'], v=list(st['v']), p=st['p'], b=st['b'])
    # continuations
    targets = [0] if c < 0.7 else [2, 0]
    for t in targets:
        if h.regs[t]['p'] and rng.random() < 0.7:
            h.apply(t)
        if not h.regs[t]['p']:
            h.hash(t)
            h.check_fresh(t)
    if not h.regs[1]['p']:
        h.hash(1)
    t = targets[0]
    k = rng.random()
    if k < 0.3 and h.regs[t]['k'] == 'L':
        h.pop_front(t)
        h.check_fresh(t)
    elif k < 0.5:
        mutate(h, t, 3)
        h.apply(t)
        h.check_fresh(t)
    elif k < 0.65:
        h.intra(t)
        h.check_fresh(t)
    elif k < 0.8:
        h.rebase_on(1, t) if h.regs[1]['k'] == h.regs[t]['k'] else None
        h.apply(1)
        h.check_fresh(1)
    return h


def fam_rebase_adv(cfg, rng):
    """The adversarial core of rebasing, at full rate: two independently built lists one of which is the other
    followed by all-zero values (equal hashes of the common subtrees, different lengths), both fully hashed,
    optionally with the shorter side brought to the same len() by *pending* pushes of zeros; then rebase in
    either direction and look at everything."""
    h = H(cfg, rng, 'rebase_pairs')
    mx = h.maxlen(40)
    if mx < 1:
        return fam_rebase_pairs(cfg, rng)
    n = rng.randint(0, mx - 1)
    k = rng.choice([1, 1, 2, rng.randint(1, mx - n), rng.randint(1, mx - n), mx - n])
    k = max(1, min(k, mx - n))
    short = h.vals(n, rng.choice(['mixed', 'mixed', 'zero_tail', 'same']))
    long_ = short + [h.pool[0]] * k
    o, b = (0, 1) if rng.random() < 0.5 else (1, 0)       # register of the long / short list

    def build(d, vs):
        if rng.random() < 0.5:
            h.new_list(d, vs, slow=rng.random() < 0.1)
        else:
            h.emit('ssz_list h%d %s' % (d, serialize(cfg.kind, vs)))
            h.regs[d] = dict(k='L', v=list(vs), p=False, b=len(vs))
    build(o, long_)
    build(b, short)
    if o not in h.regs or b not in h.regs:
        return h
    c = rng.random()
    if c < 0.85:
        h.hash(0)
        h.hash(1)
    elif c < 0.93:
        h.hash(rng.choice((0, 1)))
    mode = rng.choice(['plain', 'plain', 'pending_zero', 'pending_zero', 'pending_part', 'overwrite_same'])
    if mode == 'pending_zero':
        for _ in range(k):
            h.push(b, h.pool[0])
    elif mode == 'pending_part':
        for _ in range(rng.randint(1, k)):
            h.push(b, h.pool[0] if rng.random() < 0.8 else None)
    elif mode == 'overwrite_same' and n:
        i = rng.randrange(n)
        h.write(rng.choice((o, b)), i=i, v=short[i], how='set')
    first = rng.choice((0, 1))
    h.rebase_on(first, 1 - first)
    for t in (first, 1 - first):
        h.emit('iter_from h%d 0' % t)
    if rng.random() < 0.5:
        h.rebase_on(1 - first, first)
    for t in (0, 1):
        if h.regs[t]['p']:
            h.apply(t)
        h.hash(t)
        h.check_fresh(t)
    t = rng.choice((0, 1))
    c = rng.random()
    if c < 0.35:
        h.pop_front(t)
        h.check_fresh(t)
    elif c < 0.6:
        h.push(t) if len(h.regs[t]['v']) < cfg.n else h.write(t)
        h.apply(t)
        h.check_fresh(t)
    elif c < 0.8:
        h.intra(t)
        h.check_fresh(t)
    return h


def fam_rebase_memo(cfg, rng):
    """Rebase between PARTIALLY memoised trees: both sides built independently (no shared nodes), each hashed or
    not, then dirtied on some paths by writes that are flushed but not re-hashed; contents equal in some subtrees
    and different in others. Every memo that a rebase copies, keeps or carries over must still be the true hash,
    on both handles and on their clones (the epilogue requests every root; the memo oracle audits every node)."""
    h = H(cfg, rng, 'rebase_pairs')
    kind = rng.choice(['L', 'L', 'V']) if cfg.n <= 64 else 'L'
    mx = h.maxlen(40)
    n = cfg.n if kind == 'V' else rng.choice([mx, mx, rng.randint(1, max(1, mx)), rng.randint(max(1, mx // 2), max(1, mx))])
    if n < 1:
        return fam_rebase_pairs(cfg, rng)
    a = h.vals(n)
    b = list(a)
    # differences confined to one region, so that whole subtrees stay equal
    lo = rng.randrange(n)
    hi = min(n, lo + rng.choice([1, 1, 2, 4, max(1, n // 2)]))
    for i in range(lo, hi):
        if rng.random() < 0.7:
            b[i] = h.val()
    for d, vs in ((0, a), (1, b)):
        if kind == 'L':
            if rng.random() < 0.5:
                h.new_list(d, vs)
            else:
                h.emit('ssz_list h%d %s' % (d, serialize(cfg.kind, vs)))
                h.regs[d] = dict(k='L', v=list(vs), p=False, b=len(vs))
        else:
            h.new_vec(d, vs)
    if 0 not in h.regs or 1 not in h.regs:
        return h
    if rng.random() < 0.3:
        h.clone(1, 2)                     # a relative of the base that must stay intact
    for d in (0, 1):
        c = rng.random()
        if c < 0.6:
            h.hash(d)
            if rng.random() < 0.75:
                # dirty some paths: rewrite a few elements (same or new values), flush, do not re-hash
                for _ in range(rng.randint(1, 3)):
                    i = rng.randrange(len(h.regs[d]['v']))
                    v = h.regs[d]['v'][i] if rng.random() < 0.6 else h.val()
                    h.write(d, i=i, v=v, how='set')
                h.apply(d)
    first = rng.choice((0, 0, 1))
    if rng.random() < 0.75:
        h.rebase_on(first, 1 - first)
    else:
        h.emit('rebase h%d h%d h3' % (first, 1 - first))
        st = h.regs[first]
        h.regs[3] = dict(k=st['k'], v=list(st['v']), p=st['p'], b=st['b'])
    if rng.random() < 0.3:
        h.rebase_on(1 - first, first)
    if rng.random() < 0.3:
        h.intra(rng.choice((0, 1)))
    return h


def fam_intra(cfg, rng):
    h = H(cfg, rng, 'intra')
    kind = rng.choice(['L', 'L', 'V']) if cfg.n <= 64 else 'L'
    n = cfg.n if kind == 'V' else rng.randint(0, h.maxlen(64))
    style = rng.choice(['blocks', 'zero_tail', 'zeros', 'same', 'mixed', 'blocks'])
    vs = h.vals(n, style)
    if kind == 'L':
        h.new_list(0, vs)
    else:
        h.new_vec(0, vs)
    if 0 not in h.regs:
        return h
    c = rng.random()
    if c < 0.3:
        h.hash(0)
    elif c < 0.5:
        # hashed then rebased on an unhashed copy (memos only partially present afterwards)
        h.hash(0)
        vs2 = list(vs)
        if vs2:
            vs2[rng.randrange(len(vs2))] = h.val()
        if kind == 'L':
            h.emit('ssz_list h1 %s' % serialize(cfg.kind, vs2))
            h.regs[1] = dict(k='L', v=vs2, p=False, b=len(vs2))
        else:
            h.new_vec(1, vs2)
        if 1 in h.regs:
            h.rebase_on(0, 1)
    elif c < 0.65:
        h.write(0)
    h.intra(0)
    h.check_fresh(0)
    k = rng.random()
    if k < 0.4 and kind == 'L':
        h.pop_front(0)
        h.check_fresh(0)
    elif k < 0.7:
        mutate(h, 0, 3)
        h.apply(0)
        h.check_fresh(0)
    else:
        h.intra(0)
        h.hash(0)
    return h


def fam_eq_stable(cfg, rng):
    """C04: the equality observed between two handles does not change while neither of them shows anything different,
    whatever content-preserving operation (root request, rebase, self-deduplication, no-op flush, clone/drop, front
    removal on a third handle) is applied to one of them or to a relative in between."""
    h = H(cfg, rng, 'eq_stable')
    kind = rng.choice(['L', 'L', 'V']) if cfg.n <= 64 else 'L'
    n = cfg.n if kind == 'V' else rng.randint(0, h.maxlen(64))
    if kind == 'L' and rng.random() < 0.35:
        n = min(h.maxlen(64), (cfg.pf or 1) * rng.choice([1, 2, 4, 8, 16]))     # ends exactly on a subtree boundary
    vs = h.vals(n, rng.choice(['blocks', 'zero_tail', 'zeros', 'same', 'mixed', 'blocks']))
    if kind == 'L' and vs and rng.random() < 0.3:
        # X 0..0 X': an earlier full block, zeros, then a cut-off repetition of the block (hashes like its padded form)
        blk = [h.val() for _ in range(rng.choice([1, 2, 4, max(1, cfg.pf or 1)]))]
        z = [h.pool[0]] * rng.choice([len(blk), 3 * len(blk), 7 * len(blk), len(blk) * 2 - 1])
        vs = (blk + z + blk)[:h.maxlen(64)] or vs
    (h.new_list if kind == 'L' else h.new_vec)(0, vs)
    if 0 not in h.regs:
        return h
    if rng.random() < 0.6:
        h.hash(0)
    h.clone(0, 1)
    if rng.random() < 0.3 and h.regs[1]['v']:
        h.write(1)
        h.apply(1)
    c2 = rng.random()
    if c2 < 0.4:
        h.fresh_like(0, 2)
    elif c2 < 0.75 and kind == 'L' and len(h.regs[0]['v']) < cfg.n:
        # an independent, longer relative: the contents of h0 (cut at a subtree boundary now and then) plus a tail
        base = list(h.regs[0]['v'])
        tail = [h.val() for _ in range(rng.randint(1, min(6, cfg.n - len(base))))]
        h.new_list(2, base + tail)
        if 2 in h.regs and rng.random() < 0.5:
            h.hash(2)
    for _ in range(rng.randint(1, 3)):
        h.emit('eq h0 h1')
        if 2 in h.regs:
            h.emit('eq h2 h0')
        c = rng.random()
        t = rng.choice([0, 0, 1])
        if 2 in h.regs and len(h.regs[2]['v']) != len(h.regs[0]['v']) and rng.random() < 0.5:
            h.rebase_on(0, 2)
        elif c < 0.35:
            h.intra(t)
        elif c < 0.5:
            h.hash(t)
        elif c < 0.7:
            h.rebase_on(t, 1 - t)
        elif c < 0.8:
            h.apply(t)
        elif c < 0.9 and 2 in h.regs:
            h.rebase_on(t if len(h.regs[2]['v']) == len(h.regs[t]['v']) else 0, 2)
        else:
            h.clone(t, 3)
            if kind == 'L':
                h.pop_front(3)
            h.emit('drop h3')
            h.regs.pop(3, None)
        h.emit('eq h0 h1')
        h.emit('eq h1 h0')
        if 2 in h.regs:
            h.emit('eq h2 h0')
    if rng.random() < 0.5:
        h.emit('rebase h1 h0 h4')
        h.regs[4] = dict(h.regs[1], v=list(h.regs[1]['v']))
        h.emit('eq h4 h1')
        h.emit('eq h4 h0')
    return h


def fam_suffix(cfg, rng, ln=None, i=None):
    h = H(cfg, rng, 'suffix')
    mx = h.maxlen(70)
    if ln is None:
        ln = rng.randint(0, mx)
    if i is None:
        i = rng.choice([rng.randint(0, ln + 1), ln, 0, (ln // 2) & ~3, ln + 1])
    vs = h.vals(ln)
    h.new_list(0, vs, slow=rng.random() < 0.15)
    if rng.random() < 0.4:
        h.hash(0)
    if rng.random() < 0.3 and ln < cfg.n:
        h.push(0)
        if rng.random() < 0.5:
            h.apply(0)
    h.emit('iter_from h0 %d' % i)
    h.emit('level_iter h0 %d' % i)
    h.clone(0, 1)
    h.pop_front(0, i)
    h.pop_front(1, i, slow=True)
    for d in (0, 1):
        if not h.regs[d]['p']:
            h.hash(d)
    h.emit('eq h0 h1') if not h.regs[1]['p'] else None
    h.check_fresh(0)
    return h


def fam_capacity(cfg, rng):
    h = H(cfg, rng, 'capacity')
    cand = sorted(set([0, 1, cfg.n - 1, cfg.n, cfg.n + 1, cfg.cap - 1, cfg.cap, cfg.cap + 1, (cfg.pf or 1), (cfg.pf or 1) + 1]))
    cand = [c for c in cand if 0 <= c <= 2100]
    ctor = rng.choice(['new_list', 'list_slow', 'repeat', 'repeat_slow', 'new_vec', 'vec_iter', 'serde_list', 'serde_vec', 'ssz_list', 'ssz_vec', 'push', 'from_elem'])
    n = rng.choice(cand) if cand else 0
    if ctor in ('repeat', 'repeat_slow'):
        n = rng.choice(cand + [USIZE_MAX, 2 ** 63, cfg.cap * 2])
        h.emit('%s h0 %s %d' % (ctor, h.val(), n))
    elif ctor == 'from_elem':
        h.emit('from_elem h0 %s' % h.val()) if cfg.n <= 1024 else h.emit('empty h0')
    elif ctor == 'push':
        k = max(0, min(cfg.n, 1030) - rng.randint(0, 2))
        h.emit('repeat h0 %s %d' % (h.val(), k))
        for _ in range(4):
            h.emit('push h0 %s' % h.val())
        h.emit('apply h0')
    elif ctor in ('ssz_list', 'ssz_vec'):
        vs = h.vals(n)
        h.emit('%s h0 %s' % (ctor, serialize(cfg.kind, vs)))
    else:
        vs = h.vals(n)
        h.emit('%s h0 %s' % (ctor, vals_str(vs)))
    h.emit('len h0')
    h.emit('hash h0')
    h.emit('to_vector h0 h1')
    h.emit('to_list h0 h1')
    return h


def fam_bulk(cfg, rng):
    h = H(cfg, rng, 'bulk')
    n = rng.randint(0, h.maxlen(24))
    h.new_list(0, h.vals(n))
    if rng.random() < 0.5:
        h.hash(0)
    room = min(cfg.n - n, 6)
    kind = rng.choice(['ok', 'ok', 'ok', 'gap', 'oob', 'full', 'overshoot', 'overshoot', 'huge', 'unclean', 'empty'])
    keys = []
    over = rng.sample(range(n), min(n, rng.randint(0, 3))) if n else []
    ext = rng.randint(0, room) if room > 0 else 0
    keys = over + list(range(n, n + ext))
    if kind == 'gap':
        keys.append(n + ext + 1 + rng.randint(0, 2))
    elif kind == 'oob':
        keys.append(cfg.n + rng.randint(0, 2))
    elif kind == 'full':
        keys = list(range(n, min(cfg.n, n + 40) + 1)) if cfg.n - n <= 40 else keys
    elif kind == 'overshoot':
        # a contiguous extension that runs past the capacity by one, two or more
        keys = (over + list(range(n, cfg.n + rng.choice([1, 2, 2, 3, 5])))) if cfg.n - n <= 40 else keys
    elif kind == 'huge':
        keys.append(USIZE_MAX if cfg.map == 'bt' else 60000)
    elif kind == 'unclean' and n:
        h.write(0, how='set', i=0)
    elif kind == 'empty':
        keys = []
    rng.shuffle(keys)
    if rng.random() < 0.3 and keys:
        keys.append(keys[0])      # duplicate key: later wins
    pairs = ['%d:%s' % (k, h.val()) for k in keys]
    h.emit('bulk h0 %s' % (','.join(pairs) if pairs else '-'))
    h.emit('len h0')
    h.emit('iter_from h0 0')
    h.emit('apply h0')
    h.emit('hash h0')
    h.emit('bulk h0 %s' % (','.join(pairs[:2]) if pairs else '-'))
    h.emit('push h0 %s' % h.val())
    h.emit('apply h0')
    h.emit('hash h0')
    return h


def fam_bulk_via(cfg, rng):
    """bulk updates whose map was filled through `UpdateMap::get_mut_with` or `get_cow_with` + `into_mut` (the two other
    public ways of putting a value into an update map) instead of `insert`"""
    h = fam_bulk(cfg, rng)
    h.family = 'bulk_via'
    how = rng.choice(['mut', 'cow'])
    for k, o in enumerate(h.ops):
        if o.startswith('bulk h0 '):
            h.ops[k] = 'bulk_via h0 %s %s' % (how, o.split(' ', 2)[2])
            break
    h.emit('len h0')
    h.emit('iter_from h0 0')
    return h


def fam_codec(cfg, rng):
    h = H(cfg, rng, 'codec')
    n = rng.randint(0, h.maxlen(12))
    vs = h.vals(n)
    good = serialize(cfg.kind, vs)
    b = '' if good == '.' else good
    mode = rng.choice(['good', 'good', 'trunc', 'extend', 'flip', 'offset', 'toolong', 'vec', 'dirty', 'serde'])
    if SIZES[cfg.kind] is None and n > 0 and rng.random() < 0.25:
        mode = 'misaligned'
    if mode == 'trunc' and b:
        b = b[:2 * rng.randrange(len(b) // 2)]
    elif mode == 'extend':
        b = b + ''.join(rng.choice(['00', 'ff', '01']) for _ in range(rng.randint(1, 5)))
    elif mode == 'flip' and b:
        p = rng.randrange(len(b) // 2)
        b = b[:2 * p] + '%02x' % (int(b[2 * p:2 * p + 2], 16) ^ (1 << rng.randrange(8))) + b[2 * p + 2:]
    elif mode == 'offset' and len(b) >= 8:
        p = 4 * rng.randrange(max(1, min(n, len(b) // 8)))
        delta = rng.choice([1, -1, 4, -4, 255, 1 << 16])
        old = int.from_bytes(bytes.fromhex(b[2 * p:2 * p + 8]), 'little')
        b = b[:2 * p] + ((old + delta) % 2 ** 32).to_bytes(4, 'little').hex() + b[2 * p + 8:]
    elif mode == 'misaligned' and len(b) >= 8:
        # variable-size items: every offset shifted by r = 1..3 and r stray bytes put between the offset table and the
        # payload - self-consistent, but the first offset is no longer a multiple of 4 (or, with r = 4, k = 1 more
        # "item" than there are payloads): never a canonical encoding
        r = rng.choice([1, 2, 3, 1, 2, 3, 4])
        tbl = 4 * n
        offs = [int.from_bytes(bytes.fromhex(b[8 * k:8 * k + 8]), 'little') + r for k in range(n)]
        b = ''.join(o.to_bytes(4, 'little').hex() for o in offs) + rng.choice(['00', 'ff', '07']) * r + b[2 * tbl:]
    elif mode == 'toolong':
        vs2 = h.vals(min(cfg.n + rng.randint(1, 3), 70))
        b = serialize(cfg.kind, vs2)
        b = '' if b == '.' else b
    bh = b if b else '.'
    if mode == 'vec':
        vs = h.vals(cfg.n if cfg.n <= 64 and rng.random() < 0.7 else n)
        h.emit('ssz_vec h0 %s' % serialize(cfg.kind, vs))
    elif mode == 'serde':
        k = rng.choice([n, cfg.n, cfg.n + 1, max(0, cfg.n - 1)])
        k = min(k, 70)
        vs = h.vals(k)
        h.emit('%s h0 %s' % (rng.choice(['serde_list', 'serde_vec']), vals_str(vs)))
    else:
        h.emit('%s h0 %s' % ('ssz_list' if rng.random() < 0.8 else 'ssz_vec', bh))
    h.emit('ssz_enc h0')
    h.emit('serde_ser h0')
    h.emit('hash h0')
    if mode == 'dirty':
        h.regs[0] = dict(k='L', v=list(vs), p=False, b=n)
        mutate(h, 0, 4)
        h.emit('ssz_enc h0')
        h.emit('serde_ser h0')
    return h


def fam_roundtrip(cfg, rng):
    """C12 / C13 round trip: an original reached by ANY path (constructor, repetition, pushes that were flushed, front
    removal, conversion), possibly with writes still pending, is encoded; the encoding of what it shows is decoded into
    another register (SSZ and serde); the original is flushed; the two must compare equal in both directions."""
    h = H(cfg, rng, 'roundtrip')
    start(h, 0)
    if 0 not in h.regs:
        return h
    st = h.regs[0]
    c = rng.random()
    if c < 0.35 and st['k'] == 'L':
        for _ in range(rng.randint(1, 6)):
            h.push(0)
        if rng.random() < 0.7:
            h.apply(0)
    elif c < 0.5 and st['k'] == 'L':
        h.pop_front(0, slow=rng.random() < 0.3)
    elif c < 0.6:
        h.convert(0, 1)
        if 1 in h.regs:
            h.regs[0] = h.regs.pop(1)
            h.emit('clone h1 h0')
            h.emit('drop h1')
    elif c < 0.8:
        mutate(h, 0, rng.randint(1, 4))
    elif c < 0.92 and st['k'] == 'L' and not st['p'] and len(st['v']) < cfg.n:
        # the original was rebased on a hashed relative that extends it by zero values (or that it extends)
        z = [h.pool[0]] * rng.randint(1, min(4, cfg.n - len(st['v'])))
        h.hash(0)
        h.new_list(3, st['v'] + z)
        h.hash(3)
        if rng.random() < 0.5:
            h.rebase_on(0, 3)
        else:
            h.rebase_on(3, 0)
            h.regs[0] = h.regs.pop(3)
            h.emit('clone h3 h0')
        h.emit('drop h3')
        h.regs.pop(3, None)
    st = h.regs.get(0)
    if not st or len(st['v']) > 200:
        return h
    h.emit('ssz_enc h0')
    h.emit('serde_ser h0')
    dec = 'list' if st['k'] == 'L' else 'vec'
    h.emit('ssz_%s h1 %s' % (dec, serialize(cfg.kind, st['v'])))
    h.regs[1] = dict(k=st['k'], v=list(st['v']), p=False, b=len(st['v']))
    h.emit('serde_%s h2 %s' % (dec, vals_str(st['v'])))
    h.regs[2] = dict(k=st['k'], v=list(st['v']), p=False, b=len(st['v']))
    if st['p']:
        h.apply(0)
    for a, b in ((0, 1), (1, 0), (0, 2), (2, 0), (1, 2)):
        h.emit('eq h%d h%d' % (a, b))
    return h


def fam_invalid(cfg, rng):
    h = H(cfg, rng, 'invalid_args')
    start(h, 0)
    if 0 not in h.regs:
        return h
    st = h.regs[0]
    n = len(st['v'])
    big = [n, n + 1, n + 2, USIZE_MAX, USIZE_MAX - 1, 2 ** 63, cfg.n, cfg.n + 1]
    for _ in range(rng.randint(3, 8)):
        i = rng.choice(big)
        c = rng.choice(['get', 'set', 'cow_into', 'cow_make', 'touch', 'cow_read', 'iter_from', 'level_iter', 'pop_front', 'pop_front_slow', 'push', 'to_vector', 'repeat', 'b'])
        if c in ('get', 'touch', 'cow_read', 'iter_from', 'level_iter', 'pop_front', 'pop_front_slow'):
            h.emit('%s h0 %d' % (c, i))
            if c == 'pop_front':
                st['p'] = False
        elif c in ('set', 'cow_into', 'cow_make'):
            h.emit('%s h0 %d %s' % (c, i, h.val()))
        elif c == 'push':
            h.push(0)
        elif c == 'to_vector':
            h.emit('to_vector h0 h1')
        elif c == 'repeat':
            h.emit('repeat h2 %s %d' % (h.val(), i))
        else:
            h.emit('b_new %d %d' % (rng.choice([62, 63, 64, USIZE_MAX, cfg.depth, 2 ** 32, 2 ** 32 + 5, 2 ** 40]), 0))
        h.emit('len h0')
    h.emit('apply h0')
    h.emit('hash h0')
    return h


def fam_builder(cfg, rng, d=None, k=None):
    h = H(cfg, rng, 'builder')
    pd = cfg.pd
    if d is None:
        d = rng.choice([0, 1, 2, 3, 4, 5, 6, rng.randint(0, 10), 20, 40, 63 - pd - 1, 63 - pd, 64 - pd, 64, USIZE_MAX, USIZE_MAX - 1, USIZE_MAX - pd, 2 ** 63,
                        2 ** 32, 2 ** 32 + 1, 2 ** 32 - pd, 2 ** 32 + 40, 2 ** 31, 2 ** 33 + 3, 2 ** 48, 65, 100, 255, 256])
    capd = 1 << min(d + pd, 62)
    if d > 64:
        k = rng.choice([0, 1, 2])
    if k is None:
        k = rng.choice([0, 1, capd - 1, capd, capd + 1, rng.randint(0, min(capd, 70)), rng.randint(0, min(capd, 70))])
    k = min(k, 70)
    h.emit('b_new %d 0' % d)
    for _ in range(k):
        h.emit('b_push %s' % h.val())
    h.emit('b_finish')
    return h


def fam_builder_nodes(cfg, rng):
    """push_node at a level, with subtrees taken from a live list."""
    h = H(cfg, rng, 'builder')
    n = rng.randint(1, h.maxlen(64))
    h.new_list(0, h.vals(n))
    if rng.random() < 0.5:
        h.hash(0)
    depth, pd = cfg.depth, cfg.pd
    if depth == 0:
        h.emit('b_new %d 0' % depth)
        h.emit('b_push_node h0 .')
        h.emit('b_finish')
        return h
    lv = rng.randint(0, min(depth, 4))        # tree level (0 = leaves)
    level = lv + pd if (lv > 0 or pd == 0) else rng.choice([0, pd])
    tl = lv if level else 0
    h.emit('b_new %d %d' % (depth, level if (level or pd == 0) else 0))
    # enumerate subtrees at tree depth-from-root = depth - tl, left to right
    npaths = 1 << (depth - tl)
    per = 1 << (tl + pd)
    cnt = min(npaths, (n + per - 1) // per, 8)
    for j in range(cnt):
        path = ''.join('R' if (j >> (depth - tl - 1 - b)) & 1 else 'L' for b in range(depth - tl))
        h.emit('b_push_node h0 %s' % (path if path else '.'))
    h.emit('b_finish')
    return h


def fam_big(cfg, rng):
    h = H(cfg, rng, 'big')
    n = rng.randint(0, 9)
    h.new_list(0, h.vals(n))
    mutate(h, 0, rng.randint(2, 6))
    h.apply(0)
    h.hash(0)
    h.check_fresh(0)
    h.clone(0, 1)
    h.pop_front(1, rng.randint(0, len(h.regs[1]['v'])))
    h.hash(1) if not h.regs[1]['p'] else None
    h.intra(0)
    h.hash(0)
    h.emit('repeat h2 %s %d' % (h.val(), rng.choice([0, 1, 5, 33, 1000, 4100])))
    h.emit('hash h2')
    h.emit('len h2')
    return h


def fam_deep(cfg, rng):
    h = H(cfg, rng, 'deep')
    h.emit('empty h0')
    h.emit('hash h0')
    h.regs[0] = dict(k='L', v=[], p=False, b=0)
    for _ in range(rng.randint(0, 3)):
        h.push(0)
    h.apply(0)
    h.hash(0)
    h.emit('repeat h1 %s %d' % (h.val(), rng.choice([0, 1, 3, 70])))
    h.emit('hash h1')
    h.emit('pop_front h1 1')
    h.emit('hash h1')
    h.emit('intra h0')
    h.emit('ssz_enc h0')
    return h


def fam_par(cfg, rng):
    h = H(cfg, rng, 'par')
    kind = rng.choice(['repeat', 'blocks', 'mixed'])
    n = rng.randint(1, h.maxlen(64)) if cfg.n <= 1024 else rng.randint(1, 9)
    if kind == 'repeat':
        v = h.val()
        h.emit('repeat h0 %s %d' % (v, n))
        h.regs[0] = dict(k='L', v=[v] * n, p=False, b=n)
    else:
        h.new_list(0, h.vals(n, kind))
    if rng.random() < 0.3:
        h.hash(0)
        h.intra(0)
    if rng.random() < 0.3:
        h.write(0)
        h.apply(0)
    if rng.random() < 0.2:
        # a hashed handle rebased on an independent, never hashed copy that differs in one place, then deduplicated:
        # unhashed nodes under a hashed root when the parallel step starts
        h.hash(0)
        vs2 = list(h.regs[0]['v'])
        vs2[rng.randrange(len(vs2))] = h.val()
        h.emit('ssz_list h1 %s' % serialize(cfg.kind, vs2))
        h.regs[1] = dict(k='L', v=vs2, p=False, b=len(vs2))
        h.rebase_on(0, 1)
        if rng.random() < 0.7:
            h.intra(0)
    c = rng.random()
    if c < 0.5:
        h.emit('par_hash h0 %d' % rng.choice([2, 4, 8, 16]))
    else:
        h.emit('par_mix h0 %s' % vals_str([h.val() for _ in range(rng.choice([2, 4, 8]))]))
    h.emit('hash h0')
    h.check_fresh(0)
    return h


def fam_fault(cfg, rng):
    """Fault injection (kind fu64 only): a panic inside the element type's own tree-hash callback, at the k-th
    call, while a root is being computed; the caller catches it and carries on. Afterwards every memoised hash
    must still be true and every later root correct, on the collection and on everything that shares nodes."""
    h = H(cfg, rng, 'fault')
    kind = rng.choice(['L', 'L', 'V']) if cfg.n <= 64 else 'L'
    n = cfg.n if kind == 'V' else rng.randint(1, max(1, h.maxlen(40)))
    vs = h.vals(n, rng.choice(['mixed', 'mixed', 'same', 'zero_tail']))
    if kind == 'L':
        h.new_list(0, vs)
    else:
        h.new_vec(0, vs)
    if 0 not in h.regs:
        return h
    for rnd in range(rng.randint(1, 3)):
        c = rng.random()
        if c < 0.4:
            h.hash(0)                       # fully hashed, then dirtied below: partially memoised tree
        for _ in range(rng.randint(0, 3)):
            if rng.random() < 0.6 or kind == 'V':
                h.write(0, how=rng.choice(['set', 'cow_make']))
            else:
                h.push(0)
        h.apply(0)
        if rng.random() < 0.5:
            h.clone(0, 1)
        h.emit('fault %d' % rng.choice([1, 1, 2, 2, 3, 4, 5, 7, 9, 30]))
        h.emit(rng.choice(['hash h0', 'hash h0', 'par_hash h0 4']))
        h.hash(0)
        if 1 in h.regs and rng.random() < 0.7:
            h.hash(1)
        h.check_fresh(0)
    if 1 in h.regs:
        h.apply(1)
        h.check_fresh(1)
    return h


def fam_cost(cfg, rng):
    """clone, then flush k writes / pop_front on the original: the clone keeps the old tree alive so
    that sharing between the two versions is observable"""
    h = H(cfg, rng, 'cost')
    n = rng.randint(1, h.maxlen(64))
    h.new_list(0, h.vals(n), slow=rng.random() < 0.1)
    if rng.random() < 0.6:
        h.hash(0)
    h.clone(0, 1)
    c = rng.random()
    if c < 0.12 and cfg.n <= 64:
        # conversion of a list that reaches N only through pending pushes: the flush inside the conversion must
        # copy only the touched paths, like any other flush
        k = rng.randint(1, min(3, cfg.n))
        vs = h.vals(cfg.n - k)
        h.new_list(0, vs)
        if rng.random() < 0.7:
            h.hash(0)
        h.clone(0, 1)
        for _ in range(k):
            h.push(0)
        if rng.random() < 0.3 and vs:
            h.write(0, how='set')
        h.convert(0, 2)
        if 2 in h.regs:
            h.hash(2)
        return h
    if c < 0.6:
        for _ in range(rng.randint(1, 4)):
            if rng.random() < 0.7:
                h.write(0, how=rng.choice(['set', 'cow_into', 'cow_make']))
            elif len(h.regs[0]['v']) < cfg.n:
                h.push(0)
        h.apply(0)
        h.hash(0) if rng.random() < 0.5 else None
        h.hash(1) if rng.random() < 0.5 else None
    else:
        ln = len(h.regs[0]['v'])
        k = rng.choice([1, 2, 4, 8, 16, 32, (cfg.pf or 1), 2 * (cfg.pf or 1), rng.randint(0, ln)])
        h.pop_front(0, min(k, ln))
        h.hash(0)
    h.check_fresh(0)
    return h


FAMILIES = {
    'crud': fam_crud, 'versions': fam_versions, 'hash_placement': fam_hash_placement,
    'rebase_pairs': fam_rebase_pairs, 'intra': fam_intra, 'suffix': fam_suffix,
    'capacity': fam_capacity, 'bulk': fam_bulk, 'codec': fam_codec, 'invalid_args': fam_invalid,
    'builder': fam_builder, 'builder_nodes': fam_builder_nodes, 'big': fam_big, 'deep': fam_deep, 'par': fam_par, 'cost': fam_cost, 'fault': fam_fault,
    'eq_stable': fam_eq_stable, 'roundtrip': fam_roundtrip, 'bulk_via': fam_bulk_via,
}


def epilogue(h):
    """Final audit: request the root of EVERY live handle (flushing it first if necessary), so that damage done
    to a relative that the scenario itself no longer looks at (a memo written into a shared node, a node swapped
    under a clone) still surfaces as a wrong root."""
    for r in sorted(h.regs):
        st = h.regs[r]
        if st['p']:
            h.apply(r)
        h.hash(r)


def pick_cfg(rng, family, big_ok=True):
    if family == 'deep':
        return Cfg(rng.choice(['u64', 'u8', 'h256']), rng.choice(DEEP_NS), rng.choice(MAPS))
    if family == 'big':
        return Cfg(rng.choice(KINDS), 2 ** 40, rng.choice(MAPS))
    if family == 'codec' and rng.random() < 0.12:
        # huge capacities with few elements: anything sized by N instead of by the input shows here
        if rng.random() < 0.7:
            return Cfg(rng.choice(KINDS), 2 ** 40, rng.choice(MAPS))
        return Cfg(rng.choice(['u64', 'u8', 'h256']), rng.choice(DEEP_NS), rng.choice(MAPS))
    if family == 'fault':
        return Cfg('fu64', rng.choice(SMALL_NS + [1024]), rng.choice(MAPS))
    if family == 'par' and rng.random() < 0.25:
        # deep trees: zero-subtree hashes beyond the precomputed table are computed at run time
        return Cfg(rng.choice(['u64', 'u8', 'h256']), rng.choice(DEEP_NS + [2 ** 40]), rng.choice(MAPS))
    kind = rng.choice(KINDS)
    ns = SMALL_NS + ([1024] if big_ok else [])
    n = rng.choice(ns)
    if family in ('builder', 'builder_nodes') and rng.random() < 0.2:
        n = rng.choice([1024, 2 ** 40])
    return Cfg(kind, n, rng.choice(MAPS))


def generate(seed, families, count):
    """count histories, round-robin over the families, configurations drawn at random."""
    rng = random.Random(seed)
    out = []
    for j in range(count):
        fam = families[j % len(families)]
        cfg = pick_cfg(rng, fam)
        sub = random.Random(rng.getrandbits(64))
        h = FAMILIES[fam](cfg, sub)
        epilogue(h)
        out.append(h)
    return out


def extra_kind(seed, fams, count, kind='quad'):
    """histories of the given families for an element kind that is kept out of the main random stream (KINDS):
    `quad` = a fixed-size container of exactly 32 bytes (one chunk wide, like Hash256, but with four field chunks)."""
    rng = random.Random(seed ^ 0x9AD)
    fams = [f for f in fams if f in FAMILIES and f not in ('deep', 'fault')]
    out = []
    for j in range(count if fams else 0):
        fam = fams[j % len(fams)]
        n = 2 ** 40 if fam == 'big' else rng.choice(SMALL_NS + [1024])
        h = FAMILIES[fam](Cfg(kind, n, rng.choice(MAPS)), random.Random(rng.getrandbits(64)))
        epilogue(h)
        out.append(h)
    return out


def zero_capacity(seed, fams=('capacity', 'invalid_args', 'crud', 'bulk', 'codec', 'versions', 'suffix'), reps=2):
    """capacity N = 0 (`List<T, U0>`, `Vector<T, U0>`): legal types whose only value is the empty collection; every
    constructor, decoder and mutator must still answer with a value or an error. Outside the theorems' hypothesis
    `capacity_ok` (1 <= N): covered by the correspondence and the oracles only."""
    rng = random.Random(seed ^ 0x5EED0)
    out = []
    for fam in fams:
        if fam not in FAMILIES:
            continue
        for kind in ('u8', 'u64', 'h256'):
            for m in MAPS:
                for _ in range(reps):
                    h = FAMILIES[fam](Cfg(kind, 0, m), random.Random(rng.getrandbits(64)))
                    epilogue(h)
                    out.append(h)
    return out


def suffix_exhaustive(seed, kinds=('u64', 'h256', 'u8', 'u256'), ns=(4, 5, 8, 9, 17), mx=18):
    """every (len, i) for small configurations"""
    rng = random.Random(seed)
    out = []
    for kind in kinds:
        for n in ns:
            cfg = Cfg(kind, n, rng.choice(MAPS))
            for ln in range(0, min(n, mx) + 1):
                for i in range(0, ln + 2):
                    out.append(fam_suffix(cfg, random.Random(rng.getrandbits(64)), ln=ln, i=i))
    return out


def builder_exhaustive(seed, dmax=5, kmax=40):
    rng = random.Random(seed)
    out = []
    for kind in ('u8', 'u64', 'u256', 'h256'):
        cfg = Cfg(kind, 8, 'max')
        for d in range(0, dmax + 1):
            capd = 1 << (d + cfg.pd)
            for k in sorted(set(list(range(0, min(capd, kmax) + 1)) + [capd + 1 if capd < kmax else 0])):
                out.append(fam_builder(cfg, random.Random(rng.getrandbits(64)), d=d, k=k))
    return out


def small_scope(seed, depth=3, cfgs=(('u64', 5, 'max'), ('h256', 3, 'bt'), ('u8', 33, 'vec')), sample=None):
    """Small-scope enumeration: EVERY sequence of `depth` operations over a reduced alphabet (two handles, two
    values: zero and one non-zero, every write path, flush, hash, clone, rebase both ways, self-deduplication,
    front removal, conversion to a fresh copy), from each of a few initial contents, for a few small
    configurations; each history ends by flushing, hashing and comparing every handle with a fresh build.
    `sample` (a number) draws that many sequences at random instead of enumerating (for larger depths)."""
    import itertools
    rng = random.Random(seed)
    out = []

    def alphabet(h):
        z, a = h.pool[0], h.pool[3]
        def ln(r):
            return len(h.regs[r]['v']) if r in h.regs else 0
        def has(r):
            return r in h.regs
        return [
            lambda: h.push(0, z), lambda: h.push(0, a),
            lambda: h.write(0, i=0, v=a, how='set') if ln(0) else h.push(0, a),
            lambda: h.write(0, i=ln(0) - 1, v=z, how='cow_make') if ln(0) else h.push(0, z),
            lambda: h.apply(0), lambda: (h.hash(0) if not h.regs[0]['p'] else h.apply(0)),
            lambda: h.clone(0, 1),
            lambda: (h.rebase_on(0, 1) if has(1) else h.clone(0, 1)),
            lambda: (h.rebase_on(1, 0) if has(1) else h.clone(0, 1)),
            lambda: h.intra(0),
            lambda: h.pop_front(0, 1 if ln(0) >= 1 else 0), lambda: h.pop_front(0, 2 if ln(0) >= 2 else ln(0)),
            lambda: (h.push(1, z) if has(1) else h.clone(0, 1)),
            lambda: ((h.hash(1) if not h.regs[1]['p'] else h.apply(1)) if has(1) else h.clone(0, 1)),
            lambda: (h.fresh_like(0, 1) if not h.regs[0]['p'] else h.apply(0)),
            lambda: (h.intra(1) if has(1) else h.clone(0, 1)),
        ]

    for kind, n, mp in cfgs:
        cfg = Cfg(kind, n, mp)
        p = pool(kind)
        z, a = p[0], p[3]
        inits = [[], [a], [a, z], [z, z, z][:n], [a, z, a][:n], ([a] * n)[:5]]
        nalpha = 16
        if sample:
            seqs = [tuple(rng.randrange(nalpha) for _ in range(depth)) for _ in range(sample // (len(cfgs) * len(inits)) + 1)]
        else:
            seqs = list(itertools.product(range(nalpha), repeat=depth))
        for init in inits:
            for seq in seqs:
                h = H(cfg, random.Random(rng.getrandbits(64)), 'small_scope')
                h.new_list(0, list(init))
                if rng.random() < 0.5:
                    h.hash(0)
                for k in seq:
                    if 0 not in h.regs:
                        break
                    alphabet(h)[k]()
                for r in (0, 1):
                    if r in h.regs:
                        h.apply(r)
                        h.check_fresh(r)
                out.append(h)
    return out


if __name__ == '__main__':
    import sys
    seed = int(sys.argv[1]) if len(sys.argv) > 1 else 0
    fams = sys.argv[2].split(',') if len(sys.argv) > 2 else list(FAMILIES)
    cnt = int(sys.argv[3]) if len(sys.argv) > 3 else 20
    for h in generate(seed, fams, cnt):
        sys.stdout.write('# family %s\n' % h.family)
        sys.stdout.write(h.text())
