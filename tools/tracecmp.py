#!/usr/bin/env python3
"""Split traces (docs/FORMAT.md) into histories and compare two traces view by view."""
import sys
from collections import defaultdict

VIEW_OF = {'R': 'obs', 'O': 'obs', 'S': 'shape', 'M': 'memo', 'I': 'ident', 'F': 'fresh'}


def split(text):
    """-> list of (header, [lines]) ; C lines are kept apart under key 'cov'."""
    out = []
    cur = None
    for line in text.splitlines():
        if not line:
            continue
        if line.startswith('H '):
            cur = {'header': line, 'lines': [], 'cov': []}
            out.append(cur)
        elif cur is not None:
            if line.startswith('C '):
                cur['cov'].append(line)
            else:
                cur['lines'].append(line)
    return out


def by_op(lines):
    """group the lines of one history by operation number: {n: {'R':..., 'O': [...], ...}}"""
    ops = {}
    n = None
    for l in lines:
        if l.startswith('R '):
            n = int(l.split(' ', 2)[1])
            ops[n] = defaultdict(list)
            ops[n]['R'].append(l)
        elif n is not None:
            ops[n][l[0]].append(l)
    return ops


def compare(a_lines, b_lines, views=('obs', 'shape', 'memo', 'ident', 'fresh')):
    """first difference per view between two histories' line lists.
    returns {view: (opno, a_line, b_line)}"""
    a, b = by_op(a_lines), by_op(b_lines)
    diffs = {}
    faulted = False
    for n in sorted(set(a) | set(b)):
        ao, bo = a.get(n), b.get(n)
        if ao is not None and bo is not None and ao['R'] == ['R %d fault' % n]:
            # fault injection (implementation side only, FORMAT.md `fault`): the operation was abandoned half
            # way. Its result is not compared, and from here on the memo view is schedule dependent
            # (which nodes were hashed before the fault) - the memo *oracle* still audits it.
            faulted = True
            ao = dict(ao)
            ao['R'] = bo['R']
            views = tuple(v for v in views if v != 'memo')
        if ao is None or bo is None:
            diffs.setdefault('obs', (n, (ao or {}).get('R', ['<missing>'])[0] if ao else '<missing>',
                                     (bo or {}).get('R', ['<missing>'])[0] if bo else '<missing>'))
            break
        for tag, view in VIEW_OF.items():
            if view not in views or view in diffs:
                continue
            if ao.get(tag, []) != bo.get(tag, []):
                al, bl = ao.get(tag, []), bo.get(tag, [])
                k = 0
                while k < min(len(al), len(bl)) and al[k] == bl[k]:
                    k += 1
                diffs[view] = (n, al[k] if k < len(al) else '<missing>', bl[k] if k < len(bl) else '<missing>')
        if 'obs' in diffs and ao['R'] != bo['R']:
            break   # results diverged: later steps are not comparable
    return diffs


if __name__ == '__main__':
    A = split(open(sys.argv[1]).read())
    B = split(open(sys.argv[2]).read())
    nd = 0
    for i, (ha, hb) in enumerate(zip(A, B)):
        d = compare(ha['lines'], hb['lines'])
        if d:
            nd += 1
            if nd <= int(sys.argv[3]) if len(sys.argv) > 3 else 10:
                print('history', i, ha['header'])
                for v, (n, x, y) in d.items():
                    print('  ', v, 'op', n)
                    print('     A:', x[:300])
                    print('     B:', y[:300])
    print('histories', len(A), len(B), 'differing', nd)
