#!/usr/bin/env python3
"""Split traces (docs/FORMAT.md) into histories and compare two traces view by view."""
import sys
from collections import defaultdict

VIEW_OF = {'R': 'obs', 'O': 'obs', 'S': 'shape', 'M': 'memo', 'I': 'ident', 'F': 'fresh'}


def split(text):
    """-> list of (header, [lines]) ; C lines are kept apart under key 'cov'."""
    out = []
    cur = None
    for line in text.splitlines():
        if not line:
            continue
        if line.startswith('H '):
            cur = {'header': line, 'lines': [], 'cov': []}
            out.append(cur)
        elif cur is not None:
            if line.startswith('C '):
                cur['cov'].append(line)
            else:
                cur['lines'].append(line)
    return out


def by_op(lines):
    """group the lines of one history by operation number: {n: {'R':..., 'O': [...], ...}}"""
    ops = {}
    n = None
    for l in lines:
        if l.startswith('R '):
            n = int(l.split(' ', 2)[1])
            ops[n] = defaultdict(list)
            ops[n]['R'].append(l)
        elif n is not None:
            ops[n][l[0]].append(l)
    return ops


def canon_ident(lines):
    """`I` lines number the pointer-identity classes globally in order of first occurrence, so one extra class in an
    early register shifts every later number. Rewrite each class as <register>.<position> of its first occurrence:
    the same sharing structure then gives the same lines, and a difference stays confined to the registers it concerns."""
    first = {}
    out = []
    for l in lines:
        p = l.split(' ')
        if len(p) != 3 or p[2] in ('big', '-'):
            out.append(l)
            continue
        toks = []
        for k, c in enumerate(p[2].split(',')):
            if c not in first:
                first[c] = '%s.%d' % (p[1], k)
            toks.append(first[c])
        out.append('%s %s %s' % (p[0], p[1], ','.join(toks)))
    return out


def compare(a_lines, b_lines, views=('obs', 'shape', 'memo', 'ident', 'fresh'), relevant=None):
    """first difference per view between two histories' line lists: {view: (opno, a_line, b_line)}.
    With `relevant(view, opno, a_line, b_line)` given, differences it rejects are skipped (and reported under
    the key 'drift:<view>' once), so the result is the first RELEVANT difference of each view."""
    a, b = by_op(a_lines), by_op(b_lines)
    diffs = {}
    last_equal = {}
    for n in sorted(set(a) | set(b)):
        ao, bo = a.get(n), b.get(n)
        if ao is not None and bo is not None and ao['R'] == ['R %d fault' % n]:
            # fault injection (implementation side only, FORMAT.md `fault`): the operation was abandoned half
            # way. Its result is not compared, and from here on the memo view is schedule dependent
            # (which nodes were hashed before the fault) - the memo *oracle* still audits it.
            ao = dict(ao)
            ao['R'] = bo['R']
            views = tuple(v for v in views if v != 'memo')
        if ao is None or bo is None:
            x = ((ao or {}).get('R', ['<missing>'])[0] if ao else '<missing>', (bo or {}).get('R', ['<missing>'])[0] if bo else '<missing>')
            if relevant is None or relevant('obs', n, x[0], x[1], last_equal):
                diffs.setdefault('obs', (n,) + x)
            else:
                diffs.setdefault('drift:obs', (n,) + x)
            break
        for tag, view in VIEW_OF.items():
            if view not in views:
                continue
            al, bl = ao.get(tag, []), bo.get(tag, [])
            if tag == 'I':
                al, bl = canon_ident(al), canon_ident(bl)
            if tag == 'I':
                # identity classes relate registers to each other: the view as a whole differs or not, and a difference
                # counts at the operation after which it first appears
                was_equal = last_equal.get(('I', '*'), True)
                last_equal[('I', '*')] = (al == bl)
                if al != bl and was_equal and view not in diffs:
                    k = next((j for j in range(min(len(al), len(bl))) if al[j] != bl[j]), min(len(al), len(bl)))
                    x = al[k] if k < len(al) else '<missing>'
                    y = bl[k] if k < len(bl) else '<missing>'
                    if relevant is None or relevant(view, n, x, y, last_equal):
                        diffs[view] = (n, x, y)
                    else:
                        diffs.setdefault('drift:' + view, (n, x, y))
                continue
            if tag in 'OSM':
                # state lines (one per register): a difference counts where it is INTRODUCED, i.e. the same
                # register's line agreed after the previous operation; afterwards it is inherited, not new
                da = {l.split(' ', 2)[1]: l for l in al}
                db = {l.split(' ', 2)[1]: l for l in bl}
                for reg in sorted(set(da) | set(db)):
                    x, y = da.get(reg, '<missing>'), db.get(reg, '<missing>')
                    was_equal = last_equal.get((tag, reg), True)
                    last_equal[(tag, reg)] = (x == y)
                    if x == y or not was_equal or view in diffs:
                        continue
                    if relevant is None or relevant(view, n, x, y, last_equal):
                        diffs[view] = (n, x, y)
                    else:
                        diffs.setdefault('drift:' + view, (n, x, y))
                for reg in [r for (t, r) in list(last_equal) if t == tag and r not in da and r not in db]:
                    last_equal.pop((tag, reg), None)
                continue
            if view in diffs or al == bl:
                continue
            for k in range(max(len(al), len(bl))):
                x = al[k] if k < len(al) else '<missing>'
                y = bl[k] if k < len(bl) else '<missing>'
                if x == y:
                    continue
                if relevant is None or relevant(view, n, x, y, last_equal):
                    diffs[view] = (n, x, y)
                    break
                diffs.setdefault('drift:' + view, (n, x, y))
    return diffs


if __name__ == '__main__':
    A = split(open(sys.argv[1]).read())
    B = split(open(sys.argv[2]).read())
    nd = 0
    for i, (ha, hb) in enumerate(zip(A, B)):
        d = compare(ha['lines'], hb['lines'])
        if d:
            nd += 1
            if nd <= int(sys.argv[3]) if len(sys.argv) > 3 else 10:
                print('history', i, ha['header'])
                for v, (n, x, y) in d.items():
                    print('  ', v, 'op', n)
                    print('     A:', x[:300])
                    print('     B:', y[:300])
    print('histories', len(A), len(B), 'differing', nd)
