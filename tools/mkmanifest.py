#!/usr/bin/env python3
"""Regenerate /verif/MANIFEST.json from the tables that drive the checks (tools/check.py PROPS, tools/mkprops.py TABLE),
so that what the manifest claims per property (theorems, scenario families, views, oracles) is what the check does."""
import json, sys, re
sys.path.insert(0, '/verif/tools')
import check, mkprops

HEADLINE = {
 'C01': 'run_refines / step_refines: every history of public operations on the model refines the plain bounded-sequence specification (Spec.v), with exact error payloads; closed instances for u64, Hash256, nested lists',
 'C02': 'root_is_ssz_run / refines_OHash: the root of a clean handle is the SSZ hash_tree_root of its abstract contents for every reachable state; shash_canon_merkle, depth_is_chunk_depth; root correct after an abandoned hashing (FaultP)',
 'C03': 'hash_invisible (run level): adding/removing root requests anywhere changes no later answer and no content; memo validity is part of the system invariant (gok) and holds at every point of every schedule',
 'C04': 'versions_isolated / spec_frame: an operation changes only its destination register, abstractly and in the model; memo writes are valid for every tree sharing the node',
 'C05': 'reachable_bounds: |contents| <= N for lists and = N for vectors in every reachable state; every constructor/decoder returns Ok within bounds or an error, never a panic',
 'C06': 'coll_eqb_spec / refines_OEq: derived equality of clean handles of one type holds iff contents are equal, because every construction path yields canon depth contents',
 'C07': 'rebase_invisible (run level), refines_ORebaseOn: rebasing succeeds and changes nothing observable, for all pairs satisfying the invariant, under collision freedom',
 'C08': 'rebase_sharing_paths_cf / sharing_equal / fresh_differs: after rebasing an id-disjoint copy every position with equal shape holds the base\'s own node; fresh nodes lie on paths to differing positions',
 'C09': 'intra_total, intra_shape_canon, intra_is_flush (run level): self-deduplication succeeds, keeps the canonical shape and afterwards the collection behaves as a flushed one',
 'C10': 'clone_allocates_nothing, wul_cost / wul_retain / wul_full, rehash_only_new, snodes_canon_le, feed_canon_idf: cost model on node identities and the memo table',
 'C11': 'coll_iter_from_spec, list_level_iter_from_spec, pop_front_spec, pop_front_oob: suffix operations are slicing; pop_front yields canon of the suffix',
 'C12': 'ssz_encode_spec, ssz_bytes_len_spec, list/vector_from_ssz_roundtrip, *_strict_spec, SszStaticP: encoding is the canonical serialization, decoding is its strict partial inverse, static size declarations agree',
 'C13': 'serde_ser_spec, list/vector_serde_de_ok/_fail: the serde form is the element sequence; bounds enforced',
 'C14': 'maps_unobservable: two lawful update maps answer every deterministic history identically; VecMap, BTreeMap, MaxMap proved lawful',
 'C15': 'step_safe / step_no_panic / spec_err_frame: no Panic outcome from any invariant state for any arguments; an Err leaves the abstract state unchanged',
 'C16': 'any_schedule_safe, tree_hash_rg, progress, pool_terminates, tree_hash_pool_confluent/_deterministic: for ALL schedules of the memo protocol; nested-collection elements (NestedP); abandoned hashing harmless (FaultP)',
 'C17': 'build_canon_idf, push_full, new_invalid_depth, feed_canon_idf, build_eq_incremental: the builder is a binary counter producing canon depth values for every depth and count',
}
EXTRA_NOTE = {
 'C12': ' The two ethereum_ssz functions used for variable-size elements (decode_list_of_variable_length_items, SszEncoder) are modelled, not verified.',
 'C13': ' The serde data model is a plain element list; serde/serde_json themselves are outside the model and covered only differentially (serde_json::to_value/from_value and the text path).',
 'C16': ' PARTIAL: the memo protocol of tree_hash (atomic read / compute / atomic write, fork-join) is modelled and proved safe, deterministic (confluent final memo table) and terminating for ALL schedules (ConcP.v); parking_lot, rayon\'s scheduler and stack use, and the hardware memory model are not modelled - covered only by the stress runs of the par/fault families under RAYON_NUM_THREADS in {1,2,16} with a per-history watchdog.',
}


def main():
    old = json.load(open('/verif/MANIFEST.json'))
    checks = []
    for p in sorted(check.PROPS):
        spec = check.PROPS[p]
        thms = [t[0] for t in mkprops.TABLE[p]]
        text = ('Theorems in Coq 8.16 (theories/props/%s.v: %d pinned statements, each closed under the global context) about an executable '
                'Gallina model of milhouse, for all histories/values/capacities/element kinds/update maps satisfying the stated laws. Deciding '
                'theorems: %s. The model is tied to /repo on every run: generated histories (families %s; corpus of past findings first) are '
                'executed on the real crate (Rust harness, one isolated child per history with a watchdog) and on the extracted model, compared on '
                'the views %s; a sample is re-evaluated inside Coq by vm_compute with a Gallina SHA-256 and must reproduce the implementation\'s '
                'answers; independent oracles (from-scratch reference semantics and SSZ in Python%s) search the implementation trace for a concrete failing input.'
                % (p, len(thms), HEADLINE[p], ', '.join(spec['fams']), '/'.join(spec['views']),
                   ('; structural oracles: ' + ', '.join(spec['oracles'])) if spec['oracles'] else ''))
        note = ('Trusted: Coq kernel (vm_compute); hand-written model validated by the correspondence check (bounded by generated configurations '
                'and history lengths); extraction with ExtrOcamlBasic only, cross-checked by the kernel-evaluated cases; hypotheses collision_free H / ek_wf / '
                'umap_lawful are premises of theorems (discharged for the concrete instances), never axioms.' + EXTRA_NOTE.get(p, ''))
        checks.append(dict(
            property_id=p, quick_cmd='./check %s --tier quick' % p, thorough_cmd='./check %s --tier thorough' % p,
            evidence_file='/verif/evidence/%s.json' % p, replay_cmd_template='./check --replay {path}',
            engine='coq-model+correspondence',
            level_claimed=dict(category='proof', text=text, design_ref='DESIGN.md section 6 (%s), sections 3-5, 14' % p),
            level_note=note,
            technique='machine-checked proof in Coq (induction/invariants/refinement over a Gallina model) + model-vs-implementation '
                      'correspondence check (extracted model at volume, kernel-evaluated sample) + oracle-directed failing-input search'))
    old['checks'] = checks
    old['not_applicable'] = []
    old['engines'][0]['kind_free_text'] = ('Coq 8.16 development (model incl. Gallina SHA-256, proofs, pinned property theorems), extracted OCaml model driver, '
                                           'kernel-evaluated cases, Rust harness over the real crate (isolated, watchdog, fault injection), Python orchestrator with '
                                           'generators (16 scenario families + small-scope enumeration) and independent oracles')
    old['notes'] = ('Seven genuine defects (F1-F7) were found and repaired in /repo by `fix:` commits; see /verif/known_findings.json and DESIGN.md sections 11 and 14. An eighth (F8: List::bulk_update trusts the max_index of a MaxMap that was filled through get_mut_with/get_cow_with) is recorded as a known finding, not repaired: the C15 check prints KNOWN-FINDING for it and exits 0 (DESIGN.md 14.3). '
                    'VERIF_REPO=<dir> (used only by tools/seedeval.py) points a check at a scratch checkout instead of /repo.')
    json.dump(old, open('/verif/MANIFEST.json', 'w'), indent=1)
    print('MANIFEST.json: %d checks' % len(checks))


if __name__ == '__main__':
    main()
