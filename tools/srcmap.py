#!/usr/bin/env python3
"""Function-level alignment between the Rust source and the hand-written Gallina model.

The model (coq/theories/model/*.v) mirrors milhouse function by function (DESIGN.md 3.3). This tool makes that
mirror explicit and checkable:

  srcmap.py record     fingerprints every `fn` of /repo/src/*.rs (comments, whitespace and `#[cfg(feature = "verif")]`
                       hooks removed) and writes coq/SRCMAP.json: rust function -> fingerprint -> the model definitions
                       that mirror it (table MIRROR below).  Run when the model has been (re)aligned with the source.
  srcmap.py status     compares the current source with the recorded fingerprints and prints what changed.

`status()` is called by tools/check.py on every run. It never raises an alarm by itself (a changed function is not a
violated property); it is used (a) to state in the evidence which functions the model was aligned with and which have
changed since, (b) to verify that every model definition named in the table still exists in the Coq sources, and
(c) to *intensify* the correspondence and the failing-input search when the source is no longer the one the model was
aligned with (more seeds, more kernel-evaluated cases) - on the unchanged tree the fingerprints match and nothing is added.
"""
import os, re, sys, json, hashlib, glob

ROOT = '/verif'
MAPFILE = ROOT + '/coq/SRCMAP.json'
MODEL_DIR = ROOT + '/coq/theories/model'

# rust function (file::[Type::]name) -> model definitions (File.name) that mirror it.  `None` = deliberately not modelled
# (reason given).  A function of the source that appears in neither is reported as `unmapped`.
MIRROR = {
    # utils.rs
    'utils.rs::int_log': ['Base.int_log', 'Base.int_log_aux'],
    'utils.rs::opt_packing_factor': ['Elem.pf_of'],
    'utils.rs::opt_packing_depth': ['Elem.pd_of'],
    'utils.rs::opt_hash': None,                       # only used by MutList::update's hash_updates argument (out of scope, DESIGN 10)
    'utils.rs::compute_level': ['Base.compute_level'],
    'utils.rs::updated_length': ['Coll.updated_length'],
    'utils.rs::max_btree_index': ['UMap.bt_max'],
    'utils.rs::arb_arc': None, 'utils.rs::arb_rwlock': None,    # Arbitrary support (out of scope)
    'utils.rs::Length::as_mut': ['Coll.apply_updates'], 'utils.rs::Length::as_usize': ['Coll.iface_len'],
    # tree.rs
    'tree.rs::Tree::empty': ['Repeat.mk_zero'], 'tree.rs::Tree::zero': ['Repeat.mk_zero'], 'tree.rs::Tree::zero_unboxed': ['Repeat.mk_zero'],
    'tree.rs::Tree::node': ['Repeat.mk_node'], 'tree.rs::Tree::node_unboxed': ['Repeat.mk_node'],
    'tree.rs::Tree::leaf': ['TreeOps.with_updated_leaf'], 'tree.rs::Tree::leaf_unboxed': ['Builder.builder_push'],
    'tree.rs::Tree::leaf_with_hash': None,            # hash_updates path (out of scope)
    'tree.rs::Tree::clone': None,                     # the collections clone Arcs only; Clone for Tree is not reachable through them
    # (PartialEq of Tree/Leaf/PackedLeaf is derived: no fn item; mirrored by Tree.tree_eqb / stree_eqb / list_eqb)
    'tree.rs::zero_hash': ['Tree.zh'],
    'tree.rs::Tree::get_recursive': ['TreeOps.get_rec'],
    'tree.rs::Tree::with_updated_leaf': ['TreeOps.with_updated_leaf'],
    'tree.rs::Tree::with_updated_leaves': ['TreeOps.with_updated_leaves', 'TreeOps.has_updates'],
    'tree.rs::Tree::compute_len': ['Tree.compute_len'],
    'tree.rs::Tree::rebase_on': ['Rebase.rebase_on'],
    'tree.rs::Tree::intra_rebase': ['Rebase.intra_rebase', 'Rebase.known_get'],
    'tree.rs::Tree::tree_hash': ['Rebase.tree_hash', 'Tree.zh'],
    
    # leaf.rs / packed_leaf.rs
    'leaf.rs::Leaf::new': ['TreeOps.with_updated_leaf'], 'leaf.rs::Leaf::with_hash': None, 'leaf.rs::Leaf::clone': None,
    
    'packed_leaf.rs::PackedLeaf::clone': None, 
    'packed_leaf.rs::PackedLeaf::tree_hash': ['Rebase.tree_hash', 'Tree.chunk_of'],
    'packed_leaf.rs::PackedLeaf::empty': ['Builder.builder_push'], 'packed_leaf.rs::PackedLeaf::single': ['TreeOps.with_updated_leaf'],
    'packed_leaf.rs::PackedLeaf::repeat': ['Repeat.packed_repeat'],
    'packed_leaf.rs::PackedLeaf::insert_at_index': ['TreeOps.insert_mut'], 'packed_leaf.rs::PackedLeaf::update': ['TreeOps.packed_update', 'TreeOps.insert_all'],
    'packed_leaf.rs::PackedLeaf::insert_mut': ['TreeOps.insert_mut'], 'packed_leaf.rs::PackedLeaf::push': ['Builder.builder_push'],
    
    # builder.rs
    'builder.rs::Builder::new': ['Builder.builder_new'], 'builder.rs::Builder::push': ['Builder.builder_push', 'Builder.merge_n'],
    'builder.rs::Builder::push_node': ['Builder.builder_push_node', 'Builder.merge_n'],
    'builder.rs::Builder::finish': ['Builder.builder_finish', 'Builder.finish_loop', 'Builder.merge_up'],
    'utils.rs::MaybeArced::arced': ['Builder.merge_n'],
    # iter.rs / level_iter.rs / interface_iter.rs
    'iter.rs::Iter::from_index': ['Iter.iter_from_index'], 'iter.rs::Iter::next': ['Iter.iter_next'], 'iter.rs::Iter::size_hint': ['Iter.iter_size_hint'],
    'level_iter.rs::LevelIter::from_index': ['Iter.liter_from_index'], 'level_iter.rs::LevelIter::next': ['Iter.liter_next', 'Iter.liter_jump', 'Iter.liter_set'],
        'interface_iter.rs::InterfaceIter::next': ['Coll.iiter_next'], 'interface_iter.rs::InterfaceIter::size_hint': ['Coll.iiter_hint'],
    'interface_iter.rs::InterfaceIterCow::next_cow': ['Coll.iter_cow_run'],
    # update_map.rs / cow.rs
    'update_map.rs::BTreeMap::get': ['UMap.bt_get'], 'update_map.rs::BTreeMap::get_mut_with': ['UMap.btmap_impl'],
    'update_map.rs::BTreeMap::get_cow_with': ['UMap.btmap_impl'], 'update_map.rs::BTreeMap::insert': ['UMap.bt_insert'],
    'update_map.rs::BTreeMap::for_each_range': ['UMap.bt_range'], 'update_map.rs::BTreeMap::max_index': ['UMap.bt_max'],
    'update_map.rs::BTreeMap::len': ['UMap.btmap_impl'],
    'update_map.rs::VecMap::get': ['UMap.vm_get'], 'update_map.rs::VecMap::get_mut_with': ['UMap.vecmap_impl'],
    'update_map.rs::VecMap::get_cow_with': ['UMap.vecmap_impl'], 'update_map.rs::VecMap::insert': ['UMap.vm_insert'],
    'update_map.rs::VecMap::for_each_range': ['UMap.vm_range', 'UMap.vm_range_aux'], 'update_map.rs::VecMap::max_index': ['UMap.vm_max_aux'],
    'update_map.rs::VecMap::len': ['UMap.vm_len'],
    'update_map.rs::MaxMap::get': ['UMap.maxmap_impl'], 'update_map.rs::MaxMap::get_mut_with': ['UMap.maxmap_impl'],
    'update_map.rs::MaxMap::get_cow_with': ['UMap.maxmap_impl'], 'update_map.rs::MaxMap::insert': ['UMap.maxmap_impl'],
    'update_map.rs::MaxMap::for_each_range': ['UMap.maxmap_impl'], 'update_map.rs::MaxMap::max_index': ['UMap.maxmap_impl'],
    'update_map.rs::MaxMap::len': ['UMap.maxmap_impl'],
    'update_map.rs::UpdateMap::is_empty': ['UMap.uis_empty'],
    'cow.rs::Cow::deref': ['Coll.write_entry'], 'cow.rs::Cow::into_mut': ['Coll.write_entry'],
    'cow.rs::Cow::make_mut': ['Coll.write_entry'], 'cow.rs::BTreeCow::deref': ['Coll.write_entry'], 'cow.rs::BTreeCow::into_mut': ['Coll.write_entry'],
    'cow.rs::BTreeCow::make_mut': ['Coll.write_entry'], 'cow.rs::VecCow::deref': ['Coll.write_entry'], 'cow.rs::VecCow::into_mut': ['Coll.write_entry'],
    'cow.rs::VecCow::make_mut': ['Coll.write_entry'], 
    # interface.rs
    'interface.rs::ImmList::is_empty': ['Coll.iface_len'],
    'interface.rs::Interface::new': ['Coll.from_parts'], 'interface.rs::Interface::get': ['Coll.iface_get', 'Coll.backing_get'],
    'interface.rs::Interface::get_mut': ['Coll.iface_get_mut'], 'interface.rs::Interface::get_cow': ['Coll.write_entry'],
    'interface.rs::Interface::push': ['Coll.iface_push', 'Coll.validate_push'], 'interface.rs::Interface::apply_updates': ['Coll.apply_updates'],
    'interface.rs::Interface::has_pending_updates': ['Coll.has_pending'], 'interface.rs::Interface::iter': ['Coll.iface_iter_from'],
    'interface.rs::Interface::iter_from': ['Coll.iface_iter_from'], 'interface.rs::Interface::iter_cow': ['Coll.coll_iter_cow'],
    'interface.rs::Interface::level_iter_from': ['Coll.list_level_iter_from'], 'interface.rs::Interface::len': ['Coll.iface_len', 'Coll.updated_length'],
    'interface.rs::Interface::is_empty': ['Coll.iface_len'], 'interface.rs::Interface::bulk_update': ['Coll.iface_bulk_update', 'Coll.bulk_walk'],
    # repeat.rs / serde.rs
    'repeat.rs::repeat_list': ['Repeat.repeat_tree', 'Repeat.repeat_layers', 'Repeat.repeat_step'],
    'serde.rs::ListVisitor::expecting': None, 'serde.rs::ListVisitor::default': None, 'serde.rs::ListVisitor::visit_seq': ['Coll.list_serde_de'],
    # list.rs
    'list.rs::List::new': ['Coll.list_try_from_iter'], 'list.rs::List::from_parts': ['Coll.from_parts'], 'list.rs::List::empty': ['Coll.list_empty'],
    'list.rs::List::repeat': ['Coll.list_repeat'], 'list.rs::List::repeat_slow': ['Coll.list_repeat_slow'], 'list.rs::List::builder': ['Builder.builder_new'],
    'list.rs::List::try_from_iter': ['Coll.list_try_from_iter', 'Coll.push_all'], 'list.rs::List::try_from_iter_slow': ['Coll.list_try_from_iter_slow', 'Coll.push_all_iface'],
    'list.rs::List::to_vec': ['Coll.to_vec'], 'list.rs::List::iter': ['Coll.coll_iter_from'], 'list.rs::List::iter_from': ['Coll.coll_iter_from'],
    'list.rs::List::level_iter_from': ['Coll.list_level_iter_from'], 'list.rs::List::iter_cow': ['Coll.coll_iter_cow'],
    'list.rs::List::get': ['Coll.iface_get'], 'list.rs::List::get_mut': ['Coll.iface_get_mut'], 'list.rs::List::get_cow': ['Coll.write_entry'],
    'list.rs::List::push': ['Coll.iface_push'], 'list.rs::List::len': ['Coll.iface_len'], 'list.rs::List::is_empty': ['Coll.iface_len'],
    'list.rs::List::has_pending_updates': ['Coll.has_pending'], 'list.rs::List::apply_updates': ['Coll.apply_updates'],
    'list.rs::List::bulk_update': ['Coll.iface_bulk_update'], 'list.rs::List::depth': ['Coll.list_depth'],
    'list.rs::List::pop_front_slow': ['Coll.list_pop_front_slow'], 'list.rs::List::pop_front': ['Coll.list_pop_front', 'Coll.pop_front_feed'],
    'list.rs::ListInner::get': ['Coll.backing_get'], 'list.rs::ListInner::len': ['Coll.iface_len'], 'list.rs::ListInner::iter_from': ['Iter.iter_from_index'],
    'list.rs::ListInner::level_iter_from': ['Iter.liter_from_index'], 'list.rs::ListInner::validate_push': ['Coll.validate_push'],
    'list.rs::ListInner::replace': None,              # MutList::replace: no public operation of the collections calls it
    'list.rs::ListInner::update': ['Coll.apply_updates'],
    'list.rs::List::rebase': ['Coll.coll_rebase_on'], 'list.rs::List::rebase_on': ['Coll.coll_rebase_on'], 'list.rs::List::intra_rebase': ['Coll.coll_intra_rebase'],
    'list.rs::List::default': ['Coll.list_empty'], 'list.rs::List::tree_hash_type': None, 'list.rs::List::tree_hash_packed_encoding': None,
    'list.rs::List::tree_hash_packing_factor': None, 'list.rs::List::tree_hash_root': ['Coll.coll_tree_hash_root'],
    'list.rs::List::into_iter': ['Coll.coll_iter_from'], 'list.rs::List::serialize': ['Coll.serde_ser'], 'list.rs::List::deserialize': ['Coll.list_serde_de'],
    'list.rs::List::is_ssz_fixed_len': ['Coll.coll_is_ssz_fixed'], 'list.rs::List::ssz_bytes_len': ['Coll.ssz_bytes_len'], 'list.rs::List::ssz_append': ['Coll.ssz_encode', 'Coll.var_offsets'],
    'list.rs::List::from_ssz_bytes': ['Coll.list_from_ssz', 'Coll.decode_chunks', 'Coll.decode_var_list'],
    # vector.rs
    'vector.rs::Vector::new': ['Coll.vector_new'], 'vector.rs::Vector::from_elem': ['Coll.vector_from_elem'], 'vector.rs::Vector::try_from_iter': ['Coll.vector_try_from_iter'],
    'vector.rs::Vector::to_vec': ['Coll.to_vec'], 'vector.rs::Vector::iter': ['Coll.coll_iter_from'], 'vector.rs::Vector::iter_from': ['Coll.coll_iter_from'],
    'vector.rs::Vector::get': ['Coll.iface_get'], 'vector.rs::Vector::get_mut': ['Coll.iface_get_mut'], 'vector.rs::Vector::get_cow': ['Coll.write_entry'],
    'vector.rs::Vector::len': ['Coll.iface_len'], 'vector.rs::Vector::is_empty': ['Coll.iface_len'], 'vector.rs::Vector::has_pending_updates': ['Coll.has_pending'],
    'vector.rs::Vector::apply_updates': ['Coll.apply_updates'], 'vector.rs::Vector::try_from': ['Coll.vector_try_from'],
    'vector.rs::Vector::rebase': ['Coll.coll_rebase_on'], 'vector.rs::Vector::rebase_on': ['Coll.coll_rebase_on'], 'vector.rs::Vector::intra_rebase': ['Coll.coll_intra_rebase'],
    'vector.rs::List::from': ['Coll.list_from_vector'],
    'vector.rs::VectorInner::get': ['Coll.backing_get'], 'vector.rs::VectorInner::len': ['Coll.iface_len'], 'vector.rs::VectorInner::iter_from': ['Iter.iter_from_index'],
    'vector.rs::VectorInner::level_iter_from': ['Iter.liter_from_index'], 'vector.rs::VectorInner::validate_push': ['Coll.validate_push'],
    'vector.rs::VectorInner::replace': None, 'vector.rs::VectorInner::update': ['Coll.apply_updates'],
    'vector.rs::Vector::default': ['Coll.vector_default'], 'vector.rs::Vector::tree_hash_type': None, 'vector.rs::Vector::tree_hash_packed_encoding': None,
    'vector.rs::Vector::tree_hash_packing_factor': None, 'vector.rs::Vector::tree_hash_root': ['Coll.coll_tree_hash_root'],
    'vector.rs::Vector::into_iter': ['Coll.coll_iter_from'],
    'vector.rs::Vector::is_ssz_fixed_len': ['Coll.coll_is_ssz_fixed'], 'vector.rs::Vector::ssz_fixed_len': ['Coll.coll_ssz_fixed_len'],
    'vector.rs::Vector::ssz_bytes_len': ['Coll.ssz_bytes_len'], 'vector.rs::Vector::ssz_append': ['Coll.ssz_encode'],
    'vector.rs::Vector::from_ssz_bytes': ['Coll.vector_from_ssz'],
    'error.rs::Error::fmt': None,
}


def strip(src):
    """remove comments, string/char literals' contents are kept (they do not contain braces that matter here)"""
    src = re.sub(r'/\*.*?\*/', ' ', src, flags=re.S)
    src = re.sub(r'//[^\n]*', ' ', src)
    return src


def drop_cfg_items(src):
    """remove #[cfg(test)] modules and #[cfg(feature = "verif")] items / impl blocks (hooks are not behaviour)"""
    out, i = [], 0
    pat = re.compile(r'#\[cfg\((test|feature\s*=\s*"verif"|feature\s*=\s*"arbitrary")\)\]')
    while True:
        m = pat.search(src, i)
        if not m:
            out.append(src[i:])
            break
        out.append(src[i:m.start()])
        j = m.end()
        # skip further attributes, then one item: up to the matching close brace of the first `{`, or to `;`
        k = j
        depth = 0
        while k < len(src):
            c = src[k]
            if c == '{':
                depth += 1
            elif c == '}':
                depth -= 1
                if depth == 0:
                    k += 1
                    break
            elif c == ';' and depth == 0:
                k += 1
                break
            k += 1
        i = k
    return ''.join(out)


def functions(path):
    """-> {qualified name: normalised text} for every fn (with a body) of one source file"""
    src = drop_cfg_items(strip(open(path).read()))
    base = os.path.basename(path)
    res = {}
    # contexts: stack of (brace depth at which the impl/trait body opened, type name)
    ctx = []
    depth = 0
    i = 0
    tok = re.compile(r'\b(impl|trait|fn)\b|[{}]')
    while True:
        m = tok.search(src, i)
        if not m:
            break
        t = m.group(0)
        if t == '{':
            depth += 1
            i = m.end()
        elif t == '}':
            depth -= 1
            while ctx and ctx[-1][0] > depth:
                ctx.pop()
            i = m.end()
        elif t in ('impl', 'trait'):
            j = src.find('{', m.end())
            semi = src.find(';', m.end())
            if j < 0 or (0 <= semi < j and t == 'trait'):
                i = m.end()
                continue
            head = src[m.end():j]
            head = re.sub(r'\bwhere\b.*', '', head, flags=re.S)
            if t == 'impl':
                head = re.sub(r'^\s*<[^{]*?>\s+(?=[A-Za-z\'&])', '', head, count=1) if head.lstrip().startswith('<') else head
                # generic parameter list may nest: remove a balanced <...> prefix
                h = head.lstrip()
                if h.startswith('<'):
                    d, k = 0, 0
                    for k, c in enumerate(h):
                        d += c == '<'
                        d -= c == '>'
                        if d == 0:
                            break
                    h = h[k + 1:]
                if ' for ' in h:
                    h = h.split(' for ', 1)[1]
                name = re.match(r"\s*&?\s*(?:'\w+\s+)?(\w+)", h)
                name = name.group(1) if name else '?'
            else:
                name = re.match(r'\s*(\w+)', head).group(1)
            depth += 1
            ctx.append((depth, name))
            i = j + 1
        else:  # fn
            nm = re.match(r'\s+(\w+)', src[m.end():])
            if not nm:
                i = m.end()
                continue
            j = src.find('{', m.end())
            semi = src.find(';', m.end())
            if j < 0 or (0 <= semi < j):
                i = m.end()      # a declaration without body
                continue
            d, k = 0, j
            while k < len(src):
                d += src[k] == '{'
                d -= src[k] == '}'
                if d == 0:
                    break
                k += 1
            text = re.sub(r'\s+', ' ', src[m.start():k + 1]).strip()
            text = re.sub(r'\s*([{}()\[\];,<>=+\-*/&|!:.?])\s*', r'\1', text)
            q = '%s::%s%s' % (base, (ctx[-1][1] + '::') if ctx else '', nm.group(1))
            if q in res:
                res[q] += '\n' + text
            else:
                res[q] = text
            i = k + 1
    return res


def fingerprints(repo):
    fp = {}
    for p in sorted(glob.glob(repo + '/src/*.rs')):
        if os.path.basename(p) in ('lib.rs',):
            continue
        for q, text in functions(p).items():
            fp[q] = hashlib.sha256(text.encode()).hexdigest()[:16]
    return fp


def model_defs():
    defs = set()
    for p in glob.glob(MODEL_DIR + '/*.v'):
        mod = os.path.basename(p)[:-2]
        for m in re.finditer(r'^\s*(?:Definition|Fixpoint|Record|Inductive)\s+([A-Za-z_0-9\']+)', open(p).read(), re.M):
            defs.add('%s.%s' % (mod, m.group(1)))
    return defs


def record(repo='/repo'):
    fp = fingerprints(repo)
    head = os.popen('git -C %s rev-parse --short HEAD 2>/dev/null' % repo).read().strip()
    entries = {}
    for q in sorted(fp):
        entries[q] = dict(fp=fp[q], model=MIRROR.get(q, 'UNMAPPED'))
    json.dump(dict(aligned_with_commit=head, functions=entries), open(MAPFILE, 'w'), indent=1)
    return entries


def status(repo='/repo'):
    """-> dict(aligned, total, changed, removed, added, unmapped, coq_missing, modelled)"""
    rec = json.load(open(MAPFILE))
    cur = fingerprints(repo)
    fns = rec['functions']
    changed = sorted(q for q in fns if q in cur and cur[q] != fns[q]['fp'])
    removed = sorted(q for q in fns if q not in cur)
    added = sorted(q for q in cur if q not in fns)
    defs = model_defs()
    coq_missing = sorted({d for q in fns for d in (fns[q]['model'] or []) if fns[q]['model'] != 'UNMAPPED' and d not in defs})
    unmapped = sorted(q for q in fns if fns[q]['model'] == 'UNMAPPED')
    modelled = sum(1 for q in fns if fns[q]['model'] not in (None, 'UNMAPPED'))
    affected = sorted({d for q in changed + removed for d in ((fns[q]['model'] or []) if fns[q]['model'] != 'UNMAPPED' else [])})
    return dict(aligned_with_commit=rec.get('aligned_with_commit'), total=len(fns), modelled=modelled,
                deliberately_unmodelled=sum(1 for q in fns if fns[q]['model'] is None),
                aligned=len(fns) - len(changed) - len(removed), changed=changed, removed=removed, added=added,
                unmapped=unmapped, coq_missing=coq_missing, model_definitions_affected=affected)


if __name__ == '__main__':
    cmd = sys.argv[1] if len(sys.argv) > 1 else 'status'
    repo = os.environ.get('VERIF_REPO', '/repo')
    if cmd == 'record':
        e = record(repo)
        un = [q for q in e if e[q]['model'] == 'UNMAPPED']
        stale = [q for q in MIRROR if q not in e]
        print('%d functions recorded; unmapped: %s; table entries without a source function: %s' % (len(e), un, stale))
        s = status(repo)
        print('model definitions named in the table but missing in coq/theories/model:', s['coq_missing'])
    else:
        print(json.dumps(status(repo), indent=1))
