#!/bin/bash
# usage: seedverify.sh Cxx  — confirm the seeded changes of /tmp/mut/Cxx.out/{a,b,alt} in the scratch worktree /tmp/mut/Cxx
P=$1; W=/tmp/mut/$P; O=/tmp/mut/$P.out
HEAD=$(git -C /repo rev-parse HEAD)
git -C $W checkout -q --detach $HEAD 2>/dev/null; git -C $W checkout -q -- . ; git -C $W clean -qfd -e target
for v in ${VARIANTS:-a b alt c d e f g h i j}; do
  [ -f $O/$v/patch.diff ] || continue
  R=$O/$v/verify.txt; : > $R
  cd $W
  if ! git apply --check $O/$v/patch.diff 2>>$R; then echo "APPLY=fail" >> $R; continue; fi
  echo "APPLY=ok" >> $R
  mkdir -p tests; cp $O/$v/demo.rs tests/demo_$v.rs
  FEAT=""; grep -q "verif_" tests/demo_$v.rs && FEAT="--features verif"
  if timeout 1500 cargo test --offline $FEAT --test demo_$v >/tmp/mut/$P.$v.clean.log 2>&1; then echo "DEMO_CLEAN=pass" >> $R; else echo "DEMO_CLEAN=fail" >> $R; fi
  git apply $O/$v/patch.diff
  if timeout 1500 cargo test --offline $FEAT --test demo_$v >/tmp/mut/$P.$v.patched.log 2>&1; then echo "DEMO_PATCHED=pass" >> $R; else echo "DEMO_PATCHED=fail" >> $R; fi
  rm -f tests/demo_$v.rs
  if timeout 3000 cargo test --workspace --no-fail-fast --offline >/tmp/mut/$P.$v.suite.log 2>&1; then echo "SUITE=pass $(grep -o '[0-9]* passed' /tmp/mut/$P.$v.suite.log | head -1)" >> $R; else echo "SUITE=fail $(grep -o '[0-9]* passed; [0-9]* failed' /tmp/mut/$P.$v.suite.log | head -1)" >> $R; fi
  git checkout -q -- . ; git clean -qfd -e target
done
