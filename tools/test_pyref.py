#!/usr/bin/env python3
"""Unit checks for pyref.py (plain asserts): `python3 test_pyref.py`.

Small histories covering every operation of docs/FORMAT.md, every error case of docs/SPEC.md,
the `?` wildcard and check_trace."""

import hashlib

import pyref
import ssz_ref
from pyref import History, Mismatch, check_trace, match_line, parse_histories, predict


def u64(n):
    return n.to_bytes(8, "little").hex()


def sha(data):
    return hashlib.sha256(data).digest()


def run(kind, n, ops):
    """Predict a history given as a list of op lines; returns (results, o_lines_per_op)."""
    history = History(0, kind, n, "max", list(ops))
    results, views = [], []
    for op in pyref.predict_ops(history):
        assert op.r_line.startswith("R %d " % op.n)
        results.append(op.r_line.split(" ", 2)[2])
        views.append(op.o_lines)
    return results, views


def results(kind, n, ops):
    return run(kind, n, ops)[0]


A, B, C, D, E = u64(1), u64(2), u64(3), u64(4), u64(5)
L3 = "%s,%s,%s" % (A, B, C)


def test_parse():
    text = "# comment\n\nconfig u64 8 max\nempty h0\n  push   h0  %s \nconfig var 4 bt\nlen h1\n" % A
    hs = parse_histories(text)
    assert len(hs) == 2
    assert (hs[0].idx, hs[0].kind, hs[0].n, hs[0].map) == (0, "u64", 8, "max")
    assert hs[0].ops == ["empty h0", "push h0 " + A]
    assert (hs[1].idx, hs[1].kind, hs[1].n, hs[1].map) == (1, "var", 4, "bt")
    assert pyref.header(hs[1]) == "H 1 var 4 bt"
    for bad in ("empty h0\n", "config u65 8 max\n", "config u64 x max\n", "config u64 8 hash\n",
                "config u64 8\n", "config u64 0 max\n"):
        try:
            parse_histories(bad)
            raise AssertionError("should not parse: %r" % bad)
        except pyref.HistoryError:
            pass
    for bad_op in ("frobnicate h0", "push h0", "push h9 " + A, "push h0 01", "get h0 -1",
                   "get h0 18446744073709551616", "push h0 0X00000000000000AA", "bulk h0 1"):
        try:
            predict(History(0, "u64", 8, "max", [bad_op]))
            raise AssertionError("should not parse: %r" % bad_op)
        except pyref.HistoryError:
            pass
    # usize::MAX is a legal integer
    assert results("u64", 8, ["empty h0", "get h0 18446744073709551615"])[1] == "ok:none"


def test_o_lines():
    res, views = run("u64", 8, ["new_list h2 " + L3, "empty h0", "set h2 0 " + E])
    assert res == ["ok", "ok", "ok:some"]
    assert views[0] == ["O h2 L len=3 empty=0 pend=0 vals=%s gets=%s,none,none" % (L3, L3)]
    assert views[1] == [
        "O h0 L len=0 empty=1 pend=0 vals=- gets=none,none",
        "O h2 L len=3 empty=0 pend=0 vals=%s gets=%s,none,none" % (L3, L3),
    ]
    new = "%s,%s,%s" % (E, B, C)
    assert views[2][1] == "O h2 L len=3 empty=0 pend=1 vals=%s gets=%s,none,none" % (new, new)
    # var: the empty value is `.`; vectors are `V`
    res, views = run("var", 2, ["new_vec h1 .,0102"])
    assert views[0] == ["O h1 V len=2 empty=0 pend=0 vals=.,0102 gets=.,0102,none,none"]
    # len > 4096 => big
    res, views = run("u8", 2**40, ["repeat h0 07 4097", "repeat h1 07 4096"])
    assert views[0] == ["O h0 L len=4097 empty=0 pend=0 vals=big gets=big"]
    assert views[1][1].startswith("O h1 L len=4096 empty=0 pend=0 vals=07,07,")
    # full predict() output order
    lines = predict(History(0, "u64", 8, "max", ["empty h0", "len h0"]))
    assert lines == ["R 1 ok", "O h0 L len=0 empty=1 pend=0 vals=- gets=none,none",
                     "R 2 ok:0", "O h0 L len=0 empty=1 pend=0 vals=- gets=none,none"]


def test_constructors():
    four = ",".join([A, B, C, D])
    five = ",".join([A, B, C, D, E])
    # new_list: N = 3 but the tree capacity is 4: both 4 and 5 elements are BuilderFull
    assert results("u64", 3, ["new_list h0 " + L3, "new_list h0 " + four, "new_list h0 " + five,
                              "new_list h1 -", "len h0"]) == [
        "ok", "err:BuilderFull", "err:BuilderFull", "ok", "ok:3"]
    # a failing constructor leaves the destination unchanged (here: still empty => badreg)
    assert results("u64", 3, ["new_list h0 " + four, "len h0"]) == ["err:BuilderFull", "err:badreg"]
    assert results("u64", 3, ["new_vec h0 " + L3, "new_vec h1 %s,%s" % (A, B), "new_vec h1 " + four,
                              "new_vec h1 -", "len h1"]) == [
        "ok", "err:WrongVectorLength{len:2,expected:3}", "err:WrongVectorLength{len:4,expected:3}",
        "err:WrongVectorLength{len:0,expected:3}", "err:badreg"]
    assert results("u64", 3, ["list_slow h0 " + L3, "list_slow h1 " + four, "list_slow h1 " + five]) == [
        "ok", "err:ListFull{len:3}", "err:ListFull{len:3}"]
    assert results("u64", 3, ["vec_iter h0 " + L3, "vec_iter h1 " + four, "vec_iter h1 " + A]) == [
        "ok", "err:BuilderFull", "err:WrongVectorLength{len:1,expected:3}"]
    res, views = run("u64", 3, ["empty h0", "default_vec h1", "from_elem h2 " + E])
    assert res == ["ok", "ok", "ok"]
    z = u64(0)
    assert views[2] == [
        "O h0 L len=0 empty=1 pend=0 vals=- gets=none,none",
        "O h1 V len=3 empty=0 pend=0 vals=%s,%s,%s gets=%s,%s,%s,none,none" % ((z,) * 6),
        "O h2 V len=3 empty=0 pend=0 vals=%s,%s,%s gets=%s,%s,%s,none,none" % ((E,) * 6),
    ]
    res, views = run("var", 2, ["default_vec h0"])
    assert views[0] == ["O h0 V len=2 empty=0 pend=0 vals=.,. gets=.,.,none,none"]
    for name in ("repeat", "repeat_slow"):
        res, views = run("u8", 5, ["%s h0 07 5" % name, "%s h1 07 6" % name, "%s h1 07 0" % name,
                                   "%s h2 07 18446744073709551615" % name])
        assert res == ["ok", "err:BuilderFull", "ok", "err:BuilderFull"]
        assert views[2][0] == "O h0 L len=5 empty=0 pend=0 vals=07,07,07,07,07 gets=07,07,07,07,07,none,none"
        assert views[2][1] == "O h1 L len=0 empty=1 pend=0 vals=- gets=none,none"


def test_ssz_and_serde():
    enc = A + B
    assert results("u64", 2, ["ssz_list h0 " + enc, "ssz_list h1 .", "ssz_list h2 " + enc + C,
                              "ssz_list h2 " + enc[:-2], "len h0", "len h1", "len h2"]) == [
        "ok", "ok", "err:decode", "err:decode", "ok:2", "ok:0", "err:badreg"]
    assert results("u64", 2, ["ssz_vec h0 " + enc, "ssz_vec h1 " + A, "ssz_vec h1 .",
                              "ssz_vec h1 " + enc + C, "len h1"]) == [
        "ok", "err:decode", "err:decode", "err:decode", "err:badreg"]
    res, views = run("u64", 2, ["ssz_vec h0 " + enc])
    assert views[0] == ["O h0 V len=2 empty=0 pend=0 vals=%s,%s gets=%s,%s,none,none" % (A, B, A, B)]
    # variable-size elements
    good = "0c0000000d0000000d000000010203"  # [01, ., 0203]
    res, views = run("var", 4, ["ssz_list h0 " + good, "ssz_enc h0"])
    assert res == ["ok", "ok:%s|15" % good]
    assert views[0] == ["O h0 L len=3 empty=0 pend=0 vals=01,.,0203 gets=01,.,0203,none,none"]
    assert results("var", 4, [
        "ssz_list h0 0c0000000d0000000c000000010203",  # decreasing offsets
        "ssz_list h0 0c0000000d00000010000000010203",  # offset beyond the end
        "ssz_list h0 0300000001",                      # first offset not a multiple of 4
        "ssz_list h0 00000000",                        # first offset < 4
        "ssz_list h0 08000000",                        # first offset beyond the end
        "ssz_list h0 040000",                          # first offset unreadable
        "ssz_list h0 040000000102030405",              # element longer than 4 bytes
        "ssz_list h0 0800000007000000",                # offset into the offset table
        "ssz_list h0 04000000",                        # one empty element
    ]) == ["err:decode"] * 8 + ["ok"]
    assert results("var", 2, ["ssz_list h0 0c0000000d0000000d000000010203"]) == ["err:decode"]
    assert results("var", 3, ["ssz_vec h0 0c0000000d0000000d000000010203",
                              "ssz_vec h1 04000000", "ssz_vec h1 ."]) == ["ok", "err:decode", "err:decode"]
    # serde
    assert results("u64", 2, ["serde_list h0 %s,%s" % (A, B), "serde_list h1 -",
                              "serde_list h2 " + L3, "serde_ser h0", "serde_ser h1", "serde_ser h2"]) == [
        "ok", "ok", "err:serde", "ok:%s,%s" % (A, B), "ok:-", "err:badreg"]
    assert results("u64", 2, ["serde_vec h0 %s,%s" % (A, B), "serde_vec h1 " + A,
                              "serde_vec h1 " + L3, "serde_ser h0"]) == [
        "ok", "err:serde", "err:serde", "ok:%s,%s" % (A, B)]
    # ssz_enc of fixed-size and of an empty collection
    assert results("u64", 4, ["new_list h0 " + L3, "ssz_enc h0", "empty h1", "ssz_enc h1"]) == [
        "ok", "ok:%s|24" % (A + B + C), "ok", "ok:.|0"]


def test_reads():
    assert results("u64", 8, ["new_list h0 " + L3, "get h0 0", "get h0 2", "get h0 3", "len h0",
                              "cow_read h0 1", "cow_read h0 3"]) == [
        "ok", "ok:" + A, "ok:" + C, "ok:none", "ok:3", "ok:" + B, "ok:none"]
    assert results("var", 8, ["new_list h0 .,01", "get h0 0", "cow_read h0 0"]) == ["ok", "ok:.", "ok:."]
    assert results("u64", 8, ["new_list h0 " + L3, "iter_from h0 0", "iter_from h0 2",
                              "iter_from h0 3", "iter_from h0 4"]) == [
        "ok", "ok:%s|3,2,1,0" % L3, "ok:%s|1,0" % C, "ok:-|0",
        "err:OutOfBoundsIterFrom{index:4,len:3}"]
    # iter_from sees pending writes, on vectors too
    assert results("u64", 3, ["new_vec h0 " + L3, "set h0 1 " + E, "iter_from h0 1",
                              "iter_from h0 18446744073709551615"]) == [
        "ok", "ok:some", "ok:%s,%s|2,1,0" % (E, C),
        "err:OutOfBoundsIterFrom{index:18446744073709551615,len:3}"]
    # eq: clean => extensional; dirty => not predicted; kinds must agree
    assert results("u64", 3, [
        "new_list h0 " + L3, "list_slow h1 " + L3, "new_list h2 %s,%s" % (A, B), "new_vec h3 " + L3,
        "eq h0 h1", "eq h0 h2", "eq h0 h3", "eq h0 h4", "eq h4 h0", "eq h3 h3",
        "touch h1 0", "eq h0 h1", "eq h1 h0", "apply h1", "eq h0 h1"]) == [
        "ok", "ok", "ok", "ok", "ok:true", "ok:false", "err:badreg", "err:badreg", "err:badreg",
        "ok:true", "ok:some", "?", "?", "ok", "ok:true"]


def test_level_iter():
    vals = [u64(i) for i in range(1, 10)]
    all9 = ",".join(vals)
    # u64, N = 16: pd = 2, depth = 2
    res = results("u64", 16, [
        "new_list h0 " + all9,
        "level_iter h0 0", "level_iter h0 1", "level_iter h0 2", "level_iter h0 4",
        "level_iter h0 8", "level_iter h0 9", "level_iter h0 10", "level_iter h0 6",
        "push h0 " + u64(10), "level_iter h0 0", "level_iter h0 10", "level_iter h0 11"])
    assert res == [
        "ok",
        "ok:I:" + all9,  # level 4: one block
        "ok:" + "/".join("P:" + v for v in vals[1:]),  # tz = 0 -> level 0, packed
        "ok:" + "/".join("P:" + v for v in vals[2:]),  # tz = 1 < pd -> level 0
        "ok:I:%s/I:%s" % (",".join(vals[4:8]), vals[8]),  # level 2: blocks of 4
        "ok:I:" + vals[8],  # level 3
        "ok:-",  # i = len: nothing
        "err:OutOfBoundsIterFrom{index:10,len:9}",
        "ok:" + "/".join("P:" + v for v in vals[6:]),
        "ok",
        "err:LevelIterPendingUpdates",
        "err:LevelIterPendingUpdates",  # i = len, the length counts the pending push
        "err:OutOfBoundsIterFrom{index:11,len:10}",  # bounds are checked before pending
    ]
    # unpacked kind: level 0 items are I:v
    h = [bytes([i]) * 32 for i in range(1, 6)]
    hx = [x.hex() for x in h]
    res = results("h256", 8, ["new_list h0 " + ",".join(hx), "level_iter h0 0", "level_iter h0 1",
                              "level_iter h0 2", "level_iter h0 4", "empty h1", "level_iter h1 0"])
    assert res == [
        "ok", "ok:I:" + ",".join(hx), "ok:" + "/".join("I:" + x for x in hx[1:]),
        "ok:I:%s/I:%s" % (",".join(hx[2:4]), hx[4]), "ok:I:" + hx[4], "ok", "ok:-"]
    # vectors have no level_iter in the history language
    assert results("u64", 3, ["new_vec h0 " + L3, "level_iter h0 0", "level_iter h1 0"]) == [
        "ok", "err:badreg", "err:badreg"]
    # N = 1, unpacked: depth + pd = 0 => level 0
    assert results("h256", 1, ["new_list h0 " + hx[0], "level_iter h0 0"]) == ["ok", "ok:I:" + hx[0]]


def test_writes():
    res, views = run("u64", 4, [
        "new_list h0 " + L3, "set h0 3 " + E, "set h0 1 " + E, "touch h1 0", "apply h0",
        "touch h0 3", "touch h0 2", "apply h0", "cow_into h0 0 " + D, "cow_into h0 9 " + D,
        "apply h0", "cow_make h0 2 " + A, "cow_make h0 3 " + A, "apply h0",
        "cow_make2 h0 1 %s %s" % (A, B), "cow_make2 h0 5 %s %s" % (A, B)])
    assert res == ["ok", "ok:none", "ok:some", "err:badreg", "ok", "ok:none", "ok:some", "ok",
                   "ok:some", "ok:none", "ok", "ok:some", "ok:none", "ok", "ok:some", "ok:none"]
    assert " pend=0 vals=%s " % L3 in views[1][0]  # failed set: unchanged, still clean
    assert " pend=1 vals=%s,%s,%s " % (A, E, C) in views[2][0]
    assert " pend=0 " in views[4][0]
    assert " pend=0 " in views[5][0]  # failed touch
    assert " pend=1 vals=%s,%s,%s " % (A, E, C) in views[6][0]  # touch: dirty, same values
    assert " pend=1 vals=%s,%s,%s " % (D, E, C) in views[8][0]
    assert " pend=1 vals=%s,%s,%s " % (D, E, A) in views[12][0]  # failed cow_make: unchanged
    assert " pend=0 " in views[13][0]
    assert " pend=1 vals=%s,%s,%s " % (D, B, A) in views[14][0]  # cow_make2: final value w
    # writes work on vectors
    res, views = run("u64", 3, ["new_vec h0 " + L3, "set h0 2 " + E, "set h0 3 " + E])
    assert res == ["ok", "ok:some", "ok:none"]
    assert views[2] == ["O h0 V len=3 empty=0 pend=1 vals=%s,%s,%s gets=%s,%s,%s,none,none"
                        % (A, B, E, A, B, E)]
    # iter_cow
    res, views = run("u64", 4, [
        "new_list h0 " + L3, "iter_cow h0 _,_", "iter_cow h0 _,_,_,_,_", "iter_cow h0 _,%s,_,%s" % (E, D),
        "iter_cow h1 _", "empty h2", "iter_cow h2 %s,_" % A, "iter_cow h0 -"])
    assert res == ["ok", "ok:2", "ok:3", "ok:3", "err:badreg", "ok", "ok:0", "ok:0"]
    assert " pend=0 " in views[2][0]  # `_` items do not write
    assert " pend=1 vals=%s,%s,%s " % (A, E, C) in views[3][0]  # the 4th item is beyond len
    assert " len=0 empty=1 pend=0 " in views[6][1]
    # iter_cow reaches pending pushes
    res, views = run("u64", 4, ["new_list h0 " + A, "push h0 " + B, "iter_cow h0 _,%s,_" % E])
    assert res == ["ok", "ok", "ok:2"]
    assert " vals=%s,%s " % (A, E) in views[2][0]
    # push
    res, views = run("u64", 3, ["new_list h0 %s,%s" % (A, B), "push h0 " + C, "push h0 " + D,
                                "new_vec h1 " + L3, "push h1 " + A, "push h2 " + A])
    assert res == ["ok", "ok", "err:ListFull{len:3}", "ok", "err:badreg", "err:badreg"]
    assert views[1] == ["O h0 L len=3 empty=0 pend=1 vals=%s gets=%s,none,none" % (L3, L3)]
    assert views[2] == views[1]


def test_bulk():
    two = "%s,%s" % (A, B)
    res, views = run("u64", 4, [
        "new_list h0 " + two,
        "bulk h0 -",                                  # empty map: ok, unchanged (clean)
        "bulk h0 3:" + C,                             # gap
        "bulk h0 2:%s,4:%s" % (C, D),                 # gap after one good key
        "bulk h0 2:%s,3:%s,4:%s" % (C, D, E),         # reaches N
        "bulk h0 18446744073709551615:" + C,          # usize::MAX only
        "bulk h0 2:%s,18446744073709551615:%s" % (C, D),
        "bulk h0 0:%s,0:%s,2:%s" % (C, E, D),         # later insertion wins; extends by one
        "bulk h0 0:" + A,                             # dirty now
        "apply h0",
        "bulk h0 1:" + A,                             # overwrite only
    ])
    assert res == [
        "ok", "ok",
        "err:OutOfBoundsUpdate{index:3,len:2}",
        "err:OutOfBoundsUpdate{index:4,len:3}",
        "err:ListFull{len:4}",
        "err:OutOfBoundsUpdate{index:18446744073709551615,len:2}",
        "err:OutOfBoundsUpdate{index:18446744073709551615,len:3}",
        "ok", "err:BulkUpdateUnclean", "ok", "ok"]
    clean = "O h0 L len=2 empty=0 pend=0 vals=%s gets=%s,none,none" % (two, two)
    for k in range(1, 7):
        assert views[k] == [clean], k
    after = "%s,%s,%s" % (E, B, D)
    assert views[7] == ["O h0 L len=3 empty=0 pend=1 vals=%s gets=%s,none,none" % (after, after)]
    assert views[8] == views[7]
    assert " pend=1 vals=%s,%s,%s " % (E, A, D) in views[10][0]
    # full list: the first key beyond is N itself
    assert results("u64", 2, ["new_list h0 " + two, "bulk h0 2:" + C, "bulk h0 3:" + C]) == [
        "ok", "err:ListFull{len:2}", "err:OutOfBoundsUpdate{index:3,len:2}"]
    # list only
    assert results("u64", 3, ["new_vec h0 " + L3, "bulk h0 0:" + A, "bulk h1 0:" + A]) == [
        "ok", "err:badreg", "err:badreg"]
    # iter_cow is list only too (SPEC.md `iter_cow A items` (list))
    res, views = run("u64", 3, ["new_vec h0 " + L3, "iter_cow h0 _,%s" % E])
    assert res == ["ok", "err:badreg"] and views[1] == views[0]


def test_pop_front_apply_intra():
    res, views = run("u64", 8, [
        "new_list h0 " + L3, "push h0 " + D, "pop_front h0 5", "push h0 " + E, "pop_front h0 2",
        "pop_front h0 0", "pop_front h0 3", "pop_front h0 1"])
    assert res == ["ok", "ok", "err:OutOfBoundsIterFrom{index:5,len:4}", "ok", "ok", "ok", "ok",
                   "err:OutOfBoundsIterFrom{index:1,len:0}"]
    assert " len=4 empty=0 pend=0 " in views[2][0]  # flushed although it failed
    assert " len=3 empty=0 pend=0 vals=%s,%s,%s " % (C, D, E) in views[4][0]
    assert " len=0 empty=1 pend=0 vals=- " in views[6][0]
    res, views = run("u64", 8, [
        "new_list h0 " + L3, "push h0 " + D, "pop_front_slow h0 5", "pop_front_slow h0 1",
        "pop_front_slow h0 3", "new_vec h1 " + ",".join([A] * 8), "pop_front h1 1",
        "pop_front_slow h1 1", "pop_front h2 0", "pop_front_slow h2 0"])
    assert res == ["ok", "ok", "err:OutOfBoundsIterFrom{index:5,len:4}", "ok", "ok", "ok",
                   "err:badreg", "err:badreg", "err:badreg", "err:badreg"]
    assert " len=4 empty=0 pend=1 " in views[2][0]  # nothing flushed
    assert " len=3 empty=0 pend=0 vals=%s,%s,%s " % (B, C, D) in views[3][0]
    assert " len=0 empty=1 pend=0 " in views[4][0]
    # apply / intra flush; both fine on clean and on vectors
    res, views = run("u64", 3, ["new_vec h0 " + L3, "set h0 0 " + E, "intra h0", "set h0 1 " + E,
                                "apply h0", "apply h0", "intra h0", "apply h1", "intra h1"])
    assert res == ["ok", "ok:some", "ok", "ok:some", "ok", "ok", "ok", "err:badreg", "err:badreg"]
    assert " pend=1 " in views[1][0] and " pend=0 " in views[2][0]
    assert " pend=1 " in views[3][0] and " pend=0 " in views[4][0]


def test_copies_and_conversions():
    res, views = run("u64", 3, [
        "new_list h0 %s,%s" % (A, B), "clone h0 h1", "push h1 " + C, "clone h5 h6",
        "to_vector h0 h2",       # wrong length
        "to_vector h1 h2",       # pending push: the conversion flushes
        "to_list h2 h3", "to_list h0 h3", "to_vector h2 h4", "to_list h7 h3", "to_vector h7 h3",
        "set h2 0 " + E, "to_list h2 h3",  # pending overwrite survives to_list ...
        "to_vector h3 h4",                 # ... and to_vector (backing length is N)
        "drop h0", "drop h0", "len h0"])
    assert res == ["ok", "ok", "ok", "err:badreg", "err:WrongVectorLength{len:2,expected:3}", "ok",
                   "ok", "err:badreg", "err:badreg", "err:badreg", "err:badreg", "ok:some", "ok",
                   "ok", "ok", "err:badreg", "err:badreg"]
    assert views[2][0] == "O h0 L len=2 empty=0 pend=0 vals=%s,%s gets=%s,%s,none,none" % (A, B, A, B)
    assert views[2][1] == "O h1 L len=3 empty=0 pend=1 vals=%s gets=%s,none,none" % (L3, L3)
    assert len(views[4]) == 2  # failed to_vector: h2 still empty
    assert views[5][2] == "O h2 V len=3 empty=0 pend=0 vals=%s gets=%s,none,none" % (L3, L3)
    assert views[5][1] == views[2][1]  # the source keeps its pending push
    assert views[6][3] == "O h3 L len=3 empty=0 pend=0 vals=%s gets=%s,none,none" % (L3, L3)
    new = "%s,%s,%s" % (E, B, C)
    assert views[12][3] == "O h3 L len=3 empty=0 pend=1 vals=%s gets=%s,none,none" % (new, new)
    assert views[13][4] == "O h4 V len=3 empty=0 pend=1 vals=%s gets=%s,none,none" % (new, new)
    assert [ln.split(" ")[1] for ln in views[14]] == ["h1", "h2", "h3", "h4"]  # h0 dropped
    # a list that reached N by pushes on a shorter backing tree and was flushed: pend stays
    res, views = run("u64", 3, ["new_list h0 %s,%s" % (A, B), "push h0 " + C, "apply h0",
                                "set h0 0 " + E, "to_vector h0 h1"])
    assert views[4][1] == "O h1 V len=3 empty=0 pend=1 vals=%s gets=%s,none,none" % (new, new)
    # rebase_on / rebase: contents unchanged, C := copy of A, kinds must agree
    res, views = run("u64", 3, [
        "new_list h0 " + L3, "new_list h1 %s,%s" % (A, B), "set h0 0 " + E, "rebase_on h0 h1",
        "rebase h0 h1 h2", "new_vec h3 " + L3, "rebase_on h0 h3", "rebase h0 h3 h4",
        "rebase_on h0 h5", "rebase_on h5 h0", "rebase h5 h0 h4", "rebase h0 h5 h4", "len h4",
        "rebase_on h0 h0"])
    assert res == ["ok", "ok", "ok:some", "ok", "ok", "ok", "err:badreg", "err:badreg",
                   "err:badreg", "err:badreg", "err:badreg", "err:badreg", "err:badreg", "ok"]
    assert views[3] == views[2]
    assert views[4][2] == views[2][0].replace("O h0 ", "O h2 ")


def test_hashing():
    vals = [bytes.fromhex(x) for x in (A, B, C)]
    c0 = b"".join(vals) + bytes(8)
    list_root = sha(sha(c0 + bytes(32)) + (3).to_bytes(32, "little"))  # List[u64,8]: 2 chunks
    assert results("u64", 8, ["new_list h0 " + L3, "hash h0", "set h0 0 " + A, "hash h0",
                              "par_hash h0 3", "par_mix h0 " + A, "apply h0", "par_hash h0 3",
                              "hash h1", "par_hash h1 2", "par_mix h1 -"]) == [
        "ok", "ok:" + list_root.hex(), "ok:some", "err:pending", "err:pending", "err:pending",
        "ok", "ok:" + list_root.hex(), "err:badreg", "err:badreg", "err:badreg"]
    # vector: no length mixed in; N = 3 => one chunk
    vec_root = c0
    assert results("u64", 3, ["new_vec h0 " + L3, "hash h0"]) == ["ok", "ok:" + vec_root.hex()]
    # par_mix: thread j sets (j mod len) := vs[j]
    def lroot(vs):
        return ssz_ref.hash_tree_root_list("u64", 8, [bytes.fromhex(v) for v in vs]).hex()
    assert results("u64", 8, ["new_list h0 " + L3, "par_mix h0 %s,%s,%s,%s" % (E, E, D, D),
                              "par_mix h0 -", "empty h1", "par_mix h1 " + E]) == [
        "ok", "ok:" + ",".join([lroot([E, B, C]), lroot([A, E, C]), lroot([A, B, D]),
                                lroot([D, B, C]), lroot([A, B, C])]),
        "ok:" + lroot([A, B, C]), "ok", "ok:%s,%s" % (lroot([]), lroot([]))]
    # huge capacities are cheap
    h = bytes(range(32))
    node = h
    for level in range(63):
        node = sha(node + ssz_ref.zero_hash(level))
    assert results("h256", 2**63, ["new_list h0 " + h.hex(), "hash h0", "empty h1", "hash h1"]) == [
        "ok", "ok:" + sha(node + (1).to_bytes(32, "little")).hex(), "ok",
        "ok:" + sha(ssz_ref.zero_hash(63) + bytes(32)).hex()]


def test_builder():
    assert results("u64", 8, ["b_push " + A, "b_finish", "b_push_node h0 .", "b_push_node h1 L"]) == [
        "err:nobuilder", "err:nobuilder", "?", "?"]
    assert results("u64", 8, ["empty h0", "b_push_node h0 ."]) == ["ok", "err:nobuilder"]
    # depth limit: pd = 2 for u64
    assert results("u64", 8, ["b_new 62 0", "b_push " + A, "b_new 61 0", "b_new 18446744073709551615 0",
                              "b_push " + A]) == [
        "err:BuilderInvalidDepth{depth:62}", "err:nobuilder", "ok",
        "err:BuilderInvalidDepth{depth:18446744073709551615}", "ok"]
    assert results("h256", 8, ["b_new 63 0", "b_new 64 0"]) == ["ok", "err:BuilderInvalidDepth{depth:64}"]
    # capacity 2^(d+pd); root = merkleize over 2^d chunks
    c0 = bytes.fromhex(A + B + C + D)
    c1 = bytes.fromhex(E) + bytes(24)
    ops = ["b_new 1 0"] + ["b_push " + v for v in (A, B, C, D, E)] + ["b_finish", "b_finish"]
    assert results("u64", 8, ops) == ["ok"] * 6 + [
        "ok:d=1,len=5,tree=?,root=%s,inc=true" % sha(c0 + c1).hex(), "err:nobuilder"]
    ops = ["b_new 0 0"] + ["b_push " + A] * 5 + ["b_finish"]
    assert results("u64", 8, ops) == ["ok"] * 5 + ["err:BuilderFull",
        "ok:d=0,len=4,tree=?,root=%s,inc=true" % (bytes.fromhex(A) * 4).hex()]
    assert results("u64", 8, ["b_new 3 0", "b_finish"]) == [
        "ok", "ok:d=3,len=0,tree=?,root=%s,inc=true" % ssz_ref.zero_hash(3).hex()]
    h = bytes(range(32)).hex()
    assert results("h256", 8, ["b_new 0 0", "b_push " + h, "b_push " + h, "b_finish"]) == [
        "ok", "ok", "err:BuilderFull", "ok:d=0,len=1,tree=?,root=%s,inc=true" % h]
    # not predicted: a non-zero level, or any b_push_node
    assert results("u64", 8, ["b_new 1 2", "b_push " + A, "b_finish"]) == ["ok", "ok", "?"]
    assert results("u64", 8, ["new_list h0 " + L3, "b_new 1 0", "b_push_node h0 L", "b_push " + A,
                              "b_finish", "b_new 1 0", "b_push_node h1 L", "b_finish"]) == [
        "ok", "ok", "?", "?", "?", "ok", "err:badreg",
        "ok:d=1,len=0,tree=?,root=%s,inc=true" % ssz_ref.zero_hash(1).hex()]
    # b_new replaces the slot
    assert results("u64", 8, ["b_new 1 0", "b_push " + A, "b_new 0 0", "b_finish"]) == [
        "ok", "ok", "ok", "ok:d=0,len=0,tree=?,root=%s,inc=true" % bytes(32).hex()]


def test_badreg_everywhere():
    """Every operation with a source register answers err:badreg on an empty register, and
    changes nothing."""
    ops = ["get h0 0", "len h0", "iter_from h0 0", "level_iter h0 0", "eq h0 h0", "ssz_enc h0",
           "serde_ser h0", "set h0 0 " + A, "touch h0 0", "cow_read h0 0", "cow_into h0 0 " + A,
           "cow_make h0 0 " + A, "cow_make2 h0 0 %s %s" % (A, B), "iter_cow h0 _", "push h0 " + A,
           "bulk h0 0:" + A, "apply h0", "pop_front h0 0", "pop_front_slow h0 0", "clone h0 h1",
           "to_vector h0 h1", "to_list h0 h1", "rebase_on h0 h0", "rebase h0 h0 h1", "intra h0",
           "hash h0", "drop h0", "par_hash h0 2", "par_mix h0 " + A]
    res, views = run("u64", 8, ops)
    assert res == ["err:badreg"] * len(ops)
    assert all(v == [] for v in views)
    # list-only operations on a vector; vector-only on a list
    res = results("u64", 3, ["new_vec h0 " + L3, "level_iter h0 0", "push h0 " + A, "bulk h0 -",
                             "pop_front h0 0", "pop_front_slow h0 0", "to_vector h0 h1",
                             "new_list h2 " + L3, "to_list h2 h1", "eq h0 h2", "rebase_on h0 h2",
                             "rebase h2 h0 h1", "len h1"])
    assert res == ["ok"] + ["err:badreg"] * 6 + ["ok"] + ["err:badreg"] * 5


def test_kinds():
    """One smoke history per kind: values keep their SSZ encoding; roots follow ssz_ref."""
    samples = {
        "u8": ["01", "ff"], "u16": ["0100", "ffff"], "u32": ["01000000", "ffffffff"],
        "u64": [A, "ff" * 8], "u128": ["01" + "00" * 15, "ff" * 16],
        "u256": ["01" + "00" * 31, "ff" * 32], "h256": ["ab" * 32, "cd" * 32],
        "pair": [A + B, "ff" * 16], "var": [".", "01020304"],
    }
    for kind, (x, y) in samples.items():
        vals = [pyref._parse_hex(x), pyref._parse_hex(y)]
        res = results(kind, 5, ["new_list h0 %s,%s" % (x, y), "hash h0", "get h0 1", "ssz_enc h0",
                                "to_vector h0 h1", "new_vec h1 " + ",".join([x] * 5), "hash h1"])
        data = ssz_ref.serialize(kind, vals)
        assert res == [
            "ok", "ok:" + ssz_ref.hash_tree_root_list(kind, 5, vals).hex(), "ok:" + y,
            "ok:%s|%d" % (data.hex(), len(data)), "err:WrongVectorLength{len:2,expected:5}", "ok",
            "ok:" + ssz_ref.hash_tree_root_vector(kind, 5, [vals[0]] * 5).hex()], kind
    # level 0 of a packed kind with packing factor 1 (u256): the one-value packed leaf is yielded
    # as an internal node (`I:`), SPEC.md level_iter rule
    x = "01" + "00" * 31
    assert results("u256", 4, ["new_list h0 %s,%s" % (x, x), "level_iter h0 1"]) == ["ok", "ok:I:" + x]
    assert results("u256", 1, ["new_list h0 " + x, "level_iter h0 0"]) == ["ok", "ok:I:" + x]


def test_give_up():
    """Collections too large to materialise: `R n ?`, then the history is abandoned."""
    h = History(0, "u8", 2**40, "max", ["empty h0", "from_elem h1 07", "len h0"])
    assert predict(h) == ["R 1 ok", "O h0 L len=0 empty=1 pend=0 vals=- gets=none,none", "R 2 ?"]
    trace = ["H 0 u8 1099511627776 max", "R 1 ok", "O h0 L len=0 empty=1 pend=0 vals=- gets=none,none",
             "F 1", "R 2 ok", "O h0 L len=0 empty=1 pend=0 vals=- gets=none,none",
             "O h1 V len=1099511627776 empty=0 pend=0 vals=big gets=big", "F 80", "R 3 ok:0"]
    assert check_trace(h, trace) == []
    for op in ("default_vec h1", "repeat h1 07 1099511627776", "repeat_slow h1 07 2000000"):
        assert predict(History(0, "u8", 2**40, "max", [op])) == ["R 1 ?"]
    # errors are still predicted on huge configurations
    assert results("u8", 2**40, ["repeat h0 07 1099511627777", "new_vec h0 07"]) == [
        "err:BuilderFull", "err:WrongVectorLength{len:1,expected:1099511627776}"]


def test_match_line():
    assert match_line("R 1 ok", "R 1 ok")
    assert not match_line("R 1 ok", "R 1 ok:none")
    assert not match_line("R 1 ok", "R 2 ok")
    # `?` result
    assert match_line("R 7 ?", "R 7 ok:true")
    assert match_line("R 7 ?", "R 7 err:InvalidRebaseNode")
    assert match_line("R 7 ?", "R 7 panic")
    assert match_line("R 7 ?", "R 7 ok:d=1,len=2,tree=(L01; Z0;),root=ab,inc=false")
    assert not match_line("R 7 ?", "R 8 ok:true")
    assert not match_line("R 7 ?", "R 71 ok")
    assert not match_line("R 7 ?", "R 7 ")
    assert not match_line("R 7 ?", "O h0 L len=0 empty=1 pend=0 vals=- gets=none,none")
    # `?` field of an O line
    pred = "O h1 L len=3 empty=0 pend=? vals=01,02,03 gets=01,02,03,none,none"
    assert match_line(pred, pred.replace("pend=?", "pend=0"))
    assert match_line(pred, pred.replace("pend=?", "pend=1"))
    assert not match_line(pred, pred.replace("pend=?", "pend=1").replace("len=3", "len=4"))
    assert not match_line(pred, pred.replace("pend=?", "pend=1").replace("vals=01", "vals=09"))
    assert not match_line(pred, pred.replace("pend=?", "pend=1 extra=2"))
    assert not match_line(pred, pred.replace("pend=?", "pend=1") + ",none")
    pred2 = "O h1 L len=? empty=0 pend=? vals=- gets=?"
    assert match_line(pred2, "O h1 L len=12 empty=0 pend=1 vals=- gets=none,none")
    assert not match_line(pred2, "O h2 L len=12 empty=0 pend=1 vals=- gets=none,none")
    assert not match_line(pred2, "O h1 L len=12 empty=1 pend=1 vals=- gets=none,none")
    # `?` field inside a result (b_finish): the value runs to the next comma
    pred3 = "R 4 ok:d=1,len=5,tree=?,root=abcd,inc=true"
    assert match_line(pred3, "R 4 ok:d=1,len=5,tree=(P01:02:03:04;P05;),root=abcd,inc=true")
    assert match_line(pred3, "R 4 ok:d=1,len=5,tree=(P01:02:03:04; P05;),root=abcd,inc=true")
    assert not match_line(pred3, "R 4 ok:d=1,len=5,tree=(P01:02:03:04;P05;),root=abce,inc=true")
    assert not match_line(pred3, "R 4 ok:d=1,len=5,tree=(P01:02:03:04;P05;),root=abcd,inc=false")
    assert not match_line(pred3, "R 4 ok:d=1,len=4,tree=(P01:02:03:04;P05;),root=abcd,inc=true")
    assert not match_line(pred3, "R 4 err:BuilderStackLeftover")
    # without a wildcard: exact equality
    assert not match_line("R 1 ok:none", "R 1 ok:some")


def test_check_trace():
    h = History(3, "u64", 8, "max", ["new_list h0 " + L3, "set h0 0 " + E, "eq h0 h0", "hash h0",
                                     "apply h0", "len h0"])
    good = [pyref.header(h)]
    for op in pyref.predict_ops(h):
        good.append(op.r_line.replace("R 3 ?", "R 3 ok:true"))
        good.extend(op.o_lines)
        good.append("S h0 blen=3 depth=1 tree=(P01;Z0;) upd=- max=none")
        good.append("M h0 -")
        good.append("I h0 0,1,2")
        good.append("F 2")
    good.append("C some_branch 12")
    assert check_trace(h, good) == []
    assert check_trace(h, [ln + "\n" for ln in good]) == []
    assert check_trace(h, ["H 3 unsupported"]) == []
    # a wrong result
    bad = [ln.replace("R 6 ok:3", "R 6 ok:4") for ln in good]
    assert check_trace(h, bad) == [Mismatch(6, "len h0", "R 6 ok:3", "R 6 ok:4")]
    # a wrong observable field
    bad = list(good)
    where = [i for i, ln in enumerate(bad) if ln.startswith("O ")][1]
    bad[where] = bad[where].replace("pend=1", "pend=0")
    ms = check_trace(h, bad)
    assert len(ms) == 1 and ms[0].op == 2 and ms[0].op_text == "set h0 0 " + E
    assert ms[0].predicted == good[where] and ms[0].actual == bad[where]
    # a missing and a surplus O line
    bad = [ln for i, ln in enumerate(good) if i != where]
    assert check_trace(h, bad) == [Mismatch(2, "set h0 0 " + E, good[where], None)]
    bad = good[: where + 1] + ["O h5 L len=0 empty=1 pend=0 vals=- gets=none,none"] + good[where + 1:]
    assert check_trace(h, bad) == [
        Mismatch(2, "set h0 0 " + E, None, "O h5 L len=0 empty=1 pend=0 vals=- gets=none,none")]
    # a panic: reported (even where the prediction is `?`), and the history ends there
    cut = good.index("R 3 ok:true")
    assert check_trace(h, good[:cut] + ["R 3 panic"]) == [Mismatch(3, "eq h0 h0", "R 3 ?", "R 3 panic")]
    cut = [i for i, ln in enumerate(good) if ln.startswith("R 4 ")][0]
    assert check_trace(h, good[:cut] + ["R 4 panic"]) == [
        Mismatch(4, "hash h0", "R 4 err:pending", "R 4 panic")]
    # `abort` / `timeout` (harness --isolate: the child died in that operation) end a history
    # exactly like `panic`
    for word in ("abort", "timeout"):
        assert check_trace(h, good[:cut] + ["R 4 " + word]) == [
            Mismatch(4, "hash h0", "R 4 err:pending", "R 4 " + word)]
    cut3 = good.index("R 3 ok:true")
    assert check_trace(h, good[:cut3] + ["R 3 abort"]) == [Mismatch(3, "eq h0 h0", "R 3 ?", "R 3 abort")]
    # a truncated trace (no panic)
    assert check_trace(h, good[:cut]) == [Mismatch(4, "hash h0", "R 4 err:pending", None)]
    # surplus operations, wrong header
    ms = check_trace(h, good + ["R 7 ok"])
    assert ms == [Mismatch(7, "<no such operation>", None, "R 7 ok")]
    ms = check_trace(h, ["H 3 u64 16 max"] + good[1:])
    assert ms == [Mismatch(0, "config", "H 3 u64 8 max", "H 3 u64 16 max")]
    # split_trace
    text = "\n".join(["H 0 u64 8 max", "R 1 ok", "F 0", "H 1 unsupported", "H 2 var 4 bt", "R 1 ok"])
    parts = pyref.split_trace(text)
    assert sorted(parts) == [0, 1, 2]
    assert parts[0] == ["H 0 u64 8 max", "R 1 ok", "F 0"]
    assert parts[1] == ["H 1 unsupported"] and parts[2] == ["H 2 var 4 bt", "R 1 ok"]


def main():
    tests = [(name, fn) for name, fn in sorted(globals().items())
             if name.startswith("test_") and callable(fn)]
    for name, fn in tests:
        fn()
        print("%s: ok" % name)
    print("%d tests passed" % len(tests))


if __name__ == "__main__":
    main()
