#!/usr/bin/env python3
"""Run the registered quick checks against the seeded changes under /verif/seeded/<id>/patch.diff.
For each: git -C /repo apply; run ./check <prop> for every property (own property first); record the
VIOLATION lines; git -C /repo checkout -- . afterwards. Results -> /verif/seeded/RESULTS.json and each meta.json.
usage: seedeval.py [ids...] [--own-only]"""
import sys, os, json, subprocess, glob, time

ROOT = '/verif'
PROPS = ['C%02d' % i for i in range(1, 18)]


def sh(cmd, **kw):
    return subprocess.run(cmd, shell=True, text=True, stdout=subprocess.PIPE, stderr=subprocess.STDOUT, **kw)


def main():
    args = [a for a in sys.argv[1:] if not a.startswith('--')]
    own_only = '--own-only' in sys.argv
    ids = args or sorted(os.path.basename(d) for d in glob.glob(ROOT + '/seeded/*') if os.path.isdir(d))
    results = {}
    rp = ROOT + '/seeded/RESULTS.json'
    if os.path.exists(rp):
        results = json.load(open(rp))
    for sid in ids:
        d = '%s/seeded/%s' % (ROOT, sid)
        meta = json.load(open(d + '/meta.json'))
        assert sh('git -C /repo status --porcelain').stdout.strip() == '', '/repo is not clean'
        r = sh('git -C /repo apply %s/patch.diff' % d)
        if r.returncode != 0:
            results[sid] = dict(error='patch does not apply: ' + r.stdout[-300:])
            continue
        try:
            own = meta['property']
            order = [own] + ([] if own_only else [p for p in PROPS if p != own])
            res = {}
            for p in order:
                t = time.time()
                c = sh('cd %s && ./check %s --tier quick' % (ROOT, p), timeout=3600)
                viol = [l for l in c.stdout.splitlines() if l.startswith('VIOLATION')]
                info = []
                for v in viol:
                    path = v.split('replay=')[1].split()[0]
                    try:
                        rj = json.load(open(path))
                        info.append(dict(line=v, config=rj.get('config'), history=rj.get('history', [])[:12], oracle=str(rj.get('oracle', rj.get('broken')))[:300]))
                    except Exception:
                        info.append(dict(line=v))
                res[p] = dict(exit=c.returncode, violations=info, wall_s=round(time.time() - t, 1))
            results[sid] = dict(property=own, detected_by_own=res[own]['exit'] != 0,
                                detected_by=[p for p in res if res[p]['exit'] != 0], checks=res)
            meta['check_results'] = dict(detected_by_own_check=res[own]['exit'] != 0,
                                         detected_by=[p for p in res if res[p]['exit'] != 0],
                                         own_violation=res[own]['violations'][:1])
            json.dump(meta, open(d + '/meta.json', 'w'), indent=1)
        finally:
            sh('git -C /repo checkout -- .')
            sh('rm -f %s/replays/*.json' % ROOT)
        json.dump(results, open(rp, 'w'), indent=1)
        print(sid, 'own:', results[sid].get('detected_by_own'), 'all:', results[sid].get('detected_by'), flush=True)
    # restore the evidence files for the unchanged tree
    return 0


if __name__ == '__main__':
    sys.exit(main())
