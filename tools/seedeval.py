#!/usr/bin/env python3
"""Run the registered quick checks against the seeded changes under /verif/seeded/<id>/patch.diff.

Each change is applied in its own scratch worktree of /repo under /tmp/ev/<id> (never in /repo itself) and the
check runs against that worktree (VERIF_REPO, see tools/check.py), so several changes are evaluated in parallel;
the worktree and its build output are removed afterwards. Results -> /verif/seeded/RESULTS.json and each meta.json.

usage: seedeval.py [ids...] [--all-props] [-j N] [--in-repo]
  --all-props : run every property's check against each change (default: the change's own property only)
  --in-repo   : the slow, literal procedure: git -C /repo apply; ./check; git -C /repo checkout -- .   (sequential)
"""
import sys, os, json, subprocess, glob, time, shutil, hashlib
from concurrent.futures import ThreadPoolExecutor

ROOT = '/verif'
PROPS = ['C%02d' % i for i in range(1, 18)]
EV = '/tmp/ev'


def sh(cmd, **kw):
    return subprocess.run(cmd, shell=True, text=True, stdout=subprocess.PIPE, stderr=subprocess.STDOUT, **kw)


def parse(c):
    viol = [l for l in c.stdout.splitlines() if l.startswith('VIOLATION')]
    info = []
    for v in viol:
        path = v.split('replay=')[1].split()[0]
        try:
            rj = json.load(open(path))
            info.append(dict(line=v, config=rj.get('config'), history=rj.get('history', [])[:12],
                             oracle=str(rj.get('oracle', rj.get('broken')))[:300]))
        except Exception:
            info.append(dict(line=v))
    return info


def evaluate(sid, all_props, in_repo):
    d = '%s/seeded/%s' % (ROOT, sid)
    meta = json.load(open(d + '/meta.json'))
    own = meta['property']
    order = [own] + ([p for p in PROPS if p != own] if all_props else [])
    res = {}
    if in_repo:
        assert sh('git -C /repo status --porcelain').stdout.strip() == '', '/repo is not clean'
        r = sh('git -C /repo apply %s/patch.diff' % d)
        wt, env = '/repo', ''
    else:
        wt = '%s/%s' % (EV, sid)
        sh('git -C /repo worktree remove --force %s' % wt)
        shutil.rmtree(wt, ignore_errors=True)
        os.makedirs(EV, exist_ok=True)
        r = sh('git -C /repo worktree add --detach %s HEAD && git -C %s apply %s/patch.diff' % (wt, wt, d))
        env = 'VERIF_REPO=%s ' % wt
    if r.returncode != 0:
        return sid, dict(error='patch does not apply: ' + r.stdout[-300:])
    try:
        for p in order:
            t = time.time()
            c = sh('cd %s && %s./check %s --tier quick' % (ROOT, env, p), timeout=5400)
            res[p] = dict(exit=c.returncode, violations=parse(c), wall_s=round(time.time() - t, 1))
    finally:
        if in_repo:
            sh('git -C /repo checkout -- .')
        else:
            sh('git -C /repo worktree remove --force %s' % wt)
            hb = '%s/build/alt-%s' % (ROOT, hashlib.sha256(os.path.realpath(wt).encode()).hexdigest()[:10])
            shutil.rmtree(hb, ignore_errors=True)
    out = dict(property=own, detected_by_own=res[own]['exit'] != 0,
               detected_by=[p for p in res if res[p]['exit'] != 0], checks=res)
    meta['check_results'] = dict(detected_by_own_check=res[own]['exit'] != 0,
                                 detected_by=[p for p in res if res[p]['exit'] != 0],
                                 own_violation=res[own]['violations'][:1])
    json.dump(meta, open(d + '/meta.json', 'w'), indent=1)
    return sid, out


def main():
    argv = sys.argv[1:]
    jobs = 4
    if '-j' in argv:
        k = argv.index('-j')
        jobs = int(argv[k + 1])
        del argv[k:k + 2]
    args = [a for a in argv if not a.startswith('--')]
    all_props = '--all-props' in argv
    in_repo = '--in-repo' in argv
    ids = args or sorted(os.path.basename(d) for d in glob.glob(ROOT + '/seeded/*') if os.path.isdir(d))
    rp = ROOT + '/seeded/RESULTS.json'
    results = json.load(open(rp)) if os.path.exists(rp) else {}
    with ThreadPoolExecutor(max_workers=1 if in_repo else jobs) as ex:
        for sid, out in ex.map(lambda s: evaluate(s, all_props, in_repo), ids):
            results[sid] = out
            json.dump(results, open(rp, 'w'), indent=1)
            print(sid, 'own:', out.get('detected_by_own'), 'all:', out.get('detected_by'), out.get('error', ''), flush=True)
    sh('git -C /repo worktree prune')
    return 0


if __name__ == '__main__':
    sys.exit(main())
