#!/usr/bin/env python3
"""From-scratch SSZ reference (serialization + Merkleization) for the element kinds of
docs/FORMAT.md.  Written from the consensus specification as summarised in docs/SPEC.md,
section "SSZ"; it shares no code with milhouse, the Coq model or any SSZ library.

Only `hashlib.sha256` is used.  Element values are Python `bytes` holding the element's SSZ
encoding (`u64` 5 = b'\\x05' + 7 zero bytes, `pair` = a LE || b LE, `var` = its raw bytes).

Kinds (FORMAT.md, table "kind"):

    kind   SSZ size   tree-hash                      packing factor
    u8     1          basic                          32
    u16    2          basic                          16
    u32    4          basic                          8
    u64    8          basic                          4
    u128   16         basic                          2
    u256   32         basic                          1
    h256   32         composite (root = the bytes)   none
    pair   16         composite (container a,b:u64)  none
    quad   32         composite (container a,b,c,d:u64)  none
    var    variable   composite (List[u8,4])         none

Run `python3 ssz_ref.py` for the self-test.
"""

import hashlib

BYTES_PER_CHUNK = 32
BYTES_PER_LENGTH_OFFSET = 4
ZERO_CHUNK = bytes(BYTES_PER_CHUNK)

# Fixed SSZ size in bytes, None = variable size.
SIZE = {
    "u8": 1,
    "u16": 2,
    "u32": 4,
    "u64": 8,
    "u128": 16,
    "u256": 32,
    "h256": 32,
    "pair": 16,
    "quad": 32,
    "var": None,
    "nl": None,
    "fu64": 8,
    "bu16": 2,
}

# Packing factor (elements per 32-byte chunk) of the basic kinds, None = not packed (composite).
PACKING = {
    "u8": 32,
    "u16": 16,
    "u32": 8,
    "u64": 4,
    "u128": 2,
    "u256": 1,
    "h256": None,
    "pair": None,
    "quad": None,
    "var": None,
    "nl": None,
    "fu64": 4,
    "bu16": 16,
}

KINDS = tuple(SIZE.keys())

# `var` is ssz_types::VariableList<u8, U4>: 0..4 bytes.
VAR_MAX_LEN = 4
# `nl` is milhouse::List<u64, U64> used as an element: 0..64 u64 values (SSZ: their concatenation).
NL_MAX_LEN = 64


# --------------------------------------------------------------------------- hashing basics


def hash_pair(left, right):
    """H(left, right) = sha256(left || right); both arguments are 32-byte strings."""
    assert len(left) == BYTES_PER_CHUNK and len(right) == BYTES_PER_CHUNK
    return hashlib.sha256(left + right).digest()


_ZERO_HASHES = [ZERO_CHUNK]


def zero_hash(depth):
    """Root of a complete tree of depth `depth` whose 2^depth leaves are all zero chunks:
    zero_hash(0) = 32 zero bytes, zero_hash(i+1) = H(zero_hash(i), zero_hash(i))."""
    assert depth >= 0
    while len(_ZERO_HASHES) <= depth:
        last = _ZERO_HASHES[-1]
        _ZERO_HASHES.append(hash_pair(last, last))
    return _ZERO_HASHES[depth]


def ceil_log2(n):
    """Smallest d such that n <= 2^d (ceil_log2(0) = ceil_log2(1) = 0)."""
    assert n >= 0
    if n <= 1:
        return 0
    return (n - 1).bit_length()


def uint_to_chunk(n):
    """`n` as a 32-byte little-endian string (used to mix in a list length)."""
    return n.to_bytes(BYTES_PER_CHUNK, "little")


# --------------------------------------------------------------------------- element kinds


def is_basic(kind):
    """Basic kinds are packed several to a chunk; the others contribute one root per element."""
    return PACKING[kind] is not None


def valid_element(kind, value):
    """Is `value` the SSZ encoding of an element of `kind`?  Every byte string of the right
    length is valid for the fixed-size kinds; `var` is any string of at most 4 bytes."""
    if not isinstance(value, (bytes, bytearray)):
        return False
    if kind == "var":
        return len(value) <= VAR_MAX_LEN
    if kind == "nl":
        return len(value) % 8 == 0 and len(value) <= 8 * NL_MAX_LEN
    return len(value) == SIZE[kind]


def default_element(kind):
    """Default element: all-zero encoding of the fixed size; `var`: empty."""
    if kind in ("var", "nl"):
        return b""
    return bytes(SIZE[kind])


def element_root(kind, value):
    """hash_tree_root of one element (SPEC.md "Element roots").

    basic kinds: the encoding zero-padded to one chunk;
    h256: the 32 bytes; pair{a,b}: H(a||0^24, b||0^24);
    var (List[u8,4]): H(bytes zero-padded to 32, len as 32-byte LE)."""
    assert valid_element(kind, value), (kind, value)
    if is_basic(kind):
        return value + bytes(BYTES_PER_CHUNK - len(value))
    if kind == "h256":
        return bytes(value)
    if kind == "pair":
        a = value[0:8] + bytes(24)
        b = value[8:16] + bytes(24)
        return hash_pair(a, b)
    if kind == "quad":
        f = [value[i : i + 8] + bytes(24) for i in (0, 8, 16, 24)]
        return hash_pair(hash_pair(f[0], f[1]), hash_pair(f[2], f[3]))
    if kind == "var":
        data_root = value + bytes(BYTES_PER_CHUNK - len(value))
        return hash_pair(data_root, uint_to_chunk(len(value)))
    if kind == "nl":
        # List[uint64, 64]: merkleize(pack(values), limit = 16 chunks) with the length mixed in
        items = [value[i : i + 8] for i in range(0, len(value), 8)]
        return hash_tree_root_list("u64", NL_MAX_LEN, items)
    raise ValueError("unknown kind %r" % (kind,))


# --------------------------------------------------------------------------- Merkleization


def pack(vals):
    """Concatenate the encodings and zero-pad to a multiple of 32 bytes; returns the chunks."""
    data = b"".join(vals)
    if len(data) % BYTES_PER_CHUNK != 0:
        data += bytes(BYTES_PER_CHUNK - len(data) % BYTES_PER_CHUNK)
    return [data[i : i + BYTES_PER_CHUNK] for i in range(0, len(data), BYTES_PER_CHUNK)]


def chunk_count(kind, n):
    """Number of chunks of a List/Vector of capacity `n`: basic kinds ceil(n*size/32),
    composite kinds n."""
    if is_basic(kind):
        return (n * SIZE[kind] + BYTES_PER_CHUNK - 1) // BYTES_PER_CHUNK
    return n


def chunks_of(kind, vals):
    """Leaf chunks of a sequence: basic kinds pack(vals), composite kinds the element roots."""
    if is_basic(kind):
        return pack(vals)
    return [element_root(kind, v) for v in vals]


def merkleize(chunks, limit):
    """Merkle root of `chunks` padded with zero chunks to next_pow2(limit) leaves.

    The padding is virtual: a missing right sibling at height h is zero_hash(h), so the cost is
    O(len(chunks) + depth) whatever the limit (limits up to 2^63 and beyond are fine)."""
    if len(chunks) > limit:
        raise ValueError("merkleize: %d chunks exceed the limit %d" % (len(chunks), limit))
    depth = ceil_log2(limit)
    layer = list(chunks)
    for height in range(depth):
        if len(layer) == 0:
            # Nothing at all below: the whole tree is zero.
            return zero_hash(depth)
        if len(layer) % 2 == 1:
            layer.append(zero_hash(height))
        layer = [hash_pair(layer[i], layer[i + 1]) for i in range(0, len(layer), 2)]
    if len(layer) == 0:
        return zero_hash(depth)
    assert len(layer) == 1
    return layer[0]


def mix_in_length(root, length):
    """H(root, length as 32-byte LE)."""
    return hash_pair(root, uint_to_chunk(length))


def hash_tree_root_vector(kind, n, vals):
    """hash_tree_root(Vector[T,n], vals) = merkleize(chunks, limit = chunk_count(n))."""
    if len(vals) != n:
        raise ValueError("vector of %d elements, expected %d" % (len(vals), n))
    return merkleize(chunks_of(kind, vals), chunk_count(kind, n))


def hash_tree_root_list(kind, n, vals):
    """hash_tree_root(List[T,n], vals) = H(merkleize(chunks, limit = chunk_count(n)), len)."""
    if len(vals) > n:
        raise ValueError("list of %d elements exceeds the capacity %d" % (len(vals), n))
    root = merkleize(chunks_of(kind, vals), chunk_count(kind, n))
    return mix_in_length(root, len(vals))


# --------------------------------------------------------------------------- serialization


def serialize(kind, vals):
    """SSZ serialization of a sequence (the same for List and Vector).

    Fixed-size elements: concatenation.  Variable-size (`var`): an offset table of 4*len bytes
    (little-endian u32 offsets, the first one = 4*len) followed by the payloads."""
    for v in vals:
        assert valid_element(kind, v), (kind, v)
    if SIZE[kind] is not None:
        return b"".join(vals)
    table = b""
    offset = BYTES_PER_LENGTH_OFFSET * len(vals)
    for v in vals:
        table += offset.to_bytes(BYTES_PER_LENGTH_OFFSET, "little")
        offset += len(v)
    return table + b"".join(vals)


def deserialize_list(kind, n, data):
    """Strict canonical decode of `data` as a list of at most `n` elements of `kind`.
    Returns the list of element byte strings, or None when `data` is not canonical
    (SPEC.md "Canonical decode of a list").

    Fixed size s: len(data) mod s = 0, every s-byte slice is a valid element.
    Variable size: empty => []; otherwise first offset o0 with o0 mod 4 = 0, o0 >= 4,
    o0 <= len(data), count = o0/4, offsets non-decreasing and <= len(data), element j =
    data[o_j : o_{j+1}] (the last one runs to the end) and must be valid (at most 4 bytes)."""
    data = bytes(data)
    size = SIZE[kind]
    if size is not None:
        if len(data) % size != 0:
            return None
        count = len(data) // size
        if count > n:
            return None
        vals = [data[i * size : (i + 1) * size] for i in range(count)]
    else:
        if len(data) == 0:
            return []
        if len(data) < BYTES_PER_LENGTH_OFFSET:
            return None  # the first offset cannot even be read
        first = int.from_bytes(data[0:BYTES_PER_LENGTH_OFFSET], "little")
        if first % BYTES_PER_LENGTH_OFFSET != 0:
            return None
        if first < BYTES_PER_LENGTH_OFFSET:
            return None
        if first > len(data):
            return None
        count = first // BYTES_PER_LENGTH_OFFSET
        if count > n:
            return None
        offsets = []
        for j in range(count):
            at = j * BYTES_PER_LENGTH_OFFSET
            offsets.append(int.from_bytes(data[at : at + BYTES_PER_LENGTH_OFFSET], "little"))
        offsets.append(len(data))
        for j in range(count):
            if offsets[j] > offsets[j + 1]:
                return None  # decreasing, or beyond the end of the data
        vals = [data[offsets[j] : offsets[j + 1]] for j in range(count)]
    for v in vals:
        if not valid_element(kind, v):
            return None
    return vals


def deserialize_vector(kind, n, data):
    """Canonical decode of a vector: a canonical list of exactly `n` elements."""
    vals = deserialize_list(kind, n, data)
    if vals is None or len(vals) != n:
        return None
    return vals


# --------------------------------------------------------------------------- self-test


def _u(n, size):
    return n.to_bytes(size, "little")


def self_test():
    sha = lambda b: hashlib.sha256(b).digest()  # noqa: E731

    # Zero-subtree hashes: recurrence, plus the well-known values of the deposit contract.
    assert zero_hash(0) == bytes(32)
    for i in range(70):
        assert zero_hash(i + 1) == sha(zero_hash(i) + zero_hash(i))
    assert zero_hash(1).hex() == "f5a5fd42d16a20302798ef6ed309979b43003d2320d9f0e8ea9831a92759fb4b"
    assert zero_hash(2).hex() == "db56114e00fdd4c1f85c892bf35ac9a89289aaecb1ebd0a96cde606a748b5d71"
    assert zero_hash(3).hex() == "c78009fdf07fc56a11f122370658a353aaa542ed63e44c4bc15ff4cd105ab33c"

    assert [ceil_log2(n) for n in (0, 1, 2, 3, 4, 5, 8, 9, 2**63, 2**63 + 1)] == [
        0, 0, 1, 2, 2, 3, 3, 4, 63, 64]

    # Kind tables are consistent: packing factor = 32 / size for the basic kinds.
    for kind in KINDS:
        if PACKING[kind] is not None:
            assert PACKING[kind] * SIZE[kind] == 32

    # pack
    assert pack([]) == []
    assert pack([_u(1, 8)]) == [_u(1, 8) + bytes(24)]
    assert pack([_u(i, 8) for i in range(1, 6)]) == [
        _u(1, 8) + _u(2, 8) + _u(3, 8) + _u(4, 8),
        _u(5, 8) + bytes(24),
    ]

    # chunk_count
    assert chunk_count("u64", 8) == 2
    assert chunk_count("u64", 3) == 1
    assert chunk_count("u8", 33) == 2
    assert chunk_count("u256", 5) == 5
    assert chunk_count("h256", 5) == 5
    assert chunk_count("pair", 7) == 7

    # merkleize
    a, b, c = sha(b"a"), sha(b"b"), sha(b"c")
    assert merkleize([], 1) == bytes(32)
    assert merkleize([], 0) == bytes(32)
    assert merkleize([a], 1) == a
    assert merkleize([a], 2) == sha(a + bytes(32))
    assert merkleize([a, b], 2) == sha(a + b)
    assert merkleize([a, b, c], 4) == sha(sha(a + b) + sha(c + bytes(32)))
    assert merkleize([a, b, c], 3) == merkleize([a, b, c], 4)  # limit rounded up to a power of 2
    assert merkleize([a], 8) == sha(sha(sha(a + zero_hash(0)) + zero_hash(1)) + zero_hash(2))
    assert merkleize([], 2**63) == zero_hash(63)
    node = a
    for h in range(63):
        node = sha(node + zero_hash(h))
    assert merkleize([a], 2**63) == node
    try:
        merkleize([a, b, c], 2)
        raise AssertionError("merkleize must reject too many chunks")
    except ValueError:
        pass

    # Explicitly padded merkleization agrees with the virtual one on small trees.
    def naive(chunks, limit):
        width = 1
        while width < max(limit, 1):
            width *= 2
        layer = list(chunks) + [bytes(32)] * (width - len(chunks))
        while len(layer) > 1:
            layer = [sha(layer[i] + layer[i + 1]) for i in range(0, len(layer), 2)]
        return layer[0]

    for limit in range(0, 18):
        for count in range(0, limit + 1):
            chunks = [sha(bytes([i])) for i in range(count)]
            assert merkleize(chunks, limit) == naive(chunks, limit), (limit, count)

    # Lists of u64.
    # empty List[u64,8]: chunk_count = 2 => one level => zero_hash(1); mixed in with length 0.
    assert hash_tree_root_list("u64", 8, []) == sha(zero_hash(1) + bytes(32))
    vals = [_u(i, 8) for i in range(1, 6)]
    c0 = _u(1, 8) + _u(2, 8) + _u(3, 8) + _u(4, 8)
    c1 = _u(5, 8) + bytes(24)
    assert hash_tree_root_list("u64", 8, vals) == sha(sha(c0 + c1) + _u(5, 32))
    # List[u64,3]: a single chunk, no hashing below the length mix-in.
    assert hash_tree_root_list("u64", 3, vals[:2]) == sha(_u(1, 8) + _u(2, 8) + bytes(16) + _u(2, 32))
    # Vector[u64,8] of 1..8
    v8 = [_u(i, 8) for i in range(1, 9)]
    assert hash_tree_root_vector("u64", 8, v8) == sha(b"".join(v8[:4]) + b"".join(v8[4:]))
    # Vector[u8,33]: 2 chunks
    v33 = [bytes([i]) for i in range(33)]
    assert hash_tree_root_vector("u8", 33, v33) == sha(bytes(range(32)) + bytes([32]) + bytes(31))
    # u256 is basic with packing factor 1: chunk = the element.
    x, y = _u(7, 32), _u(2**255 + 1, 32)
    assert hash_tree_root_list("u256", 2, [x, y]) == sha(sha(x + y) + _u(2, 32))
    # Huge capacity: List[u64, 2^63] has 2^61 chunks.
    node = _u(9, 8) + bytes(24)
    for h in range(61):
        node = sha(node + zero_hash(h))
    assert hash_tree_root_list("u64", 2**63, [_u(9, 8)]) == sha(node + _u(1, 32))
    assert hash_tree_root_list("h256", 2**63, []) == sha(zero_hash(63) + bytes(32))

    # Composite kinds.
    h1, h2, h3 = sha(b"1"), sha(b"2"), sha(b"3")
    assert element_root("h256", h1) == h1
    assert hash_tree_root_list("h256", 4, [h1, h2, h3]) == sha(
        sha(sha(h1 + h2) + sha(h3 + bytes(32))) + _u(3, 32))
    assert hash_tree_root_vector("h256", 3, [h1, h2, h3]) == sha(sha(h1 + h2) + sha(h3 + bytes(32)))
    assert hash_tree_root_vector("h256", 1, [h1]) == h1
    p = _u(5, 8) + _u(6, 8)
    p_root = sha(_u(5, 8) + bytes(24) + _u(6, 8) + bytes(24))
    assert element_root("pair", p) == p_root
    assert hash_tree_root_list("pair", 2, [p]) == sha(sha(p_root + bytes(32)) + _u(1, 32))
    assert element_root("var", b"") == sha(bytes(32) + bytes(32))
    assert element_root("var", b"\x01\x02\x03") == sha(b"\x01\x02\x03" + bytes(29) + _u(3, 32))
    assert hash_tree_root_list("var", 1, [b"\x01"]) == sha(element_root("var", b"\x01") + _u(1, 32))
    assert element_root("u16", b"\x34\x12") == b"\x34\x12" + bytes(30)

    # Defaults and validity.
    assert default_element("u64") == bytes(8)
    assert default_element("pair") == bytes(16)
    q = _u(1, 8) + _u(2, 8) + _u(3, 8) + _u(4, 8)
    assert element_root("quad", q) == sha(sha(_u(1, 32) + _u(2, 32)) + sha(_u(3, 32) + _u(4, 32)))
    assert default_element("var") == b""
    assert valid_element("u64", bytes(8)) and not valid_element("u64", bytes(7))
    assert valid_element("var", b"1234") and not valid_element("var", b"12345")

    # Serialization.
    assert serialize("u64", []) == b""
    assert serialize("u64", vals) == b"".join(vals)
    assert serialize("var", []) == b""
    assert serialize("var", [b"\xaa", b"", b"\xbb\xcc"]) == (
        _u(12, 4) + _u(13, 4) + _u(13, 4) + b"\xaa" + b"\xbb\xcc")

    # Canonical decoding, fixed size.
    assert deserialize_list("u64", 8, b"") == []
    assert deserialize_list("u64", 8, b"".join(vals)) == vals
    assert deserialize_list("u64", 4, b"".join(vals)) is None  # too many
    assert deserialize_list("u64", 8, b"".join(vals)[:-1]) is None  # not a multiple of 8
    assert deserialize_vector("u64", 5, b"".join(vals)) == vals
    assert deserialize_vector("u64", 8, b"".join(vals)) is None
    # Canonical decoding, variable size.
    enc = serialize("var", [b"\xaa", b"", b"\xbb\xcc"])
    assert deserialize_list("var", 3, enc) == [b"\xaa", b"", b"\xbb\xcc"]
    assert deserialize_list("var", 2, enc) is None  # too many
    assert deserialize_list("var", 3, b"") == []
    assert deserialize_list("var", 3, b"\x04\x00\x00") is None  # offset unreadable
    assert deserialize_list("var", 3, _u(0, 4)) is None  # first offset < 4
    assert deserialize_list("var", 3, _u(5, 4) + b"\x00") is None  # not a multiple of 4
    assert deserialize_list("var", 3, _u(8, 4)) is None  # first offset beyond the end
    assert deserialize_list("var", 3, _u(4, 4)) == [b""]
    assert deserialize_list("var", 3, _u(8, 4) + _u(7, 4)) is None  # offset into the table
    assert deserialize_list("var", 3, _u(8, 4) + _u(10, 4) + b"\x01") is None  # beyond the end
    assert deserialize_list("var", 3, _u(8, 4) + _u(9, 4) + b"\x01\x02") == [b"\x01", b"\x02"]
    assert deserialize_list("var", 3, _u(4, 4) + b"12345") is None  # element too long
    assert deserialize_list("var", 3, _u(12, 4) + _u(14, 4) + _u(13, 4) + b"\x01\x02") is None
    # Round trips.
    for kind in KINDS:
        if kind == "var":
            samples = [b"", b"\x01", b"\x01\x02\x03\x04"]
        elif kind == "nl":
            samples = [b"", bytes(8), bytes(range(16))]
        else:
            samples = [bytes([i + 1]) * SIZE[kind] for i in range(3)]
        assert deserialize_list(kind, 3, serialize(kind, samples)) == samples
        assert deserialize_vector(kind, 3, serialize(kind, samples)) == samples

    print("ssz_ref self-test: ok")


if __name__ == "__main__":
    self_test()
