#!/usr/bin/env python3
"""Generate /verif/coq/theories/props/Cxx.v: for every property the pinned statements of its
theorems (full text, as printed by `Check @lemma`), each closed by `exact (@lemma)`, followed by
`Print Assumptions`. Run by hand when the set of theorems changes; the generated files are
committed, so the statements cannot be weakened silently (a changed lemma no longer type-checks
against its pin). Hand-written non-vacuity examples live in props/Examples.v."""
import subprocess, re, sys, os

COQ = '/verif/coq'

# property -> list of (pinned theorem name, module, lemma)
TABLE = {
 'C01': [
  ('C01_closed_u64', 'Instances', 'run_refines_u64'), ('C01_closed_h256', 'Instances', 'run_refines_h256'), ('C01_closed_nested', 'NestedP', 'run_refines_nl'),
  ('C01_every_configuration_refines', 'ClosureP', 'every_configuration_refines'), ('C01_every_configuration_step', 'ClosureP', 'every_configuration_step'), ('C01_kinds_packing', 'ClosureP', 'kinds_packing'), ('C01_nonvacuous_state', 'Instances', 'example_written'), ('C01_initial_state', 'Instances', 'SysInv_initial'),
  ('C01_get', 'IfaceP', 'iface_get_spec'), ('C01_len', 'IfaceP', 'iface_len_spec'),
  ('C01_get_mut_write', 'IfaceP', 'get_mut_write_spec'), ('C01_push', 'IfaceP', 'push_spec_list'),
  ('C01_push_full', 'IfaceP', 'push_spec_full'), ('C01_bulk', 'IfaceP', 'bulk_spec'),
  ('C01_iter', 'IterP', 'iiter_collect_spec'), ('C01_to_vec', 'IterP', 'to_vec_spec'),
  ('C01_iter_from', 'IterP', 'coll_iter_from_spec'), ('C01_tree_get', 'WulP', 'get_rec_canon'),
  ('C01_flush_tree', 'WulP', 'wul_canon'),
  ('C01_flush', 'CollCtorP', 'apply_spec'), ('C01_pop_front', 'CollCtorP', 'pop_front_spec'),
  ('C01_capacity_zero_refines', 'CapZeroP', 'every_configuration_refines_cap0'), ('C01_capacity_zero_closed_u64', 'CapZeroP', 'run_refines_cap0'), ('C01_quad_every_configuration_refines', 'QuadP', 'quad_every_configuration_refines'), ('C01_eleven_kinds', 'QuadP', 'every_configuration_refines11'), ('C01_with_builder_interleaved', 'BuilderSysP', 'interleave_refines'), ('C01_builder_does_not_change_answers', 'BuilderSysP', 'interleave_same_answers'),
  ('C01_step_refines', 'Refine', 'step_refines'), ('C01_run_refines', 'Refine', 'run_refines'), ('C01_spec_det', 'Refine', 'spec_det'),
 ],
 'C02': [
  ('C02_quad_root_is_container_root', 'QuadP', 'ek_quad_root_container'), ('C02_quad_root_is_not_its_bytes', 'QuadP', 'quad_root_not_bytes'), ('C02_quad_list_root', 'QuadP', 'quad_list_root_spec'), ('C02_capacity_zero_roots', 'CapZeroP', 'cap0_roots'), ('C02_closed_h256', 'Instances', 'root_h256'), ('C02_nested_element_root_is_ssz', 'NestedP', 'mroot_is_merkle'), ('C02_nested_element_root_is_inner_list_root', 'NestedP', 'nl_root_is_inner_list_root'), ('C02_scenario', 'Instances', 'scenario_spec'),
  ('C02_canon_merkle', 'HashP', 'shash_canon_merkle'), ('C02_merkleize_pad', 'HashP', 'merkleize_pad'),
  ('C02_depth', 'HashP', 'depth_is_chunk_depth'), ('C02_tree_hash', 'HashP', 'tree_hash_exact'),
  ('C02_root', 'HashP', 'root_is_ssz_hinv'), ('C02_root_run', 'HashP', 'root_is_ssz_run'),
  ('C02_root_gok', 'CollObsP', 'coll_root_spec'), ('C02_hash_refines', 'RefineB', 'refines_OHash'), ('C02_run_refines', 'Refine', 'run_refines'), ('C02_root_after_abandoned_hashing', 'FaultP', 'abandoned_hashing_is_harmless'),
 ],
 'C03': [
  ('C03_hash_writes_only_truth', 'HashP', 'tree_hash_exact'), ('C03_other_trees', 'HashP', 'mvalid_changes'),
  ('C03_rebase_memos', 'RebaseP', 'rebase_state'), ('C03_rebase_memos_vec', 'RebaseP', 'rebase_state_vec'),
  ('C03_intra_memos', 'IntraP', 'intra_shape'), ('C03_flush_no_memo_write', 'WulP', 'wul_full'),
  ('C03_build_no_memo_write', 'BuilderP', 'build_canon_idf'), ('C03_any_schedule', 'ConcP', 'tree_hash_pool_mvalid'),
  ('C03_root_gok', 'CollObsP', 'coll_root_spec'), ('C03_rebase_gok', 'CollObsP', 'coll_rebase_spec'),
  ('C03_intra_gok', 'CollObsP', 'coll_intra_spec_gok'),
  ('C03_inv', 'Refine', 'step_refines'),
  ('C03_quad_hash_invisible', 'QuadP', 'quad_hash_invisible'), ('C03_hash_invisible', 'InvisibleP', 'hash_invisible'), ('C03_hash_invisible_after_decode', 'InvisibleP', 'hash_invisible_decode'), ('C03_silent_ops_invisible', 'InvisibleP', 'silent_ops_invisible'),
  ('C03_invisible_example', 'InvisibleP', 'invisible_u64'), ('C03_abandoned_hashing_is_harmless', 'FaultP', 'abandoned_hashing_is_harmless'), ('C03_hash_invisible_every_configuration', 'ClosureP', 'hash_invisible_all'),
 ],
 'C04': [
  ('C04_spec_frame', 'FinalP', 'spec_frame'), ('C04_versions_isolated', 'FinalP', 'versions_isolated'), ('C04_versions_isolated_obs', 'FinalP', 'versions_isolated_obs'),
  ('C04_hash_frame', 'HashP', 'mvalid_changes'), ('C04_intra_frame', 'IntraP', 'mvalid_hchanges'),
  ('C04_rebase_base_untouched', 'RebaseP', 'coll_rebase_on_spec'),
  ('C04_equality_stable', 'RoundtripP', 'eq_stable'), ('C04_equality_stable_u64', 'RoundtripP', 'eq_stable_u64'), ('C04_builder_never_touches_registers', 'BuilderSysP', 'builder_regs_frame'), ('C04_regs_frame', 'Refine', 'step_regs_frame'), ('C04_refines', 'Refine', 'step_refines'),
 ],
 'C05': [
  ('C05_push_full', 'IfaceP', 'push_spec_full'), ('C05_push_vector', 'IfaceP', 'push_spec_vector'),
  ('C05_repeat', 'RepeatP', 'repeat_canon_list_depth'), ('C05_repeat_too_long', 'RepeatP', 'repeat_too_long'),
  ('C05_bulk', 'IfaceP', 'bulk_spec'), ('C05_builder_full', 'BuilderP', 'push_full'),
  ('C05_new_list', 'CollCtorP', 'list_try_from_iter_spec'), ('C05_new_list_full', 'CollCtorP', 'list_try_from_iter_full'), ('C05_repeat_list', 'CollCtorP', 'list_repeat_spec'), ('C05_repeat_list_full', 'CollCtorP', 'list_repeat_full'), ('C05_vector_new_wrong', 'CollCtorP', 'vector_new_wrong'), ('C05_to_vector_wrong', 'CollCtorP', 'vector_try_from_wrong_spec'), ('C05_to_vector', 'CollCtorP', 'vector_try_from_spec'),
  ('C05_ssz', 'CollObsP', 'list_from_ssz_strict_spec'), ('C05_bounds', 'Refine', 'reachable_bounds'), ('C05_capacity_zero_is_legal', 'CapZeroP', 'capacity_ok_0'), ('C05_capacity_zero_only_empty', 'CapZeroP', 'cap0_registers_empty'),
 ],
 'C06': [
  ('C06_build_canonical', 'BuilderP', 'build_canon'), ('C06_repeat_canonical', 'RepeatP', 'repeat_canon'),
  ('C06_flush_canonical', 'WulP', 'wul_canon'), ('C06_pop_front_canonical', 'BuilderP', "feed_canon'"),
  ('C06_rebase_canonical', 'RebaseP', 'coll_rebase_on_hinv'), ('C06_intra_canonical', 'IntraP', 'intra_shape_canon'),
  ('C06_eq', 'CollCtorP', 'coll_eqb_spec'), ('C06_eq_refines', 'RefineB', 'refines_OEq'), ('C06_run_refines', 'Refine', 'run_refines'),
 ],
 'C07': [
  ('C07_hash_assumption_satisfiable', 'Instances', 'Hc_collision_free'),
  ('C07_shape_cf', 'FinalP', 'rebase_shape_cf'), ('C07_shape_vec_cf', 'FinalP', 'rebase_shape_vec_cf'), ('C07_state_cf', 'FinalP', 'rebase_state_cf'), ('C07_coll_cf', 'FinalP', 'coll_rebase_on_hinv_cf'), ('C07_closed_h256', 'Instances', 'rebase_h256'),
  ('C07_shape', 'RebaseP', 'rebase_shape'), ('C07_shape_vec', 'RebaseP', 'rebase_shape_vec'),
  ('C07_state', 'RebaseP', 'rebase_state'), ('C07_coll', 'RebaseP', 'coll_rebase_on_hinv'),
  ('C07_coll_demonic', 'RebaseP', 'coll_rebase_on_dem'), ('C07_gok', 'CollObsP', 'coll_rebase_spec'),
  ('C07_hash_inj', 'HashP', 'shash_canon_inj'), ('C07_refines', 'RefineB', 'refines_ORebaseOn'), ('C07_refines_rebase', 'RefineB', 'refines_ORebase'),
  ('C07_quad_rebase_invisible', 'QuadP', 'quad_rebase_invisible'), ('C07_rebase_invisible', 'InvisibleP', 'rebase_invisible'), ('C07_silent_ops_invisible', 'InvisibleP', 'silent_ops_invisible'), ('C07_rebase_invisible_every_configuration', 'ClosureP', 'rebase_invisible_all'),
 ],
 'C08': [
  ('C08_paths_cf', 'FinalP', 'rebase_sharing_paths_cf'), ('C08_paths_vec_cf', 'FinalP', 'rebase_sharing_paths_vec_cf'), ('C08_coll_paths_cf', 'FinalP', 'sharing_paths_cf'), ('C08_sharing_cf', 'FinalP', 'rebase_sharing_cf'), ('C08_equal_share_all', 'FinalP', 'sharing_equal'), ('C08_fresh_on_differing_paths', 'FinalP', 'fresh_differs'),
  ('C08_sharing', 'RebaseP', 'rebase_sharing'), ('C08_sharing_vec', 'RebaseP', 'rebase_sharing_vec'),
  ('C08_sharing_exact', 'RebaseP', 'rebase_sharing_exact'), ('C08_coll', 'RebaseP', 'coll_rebase_on_sharing'),
 ],
 'C09': [
  ('C09_total', 'IntraP', 'intra_total'), ('C09_shape', 'IntraP', 'intra_shape'),
  ('C09_canon', 'IntraP', 'intra_shape_canon'), ('C09_coll', 'IntraP', 'coll_intra_spec'),
  ('C09_coll_memo', 'IntraP', 'coll_intra_spec_memo'), ('C09_pinned_refuted', 'IntraP', 'intra_pinned_refuted'),
  ('C09_pinned_not_shape_preserving', 'IntraP', 'intra_pinned_not_shape_preserving'),
  ('C09_fixed_on_witness', 'IntraP', 'intra_fixed_on_witness'), ('C09_gok', 'CollObsP', 'coll_intra_spec_gok'), ('C09_refines', 'RefineB', 'refines_OIntra'),
  ('C09_quad_intra_is_flush', 'QuadP', 'quad_intra_is_flush'), ('C09_intra_is_flush', 'InvisibleP', 'intra_is_flush'), ('C09_silent_ops_invisible', 'InvisibleP', 'silent_ops_invisible'), ('C09_intra_is_flush_every_configuration', 'ClosureP', 'intra_is_flush_all'),
 ],
 'C10': [
  ('C10_rehash_only_new', 'FinalP', 'rehash_only_new'), ('C10_rehash_recomputed', 'FinalP', 'rehash_recomputed'), ('C10_flush_then_hash', 'FinalP', 'flush_rehash_only_new'),
  ('C10_flush_cost', 'WulP', 'wul_cost'), ('C10_flush_retain', 'WulP', 'wul_retain'), ('C10_flush_full', 'WulP', 'wul_full'),
  ('C10_size', 'BuilderP', 'snodes_canon_le'), ('C10_build_nodes', 'BuilderP', 'build_canon_nodes'),
  ('C10_repeat_nodes', 'RepeatP', 'repeat_nodes'), ('C10_pop_front_reuse', 'BuilderP', 'feed_canon_idf'),
  ('C10_level_items_shared', 'IterP', 'list_level_iter_from_spec'), ('C10_clone', 'Refine', 'clone_allocates_nothing'),
  ('C10_pop_front', 'CollCtorP', 'pop_front_spec'),
  ('C10_quad_reachable_node_bound', 'QuadP', 'quad_reachable_node_bound'), ('C10_size_packed', 'ClosureP', 'snodes_canon_packed_le'), ('C10_reachable_node_bound', 'ClosureP', 'reachable_node_bound_all'), ('C10_reachable_node_bound_capacity_free', 'ClosureP', 'reachable_node_bound_capfree'),
 ],
 'C11': [
  ('C11_iter_yields', 'IterP', 'iter_yields'), ('C11_iter_from', 'IterP', 'coll_iter_from_spec'),
  ('C11_iter_hints', 'IterP', 'iiter_collect_spec'), ('C11_level_iter_tree', 'IterP', 'liter_collect_spec'),
  ('C11_level_iter', 'IterP', 'list_level_iter_from_spec'), ('C11_pop_front_build', 'BuilderP', "feed_canon'"),
  ('C11_pop_front', 'CollCtorP', 'pop_front_spec'), ('C11_pop_front_slow', 'CollCtorP', 'pop_front_slow_spec'), ('C11_pop_front_oob', 'CollCtorP', 'pop_front_oob'), ('C11_level_iter_refines', 'RefineB', 'refines_OLevelIter'), ('C11_pop_front_refines', 'RefineA', 'refines_OPopFront'),
 ],
 'C12': [
  ('C12_lawful_uint', 'Instances', 'ek_uintW_codec_on'), ('C12_lawful_h256', 'Instances', 'ek_h256W_codec_on'), ('C12_raw_kinds_agree', 'Instances', 'ek_uint_agree'),
  ('C12_enc_fixed', 'CodecP', 'enc_fixed_on'), ('C12_dec_enc_fixed', 'CodecP', 'dec_enc_fixed_on'),
  ('C12_dec_strict_fixed', 'CodecP', 'dec_strict_fixed_on'), ('C12_dec_enc_var', 'CodecP', 'dec_enc_var_on'),
  ('C12_dec_strict_var', 'CodecP', 'dec_strict_var_on'), ('C12_len_var', 'CodecP', 'ssz_len_var'),
  ('C12_len_fixed', 'CodecP', 'ssz_bytes_len_fixed_eq'), ('C12_list_from_ssz', 'CodecP', 'list_from_ssz_serialize'),
  ('C12_list_from_ssz_strict', 'CodecP', 'list_from_ssz_strict'),
  ('C12_uint', 'CodecP', 'ek_uint_codec'), ('C12_h256', 'CodecP', 'ek_h256_codec'),
  ('C12_pair', 'CodecP', 'ek_pair_codec'), ('C12_var', 'CodecP', 'ek_var_codec'),
  ('C12_encode', 'CollObsP', 'ssz_encode_spec'), ('C12_bytes_len', 'CollObsP', 'ssz_bytes_len_spec'),
  ('C12_roundtrip', 'CollObsP', 'list_from_ssz_roundtrip'), ('C12_strict', 'CollObsP', 'list_from_ssz_strict_spec'),
  ('C12_vec_roundtrip', 'CollObsP', 'vector_from_ssz_roundtrip'), ('C12_enc_refines', 'RefineB', 'refines_OSszEnc_valid'), ('C12_dec_refines', 'RefineB', 'refines_OSszList'), ('C12_vec_strict', 'CollObsP', 'vector_from_ssz_strict_spec'),
  ('C12_roundtrip_any_original', 'RoundtripP', 'ssz_list_roundtrip'), ('C12_roundtrip_any_original_vec', 'RoundtripP', 'ssz_vec_roundtrip'), ('C12_roundtrip_closed_u64', 'RoundtripP', 'ssz_list_roundtrip_u64'), ('C12_quad_codec', 'QuadP', 'ek_quad_codec'), ('C12_quad_decode_iff', 'QuadP', 'quad_decode_iff'), ('C12_quad_vec_decode_iff', 'QuadP', 'quad_vec_decode_iff'), ('C12_list_decode_iff', 'SszDetP', 'ssz_list_decode_iff'), ('C12_vec_decode_iff', 'SszDetP', 'ssz_vec_decode_iff'),
  ('C12_spec_decode_iff', 'Refine', 'spec_ssz_list_iff'), ('C12_spec_decode_vec_iff', 'Refine', 'spec_ssz_vec_iff'),
  ('C12_serialize_injective', 'RefineB', 'serialize_inj_on'), ('C12_decode_full', 'RefineB', 'list_from_ssz_full'), ('C12_decode_vec_full', 'RefineB', 'vector_from_ssz_full'),
  ('C12_spec_det', 'Refine', 'spec_det'),
  ('C12_fixed_len_static', 'SszStaticP', 'ssz_fixed_len_spec'), ('C12_list_is_variable', 'SszStaticP', 'ssz_list_is_variable'), ('C12_vector_fixed_iff', 'SszStaticP', 'ssz_vector_fixed_iff'), ('C12_not_fixed_len', 'SszStaticP', 'ssz_not_fixed_len'),
 ],
 'C13': [
  ('C13_ser', 'CollObsP', 'serde_ser_spec'), ('C13_de_list', 'CollObsP', 'list_serde_de_ok'), ('C13_de_list_too_long', 'CollObsP', 'list_serde_de_fail'),
  ('C13_de_vec', 'CollObsP', 'vector_serde_de_ok'), ('C13_de_vec_wrong_len', 'CollObsP', 'vector_serde_de_fail'), ('C13_ser_refines', 'RefineB', 'refines_OSerdeSer'), ('C13_de_refines', 'RefineB', 'refines_OSerdeList'), ('C13_de_vec_refines', 'RefineB', 'refines_OSerdeVec'), ('C13_de_eq', 'CodecP', 'list_serde_de_eq'), ('C13_roundtrip_any_original', 'RoundtripP', 'serde_list_roundtrip'), ('C13_roundtrip_any_original_vec', 'RoundtripP', 'serde_vec_roundtrip'), ('C13_roundtrip_closed_u64', 'RoundtripP', 'serde_list_roundtrip_u64'),
 ],
 'C14': [
  ('C14_quad_maps_unobservable', 'QuadP', 'quad_maps_unobservable'), ('C14_closed_u64', 'Instances', 'maps_unobservable_u64'), ('C14_closed_nested', 'NestedP', 'maps_unobservable_nl'), ('C14_every_kind_every_pair_of_maps', 'ClosureP', 'maps_unobservable_all'), ('C14_three_maps_agree', 'ClosureP', 'maps_unobservable_three'),
  ('C14_vecmap_all', 'ClosureP', 'vecmap_lawful_all'), ('C14_btmap_all', 'ClosureP', 'btmap_lawful_all'), ('C14_maxmap_all', 'ClosureP', 'maxmap_vecmap_lawful_all'),
  ('C14_vecmap', 'UMapP', 'vecmap_lawful'), ('C14_btmap', 'UMapP', 'btmap_lawful'), ('C14_maxmap', 'UMapP', 'maxmap_lawful'),
  ('C14_get', 'IfaceP', 'iface_get_spec'), ('C14_len', 'IfaceP', 'iface_len_spec'), ('C14_flush', 'WulP', 'wul_canon'),
  ('C14_bulk', 'IfaceP', 'bulk_spec'), ('C14_needs_exact_max', 'IfaceP', 'bulk_update_needs_max_exact'),
  ('C14_unobservable', 'Refine', 'maps_unobservable'),
 ],
 'C15': [
  ('C15_bulk', 'IfaceP', 'bulk_spec'), ('C15_gap_rejected', 'WulP', 'wul_gap'), ('C15_push_full', 'IfaceP', 'push_spec_full'),
  ('C15_iter_total', 'IterP', 'iter_yields'), ('C15_level_iter_total', 'IterP', 'liter_collect_spec'),
  ('C15_intra_total', 'IntraP', 'intra_total'), ('C15_builder_depth', 'BuilderP', 'new_invalid_depth'),
  ('C15_repeat_total', 'RepeatP', 'repeat_nodes'), ('C15_flush', 'CollCtorP', 'apply_spec'),
  ('C15_pop_front', 'CollCtorP', 'pop_front_spec'), ('C15_to_vector', 'CollCtorP', 'vector_try_from_spec'),
  ('C15_decode_total', 'CollObsP', 'list_from_ssz_strict_spec'), ('C15_step_safe', 'Refine', 'step_safe'), ('C15_no_panic', 'Refine', 'step_no_panic'), ('C15_refines', 'Refine', 'step_refines'), ('C15_bounds', 'Refine', 'reachable_bounds'), ('C15_every_configuration_step', 'ClosureP', 'every_configuration_step'),
  ('C15_capacity_zero_answers', 'CapZeroP', 'cap0_by_theorem'), ('C15_builder_session_no_panic', 'BuilderSysP', 'value_session_no_panic'), ('C15_builder_new_push_total', 'BuilderSysP', 'bop_step'), ('C15_decode_total_and_exact', 'SszDetP', 'ssz_list_decode_iff'),
 ],
 'C16': [
  ('C16_step_sound', 'ConcP', 'astep_sound'), ('C16_any_schedule_safe', 'ConcP', 'any_schedule_safe'),
  ('C16_tree_hash_rg', 'ConcP', 'tree_hash_rg'), ('C16_progress', 'ConcP', 'progress'),
  ('C16_schedule_length_bounded', 'ConcP', 'schedule_length_bounded'), ('C16_tree_hash_bounded', 'ConcP', 'tree_hash_bounded'),
  ('C16_pool_bounded', 'ConcP', 'tree_hash_pool_bounded'), ('C16_pool_terminates', 'ConcP', 'pool_terminates'),
  ('C16_run_is_a_schedule', 'ConcP', 'conc_run_agree'), ('C16_confluent', 'ConcP', 'tree_hash_pool_confluent'),
  ('C16_deterministic', 'ConcP', 'tree_hash_pool_deterministic'), ('C16_final_table', 'ConcP', 'tree_hash_pool_final_table'),
  ('C16_mvalid_always', 'ConcP', 'tree_hash_pool_mvalid'), ('C16_private_ops_demonic', 'RebaseP', 'coll_rebase_on_dem'), ('C16_par_hash_refines', 'RefineB', 'refines_OParHash'), ('C16_par_mix_refines', 'RefineB', 'refines_OParMix'), ('C16_run_final', 'ConcP', 'tree_hash_run_final'),
  ('C16_nested_lawful', 'NestedP', 'ek_nlW_wf'), ('C16_nested_root_injective', 'NestedP', 'ek_nlW_troot_inj'),
  ('C16_nested_par_hash', 'NestedP', 'par_hash_nl'), ('C16_nested_par_mix', 'NestedP', 'par_mix_nl'), ('C16_nested_history', 'NestedP', 'history_nl'), ('C16_abandoned_hashing_is_harmless', 'FaultP', 'abandoned_hashing_is_harmless'),
 ],
 'C17': [
  ('C17_incremental', 'FinalP', 'incremental_canon'), ('C17_inc_flag_true', 'FinalP', 'finish_inc_true'), ('C17_build_eq_incremental', 'FinalP', 'build_eq_incremental'),
  ('C17_build', 'BuilderP', 'build_canon_idf'), ('C17_push_full', 'BuilderP', 'push_full'),
  ('C17_invalid_depth', 'BuilderP', 'new_invalid_depth'), ('C17_push_node', 'BuilderP', 'feed_canon_idf'),
  ('C17_needs_values_at_level_0', 'BuilderP', 'feed_canon_needs_values_at_level_0'),
  ('C17_hash', 'HashP', 'shash_canon_merkle'), ('C17_one_at_a_time', 'WulP', 'wul1_canon'),
  ('C17_count', 'BuilderP', 'build_canon_count'),
  ('C17_quad_session', 'QuadP', 'quad_builder_session'), ('C17_session', 'BuilderSysP', 'value_session_ok'), ('C17_session_root_is_ssz', 'BuilderSysP', 'value_session_root'),
  ('C17_session_full', 'BuilderSysP', 'value_session_full'), ('C17_session_invalid_depth', 'BuilderSysP', 'value_session_invalid_depth'),
  ('C17_new_invalid_depth_any_state', 'BuilderSysP', 'new_invalid_depth_sys'),
  ('C17_session_no_panic', 'BuilderSysP', 'value_session_no_panic'), ('C17_session_reachable', 'BuilderSysP', 'value_session_reachable'),
  ('C17_subtree_session', 'BuilderSysP', 'node_session_ok'),
  ('C17_interleaved_session', 'BuilderSysP', 'interleave_session'), ('C17_builder_ops_frame', 'BuilderSysP', 'bop_frame'),
  ('C17_closed_u64', 'BuilderSysP', 'value_session_u64'),
 ],
}


def available(module):
    return os.path.exists('%s/theories/proofs/%s.vo' % (COQ, module))


def check(module, lemma):
    """statement of @lemma as printed by Coq, or None"""
    src = 'From MH Require Import %s.\nSet Printing Width 100000.\nSet Printing Depth 100000.\nCheck @%s.\n' % (module, lemma)
    open('/tmp/mkprops_chk.v', 'w').write(src)
    r = subprocess.run(['coqtop', '-Q', COQ + '/theories', 'MH', '-batch', '-l', '/tmp/mkprops_chk.v'],
                       capture_output=True, text=True, timeout=300)
    out = r.stdout
    m = re.search(r'^@?%s\s*\n?\s*:\s*(.*)\Z' % re.escape(lemma), out, re.S | re.M)
    if not m or 'Error' in r.stderr:
        return None
    return m.group(1).strip()


def main():
    only = sys.argv[1:]
    os.makedirs(COQ + '/theories/props', exist_ok=True)
    for prop, entries in TABLE.items():
        if only and prop not in only:
            continue
        mods, body, missing = [], [], []
        for name, module, lemma in entries:
            if not available(module):
                missing.append('%s (%s.%s: file not built)' % (name, module, lemma))
                continue
            st = check(module, lemma)
            if st is None:
                missing.append('%s (%s.%s: not found)' % (name, module, lemma))
                continue
            if module not in mods:
                mods.append(module)
            body.append('Theorem %s :\n  %s.\nProof. exact (@%s). Qed.\nPrint Assumptions %s.\n' % (name, st, lemma, name))
        txt = '(* %s.v — GENERATED by tools/mkprops.py; do not edit by hand.\n' % prop
        txt += '   Pinned statements of the theorems that decide property %s (docs: DESIGN.md section 6).\n' % prop
        txt += '   Each is closed by `exact` of a lemma proved in theories/proofs; `Print Assumptions` must\n'
        txt += '   report "Closed under the global context". *)\n'
        txt += 'From MH Require Import %s.\n\n' % ' '.join(mods)
        txt += '\n'.join(body)
        if missing:
            txt += '\n(* not yet available (no theorem is claimed for these):\n' + '\n'.join('   ' + m for m in missing) + ' *)\n'
        open('%s/theories/props/%s.v' % (COQ, prop), 'w').write(txt)
        print(prop, len(body), 'theorems;', len(missing), 'missing')


if __name__ == '__main__':
    main()
