#!/usr/bin/env python3
"""Property oracles evaluated on an implementation trace (docs/FORMAT.md), independent of the Coq
model: they are the failing-input search. Each oracle returns a list of Finding(op_no, message).

Structural views are decoded from the S/M/I/F lines: tree dumps are parsed, true Merkle hashes are
recomputed with the from-scratch SSZ reference (ssz_ref), canonical trees are rebuilt from the values.
"""
import hashlib
from collections import namedtuple
import ssz_ref
import tracecmp

Finding = namedtuple('Finding', 'op msg')

PF = {k: v for k, v in ssz_ref.PACKING.items() if v}      # packing factors of the basic kinds (incl. fu64, bu16)


def ceil_log2(n):
    d = 0
    while (1 << d) < n:
        d += 1
    return d


class Cfg:
    def __init__(self, header):
        # "H <idx> <kind> <N> <map>"
        p = header.split()
        self.kind, self.n, self.map = p[2], int(p[3]), p[4]
        self.pf = PF.get(self.kind)
        self.pd = ceil_log2(self.pf) if self.pf else 0
        self.depth = max(ceil_log2(self.n) - self.pd, 0)


# ---------------------------------------------------------------- tree dumps
def parse_tree(s):
    """dump -> nested tuples ('N', l, r) | ('L', v) | ('P', (v,...)) | ('Z', d)"""
    pos = 0

    def rec():
        nonlocal pos
        c = s[pos]
        if c == '(':
            pos += 1
            l = rec()
            r = rec()
            assert s[pos] == ')', (s, pos)
            pos += 1
            return ('N', l, r)
        end = s.index(';', pos)
        body = s[pos + 1:end]
        pos = end + 1
        if c == 'L':
            return ('L', body)
        if c == 'P':
            return ('P', tuple(body.split(':')) if body else ())
        if c == 'Z':
            return ('Z', int(body))
        raise ValueError('bad dump at %d: %s' % (pos, s[:80]))
    t = rec()
    assert pos == len(s), (s, pos)
    return t


def preorder(t, path=''):
    yield path, t
    if t[0] == 'N':
        yield from preorder(t[1], path + 'L')
        yield from preorder(t[2], path + 'R')


def elems(t):
    if t[0] == 'N':
        return elems(t[1]) + elems(t[2])
    if t[0] == 'L':
        return [t[1]]
    if t[0] == 'P':
        return list(t[1])
    return []


def canon(cfg, d, vals):
    """the canonical tree of depth d for the element list vals (independent re-statement)"""
    if not vals:
        return ('Z', d)
    if d == 0:
        return ('P', tuple(vals)) if cfg.pf else ('L', vals[0])
    c = 1 << (d - 1 + cfg.pd)
    return ('N', canon(cfg, d - 1, vals[:c]), canon(cfg, d - 1, vals[c:]))


_ZH = [b'\x00' * 32]


def zero_hash(d):
    while len(_ZH) <= d:
        _ZH.append(hashlib.sha256(_ZH[-1] + _ZH[-1]).digest())
    return _ZH[d]


def true_hash(cfg, t, memo=None):
    """Merkle hash of a dumped subtree, from its leaves"""
    if memo is not None and id(t) in memo:
        return memo[id(t)]
    if t[0] == 'Z':
        r = zero_hash(t[1])
    elif t[0] == 'L':
        r = ssz_ref.element_root(cfg.kind, bytes.fromhex(t[1]))
    elif t[0] == 'P':
        r = (b''.join(bytes.fromhex(v) for v in t[1])).ljust(32, b'\x00')
    else:
        r = hashlib.sha256(true_hash(cfg, t[1], memo) + true_hash(cfg, t[2], memo)).digest()
    if memo is not None:
        memo[id(t)] = r
    return r


def fields(line):
    """'S h0 blen=3 depth=1 tree=... upd=- max=none' -> (reg, dict)"""
    p = line.split(' ')
    d = {}
    for kv in p[2:]:
        if '=' in kv:
            k, v = kv.split('=', 1)
            d[k] = v
    return p[1], d


class Step:
    """decoded views after one operation"""

    def __init__(self, n, lines):
        self.n = n
        self.result = lines['R'][0].split(' ', 2)[2]
        self.O, self.S, self.M, self.I = {}, {}, {}, {}
        for l in lines.get('O', []):
            p = l.split(' ')
            reg, d = p[1], {}
            d['kind'] = p[2]
            for kv in p[3:]:
                k, v = kv.split('=', 1)
                d[k] = v
            self.O[reg] = d
        for l in lines.get('S', []):
            reg, d = fields(l)
            self.S[reg] = d
        for l in lines.get('M', []):
            p = l.split(' ')
            self.M[p[1]] = p[2]
        for l in lines.get('I', []):
            p = l.split(' ')
            self.I[p[1]] = p[2]
        f = lines.get('F', [])
        self.F = int(f[0].split()[1]) if f else None


def decode(history_lines):
    ops = tracecmp.by_op(history_lines)
    return [Step(n, ops[n]) for n in sorted(ops)]


def vals_of(o):
    v = o.get('vals', '-')
    return [] if v == '-' else [('' if x == '.' else x) for x in v.split(',')]


# ---------------------------------------------------------------- oracles
def oracle_wellformed(cfg, ops, steps):
    """C15/C05: no panic; len = number of iterated values; get(i) is Some exactly below len; bounds; the
    copy-on-write iterator hands out exactly one handle per element"""
    out = []
    prev_o = {}
    for st, op in zip(steps, ops):
        p = op.split()
        if p[0] == 'iter_cow' and st.result.startswith('ok:') and p[1] in prev_o:
            items = 0 if p[2] == '-' else len(p[2].split(','))
            want = min(items, int(prev_o[p[1]]['len']))
            if st.result != 'ok:%d' % want:
                out.append(Finding(st.n, '`iter_cow` over %d requested items of a %s-element list handed out %s handles' % (items, prev_o[p[1]]['len'], st.result[3:])))
        prev_o = st.O
    for st in steps:
        if st.result == 'panic':
            out.append(Finding(st.n, 'operation panicked'))
        for reg, o in st.O.items():
            if o.get('vals') in ('big', None):
                continue
            ln = int(o['len'])
            vs = vals_of(o)
            if len(vs) != ln:
                out.append(Finding(st.n, '%s: len()=%d but iteration yields %d elements' % (reg, ln, len(vs))))
            gets = [('' if g == '.' else g) for g in o['gets'].split(',')]
            want = vs + ['none', 'none']
            if gets != want:
                out.append(Finding(st.n, '%s: get(i) disagrees with iteration / is Some beyond len' % reg))
            if o['kind'] == 'L' and ln > cfg.n:
                out.append(Finding(st.n, '%s: List longer than N (%d > %d)' % (reg, ln, cfg.n)))
            if o['kind'] == 'V' and ln != cfg.n:
                out.append(Finding(st.n, '%s: Vector length %d != N %d' % (reg, ln, cfg.n)))
            if (o['empty'] == '1') != (ln == 0):
                out.append(Finding(st.n, '%s: is_empty inconsistent with len' % reg))
    return out


def oracle_error_preserves(cfg, ops, steps):
    """C15: an operation that reports an error leaves the contents as they were"""
    out = []
    prev = None
    for st, op in zip(steps, ops):
        if prev is not None and st.result.startswith('err:'):
            for reg, o in st.O.items():
                po = prev.O.get(reg)
                if po is not None and po.get('vals') != o.get('vals'):
                    out.append(Finding(st.n, '%s: contents changed by a rejected call (%s)' % (reg, st.result)))
        prev = st
    return out


def oracle_memo(cfg, ops, steps):
    """C03: every memoised hash of every node reachable from a live handle is the true hash"""
    out = []
    for st in steps:
        for reg, s in st.S.items():
            if s.get('tree') in (None, 'big'):
                continue
            t = parse_tree(s['tree'])
            m = st.M.get(reg, '-')
            nodes = [(p, x) for p, x in preorder(t) if x[0] != 'Z']
            memos = m.split(',') if (m != '-' or len(nodes) == 1) else []
            if len(memos) != len(nodes):
                out.append(Finding(st.n, '%s: memo view has %d entries for %d nodes' % (reg, len(memos), len(nodes))))
                continue
            cache = {}
            for (path, x), mm in zip(nodes, memos):
                if mm == '-':
                    continue
                th = true_hash(cfg, x, cache).hex()[:16]
                if mm != th:
                    out.append(Finding(st.n, '%s: stale memo at path %r: cached %s, true %s' % (reg, path or '.', mm, th)))
                    break
    return out


def oracle_canonical(cfg, ops, steps):
    """C06: a flushed collection's backing tree is THE canonical tree of its contents"""
    out = []
    for st in steps:
        for reg, o in st.O.items():
            s = st.S.get(reg)
            if not s or o.get('pend') != '0' or s.get('tree') in (None, 'big') or o.get('vals') == 'big':
                continue
            if s.get('upd') != '-':
                out.append(Finding(st.n, '%s: no pending updates reported but the map is not empty' % reg))
                continue
            vs = vals_of(o)
            t = parse_tree(s['tree'])
            d = int(s['depth'])
            if d != cfg.depth:
                out.append(Finding(st.n, '%s: depth %d, expected %d' % (reg, d, cfg.depth)))
            if t != canon(cfg, d, vs):
                out.append(Finding(st.n, '%s: backing tree is not the canonical tree of its contents' % reg))
            if int(s['blen']) != len(vs):
                out.append(Finding(st.n, '%s: backing length %s != %d' % (reg, s['blen'], len(vs))))
    return out


def node_count(t):
    return 1 + (node_count(t[1]) + node_count(t[2]) if t[0] == 'N' else 0)


def idents(st, reg):
    i = st.I.get(reg)
    if i in (None, 'big'):
        return None
    return [int(x) for x in i.split(',')]


def oracle_sharing(cfg, ops, steps):
    """C08: after rebasing a collection that shared nothing with the base, every position where both
    hold the same subtree is physically the same node; fresh nodes lie only on differing paths."""
    out = []
    prev = None
    for st, op in zip(steps, ops):
        p = op.split()
        if p[0] == 'rebase_on' and st.result == 'ok' and prev is not None:
            a, b = p[1], p[2]
            pa, pb = idents(prev, a), idents(prev, b)
            if pa is None or pb is None or set(pa) & set(pb):
                prev = st
                continue
            sa, sb = st.S.get(a), st.S.get(b)
            ia, ib = idents(st, a), idents(st, b)
            if not sa or not sb or ia is None or ib is None or 'big' in (sa['tree'], sb['tree']):
                prev = st
                continue
            ta, tb = parse_tree(sa['tree']), parse_tree(sb['tree'])
            la = {path: (x, i) for (path, x), i in zip(preorder(ta), ia)}
            lb = {path: (x, i) for (path, x), i in zip(preorder(tb), ib)}
            # the element lists must describe the same index range: for lists the sub-lengths matter,
            # equal dumped subtrees at the same path have the same elements and the same sub-length.
            for path, (x, i) in la.items():
                if path in lb and lb[path][0] == x and lb[path][1] != i:
                    out.append(Finding(st.n, 'rebase_on %s %s: equal subtree at path %r is not shared with the base' % (a, b, path or '.')))
                    break
            # nodes private to the rebased collection: confined to root-to-leaf paths of differing positions
            for path, (x, i) in la.items():
                if i in set(ib):
                    continue
                if path in lb and lb[path][0] == x:
                    continue        # reported above
                # private node: fine iff the subtrees differ here (it is on a differing path)
        prev = st
    return out


def oracle_cost(cfg, ops, steps):
    """C10: clone allocates nothing; flush creates O(k*d) nodes and keeps every untouched subtree
    shared with a clone taken before; node count follows the length, not N; pop_front reuses whole
    aligned subtrees of a clone taken before."""
    out = []
    prev = None
    for st, op in zip(steps, ops):
        p = op.split()
        if st.F is None:
            prev = st
            continue
        if p[0] == 'clone' and st.result == 'ok' and st.F != 0:
            out.append(Finding(st.n, 'clone allocated %d tree nodes' % st.F))
        if p[0] == 'apply' and st.result == 'ok' and prev is not None:
            a = p[1]
            ps = prev.S.get(a)
            if ps and ps.get('upd') not in (None,):
                k = 0 if ps['upd'] == '-' else len(ps['upd'].split(','))
                d = int(ps['depth'])
                bound = 2 * k * (d + 1)
                if st.F > bound:
                    out.append(Finding(st.n, 'apply of %d pending writes at depth %d created %d nodes (> %d)' % (k, d, st.F, bound)))
                # retention against any other live handle that had the identical tree before
                if ps['tree'] != 'big' and k > 0:
                    keys = [int(x.split(':')[0]) for x in ps['upd'].split(',')]
                    pi = idents(prev, a)
                    for other, os_ in prev.S.items():
                        if other == a or other not in st.S or os_['tree'] != ps['tree']:
                            continue
                        if idents(prev, other) != pi:
                            continue            # not the same physical tree
                        ta = parse_tree(st.S[a]['tree'])
                        to = parse_tree(st.S[other]['tree'])
                        ia, io = idents(st, a), idents(st, other)
                        if ia is None or io is None:
                            continue
                        la = {path: (x, i) for (path, x), i in zip(preorder(ta), ia)}
                        lo = {path: (x, i) for (path, x), i in zip(preorder(to), io)}
                        for path, (x, i) in lo.items():
                            lo_, hi_ = window(cfg, d, path)
                            if any(lo_ <= kk < hi_ for kk in keys):
                                continue
                            if path in la and la[path][1] != i:
                                out.append(Finding(st.n, 'apply: untouched subtree at path %r was copied instead of shared' % (path or '.')))
                                break
                        break
        if p[0] == 'pop_front' and st.result == 'ok' and prev is not None and len(p) == 3:
            a, n = p[1], int(p[2])
            ps = prev.S.get(a)
            po = prev.O.get(a)
            if ps and po and n > 0 and ps['tree'] != 'big' and po.get('pend') == '0':
                d = int(ps['depth'])
                level = cfg.depth + cfg.pd if n == 0 else (n & -n).bit_length() - 1
                if level < cfg.pd:
                    level = 0
                tl = level - cfg.pd if level >= cfg.pd else None
                pi = idents(prev, a)
                if tl is not None and tl >= 0:
                    for other, os_ in prev.S.items():
                        if other == a or other not in st.S or os_['tree'] != ps['tree'] or idents(prev, other) != pi:
                            continue
                        to = parse_tree(st.S[other]['tree'])
                        io = idents(st, other)
                        ia = idents(st, a)
                        if io is None or ia is None:
                            continue
                        ln = int(po['len'])
                        width = 1 << (tl + cfg.pd)
                        new_ids = set(ia)
                        for (path, x), i in zip(preorder(to), io):
                            if len(path) != d - tl or x[0] == 'Z':
                                continue
                            lo_, hi_ = window(cfg, d, path)
                            if lo_ >= n and lo_ < ln and (lo_ - n) % width == 0 and i not in new_ids:
                                out.append(Finding(st.n, 'pop_front(%d): aligned level-%d subtree at %r was copied, not reused' % (n, level, path or '.')))
                                break
                        break
        # size follows length, not N
        for reg, s in st.S.items():
            o = st.O.get(reg)
            if not o or o.get('pend') != '0' or s.get('tree') in (None, 'big') or o.get('vals') == 'big':
                continue
            ln = int(s['blen'])
            pf = cfg.pf or 1
            bound = 2 * ((ln + pf - 1) // pf) + 2 * int(s['depth']) + 1
            nc = node_count(parse_tree(s['tree']))
            if nc > bound:
                out.append(Finding(st.n, '%s: %d tree nodes for %d elements at depth %s (> %d)' % (reg, nc, ln, s['depth'], bound)))
        prev = st
    return out


def window(cfg, d, path):
    lo = 0
    for j, c in enumerate(path):
        if c == 'R':
            lo += 1 << (d - j - 1 + cfg.pd)
    return lo, lo + (1 << (d - len(path) + cfg.pd))


def oracle_builder(cfg, ops, steps):
    """C17: the finished tree is canonical for its elements, holds them in order, inc=true"""
    out = []
    pushed = None
    for st, op in zip(steps, ops):
        p = op.split()
        if p[0] == 'b_new':
            pushed = [] if st.result == 'ok' else None
        elif p[0] == 'b_push' and pushed is not None and st.result == 'ok':
            pushed.append('' if p[1] == '.' else p[1])
        elif p[0] == 'b_push_node':
            pushed = None
        elif p[0] == 'b_finish':
            if st.result.startswith('ok:'):
                f = dict(kv.split('=', 1) for kv in st.result[3:].split(',') if '=' in kv and not kv.startswith('tree='))
                # tree= may contain commas? no: dumps use ; : ( ) only
                body = st.result[3:]
                tree = body.split('tree=')[1].split(',root=')[0]
                root = body.split(',root=')[1].split(',')[0]
                inc = body.split(',inc=')[1]
                d = int(body.split('d=')[1].split(',')[0])
                ln = int(body.split('len=')[1].split(',')[0])
                if tree != 'big':
                    t = parse_tree(tree)
                    es = elems(t)
                    if len(es) != ln:
                        out.append(Finding(st.n, 'builder: reported length %d but tree holds %d elements' % (ln, len(es))))
                    if t != canon(cfg, d, es):
                        out.append(Finding(st.n, 'builder: finished tree is not canonical for its elements'))
                    if pushed is not None and es != pushed:
                        out.append(Finding(st.n, 'builder: tree elements differ from the pushed values'))
                    if true_hash(cfg, t).hex() != root:
                        out.append(Finding(st.n, 'builder: tree hash differs from the Merkle hash of the finished tree'))
                    if inc != 'true':
                        out.append(Finding(st.n, 'builder: tree differs from one-at-a-time insertion'))
            pushed = None
    return out



# ---------------------------------------------------------------- isolation (C04)
CTOR = {'new_list', 'new_vec', 'list_slow', 'vec_iter', 'empty', 'repeat', 'repeat_slow', 'from_elem', 'default_vec',
        'ssz_list', 'ssz_vec', 'serde_list', 'serde_vec'}


def targets(op):
    """registers an operation acts through or writes (everything else is 'another handle')"""
    p = op.split()
    regs = [x for x in p[1:] if len(x) == 2 and x[0] == 'h' and x[1].isdigit()]
    if p[0] in ('rebase_on',):
        return {regs[0]} if regs else set()          # the base is 'another handle': it must be unaffected
    if p[0] == 'rebase':
        return {regs[0], regs[2]} if len(regs) == 3 else set(regs)
    if p[0] == 'b_push_node':
        return set()
    return set(regs)


def oracle_isolation(cfg, ops, steps):
    """C04: an operation applied through one handle changes nothing that any OTHER handle shows: contents, length,
    emptiness, pending state, indexed reads; and the root of a handle that no operation targeted in between."""
    out = []
    prev = None
    last_root = {}
    last_eq = {}
    for st, op in zip(steps, ops):
        p = op.split()
        tg = targets(op)
        if prev is not None and st.result not in ('panic',):
            for reg, po in prev.O.items():
                if reg in tg:
                    continue
                o = st.O.get(reg)
                if o is None:
                    out.append(Finding(st.n, '%s disappeared although `%s` does not target it' % (reg, op[:60])))
                elif o != po:
                    diff = [k for k in po if po.get(k) != o.get(k)]
                    out.append(Finding(st.n, '%s changed (%s) although `%s` does not target it' % (reg, ','.join(diff), op[:60])))
        # derived versions are faithful, independent copies of what their source showed
        if prev is not None and st.result == 'ok' and p[0] in ('clone', 'rebase', 'rebase_on', 'to_vector', 'to_list'):
            src = p[1]
            dst = {'clone': p[2] if len(p) > 2 else None, 'rebase': p[3] if len(p) > 3 else None, 'rebase_on': p[1],
                   'to_vector': p[2] if len(p) > 2 else None, 'to_list': p[2] if len(p) > 2 else None}[p[0]]
            po, o = prev.O.get(src), st.O.get(dst) if dst else None
            if po is not None and o is not None:
                keys = ['len', 'vals', 'gets', 'empty'] + (['pend', 'kind'] if p[0] in ('clone', 'rebase', 'rebase_on') else [])
                diff = [k for k in keys if po.get(k) != o.get(k)]
                if diff:
                    out.append(Finding(st.n, '`%s`: %s does not show what %s showed before (%s differ)' % (op[:60], dst, src, ','.join(diff))))
        for r in tg:
            if p[0] != 'hash' and p[0] not in ('get', 'len', 'iter_from', 'level_iter', 'eq', 'ssz_enc', 'serde_ser', 'par_hash', 'par_mix', 'cow_read'):
                last_root.pop(r, None)
        if p[0] == 'hash' and st.result.startswith('ok:'):
            r = p[1]
            if r in last_root and last_root[r] != st.result:
                out.append(Finding(st.n, 'root of %s changed from %s to %s although no operation targeted it in between' % (r, last_root[r][3:19], st.result[3:19])))
            last_root[r] = st.result
        if p[0] == 'clone' and len(p) == 3 and p[1] in last_root and st.result == 'ok':
            last_root[p[2]] = last_root[p[1]]        # a clone shows the same root
        # equality observed between two flushed handles is stable while neither of them shows anything different:
        # whatever was done to either in between (hashing, rebasing, self-deduplication, flushing nothing) or to others
        if p[0] == 'eq' and len(p) == 3 and st.result in ('ok:true', 'ok:false'):
            a, b = st.O.get(p[1]), st.O.get(p[2])
            if a is not None and b is not None and a.get('pend') == '0' and b.get('pend') == '0':
                key = tuple(sorted((p[1], p[2])))
                snap = (dict(a), dict(b)) if key == (p[1], p[2]) else (dict(b), dict(a))
                old = last_eq.get(key)
                if old is not None and old[1] == snap and old[0] != st.result:
                    out.append(Finding(st.n, 'equality of %s and %s changed from %s to %s although neither shows anything different' % (
                        p[1], p[2], old[0][3:], st.result[3:])))
                last_eq[key] = (st.result, snap)
        prev = st
    return out


# ---------------------------------------------------------------- "changes nothing" (C07, C09)
def oracle_unchanged(cfg, ops, steps):
    """C07 / C09: a rebase or a self-deduplication succeeds and changes nothing that any handle shows (contents,
    length, reads; `intra` flushes, so its pending flag may drop). `rebase A B C` makes C show what A showed."""
    out = []
    prev = None
    for st, op in zip(steps, ops):
        p = op.split()
        if p[0] in ('rebase_on', 'rebase', 'intra') and prev is not None and st.result not in ('panic', 'err:badreg'):
            if st.result != 'ok':
                out.append(Finding(st.n, '`%s` failed: %s' % (op[:60], st.result[:120])))
            else:
                for reg, po in prev.O.items():
                    if p[0] == 'rebase' and len(p) == 4 and reg == p[3]:
                        continue
                    o = st.O.get(reg)
                    if o is None:
                        out.append(Finding(st.n, '`%s`: %s disappeared' % (op[:60], reg)))
                        continue
                    keys = [k for k in po if not (k == 'pend' and p[0] == 'intra' and reg == p[1])]
                    diff = [k for k in keys if po.get(k) != o.get(k)]
                    if diff:
                        out.append(Finding(st.n, '`%s` changed what %s shows (%s)' % (op[:60], reg, ','.join(diff))))
                if p[0] == 'rebase' and len(p) == 4:
                    po, o = prev.O.get(p[1]), st.O.get(p[3])
                    if po is not None and (o is None or any(po.get(k) != o.get(k) for k in po)):
                        out.append(Finding(st.n, '`%s`: %s does not show what %s showed' % (op[:60], p[3], p[1])))
                if p[0] == 'intra':
                    o = st.O.get(p[1])
                    if o is not None and o.get('pend') != '0':
                        out.append(Finding(st.n, '`%s`: writes still pending afterwards' % op[:60]))
        prev = st
    return out


# ---------------------------------------------------------------- capacity (C05)
def oracle_capacity(cfg, ops, steps):
    """C05: a List never holds more than N elements, a Vector always exactly N"""
    out = []
    for st in steps:
        for reg, o in st.O.items():
            ln = int(o['len'])
            if o['kind'] == 'L' and ln > cfg.n:
                out.append(Finding(st.n, '%s: List longer than N (%d > %d)' % (reg, ln, cfg.n)))
            if o['kind'] == 'V' and ln != cfg.n:
                out.append(Finding(st.n, '%s: Vector length %d != N %d' % (reg, ln, cfg.n)))
            if o.get('vals') not in ('big', None) and len(vals_of(o)) != ln and o['kind'] == 'L' and len(vals_of(o)) > cfg.n:
                out.append(Finding(st.n, '%s: List iterates over more than N elements' % reg))
    return out


# ---------------------------------------------------------------- suffix operations (C11)
def oracle_suffix(cfg, ops, steps):
    """C11: iter_from / level_iter / pop_front agree with slicing the collection's OWN current contents (as shown by
    the implementation one step earlier), an index beyond the length is rejected and changes nothing, and the list
    left by pop_front equals, and hashes like, a freshly built list of the suffix (the check_fresh block that follows)."""
    out = []
    prev = None
    for k, (st, op) in enumerate(zip(steps, ops)):
        p = op.split()
        if prev is None or p[0] not in ('iter_from', 'level_iter', 'pop_front', 'pop_front_slow') or len(p) != 3:
            prev = st
            continue
        a, i = p[1], int(p[2])
        po = prev.O.get(a)
        if po is None or po.get('vals') in ('big', None) or st.result in ('panic', 'err:badreg'):
            prev = st
            continue
        vs = [('.' if v == '' else v) for v in vals_of(po)]
        ln = int(po['len'])
        oob = 'err:OutOfBoundsIterFrom{index:%d,len:%d}' % (i, ln)
        if p[0] == 'iter_from':
            if i > ln:
                want = oob
            else:
                rest = vs[i:]
                want = 'ok:%s|%s' % (','.join(rest) if rest else '-', ','.join(str(x) for x in range(ln - i, -1, -1)))
            if st.result != want:
                out.append(Finding(st.n, '`%s`: expected the slice `%s`, got `%s`' % (op, want[:120], st.result[:120])))
        elif p[0] == 'level_iter' and po['kind'] == 'L':
            if i > ln:
                if st.result != oob:
                    out.append(Finding(st.n, '`%s`: expected `%s`, got `%s`' % (op, oob, st.result[:120])))
            elif po['pend'] == '1':
                if st.result != 'err:LevelIterPendingUpdates':
                    out.append(Finding(st.n, '`%s` with pending writes: got `%s`' % (op, st.result[:120])))
            elif st.result.startswith('ok:'):
                got = []
                body = st.result[3:]
                if body != '-':
                    for item in body.split('/'):
                        xs = item.split(':', 1)[1]
                        got += [] if xs == '-' else xs.split(',')
                if got != vs[i:]:
                    out.append(Finding(st.n, '`%s`: items flatten to %d elements, the slice has %d' % (op, len(got), len(vs[i:]))))
            else:
                out.append(Finding(st.n, '`%s`: unexpected result `%s`' % (op, st.result[:120])))
        elif p[0] in ('pop_front', 'pop_front_slow') and po['kind'] == 'L':
            o = st.O.get(a)
            if o is None or o.get('vals') in ('big', None):
                prev = st
                continue
            now = [('.' if v == '' else v) for v in vals_of(o)]
            if i > ln:
                if st.result != oob:
                    out.append(Finding(st.n, '`%s`: expected `%s`, got `%s`' % (op, oob, st.result[:120])))
                if now != vs:
                    out.append(Finding(st.n, '`%s` was rejected but the contents changed' % op))
            else:
                if st.result != 'ok':
                    out.append(Finding(st.n, '`%s` (len %d): got `%s`' % (op, ln, st.result[:120])))
                elif now != vs[i:] or int(o['len']) != ln - i:
                    out.append(Finding(st.n, '`%s`: the list left behind is not the suffix' % op))
                else:
                    # the check_fresh block right after: ctor h7 ; eq a h7 ; hash a ; hash h7
                    blk = ops[k + 1:k + 5]
                    if len(blk) == 4 and blk[1] == 'eq %s h7' % a and blk[2] == 'hash %s' % a and blk[3] == 'hash h7':
                        r = [steps[k + 1 + j].result for j in range(4)] if k + 4 < len(steps) else None
                        if r and r[0] == 'ok':
                            if r[1] != 'ok:true':
                                out.append(Finding(steps[k + 2].n, 'after `%s` the list is not equal to a freshly built list of the suffix' % op))
                            if r[2].startswith('ok:') and r[3].startswith('ok:') and r[2] != r[3]:
                                out.append(Finding(steps[k + 3].n, 'after `%s` the root differs from that of a freshly built list of the suffix' % op))
        prev = st
    return out


# ---------------------------------------------------------------- parallel vs sequential (C16)
def oracle_par(cfg, ops, steps):
    """C16: parallel root computations agree with each other and with the sequential computation by the SAME
    implementation on the same handle (the `hash` that follows); a thread that panicked or a mismatch among the
    threads is reported by the harness as an error result."""
    out = []
    for k, (st, op) in enumerate(zip(steps, ops)):
        p = op.split()
        if p[0] not in ('par_hash', 'par_mix'):
            continue
        if st.result.startswith('err:') and st.result not in ('err:pending', 'err:badreg', 'err:badarg'):
            out.append(Finding(st.n, '`%s`: %s' % (op[:60], st.result[:160])))
            continue
        if not st.result.startswith('ok:'):
            continue
        own = st.result[3:].split(',')[-1]
        for j in range(k + 1, min(k + 4, len(ops))):
            q = ops[j].split()
            if q[0] == 'hash' and q[1] == p[1] and steps[j].result.startswith('ok:'):
                if steps[j].result[3:] != own:
                    out.append(Finding(st.n, '`%s`: the root computed in parallel differs from the sequential one that follows' % op[:60]))
                break
            if q[0] not in ('hash', 'eq'):
                break
    return out



# ---------------------------------------------------------------- self-consistency of derived observations
def _bvals(o):
    return [bytes.fromhex(v) for v in vals_of(o)]


def oracle_root(cfg, ops, steps):
    """C02 / C03: the root a clean collection reports is the SSZ hash_tree_root of the contents IT shows (computed from
    scratch by the reference implementation of the specification)"""
    out = []
    for st, op in zip(steps, ops):
        p = op.split()
        if p[0] not in ('hash', 'par_hash') or not st.result.startswith('ok:') or st.result == 'ok:-':
            continue
        o = st.O.get(p[1])
        if o is None or o.get('vals') in ('big', None) or o.get('pend') != '0':
            continue
        vs = _bvals(o)
        want = (ssz_ref.hash_tree_root_list if o['kind'] == 'L' else ssz_ref.hash_tree_root_vector)(cfg.kind if cfg.kind != 'fu64' else 'u64', cfg.n, vs).hex()
        if st.result[3:] != want:
            out.append(Finding(st.n, '`%s`: root %s..., but the SSZ hash_tree_root of the %d elements it shows is %s...' % (op[:40], st.result[3:19], len(vs), want[:16])))
    return out


def oracle_eq(cfg, ops, steps):
    """C06: `==` between two clean collections of one type holds exactly when they show equal contents"""
    out = []
    for st, op in zip(steps, ops):
        p = op.split()
        if p[0] != 'eq' or st.result not in ('ok:true', 'ok:false'):
            continue
        a, b = st.O.get(p[1]), st.O.get(p[2])
        if not a or not b or a['kind'] != b['kind'] or a.get('pend') != '0' or b.get('pend') != '0' or 'big' in (a.get('vals'), b.get('vals')):
            continue
        same = a.get('vals') == b.get('vals') and a.get('len') == b.get('len')
        if (st.result == 'ok:true') != same:
            out.append(Finding(st.n, '`%s` answers %s although the two collections show %s contents' % (op, st.result[3:], 'equal' if same else 'different')))
    return out


def oracle_ssz(cfg, ops, steps):
    """C12: the encoding is the canonical serialization of the contents the collection shows, the reported length is
    the number of bytes, the static size declarations fit; a decoder accepts exactly the canonical encodings of in-bounds
    collections and then shows the decoded elements, and otherwise fails leaving the register alone"""
    out = []
    kind = cfg.kind if cfg.kind != 'fu64' else 'u64'
    prev = None
    for st, op in zip(steps, ops):
        p = op.split()
        if p[0] == 'ssz_enc' and st.result.startswith('ok:'):
            o = st.O.get(p[1])
            if o is not None and o.get('vals') not in ('big', None):
                data = ssz_ref.serialize(kind, _bvals(o))
                size = ssz_ref.SIZE[kind]
                fixed = (1, size * cfg.n) if (o['kind'] == 'V' and size is not None) else (0, 4)
                want = 'ok:%s|%d|f=%d:%d' % (data.hex() if data else '.', len(data), fixed[0], fixed[1])
                if st.result != want:
                    out.append(Finding(st.n, '`%s`: got `%s`, the canonical form of what it shows is `%s`' % (op, st.result[:100], want[:100])))
        if p[0] in ('ssz_list', 'ssz_vec') and st.result in ('ok', 'err:decode'):
            data = b'' if p[2] == '.' else bytes.fromhex(p[2])
            dec = (ssz_ref.deserialize_list if p[0] == 'ssz_list' else ssz_ref.deserialize_vector)(kind, cfg.n, data)
            if (dec is not None) != (st.result == 'ok'):
                out.append(Finding(st.n, '`%s`: %s, but the bytes are %s' % (op[:60], st.result, 'not the canonical encoding of an in-bounds collection' if dec is None else 'a canonical encoding')))
            elif dec is not None:
                o = st.O.get(p[1])
                if o is not None and o.get('vals') != 'big' and _bvals(o) != list(dec):
                    out.append(Finding(st.n, '`%s`: decoded collection shows other elements than the bytes encode' % op[:60]))
            elif prev is not None and prev.O.get(p[1]) != st.O.get(p[1]):
                out.append(Finding(st.n, '`%s` failed but changed the register' % op[:60]))
        prev = st
    return out


def _oracle_roundtrip(which):
    dec_ops = {'ssz': ('ssz_list', 'ssz_vec'), 'serde': ('serde_list', 'serde_vec')}[which]

    def oracle(cfg, ops, steps):
        """C12 / C13 round trip: a collection obtained by decoding compares equal (in both directions) to any flushed
        collection of the same type that shows the same elements - in particular to the original whose encoding it was,
        however that original was built."""
        out = []
        decoded = set()
        for st, op in zip(steps, ops):
            p = op.split()
            if p[0] in dec_ops and st.result == 'ok':
                decoded.add(p[1])
            elif p[0] == 'eq' and len(p) == 3 and st.result in ('ok:true', 'ok:false') and (p[1] in decoded or p[2] in decoded):
                a, b = st.O.get(p[1]), st.O.get(p[2])
                if a is not None and b is not None and a.get('pend') == '0' and b.get('pend') == '0' and a.get('kind') == b.get('kind') \
                        and a.get('vals') == b.get('vals') and a.get('len') == b.get('len') and st.result == 'ok:false':
                    out.append(Finding(st.n, '`%s`: the decoded collection (%s) does not compare equal to a flushed collection showing the same elements' % (
                        op, p[1] if p[1] in decoded else p[2])))
            elif p[0] not in ('get', 'len', 'iter_from', 'level_iter', 'eq', 'ssz_enc', 'serde_ser', 'hash', 'cow_read', 'par_hash', 'par_mix'):
                # anything that writes a register ends its "freshly decoded" status (a clone of it is not tracked either)
                for r in targets(op):
                    decoded.discard(r)
                if p[0] in ('clone', 'to_vector', 'to_list', 'rebase') and len(p) >= 3:
                    decoded.discard(p[-1])
        return out
    return oracle


def oracle_serde(cfg, ops, steps):
    """C13: the serde form is the sequence of elements the collection shows; a sequence is accepted exactly within the
    bounds and then the collection shows it"""
    out = []
    prev = None
    for st, op in zip(steps, ops):
        p = op.split()
        if p[0] == 'serde_ser' and st.result.startswith('ok:'):
            o = st.O.get(p[1])
            if o is not None and o.get('vals') not in ('big', None) and st.result[3:] != o['vals']:
                out.append(Finding(st.n, '`%s`: serialised `%s`, the collection shows `%s`' % (op, st.result[3:80], o['vals'][:80])))
            elif o is not None and o.get('gets') not in ('big', None) and o.get('vals') not in ('big', None):
                # ... and what it shows by iteration is what it shows by indexed reads (the serializer iterates)
                g = o['gets'].split(',')[:int(o['len'])] if o['gets'] != '-' else []
                if int(o['len']) and ','.join(g) != st.result[3:]:
                    out.append(Finding(st.n, '`%s`: serialised `%s`, indexed reads give `%s`' % (op, st.result[3:80], ','.join(g)[:80])))
        if p[0] in ('serde_list', 'serde_vec') and st.result in ('ok', 'err:serde'):
            vs = [] if p[2] == '-' else p[2].split(',')
            ok = len(vs) <= cfg.n if p[0] == 'serde_list' else len(vs) == cfg.n
            if ok != (st.result == 'ok'):
                out.append(Finding(st.n, '`%s %s <%d elements>`: %s with N = %d' % (p[0], p[1], len(vs), st.result, cfg.n)))
            elif ok:
                o = st.O.get(p[1])
                if o is not None and o.get('vals') != 'big' and o['vals'] != (p[2] if vs else '-'):
                    out.append(Finding(st.n, '`%s`: the collection does not show the sequence it was given' % p[0]))
            elif prev is not None and prev.O.get(p[1]) != st.O.get(p[1]):
                out.append(Finding(st.n, '`%s` failed but changed the register' % p[0]))
        prev = st
    return out


ORACLES = {
    'wellformed': oracle_wellformed, 'error_preserves': oracle_error_preserves, 'memo': oracle_memo,
    'canonical': oracle_canonical, 'sharing': oracle_sharing, 'cost': oracle_cost, 'builder': oracle_builder,
    'isolation': oracle_isolation, 'unchanged': oracle_unchanged, 'root': oracle_root, 'eq': oracle_eq, 'ssz': oracle_ssz, 'serde': oracle_serde, 'capacity': oracle_capacity, 'suffix': oracle_suffix, 'par': oracle_par,
    'roundtrip_ssz': _oracle_roundtrip('ssz'), 'roundtrip_serde': _oracle_roundtrip('serde'),
}
