#!/usr/bin/env python3
"""Reference oracle for the milhouse history language: a plain bounded sequence.

Implements docs/SPEC.md over plain Python lists, with the history/trace formats of
docs/FORMAT.md.  It is independent of the Rust crate and of the Coq model; the only SSZ code it
uses is tools/ssz_ref.py (sha256 only).

Command line:

    python3 pyref.py <history-file>
        print, for every history, the header `H <idx> <kind> <N> <map>` followed by the predicted
        `R` and `O` lines (no S/M/I/F lines).  `?` stands for "not predicted".
    python3 pyref.py --check <history-file> <trace-file>
        compare a harness / model-driver trace against the prediction; print the mismatches;
        exit status 1 if there is any.

Library:

    parse_histories(text) -> [History]
    predict(history)      -> [str]           (the `R` and `O` lines, without the header)
    header(history)       -> str             (the `H` line)
    match_line(pred, actual) -> bool         (`?` wildcard)
    check_trace(history, trace_lines) -> [Mismatch]
    split_trace(text)     -> {idx: [str]}    (cut a trace file into per-history line lists)

Giving up (extension, see MAX_ELEMS): when an operation would make the reference materialise
more than MAX_ELEMS elements (e.g. `from_elem` with N = 2^40) the reference prints `R <n> ?`
for that operation and nothing more for that history, exactly like an abandoned history;
`check_trace` stops comparing that history there.
"""

import sys
from collections import namedtuple

import ssz_ref

MAX_REGS = 8
U64_MAX = 2**64 - 1
# FORMAT.md section 2, `O` line: "If len > 4096 print vals=big gets=big".
BIG_LEN = 4096
# The reference holds every collection as a plain list; above this size it gives up (see above).
MAX_ELEMS = 1 << 20
MAPS = ("max", "vec", "bt")


class HistoryError(Exception):
    """The history file is unparsable (FORMAT.md: message on stderr, exit status 2)."""


class GiveUp(Exception):
    """The reference declines to predict the rest of this history (too large to materialise)."""


History = namedtuple("History", ["idx", "kind", "n", "map", "ops"])
History.__doc__ = "One history: index in the file, config (kind, N, map) and its op lines."

Mismatch = namedtuple("Mismatch", ["op", "op_text", "predicted", "actual"])
Mismatch.__doc__ = """One difference between prediction and trace.  `op` is the 1-based op number
(0 for the header), `op_text` the history line, `predicted` / `actual` the two trace lines
(None when the line is missing on that side)."""

OpPrediction = namedtuple("OpPrediction", ["n", "op_text", "r_line", "o_lines", "gave_up"])


# =========================================================================== parsing


def parse_histories(text):
    """Cut a history file (FORMAT.md section 1) into histories.  Blank lines and lines starting
    with `#` are ignored; a `config <kind> <N> <map>` line starts a new history.  The op lines
    are kept as text (single-space normalised); they are parsed by `predict`."""
    histories = []
    for lineno, raw in enumerate(text.splitlines(), 1):
        line = raw.strip()
        if line == "" or line.startswith("#"):
            continue
        tokens = line.split()
        if tokens[0] == "config":
            if len(tokens) != 4:
                raise HistoryError("line %d: config needs <kind> <N> <map>" % lineno)
            kind, n_text, map_name = tokens[1], tokens[2], tokens[3]
            if kind not in ssz_ref.KINDS:
                raise HistoryError("line %d: unknown kind %r" % (lineno, kind))
            n = _parse_int(n_text)
            if n < 0:
                raise HistoryError("line %d: N must not be negative" % lineno)
            if map_name not in MAPS:
                raise HistoryError("line %d: unknown map %r" % (lineno, map_name))
            histories.append(History(len(histories), kind, n, map_name, []))
        else:
            if not histories:
                raise HistoryError("line %d: operation before the first config" % lineno)
            histories[-1].ops.append(" ".join(tokens))
    return histories


def _parse_int(tok):
    """Decimal u64 (FORMAT.md "Integers are decimal u64")."""
    if not (tok.isascii() and tok.isdigit()):
        raise HistoryError("bad integer %r" % (tok,))
    value = int(tok)
    if value > U64_MAX:
        raise HistoryError("integer %r exceeds u64" % (tok,))
    return value


def _parse_reg(tok):
    """Register name h0..h7 -> index."""
    if len(tok) == 2 and tok[0] == "h" and tok[1] in "01234567":
        return int(tok[1])
    raise HistoryError("bad register %r" % (tok,))


def _parse_hex(tok):
    """<HEX>: lowercase hex byte string, `.` when empty."""
    if tok == ".":
        return b""
    if tok == "" or len(tok) % 2 != 0 or any(c not in "0123456789abcdef" for c in tok):
        raise HistoryError("bad hex string %r" % (tok,))
    return bytes.fromhex(tok)


def fmt_hex(data):
    """Render <HEX> / <V>: lowercase hex, `.` for the empty string."""
    return data.hex() if len(data) > 0 else "."


def fmt_vals(vals):
    """Render <VALS>: comma-separated values, `-` for the empty list."""
    return ",".join(fmt_hex(v) for v in vals) if len(vals) > 0 else "-"


def trailing_zeros(i):
    """Number of trailing zero bits of i > 0."""
    assert i > 0
    return (i & -i).bit_length() - 1


# =========================================================================== configuration


class Config:
    """Constants of a configuration (SPEC.md "State"): N, kind => size, pf,
    pd = log2(pf) (0 when unpacked), depth = max(ceil_log2(N) - pd, 0), cap = 2^(depth+pd)."""

    def __init__(self, kind, n):
        self.kind = kind
        self.n = n
        self.size = ssz_ref.SIZE[kind]
        self.pf = ssz_ref.PACKING[kind]
        self.pd = 0 if self.pf is None else ssz_ref.ceil_log2(self.pf)
        self.depth = max(ssz_ref.ceil_log2(n) - self.pd, 0)
        self.cap = 2 ** (self.depth + self.pd)

    def parse_val(self, tok):
        """<V>: hex of the element's SSZ encoding; must be a valid element of the kind."""
        value = _parse_hex(tok)
        if not ssz_ref.valid_element(self.kind, value):
            raise HistoryError("%r is not a value of kind %s" % (tok, self.kind))
        return value

    def parse_vals(self, tok):
        """<VALS>: comma-separated <V>, `-` = empty list."""
        if tok == "-":
            return []
        return [self.parse_val(t) for t in tok.split(",")]


# =========================================================================== state


class Reg:
    """A non-empty register (SPEC.md "State"): coll = 'L' or 'V', vals = element byte strings,
    pend = pending updates present, blen = length of the backing tree (N for vectors)."""

    def __init__(self, coll, vals, pend, blen):
        self.coll = coll
        self.vals = list(vals)
        self.pend = pend
        self.blen = blen

    def copy(self):
        return Reg(self.coll, self.vals, self.pend, self.blen)

    def flush(self):
        """apply_updates: pend := false, blen := len."""
        self.pend = False
        self.blen = len(self.vals)


class BuilderState:
    """The builder slot: depth d, level l, the values pushed with b_push, and whether the
    content is still known (false once b_push_node was used: its effect is not predicted)."""

    def __init__(self, depth, level):
        self.depth = depth
        self.level = level
        self.vals = []
        self.known = True


def err_oob_iter(index, length):
    return "err:OutOfBoundsIterFrom{index:%d,len:%d}" % (index, length)


def err_oob_update(index, length):
    return "err:OutOfBoundsUpdate{index:%d,len:%d}" % (index, length)


def err_list_full(length):
    return "err:ListFull{len:%d}" % length


def err_wrong_vec_len(length, expected):
    return "err:WrongVectorLength{len:%d,expected:%d}" % (length, expected)


BADREG = "err:badreg"
NOBUILDER = "err:nobuilder"
UNPREDICTED = "?"


class Machine:
    """Replays one history.  `step(op_line)` returns the result text of SPEC.md for that
    operation and updates the registers; `o_lines()` renders the observable view."""

    def __init__(self, kind, n):
        self.cfg = Config(kind, n)
        self.regs = [None] * MAX_REGS
        self.builder = None
        # name -> (number of arguments, method)
        self.table = {
            "new_list": (2, self.op_new_list),
            "new_vec": (2, self.op_new_vec),
            "list_slow": (2, self.op_list_slow),
            "vec_iter": (2, self.op_vec_iter),
            "empty": (1, self.op_empty),
            "repeat": (3, self.op_repeat),
            "repeat_slow": (3, self.op_repeat),
            "from_elem": (2, self.op_from_elem),
            "default_vec": (1, self.op_default_vec),
            "ssz_list": (2, self.op_ssz_list),
            "ssz_vec": (2, self.op_ssz_vec),
            "serde_list": (2, self.op_serde_list),
            "serde_vec": (2, self.op_serde_vec),
            "get": (2, self.op_get),
            "len": (1, self.op_len),
            "iter_from": (2, self.op_iter_from),
            "level_iter": (2, self.op_level_iter),
            "eq": (2, self.op_eq),
            "ssz_enc": (1, self.op_ssz_enc),
            "serde_ser": (1, self.op_serde_ser),
            "set": (3, self.op_set),
            "touch": (2, self.op_touch),
            "cow_read": (2, self.op_get),
            "cow_into": (3, self.op_set),
            "cow_make": (3, self.op_set),
            "cow_make2": (4, self.op_cow_make2),
            "iter_cow": (2, self.op_iter_cow),
            "push": (2, self.op_push),
            "bulk": (2, self.op_bulk),
            # the same map entered through get_mut_with / get_cow_with+into_mut instead of insert: same meaning
            "bulk_via": (3, lambda a, how, pairs: self.op_bulk(a, pairs)),
            "apply": (1, self.op_apply),
            "pop_front": (2, self.op_pop_front),
            "pop_front_slow": (2, self.op_pop_front_slow),
            "clone": (2, self.op_clone),
            "to_vector": (2, self.op_to_vector),
            "to_list": (2, self.op_to_list),
            "rebase_on": (2, self.op_rebase_on),
            "rebase": (3, self.op_rebase),
            "intra": (1, self.op_intra),
            "hash": (1, self.op_hash),
            "drop": (1, self.op_drop),
            "fault": (1, lambda k: "ok"),       # arms fault injection in the harness (kind fu64); no effect on contents
            "b_new": (2, self.op_b_new),
            "b_push": (1, self.op_b_push),
            "b_push_node": (2, self.op_b_push_node),
            "b_finish": (0, self.op_b_finish),
            "par_hash": (2, self.op_par_hash),
            "par_mix": (2, self.op_par_mix),
        }

    # ------------------------------------------------------------------ driver

    def step(self, op_line):
        tokens = op_line.split()
        if not tokens:
            raise HistoryError("empty operation line")
        name, args = tokens[0], tokens[1:]
        if name not in self.table:
            raise HistoryError("unknown operation %r" % (name,))
        arity, method = self.table[name]
        if len(args) != arity:
            raise HistoryError("%s takes %d argument(s): %r" % (name, arity, op_line))
        return method(*args)

    def o_lines(self):
        """SPEC.md last operation bullet / FORMAT.md `O`: for every non-empty register in
        increasing order `O h<k> <L|V> len= empty= pend= vals= gets=` where gets lists
        get(j) for j = 0..len+1 (so the values followed by two `none`)."""
        lines = []
        for k in range(MAX_REGS):
            reg = self.regs[k]
            if reg is None:
                continue
            length = len(reg.vals)
            if length > BIG_LEN:
                vals_text, gets_text = "big", "big"
            else:
                vals_text = fmt_vals(reg.vals)
                gets_text = ",".join([fmt_hex(v) for v in reg.vals] + ["none", "none"])
            lines.append(
                "O h%d %s len=%d empty=%d pend=%d vals=%s gets=%s"
                % (k, reg.coll, length, 1 if length == 0 else 0, 1 if reg.pend else 0,
                   vals_text, gets_text)
            )
        return lines

    # ------------------------------------------------------------------ helpers

    def source(self, tok, coll=None):
        """FORMAT.md "Registers": an empty source register, or one holding the wrong collection
        kind for a List-only / Vector-only operation, gives None (=> err:badreg)."""
        reg = self.regs[_parse_reg(tok)]
        if reg is None:
            return None
        if coll is not None and reg.coll != coll:
            return None
        return reg

    def root_of(self, coll, vals):
        """hash_tree_root of a list / vector with the configuration's kind and N."""
        if coll == "L":
            return ssz_ref.hash_tree_root_list(self.cfg.kind, self.cfg.n, vals)
        return ssz_ref.hash_tree_root_vector(self.cfg.kind, self.cfg.n, vals)

    def new_list_reg(self, vals):
        """A clean list: blen = len."""
        return Reg("L", vals, False, len(vals))

    def new_vec_reg(self, vals):
        """A clean vector: blen = N."""
        assert len(vals) == self.cfg.n
        return Reg("V", vals, False, self.cfg.n)

    def check_materialise(self, count):
        if count > MAX_ELEMS:
            raise GiveUp()

    # ------------------------------------------------------------------ constructors
    # A constructor that fails leaves its destination register unchanged (FORMAT.md).

    def op_new_list(self, d, vals):
        """new_list D vs: len(vs) > N -> err:BuilderFull (whether or not it exceeds cap);
        else D := L(vs), clean, blen = len."""
        d = _parse_reg(d)
        vals = self.cfg.parse_vals(vals)
        if len(vals) > self.cfg.n:
            return "err:BuilderFull"
        self.regs[d] = self.new_list_reg(vals)
        return "ok"

    def op_new_vec(self, d, vals):
        """new_vec D vs: len != N -> err:WrongVectorLength{len,expected:N}; else V(vs) clean."""
        d = _parse_reg(d)
        vals = self.cfg.parse_vals(vals)
        if len(vals) != self.cfg.n:
            return err_wrong_vec_len(len(vals), self.cfg.n)
        self.regs[d] = self.new_vec_reg(vals)
        return "ok"

    def op_list_slow(self, d, vals):
        """list_slow D vs: pushes one at a time: len(vs) > N -> err:ListFull{len:N};
        else as new_list."""
        d = _parse_reg(d)
        vals = self.cfg.parse_vals(vals)
        if len(vals) > self.cfg.n:
            return err_list_full(self.cfg.n)
        self.regs[d] = self.new_list_reg(vals)
        return "ok"

    def op_vec_iter(self, d, vals):
        """vec_iter D vs: len > N -> err:BuilderFull; len != N -> err:WrongVectorLength;
        else vector."""
        d = _parse_reg(d)
        vals = self.cfg.parse_vals(vals)
        if len(vals) > self.cfg.n:
            return "err:BuilderFull"
        if len(vals) != self.cfg.n:
            return err_wrong_vec_len(len(vals), self.cfg.n)
        self.regs[d] = self.new_vec_reg(vals)
        return "ok"

    def op_empty(self, d):
        """empty D: empty list, ok."""
        d = _parse_reg(d)
        self.regs[d] = self.new_list_reg([])
        return "ok"

    def op_default_vec(self, d):
        """default_vec D: vector of N default elements, ok."""
        d = _parse_reg(d)
        self.check_materialise(self.cfg.n)
        default = ssz_ref.default_element(self.cfg.kind)
        self.regs[d] = self.new_vec_reg([default] * self.cfg.n)
        return "ok"

    def op_repeat(self, d, v, n):
        """repeat D v n / repeat_slow D v n: n > N -> err:BuilderFull; else list of n copies."""
        d = _parse_reg(d)
        v = self.cfg.parse_val(v)
        n = _parse_int(n)
        if n > self.cfg.n:
            return "err:BuilderFull"
        self.check_materialise(n)
        self.regs[d] = self.new_list_reg([v] * n)
        return "ok"

    def op_from_elem(self, d, v):
        """from_elem D v: vector of N copies."""
        d = _parse_reg(d)
        v = self.cfg.parse_val(v)
        self.check_materialise(self.cfg.n)
        self.regs[d] = self.new_vec_reg([v] * self.cfg.n)
        return "ok"

    def op_ssz_list(self, d, data):
        """ssz_list D bytes: ok iff bytes is the canonical serialization of a list of valid
        elements with len <= N, then D := L(vs) clean; otherwise err:decode, D unchanged."""
        d = _parse_reg(d)
        data = _parse_hex(data)
        vals = ssz_ref.deserialize_list(self.cfg.kind, self.cfg.n, data)
        if vals is None:
            return "err:decode"
        self.regs[d] = self.new_list_reg(vals)
        return "ok"

    def op_ssz_vec(self, d, data):
        """ssz_vec D bytes: as ssz_list with len(vs) = N."""
        d = _parse_reg(d)
        data = _parse_hex(data)
        vals = ssz_ref.deserialize_list(self.cfg.kind, self.cfg.n, data)
        if vals is None or len(vals) != self.cfg.n:
            return "err:decode"
        self.regs[d] = self.new_vec_reg(vals)
        return "ok"

    def op_serde_list(self, d, vals):
        """serde_list D vs: len <= N -> ok list; else err:serde."""
        d = _parse_reg(d)
        vals = self.cfg.parse_vals(vals)
        if len(vals) > self.cfg.n:
            return "err:serde"
        self.regs[d] = self.new_list_reg(vals)
        return "ok"

    def op_serde_vec(self, d, vals):
        """serde_vec D vs: len = N -> ok vector; else err:serde."""
        d = _parse_reg(d)
        vals = self.cfg.parse_vals(vals)
        if len(vals) != self.cfg.n:
            return "err:serde"
        self.regs[d] = self.new_vec_reg(vals)
        return "ok"

    # ------------------------------------------------------------------ reads

    def op_get(self, a, i):
        """get A i / cow_read A i: ok:V if i < len else ok:none; unchanged."""
        reg = self.source(a)
        i = _parse_int(i)
        if reg is None:
            return BADREG
        if i < len(reg.vals):
            return "ok:" + fmt_hex(reg.vals[i])
        return "ok:none"

    def op_len(self, a):
        """len A -> ok:<len>."""
        reg = self.source(a)
        if reg is None:
            return BADREG
        return "ok:%d" % len(reg.vals)

    def op_iter_from(self, a, i):
        """iter_from A i: i > len -> err:OutOfBoundsIterFrom{index:i,len};
        else ok:<vals[i:]>|<hints> with hints len-i, len-i-1, ..., 0."""
        reg = self.source(a)
        i = _parse_int(i)
        if reg is None:
            return BADREG
        length = len(reg.vals)
        if i > length:
            return err_oob_iter(i, length)
        hints = [str(h) for h in range(length - i, -1, -1)]
        return "ok:%s|%s" % (fmt_vals(reg.vals[i:]), ",".join(hints))

    def op_level_iter(self, a, i):
        """level_iter A i (list only): i > len -> err:OutOfBoundsIterFrom; else pend ->
        err:LevelIterPendingUpdates; else level = depth+pd if i = 0 else tz(i), level := 0 if
        level < pd; vals[i:] is cut into consecutive blocks of 2^level elements (the last may be
        shorter); level = 0 and packed kind -> items P:v per element, otherwise items I:<block>;
        no elements -> ok:-."""
        reg = self.source(a, "L")
        i = _parse_int(i)
        if reg is None:
            return BADREG
        length = len(reg.vals)
        if i > length:
            return err_oob_iter(i, length)
        if reg.pend:
            return "err:LevelIterPendingUpdates"
        level = self.cfg.depth + self.cfg.pd if i == 0 else trailing_zeros(i)
        if level < self.cfg.pd:
            level = 0
        rest = reg.vals[i:]
        if len(rest) == 0:
            return "ok:-"
        if level == 0 and self.cfg.pf is not None and self.cfg.pf > 1:
            items = ["P:" + fmt_hex(v) for v in rest]
        else:
            block = 2**level
            items = ["I:" + fmt_vals(rest[j : j + block]) for j in range(0, len(rest), block)]
        return "ok:" + "/".join(items)

    def op_eq(self, a, b):
        """eq A B (same collection kind, else err:badreg): both clean -> ok:true iff vals equal;
        either dirty -> `?` (not predicted)."""
        ra = self.source(a)
        rb = self.source(b)
        if ra is None or rb is None or ra.coll != rb.coll:
            return BADREG
        if ra.pend or rb.pend:
            return UNPREDICTED
        return "ok:true" if ra.vals == rb.vals else "ok:false"

    def op_ssz_enc(self, a):
        """ssz_enc A -> ok:<serialize(vals)>|<its length>|f=<is_ssz_fixed_len>:<ssz_fixed_len>."""
        reg = self.source(a)
        if reg is None:
            return BADREG
        data = ssz_ref.serialize(self.cfg.kind, reg.vals)
        # static half of Encode: a List is variable-size (ssz_fixed_len() = 4, one offset); a Vector is fixed-size
        # iff its elements are, and then N elements long
        size = ssz_ref.SIZE[self.cfg.kind]
        if reg.coll == "V" and size is not None:
            fixed, fixed_len = 1, size * self.cfg.n
        else:
            fixed, fixed_len = 0, ssz_ref.BYTES_PER_LENGTH_OFFSET
        return "ok:%s|%d|f=%d:%d" % (fmt_hex(data), len(data), fixed, fixed_len)

    def op_serde_ser(self, a):
        """serde_ser A -> ok:<vals>."""
        reg = self.source(a)
        if reg is None:
            return BADREG
        return "ok:" + fmt_vals(reg.vals)

    # ------------------------------------------------------------------ writes

    def op_set(self, a, i, v):
        """set / cow_into / cow_make A i v: i < len -> vals[i] := v, pend := true, ok:some;
        else ok:none, unchanged."""
        reg = self.source(a)
        i = _parse_int(i)
        v = self.cfg.parse_val(v)
        if reg is None:
            return BADREG
        if i < len(reg.vals):
            reg.vals[i] = v
            reg.pend = True
            return "ok:some"
        return "ok:none"

    def op_cow_make2(self, a, i, v, w):
        """cow_make2 A i v w: as set, final value w."""
        self.cfg.parse_val(v)
        return self.op_set(a, i, w)

    def op_touch(self, a, i):
        """touch A i: i < len -> pend := true, ok:some; else ok:none."""
        reg = self.source(a)
        i = _parse_int(i)
        if reg is None:
            return BADREG
        if i < len(reg.vals):
            reg.pend = True
            return "ok:some"
        return "ok:none"

    def op_iter_cow(self, a, items):
        """iter_cow A items: for j, item in order: if j < len the call returns Some; for a
        value item v: vals[j] := v, pend := true.  Result ok:<min(len(items), len)>.
        Items: `_` = ignore the result, otherwise a value (`-` = no items). List only (the crate
        has no Vector::iter_cow)."""
        reg = self.source(a, "L")
        parsed = []
        if items != "-":
            for tok in items.split(","):
                parsed.append(None if tok == "_" else self.cfg.parse_val(tok))
        if reg is None:
            return BADREG
        length = len(reg.vals)
        for j, item in enumerate(parsed):
            if j < length and item is not None:
                reg.vals[j] = item
                reg.pend = True
        return "ok:%d" % min(len(parsed), length)

    def op_push(self, a, v):
        """push A v (list): len = N -> err:ListFull{len:N}; else append, pend := true, ok."""
        reg = self.source(a, "L")
        v = self.cfg.parse_val(v)
        if reg is None:
            return BADREG
        if len(reg.vals) == self.cfg.n:
            return err_list_full(self.cfg.n)
        reg.vals.append(v)
        reg.pend = True
        return "ok"

    def op_bulk(self, a, pairs):
        """bulk A pairs (list): pend -> err:BulkUpdateUnclean.  m = map built by inserting in
        order (later wins).  Empty m -> ok, unchanged.  Validation over the keys k >= len in
        increasing order with expected := len: k != expected ->
        err:OutOfBoundsUpdate{index:k,len:expected}; k = N -> err:ListFull{len:N}; else
        expected += 1.  A key equal to 2^64-1 is not visited by that walk; it is caught by the
        final test max_key >= len and max_key >= expected ->
        err:OutOfBoundsUpdate{index:max_key,len:expected}.  On error unchanged.  Otherwise
        vals := overlay, pend := true, ok."""
        reg = self.source(a, "L")
        m = {}
        if pairs != "-":
            for tok in pairs.split(","):
                if tok.count(":") != 1:
                    raise HistoryError("bad pair %r" % (tok,))
                key_text, val_text = tok.split(":")
                m[_parse_int(key_text)] = self.cfg.parse_val(val_text)
        if reg is None:
            return BADREG
        if reg.pend:
            return "err:BulkUpdateUnclean"
        if len(m) == 0:
            return "ok"
        length = len(reg.vals)
        expected = length
        for k in sorted(m.keys()):
            if k < length or k == U64_MAX:
                continue
            if k != expected:
                return err_oob_update(k, expected)
            if k == self.cfg.n:
                return err_list_full(self.cfg.n)
            expected += 1
        max_key = max(m.keys())
        if max_key >= length and max_key >= expected:
            return err_oob_update(max_key, expected)
        for k in sorted(m.keys()):
            if k < length:
                reg.vals[k] = m[k]
            else:
                assert k == len(reg.vals)
                reg.vals.append(m[k])
        reg.pend = True
        return "ok"

    def op_apply(self, a):
        """apply A -> ok, pend := false, blen := len."""
        reg = self.source(a)
        if reg is None:
            return BADREG
        reg.flush()
        return "ok"

    def op_pop_front(self, a, n):
        """pop_front A n (list): first flush (also when it then fails).  n > len ->
        err:OutOfBoundsIterFrom{index:n,len}; else vals := vals[n:], blen := len, ok."""
        reg = self.source(a, "L")
        n = _parse_int(n)
        if reg is None:
            return BADREG
        reg.flush()
        if n > len(reg.vals):
            return err_oob_iter(n, len(reg.vals))
        reg.vals = reg.vals[n:]
        reg.blen = len(reg.vals)
        return "ok"

    def op_pop_front_slow(self, a, n):
        """pop_front_slow A n (list): n > len -> same error, nothing flushed, unchanged;
        else vals := vals[n:], clean."""
        reg = self.source(a, "L")
        n = _parse_int(n)
        if reg is None:
            return BADREG
        if n > len(reg.vals):
            return err_oob_iter(n, len(reg.vals))
        reg.vals = reg.vals[n:]
        reg.flush()
        return "ok"

    # ------------------------------------------------------------------ copies, conversions

    def op_clone(self, a, b):
        """clone A B: copy."""
        reg = self.source(a)
        b = _parse_reg(b)
        if reg is None:
            return BADREG
        self.regs[b] = reg.copy()
        return "ok"

    def op_to_list(self, a, b):
        """to_list A B (A vector): list with same vals, pend; blen = N."""
        reg = self.source(a, "V")
        b = _parse_reg(b)
        if reg is None:
            return BADREG
        self.regs[b] = Reg("L", reg.vals, reg.pend, self.cfg.n)
        return "ok"

    def op_to_vector(self, a, b):
        """to_vector A B (A list): len != N -> err:WrongVectorLength{len,expected:N} (B
        unchanged); else vector with same vals; if A.blen < N (there are pending pushes) the
        conversion flushes: pend := false; otherwise pend as in A."""
        reg = self.source(a, "L")
        b = _parse_reg(b)
        if reg is None:
            return BADREG
        if len(reg.vals) != self.cfg.n:
            return err_wrong_vec_len(len(reg.vals), self.cfg.n)
        pend = False if reg.blen < self.cfg.n else reg.pend
        self.regs[b] = Reg("V", reg.vals, pend, self.cfg.n)
        return "ok"

    def op_rebase_on(self, a, b):
        """rebase_on A B (same collection kind): ok; contents/pend of A unchanged; B untouched."""
        ra = self.source(a)
        rb = self.source(b)
        if ra is None or rb is None or ra.coll != rb.coll:
            return BADREG
        return "ok"

    def op_rebase(self, a, b, c):
        """rebase A B C: ok; C := copy of A; B untouched."""
        ra = self.source(a)
        rb = self.source(b)
        c = _parse_reg(c)
        if ra is None or rb is None or ra.coll != rb.coll:
            return BADREG
        self.regs[c] = ra.copy()
        return "ok"

    def op_intra(self, a):
        """intra A: flushes (pend := false, blen := len), ok."""
        reg = self.source(a)
        if reg is None:
            return BADREG
        reg.flush()
        return "ok"

    def op_drop(self, a):
        """drop A: register emptied, ok (an empty A is an empty source register: err:badreg)."""
        reg = self.source(a)
        if reg is None:
            return BADREG
        self.regs[_parse_reg(a)] = None
        return "ok"

    # ------------------------------------------------------------------ hashing

    def op_hash(self, a):
        """hash A: pend -> err:pending; else ok:<hash_tree_root>."""
        reg = self.source(a)
        if reg is None:
            return BADREG
        if reg.pend:
            return "err:pending"
        return "ok:" + self.root_of(reg.coll, reg.vals).hex()

    def op_par_hash(self, a, k):
        """par_hash A k: pend -> err:pending; else ok:<root>."""
        _parse_int(k)
        return self.op_hash(a)

    def op_par_mix(self, a, vals):
        """par_mix A vs: pend -> err:pending; else the roots of the k modified copies
        (set (j mod len) := vs[j] when len > 0) followed by the root of A."""
        reg = self.source(a)
        vals = self.cfg.parse_vals(vals)
        if reg is None:
            return BADREG
        if reg.pend:
            return "err:pending"
        roots = []
        for j, v in enumerate(vals):
            copy = list(reg.vals)
            if len(copy) > 0:
                copy[j % len(copy)] = v
            roots.append(self.root_of(reg.coll, copy).hex())
        roots.append(self.root_of(reg.coll, reg.vals).hex())
        return "ok:" + ",".join(roots)

    # ------------------------------------------------------------------ builder

    def op_b_new(self, d, l):
        """b_new d l: d + pd > 63 -> err:BuilderInvalidDepth{depth:d} (slot unchanged, as for a
        failing constructor); else ok, the slot holds a fresh builder."""
        d = _parse_int(d)
        l = _parse_int(l)
        if d + self.cfg.pd > 63:
            return "err:BuilderInvalidDepth{depth:%d}" % d
        self.builder = BuilderState(d, l)
        return "ok"

    def op_b_push(self, v):
        """b_push v: no builder -> err:nobuilder; count = 2^(d+pd) -> err:BuilderFull; else ok.
        After a b_push_node the count is not known: `?`."""
        v = self.cfg.parse_val(v)
        if self.builder is None:
            return NOBUILDER
        if not self.builder.known:
            return UNPREDICTED
        if len(self.builder.vals) == 2 ** (self.builder.depth + self.cfg.pd):
            return "err:BuilderFull"
        self.check_materialise(len(self.builder.vals) + 1)
        self.builder.vals.append(v)
        return "ok"

    def op_b_push_node(self, a, path):
        """b_push_node A PATH: no builder -> err:nobuilder; empty A -> err:badreg (both at once:
        not predicted); otherwise the result is not predicted (`?`) and the builder content is
        unknown from then on."""
        reg = self.source(a)
        if path != "." and any(c not in "LR" for c in path):
            raise HistoryError("bad path %r" % (path,))
        if self.builder is None and reg is None:
            return UNPREDICTED
        if self.builder is None:
            return NOBUILDER
        if reg is None:
            return BADREG
        self.builder.known = False
        return UNPREDICTED

    def op_b_finish(self):
        """b_finish: no builder -> err:nobuilder; the slot is emptied.  When only b_push was used
        (level 0): ok:d=<d>,len=<count>,tree=?,root=<merkleize(chunks(vals), limit 2^d
        chunks)>,inc=true; otherwise `?`."""
        if self.builder is None:
            return NOBUILDER
        builder = self.builder
        self.builder = None
        if not builder.known or builder.level != 0:
            return UNPREDICTED
        chunks = ssz_ref.chunks_of(self.cfg.kind, builder.vals)
        root = ssz_ref.merkleize(chunks, 2**builder.depth)
        return "ok:d=%d,len=%d,tree=?,root=%s,inc=true" % (
            builder.depth, len(builder.vals), root.hex())


# =========================================================================== prediction


def header(history):
    """The `H <idx> <kind> <N> <map>` line of a history."""
    return "H %d %s %d %s" % (history.idx, history.kind, history.n, history.map)


def predict_ops(history):
    """Replay the history; one OpPrediction per operation, in order.  Stops after an operation
    on which the reference gives up (its `gave_up` flag is set, result `?`, no O lines)."""
    machine = Machine(history.kind, history.n)
    out = []
    for number, op_line in enumerate(history.ops, 1):
        try:
            result = machine.step(op_line)
        except GiveUp:
            out.append(OpPrediction(number, op_line, "R %d ?" % number, [], True))
            break
        except HistoryError as exc:
            raise HistoryError("history %d op %d (%s): %s" % (history.idx, number, op_line, exc))
        out.append(OpPrediction(number, op_line, "R %d %s" % (number, result),
                                machine.o_lines(), False))
    return out


def predict(history):
    """The predicted `R` and `O` lines of a history, in trace order (without the `H` line)."""
    lines = []
    for op in predict_ops(history):
        lines.append(op.r_line)
        lines.extend(op.o_lines)
    return lines


# =========================================================================== comparison


def match_line(pred, actual):
    """Does the trace line `actual` agree with the predicted line `pred`?

    * `R <n> ?` (result not predicted) matches any result of operation <n>;
    * a field written `name=?` matches any value of that field: the value runs up to the
      delimiter that follows the `?` in `pred` (a space in `O` lines, a comma inside a result
      such as `tree=?,root=...`) or to the end of the line;
    * everything else must be equal character for character."""
    if "?" not in pred:
        return pred == actual
    words = pred.split(" ")
    if len(words) == 3 and words[0] == "R" and words[2] == "?":
        prefix = "R %s " % words[1]
        return actual.startswith(prefix) and len(actual) > len(prefix)
    pieces = pred.split("=?")
    pos = 0
    for j, piece in enumerate(pieces):
        last = j == len(pieces) - 1
        literal = piece if last else piece + "="
        if not actual.startswith(literal, pos):
            return False
        pos += len(literal)
        if last:
            break
        following = pieces[j + 1]
        if following == "":
            if j + 1 != len(pieces) - 1:
                return False  # `=?=?`: not a well-formed prediction
            return True  # wildcard at the end of the line: matches the rest
        delimiter = following[0]
        if delimiter not in " ,":
            return False  # `?` must be a whole field value
        end = actual.find(delimiter, pos)
        if end < 0:
            return False
        pos = end
    return pos == len(actual)


def _group_ops(lines):
    """Cut trace lines into per-operation groups [(r_line, [o_lines])], ignoring every line
    that is not an `R` or `O` line (H, S, M, I, F, C)."""
    groups = []
    for line in lines:
        if line.startswith("R "):
            groups.append((line, []))
        elif line.startswith("O "):
            if not groups:
                groups.append((None, []))
            groups[-1][1].append(line)
    return groups


# Results after which both programs abandon the history (no O lines, no further operations):
# `panic` (FORMAT.md), and `abort` / `timeout`, which `harness --isolate` prints for the operation
# that killed / hung the per-history child process (harness/README.md "Isolation").
ABANDON_RESULTS = ("panic", "abort", "timeout")


def _is_abandoned(r_line):
    words = r_line.split(" ")
    return len(words) == 3 and words[2] in ABANDON_RESULTS


def check_trace(history, trace_lines):
    """Compare the trace of one history (lines of a harness / model-driver trace; S/M/I/F/C
    lines are ignored, an `H` line is checked when present) against the prediction.

    Returns the list of Mismatch(op, op_text, predicted, actual).  A `panic` result (likewise
    `abort` / `timeout` from `harness --isolate`) is always a mismatch, even against `?` (the
    reference never predicts one), and ends the comparison of the history, since the history
    is abandoned there.  `H <idx> unsupported` (configuration not compiled into the
    harness) yields no mismatch.  Comparison also stops where the reference gave up."""
    lines = [ln.rstrip("\n") for ln in trace_lines]
    lines = [ln for ln in lines if ln != ""]
    mismatches = []
    for ln in lines:
        if ln.startswith("H "):
            words = ln.split(" ")
            if len(words) == 3 and words[2] == "unsupported":
                return []
            if ln != header(history):
                mismatches.append(Mismatch(0, "config", header(history), ln))
            break
    actual_groups = _group_ops(lines)
    predicted = predict_ops(history)
    for index, op in enumerate(predicted):
        if index >= len(actual_groups):
            mismatches.append(Mismatch(op.n, op.op_text, op.r_line, None))
            break
        actual_r, actual_os = actual_groups[index]
        if actual_r is None:
            mismatches.append(Mismatch(op.n, op.op_text, op.r_line, None))
        elif _is_abandoned(actual_r):
            mismatches.append(Mismatch(op.n, op.op_text, op.r_line, actual_r))
            return mismatches
        elif actual_r == "R %d fault" % op.n and index > 0 and predicted[index - 1].op_text.startswith("fault "):
            # the injected fault fired inside this operation (hash / par_hash / intra): the call was abandoned,
            # which is an admissible outcome; contents are as predicted (hashing changes nothing, a
            # self-deduplication flushes before it hashes)
            pass
        elif not match_line(op.r_line, actual_r):
            mismatches.append(Mismatch(op.n, op.op_text, op.r_line, actual_r))
        if op.gave_up:
            return mismatches
        for k in range(max(len(op.o_lines), len(actual_os))):
            pred_o = op.o_lines[k] if k < len(op.o_lines) else None
            act_o = actual_os[k] if k < len(actual_os) else None
            if pred_o is None or act_o is None or not match_line(pred_o, act_o):
                mismatches.append(Mismatch(op.n, op.op_text, pred_o, act_o))
    if not (predicted and predicted[-1].gave_up):
        for index in range(len(predicted), len(actual_groups)):
            actual_r = actual_groups[index][0]
            mismatches.append(Mismatch(index + 1, "<no such operation>", None, actual_r))
    return mismatches


def split_trace(text):
    """Cut a trace file into {history index: lines} at the `H` lines."""
    traces = {}
    current = None
    for line in text.splitlines():
        if line.startswith("H "):
            words = line.split(" ")
            current = []
            traces[int(words[1])] = current
        if current is not None:
            current.append(line)
    return traces


# =========================================================================== command line


def _read(path):
    with open(path, "r", encoding="ascii") as handle:
        return handle.read()


def main(argv):
    try:
        if len(argv) == 2:
            histories = parse_histories(_read(argv[1]))
            # Predict everything first so that an unparsable input prints no partial trace.
            outputs = [(header(h), predict(h)) for h in histories]
            for head, lines in outputs:
                print(head)
                for line in lines:
                    print(line)
            return 0
        if len(argv) == 4 and argv[1] == "--check":
            histories = parse_histories(_read(argv[2]))
            traces = split_trace(_read(argv[3]))
            bad = 0
            for h in histories:
                if h.idx not in traces:
                    print("history %d: no trace" % h.idx)
                    bad += 1
                    continue
                for m in check_trace(h, traces[h.idx]):
                    bad += 1
                    print("history %d (%s) op %d: %s" % (h.idx, header(h), m.op, m.op_text))
                    print("  predicted: %s" % m.predicted)
                    print("  actual:    %s" % m.actual)
            print("%d mismatch(es) in %d histories" % (bad, len(histories)))
            return 1 if bad else 0
    except HistoryError as exc:
        sys.stderr.write("pyref: %s\n" % exc)
        return 2
    except OSError as exc:
        sys.stderr.write("pyref: %s\n" % exc)
        return 2
    sys.stderr.write("usage: pyref.py <history-file> | pyref.py --check <history-file> <trace-file>\n")
    return 2


if __name__ == "__main__":
    sys.exit(main(sys.argv))
