#!/usr/bin/env python3
"""Mechanical mutation of /repo/src (classical mutation operators), to look for gaps in the checks without relying on
anybody's idea of what a bug looks like.

  mutate.py gen <count> <seed>          -> /tmp/mutants/m<k>.diff  (candidates, one single-token change each)
  mutate.py filter [-j N]               -> builds each candidate in a scratch worktree and runs the repository's test suite;
                                           survivors (compile + 269 tests pass) are listed in /tmp/mutants/survivors.txt
  mutate.py eval [-j N]                 -> runs ALL 17 quick checks against every survivor (VERIF_REPO), result table in
                                           /tmp/mutants/eval.json : which checks reported a violation
A survivor no check reports is either an equivalent mutant (no observable change) or a gap; those are listed for reading.
Nothing here touches /repo itself: every mutant lives in its own worktree under /tmp/mutants/wt<k>, removed afterwards."""
import sys, os, re, random, subprocess, json, shutil, hashlib
from concurrent.futures import ThreadPoolExecutor

OUT = '/tmp/mutants'
SRC = ['builder.rs', 'cow.rs', 'interface.rs', 'interface_iter.rs', 'iter.rs', 'leaf.rs', 'level_iter.rs', 'list.rs',
       'packed_leaf.rs', 'repeat.rs', 'serde.rs', 'tree.rs', 'update_map.rs', 'utils.rs', 'vector.rs']

OPS = [
    (r'<=', '<'), (r'>=', '>'), (r'(?<![<>=!-])<(?![<=])', '<='), (r'(?<![<>=!-])>(?![>=])', '>='),
    (r'==', '!='), (r'!=', '=='), (r'&&', '||'), (r'\|\|', '&&'),
    (r'\+ 1\b', '+ 0'), (r'- 1\b', '- 0'), (r' \+ ', ' - '), (r' - ', ' + '), (r'\.min\(', '.max('), (r'\.max\(', '.min('),
    (r'\btrue\b', 'false'), (r'\bfalse\b', 'true'), (r'\bleft\b', 'right'), (r'\bright\b', 'left'),
    (r'\bSome\((\w+)\) => ', None), (r'\.saturating_sub\(', '.wrapping_sub('), (r'\b0\b', '1'), (r'\b1\b', '2'),
    (r'<<', '>>'), (r' % ', ' / '), (r'\.is_some\(\)', '.is_none()'), (r'\.is_none\(\)', '.is_some()'),
    (r'\.is_empty\(\)', '.is_empty() == false'), (r'\?;', '.ok();'),
]


def sh(cmd, **kw):
    return subprocess.run(cmd, shell=True, text=True, stdout=subprocess.PIPE, stderr=subprocess.STDOUT, **kw)


def candidates():
    out = []
    for f in SRC:
        path = '/repo/src/' + f
        lines = open(path).read().split('\n')
        in_test = False
        for i, l in enumerate(lines):
            s = l.strip()
            if s.startswith('#[cfg(test)]'):
                in_test = True
            if in_test or s.startswith(('//', '#[', 'use ', 'pub use', '///')) or 'verif' in l or 'derive' in l or 'where' == s:
                continue
            code = l.split('//')[0]
            for pat, rep in OPS:
                if rep is None:
                    continue
                for m in re.finditer(pat, code):
                    # skip generics / lifetimes / arrows
                    ctx = code[max(0, m.start() - 2):m.end() + 2]
                    if '->' in ctx or '=>' in ctx or "'" in ctx or '::<' in code[max(0, m.start() - 3):m.end() + 1]:
                        continue
                    if pat in (r'(?<![<>=!-])<(?![<=])', r'(?<![<>=!-])>(?![>=])') and not re.search(r'\b(if|while|assert|return|&&|\|\||=)\b|[=(]', code[:m.start()]):
                        continue
                    if pat in (r'(?<![<>=!-])<(?![<=])', r'(?<![<>=!-])>(?![>=])') and re.search(r'(impl|fn|struct|enum|type|Vec|Option|Result|Arc|Box|Tree|List|Vector|Builder|Iter)\s*$|[A-Z]\w*$', code[:m.start()]):
                        continue
                    new = code[:m.start()] + m.expand(rep) + code[m.end():] + l[len(code):]
                    out.append((f, i, l, new))
    return out


def gen(count, seed):
    os.makedirs(OUT, exist_ok=True)
    rng = random.Random(seed)
    cs = candidates()
    rng.shuffle(cs)
    n = 0
    for f, i, old, new in cs:
        if n >= count:
            break
        path = '/repo/src/' + f
        lines = open(path).read().split('\n')
        lines2 = list(lines)
        lines2[i] = new
        a, b = '/tmp/mut_a.rs', '/tmp/mut_b.rs'
        open(a, 'w').write('\n'.join(lines))
        open(b, 'w').write('\n'.join(lines2))
        d = sh('diff -u --label a/src/%s --label b/src/%s %s %s' % (f, f, a, b)).stdout
        if not d.strip():
            continue
        open('%s/m%03d.diff' % (OUT, n), 'w').write(d)
        n += 1
    print('%d candidates out of %d sites' % (n, len(cs)))


def worktree(k):
    wt = '%s/wt%03d' % (OUT, k)
    sh('git -C /repo worktree remove --force %s' % wt)
    shutil.rmtree(wt, ignore_errors=True)
    r = sh('git -C /repo worktree add --detach %s HEAD && cd %s && patch -p1 < %s/m%03d.diff' % (wt, wt, OUT, k))
    return wt if r.returncode == 0 else None


def filt_one(k):
    wt = worktree(k)
    if wt is None:
        return k, 'noapply'
    env = dict(os.environ, CARGO_TARGET_DIR='%s/target%d' % (OUT, k % JOBS), CARGO_NET_OFFLINE='true')
    r = subprocess.run('cd %s && timeout 900 cargo test --workspace --no-fail-fast --offline 2>&1 | tail -40' % wt, shell=True, text=True,
                       stdout=subprocess.PIPE, env=env)
    ok = re.search(r'test result: ok\. (\d+) passed; 0 failed', r.stdout)
    res = 'survived' if ok and int(ok.group(1)) >= 260 and 'FAILED' not in r.stdout else ('nocompile' if 'error' in r.stdout and 'test result' not in r.stdout else 'killed')
    sh('git -C /repo worktree remove --force %s' % wt)
    return k, res


JOBS = 4


def main():
    global JOBS
    a = sys.argv[1:]
    if '-j' in a:
        JOBS = int(a[a.index('-j') + 1])
    if a[0] == 'gen':
        gen(int(a[1]), int(a[2]))
    elif a[0] == 'filter':
        ks = sorted(int(f[1:4]) for f in os.listdir(OUT) if re.match(r'm\d{3}\.diff$', f))
        res = {}
        # one build directory per worker lane keeps the incremental state warm
        lanes = [[k for k in ks if k % JOBS == j] for j in range(JOBS)]

        def lane(lst):
            return [filt_one(k) for k in lst]
        with ThreadPoolExecutor(JOBS) as ex:
            for part in ex.map(lane, lanes):
                for k, r in part:
                    res[k] = r
                    print(k, r, flush=True)
        json.dump(res, open(OUT + '/filter.json', 'w'), indent=1)
        open(OUT + '/survivors.txt', 'w').write('\n'.join(str(k) for k in sorted(res) if res[k] == 'survived') + '\n')
        sh('git -C /repo worktree prune')
        for j in range(JOBS):
            shutil.rmtree('%s/target%d' % (OUT, j), ignore_errors=True)
    elif a[0] == 'eval':
        ks = [int(x) for x in open(OUT + '/survivors.txt').read().split()]
        results = json.load(open(OUT + '/eval.json')) if os.path.exists(OUT + '/eval.json') else {}

        def ev(k):
            if str(k) in results:
                return k, results[str(k)]
            wt = worktree(k)
            if wt is None:
                return k, None
            hit = []
            for p in ['C%02d' % i for i in range(1, 18)]:
                c = sh('cd /verif && VERIF_REPO=%s ./check %s --tier quick' % (wt, p), timeout=5400)
                if c.returncode != 0:
                    kind = 'nfi' if 'no-failing-input-found' in c.stdout else 'input'
                    hit.append(p + ':' + kind)
            sh('git -C /repo worktree remove --force %s' % wt)
            hb = '/verif/build/alt-%s' % hashlib.sha256(os.path.realpath(wt).encode()).hexdigest()[:10]
            shutil.rmtree(hb, ignore_errors=True)
            return k, hit
        with ThreadPoolExecutor(JOBS) as ex:
            for k, hit in ex.map(ev, ks):
                results[str(k)] = hit
                json.dump(results, open(OUT + '/eval.json', 'w'), indent=1)
                print(k, hit, flush=True)
        sh('git -C /repo worktree prune')


if __name__ == '__main__':
    main()
