#!/usr/bin/env python3
"""Collect the confirmed seeded changes from the sub-agents' output directories into /verif/seeded/<id>/."""
import os, json, shutil, glob, re
for out in sorted(glob.glob('/tmp/mut/C??.out')):
    prop = os.path.basename(out)[:3]
    for v in ("a", "b", "alt", "c", "d", "e", "f", "g", "h", "i", "j"):
        d = '%s/%s' % (out, v)
        vf = d + '/verify.txt'
        if not os.path.exists(vf):
            continue
        ver = dict(l.strip().split('=', 1) for l in open(vf) if '=' in l)
        ok = ver.get('APPLY') == 'ok' and ver.get('DEMO_CLEAN') == 'pass' and ver.get('DEMO_PATCHED') == 'fail' and ver.get('SUITE', '').startswith('pass')
        sid = '%s%s' % (prop, v)
        if not ok:
            print('NOT CONFIRMED', sid, ver)
            continue
        dst = '/verif/seeded/' + sid
        os.makedirs(dst, exist_ok=True)
        shutil.copy(d + '/patch.diff', dst + '/patch.diff')
        shutil.copy(d + '/demo.rs', dst + '/demo.rs')
        notes = open(d + '/NOTES.md').read() if os.path.exists(d + '/NOTES.md') else ''
        open(dst + '/NOTES.md', 'w').write(notes)
        files = sorted(set(re.findall(r'^\+\+\+ b/(\S+)', open(d + '/patch.diff').read(), re.M)))
        meta = dict(id=sid, property=prop, files=files,
                    written_by='fresh sub-agent given only the property text and a scratch worktree of /repo (nothing from /verif)',
                    needs_to_manifest=(re.search(r'(?is)(needs?|manifest)[^\n]*\n(.{0,600})', notes).group(0)[:700] if re.search(r'(?is)(needs?|manifest)', notes) else ''),
                    confirmed=dict(what_i_ran='tools/seedverify.sh %s in scratch worktree /tmp/mut/%s at /repo HEAD: git apply --check; cargo test --offline --test demo (clean: pass, patched: fail); cargo test --workspace --no-fail-fast --offline with the patch' % (prop, prop),
                                   demo_without_patch=ver.get('DEMO_CLEAN'), demo_with_patch=ver.get('DEMO_PATCHED'), suite_with_patch=ver.get('SUITE')))
        json.dump(meta, open(dst + '/meta.json', 'w'), indent=1)
        print('collected', sid)
