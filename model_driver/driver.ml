(* driver.ml — runs history files (docs/FORMAT.md) on the extracted Coq model and prints the trace
   in exactly the format the Rust harness prints. Hand-written, part of the trusted base of the
   correspondence check only. *)
open Model

(* ---------- number conversions ---------- *)
let rec z_of_pos = function
  | XH -> Z.one
  | XO p -> Z.shift_left (z_of_pos p) 1
  | XI p -> Z.succ (Z.shift_left (z_of_pos p) 1)
let z_of_n = function N0 -> Z.zero | Npos p -> z_of_pos p
let rec pos_of_z z =
  if Z.equal z Z.one then XH
  else if Z.testbit z 0 then XI (pos_of_z (Z.shift_right z 1))
  else XO (pos_of_z (Z.shift_right z 1))
let n_of_z z = if Z.sign z = 0 then N0 else Npos (pos_of_z z)
let n_of_int i = n_of_z (Z.of_int i)
let int_of_n n = Z.to_int (z_of_n n)
let rec nat_of_int i = if i <= 0 then O else S (nat_of_int (i - 1))
let rec int_of_nat = function O -> 0 | S n -> 1 + int_of_nat n
let dec_of_n n = Z.to_string (z_of_n n)
let n_of_dec s = n_of_z (Z.of_string s)

(* ---------- bytes / hex ---------- *)
let hexdigit c = match c with
  | '0'..'9' -> Char.code c - 48 | 'a'..'f' -> Char.code c - 87
  | _ -> failwith ("bad hex digit in " ^ String.make 1 c)
let string_of_hex (s : string) : string =
  if s = "." then "" else begin
    if String.length s mod 2 <> 0 then failwith ("odd hex: " ^ s);
    String.init (String.length s / 2) (fun i -> Char.chr (hexdigit s.[2*i] * 16 + hexdigit s.[2*i+1]))
  end
let bytes_of_string (s : string) : bytes = List.init (String.length s) (fun i -> n_of_int (Char.code s.[i]))
let string_of_bytes (b : bytes) : string =
  let l = List.map int_of_n b in
  let buf = Buffer.create 32 in List.iter (fun x -> Buffer.add_char buf (Char.chr (x land 255))) l; Buffer.contents buf
let bytes_of_hex s = bytes_of_string (string_of_hex s)
let hex_of_bytes (b : bytes) = let s = string_of_bytes b in if s = "" then "." else Sha256.hex s
let hex_of_bytes_raw (b : bytes) = Sha256.hex (string_of_bytes b)

(* digest = N < 2^256, little-endian 32 bytes *)
let le32_of_n (d : n) : string =
  let bits = Z.to_bits (z_of_n d) in
  let l = String.length bits in
  if l >= 32 then String.sub bits 0 32 else bits ^ String.make (32 - l) '\000'
let n_of_le (s : string) : n = n_of_z (Z.of_bits s)
let hash_h (a : n) (b : n) : n = n_of_le (Sha256.sha256 (le32_of_n a ^ le32_of_n b))
let hex_of_digest d = Sha256.hex (le32_of_n d)

(* ---------- printing ---------- *)
let pv (v : bytes) = hex_of_bytes v
let pvals (vs : bytes list) = if vs = [] then "-" else String.concat "," (List.map pv vs)

let perr (e : error) : string =
  let d = dec_of_n in
  match e with
  | OutOfBoundsUpdate (i, l) -> Printf.sprintf "OutOfBoundsUpdate{index:%s,len:%s}" (d i) (d l)
  | OutOfBoundsIterFrom (i, l) -> Printf.sprintf "OutOfBoundsIterFrom{index:%s,len:%s}" (d i) (d l)
  | ListFull l -> Printf.sprintf "ListFull{len:%s}" (d l)
  | PackedLeafFull l -> Printf.sprintf "PackedLeafFull{len:%s}" (d l)
  | LeafUpdateMissing i -> Printf.sprintf "LeafUpdateMissing{index:%s}" (d i)
  | PackedLeafOutOfBounds (s, l) -> Printf.sprintf "PackedLeafOutOfBounds{sub_index:%s,len:%s}" (d s) (d l)
  | NodeUpdatesMissing p -> Printf.sprintf "NodeUpdatesMissing{prefix:%s}" (d p)
  | InvalidListUpdate -> "InvalidListUpdate" | InvalidVectorUpdate -> "InvalidVectorUpdate"
  | WrongVectorLength (l, e) -> Printf.sprintf "WrongVectorLength{len:%s,expected:%s}" (d l) (d e)
  | PushNotSupported -> "PushNotSupported" | UpdateLeafError -> "UpdateLeafError"
  | UpdateLeavesError -> "UpdateLeavesError" | InvalidRebaseNode -> "InvalidRebaseNode"
  | InvalidRebaseLeaf -> "InvalidRebaseLeaf"
  | BuilderInvalidDepth dd -> Printf.sprintf "BuilderInvalidDepth{depth:%s}" (d dd)
  | BuilderExpectedLeaf -> "BuilderExpectedLeaf" | BuilderStackEmptyMerge -> "BuilderStackEmptyMerge"
  | BuilderStackEmptyMergeLeft -> "BuilderStackEmptyMergeLeft"
  | BuilderStackEmptyMergeRight -> "BuilderStackEmptyMergeRight"
  | BuilderStackEmptyFinish -> "BuilderStackEmptyFinish"
  | BuilderStackEmptyFinishLeft -> "BuilderStackEmptyFinishLeft"
  | BuilderStackEmptyFinishRight -> "BuilderStackEmptyFinishRight"
  | BuilderStackEmptyFinalize -> "BuilderStackEmptyFinalize"
  | BuilderStackLeftover -> "BuilderStackLeftover" | BuilderFull -> "BuilderFull"
  | BulkUpdateUnclean -> "BulkUpdateUnclean" | CowMissingEntry -> "CowMissingEntry"
  | LevelIterPendingUpdates -> "LevelIterPendingUpdates" | IntraRebaseZeroHash -> "IntraRebaseZeroHash"
  | IntraRebaseZeroDepth -> "IntraRebaseZeroDepth" | IntraRebaseRepeatVisit -> "IntraRebaseRepeatVisit"
  | EDecode -> "decode" | ESerde -> "serde" | EBadReg -> "badreg" | EPending -> "pending"
  | ENoBuilder -> "nobuilder" | EBadPath -> "badpath"

let rec dump_tree (b : Buffer.t) (t : bytes tree0) : unit =
  match t with
  | Leaf0 (_, v) -> Buffer.add_char b 'L'; Buffer.add_string b (hex_of_bytes_raw v); Buffer.add_char b ';'
  | Packed (_, vs) ->
      Buffer.add_char b 'P';
      Buffer.add_string b (String.concat ":" (List.map hex_of_bytes_raw vs)); Buffer.add_char b ';'
  | Node0 (_, l, r) -> Buffer.add_char b '('; dump_tree b l; dump_tree b r; Buffer.add_char b ')'
  | Zero (_, d) -> Buffer.add_char b 'Z'; Buffer.add_string b (string_of_int (int_of_nat d)); Buffer.add_char b ';'
let tree_string t = let b = Buffer.create 256 in dump_tree b t; Buffer.contents b

let pres (r : bytes res) : string =
  match r with
  | ROk -> "ok"
  | RVal None -> "ok:none" | RVal (Some v) -> "ok:" ^ pv v
  | RNum n -> "ok:" ^ dec_of_n n
  | RSome true -> "ok:some" | RSome false -> "ok:none"
  | RBool true -> "ok:true" | RBool false -> "ok:false"
  | RIter (vs, hs) -> "ok:" ^ pvals vs ^ "|" ^ String.concat "," (List.map dec_of_n hs)
  | RLevel items ->
      if items = [] then "ok:-" else
      "ok:" ^ String.concat "/" (List.map (fun (internal, vs) ->
        if internal then "I:" ^ pvals vs else "P:" ^ (match vs with [v] -> pv v | _ -> pvals vs)) items)
  | RBytes (b, n) -> "ok:" ^ hex_of_bytes b ^ "|" ^ dec_of_n n
  | RVals vs -> "ok:" ^ pvals vs
  | RHash d -> "ok:" ^ hex_of_digest d
  | RHashes ds -> "ok:" ^ String.concat "," (List.map hex_of_digest ds)
  | RFinish (depth, len, t, root, inc) ->
      Printf.sprintf "ok:d=%d,len=%s,tree=%s,root=%s,inc=%s" (int_of_nat depth) (dec_of_n len)
        (tree_string t) (hex_of_digest root) (if inc then "true" else "false")
  | RErr e -> "err:" ^ perr e

(* ---------- parsing ---------- *)
let reg (s : string) : nat =
  if String.length s < 2 || s.[0] <> 'h' then failwith ("bad register " ^ s)
  else nat_of_int (int_of_string (String.sub s 1 (String.length s - 1)))
let split_on c s = if s = "" then [] else String.split_on_char c s
let vals (s : string) : bytes list = if s = "-" then [] else List.map bytes_of_hex (split_on ',' s)
let items (s : string) : bytes option list =
  if s = "-" then [] else List.map (fun x -> if x = "_" then None else Some (bytes_of_hex x)) (split_on ',' s)
let pairs (s : string) : (n * bytes) list =
  if s = "-" then [] else
  List.map (fun x -> match String.index_opt x ':' with
    | Some i -> (n_of_dec (String.sub x 0 i), bytes_of_hex (String.sub x (i+1) (String.length x - i - 1)))
    | None -> failwith ("bad pair " ^ x)) (split_on ',' s)
let path (s : string) : bool list =
  if s = "." then [] else List.init (String.length s) (fun i -> match s.[i] with
    | 'L' -> false | 'R' -> true | _ -> failwith ("bad path " ^ s))

let parse_op (line : string) : bytes op =
  match String.split_on_char ' ' line with
  | ["new_list"; d; v] -> ONewList (reg d, vals v)
  | ["new_vec"; d; v] -> ONewVec (reg d, vals v)
  | ["list_slow"; d; v] -> OListSlow (reg d, vals v)
  | ["vec_iter"; d; v] -> OVecIter (reg d, vals v)
  | ["empty"; d] -> OEmpty (reg d)
  | ["repeat"; d; v; n] -> ORepeat (reg d, bytes_of_hex v, n_of_dec n)
  | ["repeat_slow"; d; v; n] -> ORepeatSlow (reg d, bytes_of_hex v, n_of_dec n)
  | ["from_elem"; d; v] -> OFromElem (reg d, bytes_of_hex v)
  | ["default_vec"; d] -> ODefaultVec (reg d)
  | ["ssz_list"; d; b] -> OSszList (reg d, bytes_of_hex b)
  | ["ssz_vec"; d; b] -> OSszVec (reg d, bytes_of_hex b)
  | ["serde_list"; d; v] -> OSerdeList (reg d, vals v)
  | ["serde_vec"; d; v] -> OSerdeVec (reg d, vals v)
  | ["get"; a; i] -> OGet (reg a, n_of_dec i)
  | ["len"; a] -> OLen (reg a)
  | ["iter_from"; a; i] -> OIterFrom (reg a, n_of_dec i)
  | ["level_iter"; a; i] -> OLevelIter (reg a, n_of_dec i)
  | ["eq"; a; b] -> OEq (reg a, reg b)
  | ["ssz_enc"; a] -> OSszEnc (reg a)
  | ["serde_ser"; a] -> OSerdeSer (reg a)
  | ["set"; a; i; v] -> OSet (reg a, n_of_dec i, bytes_of_hex v)
  | ["touch"; a; i] -> OTouch (reg a, n_of_dec i)
  | ["cow_read"; a; i] -> OCowRead (reg a, n_of_dec i)
  | ["cow_into"; a; i; v] -> OCowInto (reg a, n_of_dec i, bytes_of_hex v)
  | ["cow_make"; a; i; v] -> OCowMake (reg a, n_of_dec i, bytes_of_hex v)
  | ["cow_make2"; a; i; v; w] -> OCowMake2 (reg a, n_of_dec i, bytes_of_hex v, bytes_of_hex w)
  | ["iter_cow"; a; it] -> OIterCow (reg a, items it)
  | ["push"; a; v] -> OPush (reg a, bytes_of_hex v)
  | ["bulk"; a; p] -> OBulk (reg a, pairs p)
  | ["bulk_via"; a; _; p] -> OBulk (reg a, pairs p)   (* the map entered through get_mut_with / get_cow_with: the model's bulk map is built by insert *)
  | ["apply"; a] -> OApply (reg a)
  | ["pop_front"; a; n] -> OPopFront (reg a, n_of_dec n)
  | ["pop_front_slow"; a; n] -> OPopFrontSlow (reg a, n_of_dec n)
  | ["clone"; a; b] -> OClone (reg a, reg b)
  | ["to_vector"; a; b] -> OToVector (reg a, reg b)
  | ["to_list"; a; b] -> OToList (reg a, reg b)
  | ["rebase_on"; a; b] -> ORebaseOn (reg a, reg b)
  | ["rebase"; a; b; c] -> ORebase (reg a, reg b, reg c)
  | ["intra"; a] -> OIntra (reg a)
  | ["hash"; a] -> OHash (reg a)
  | ["drop"; a] -> ODrop (reg a)
  | ["b_new"; d; l] -> OBNew (n_of_dec d, n_of_dec l)
  | ["b_push"; v] -> OBPush (bytes_of_hex v)
  | ["b_push_node"; a; p] -> OBPushNode (reg a, path p)
  | ["b_finish"] -> OBFinish
  | ["par_hash"; a; k] -> OParHash (reg a, n_of_dec k)
  | ["par_mix"; a; v] -> OParMix (reg a, vals v)
  | _ -> failwith ("unparsable operation: " ^ line)

(* ---------- views ---------- *)
let id_int (i : positive) : int = Z.to_int (z_of_pos i)

(* pre-order traversal *)
let rec preorder (t : bytes tree0) (f : bytes tree0 -> unit) : unit =
  f t; match t with Node0 (_, l, r) -> preorder l f; preorder r f | _ -> ()

let reachable_ids (regs : (bytes, 'u) handle option list) : (int, unit) Hashtbl.t =
  let tbl = Hashtbl.create 1024 in
  List.iter (function
    | Some h ->
        (* shared subtrees are visited once *)
        let rec go t =
          let i = id_int (idof t) in
          if not (Hashtbl.mem tbl i) then begin
            Hashtbl.add tbl i ();
            match t with Node0 (_, l, r) -> go l; go r | _ -> ()
          end in
        go h.htree
    | None -> ()) regs;
  tbl

let print_views (out : Buffer.t) ek m (st : state) (s : (bytes, 'u) sys) (prev : (int, unit) Hashtbl.t)
  : (int, unit) Hashtbl.t =
  let classes = Hashtbl.create 1024 in
  let next_class = ref 0 in
  List.iteri (fun k ho ->
    match ho with
    | None -> ()
    | Some h ->
        let len = iface_len m h in
        let leni = z_of_n len in
        let kind = if h.hlist then "L" else "V" in
        let pend = if has_pending m h then 1 else 0 in
        if Z.gt leni (Z.of_int 4096) then
          Buffer.add_string out (Printf.sprintf "O h%d %s len=%s empty=%d pend=%d vals=big gets=big\n"
            k kind (dec_of_n len) (if Z.sign leni = 0 then 1 else 0) pend)
        else begin
          let vs = match fst (run (to_vec ek m h) st) with
            | Ok vs -> pvals vs | Err e -> "err:" ^ perr e | Panic _ -> "panic" in
          let li = Z.to_int leni in
          let gets = List.init (li + 2) (fun j ->
            match iface_get ek m h (n_of_int j) with Some v -> pv v | None -> "none") in
          Buffer.add_string out (Printf.sprintf "O h%d %s len=%s empty=%d pend=%d vals=%s gets=%s\n"
            k kind (dec_of_n len) (if li = 0 then 1 else 0) pend vs (String.concat "," gets))
        end;
        let upd = urange m h.hupd N0 usize_max in
        let upds = if upd = [] then "-" else
          String.concat "," (List.map (fun (i, v) -> dec_of_n i ^ ":" ^ pv v) upd) in
        let mx = match umax_index m h.hupd with Some x -> dec_of_n x | None -> "none" in
        let big = Z.gt (z_of_n h.hblen) (Z.of_int 4096) in
        Buffer.add_string out (Printf.sprintf "S h%d blen=%s depth=%d tree=%s upd=%s max=%s\n"
          k (dec_of_n h.hblen) (int_of_nat h.hdepth) (if big then "big" else tree_string h.htree) upds mx);
        if big then begin
          Buffer.add_string out (Printf.sprintf "M h%d big\n" k);
          Buffer.add_string out (Printf.sprintf "I h%d big\n" k)
        end else
        let memos = ref [] and idents = ref [] in
        preorder h.htree (fun t ->
          let i = id_int (idof t) in
          let c = match Hashtbl.find_opt classes i with
            | Some c -> c
            | None -> let c = !next_class in incr next_class; Hashtbl.add classes i c; c in
          idents := string_of_int c :: !idents;
          match t with
          | Zero _ -> ()
          | _ ->
              let d = mget st (idof t) in
              memos := (if d = N0 then "-" else String.sub (hex_of_digest d) 0 16) :: !memos);
        Buffer.add_string out (Printf.sprintf "M h%d %s\n" k
          (if !memos = [] then "-" else String.concat "," (List.rev !memos)));
        Buffer.add_string out (Printf.sprintf "I h%d %s\n" k (String.concat "," (List.rev !idents))))
    s.regs;
  let now = reachable_ids s.regs in
  let fresh = Hashtbl.fold (fun i () acc -> if Hashtbl.mem prev i then acc else acc + 1) now 0 in
  Buffer.add_string out (Printf.sprintf "F %d\n" fresh);
  now

(* ---------- running ---------- *)
let uint_k = function "u8" -> Some 0 | "u16" | "bu16" -> Some 1 | "u32" -> Some 2 | "u64" | "fu64" -> Some 3
  | "u128" -> Some 4 | "u256" -> Some 5 | _ -> None

let ekind_of (kind : string) : bytes ekind option =
  match uint_k kind with
  | Some k -> Some (ek_uint (nat_of_int k))
  | None -> (match kind with
      | "h256" -> Some ek_h256 | "pair" -> Some (ek_pair hash_h) | "quad" -> Some (ek_quad hash_h) | "var" -> Some (ek_var hash_h) | "nl" -> Some (ek_nl hash_h)
      | _ -> None)

let run_history (type u) (out : Buffer.t) (ek : bytes ekind) (m : (bytes, u) umap_impl) (vec_based : bool)
    (capn : n) (ops : string list) : unit =
  let st = ref init_state in
  let s = ref (init_sys : (bytes, u) sys) in
  let prev = ref (Hashtbl.create 16) in
  let cov = Hashtbl.create 16 in
  (try
    List.iteri (fun idx line ->
      if String.length line >= 6 && String.sub line 0 6 = "fault " then begin
        (* fault injection into element callbacks exists only in the implementation harness (kind fu64):
           the model has no failing element type; `fault k` itself changes nothing *)
        Buffer.add_string out (Printf.sprintf "R %d ok\n" (idx + 1));
        prev := print_views out ek m !st !s !prev
      end else
      let o = parse_op line in
      let ((res, st'), tags) = run_cov (step ek m hash_h capn vec_based !s o) !st [] in
      List.iter (fun t -> let t = int_of_nat t in
        Hashtbl.replace cov t (1 + (try Hashtbl.find cov t with Not_found -> 0))) tags;
      match res with
      | Panic _ ->
          Buffer.add_string out (Printf.sprintf "R %d panic\n" (idx + 1));
          raise Exit
      | Err e ->
          (* `step` never fails at top level; if it does, show it as an error result *)
          Buffer.add_string out (Printf.sprintf "R %d err:%s\n" (idx + 1) (perr e));
          st := st';
          prev := print_views out ek m !st !s !prev
      | Ok (r, s') ->
          (* `ssz_enc` also reports the static half of Encode (is_ssz_fixed_len / ssz_fixed_len of the type) *)
          let extra = match r, String.split_on_char ' ' line with
            | RBytes _, ["ssz_enc"; a] ->
                (match List.nth_opt s'.regs (int_of_nat (reg a)) with
                 | Some (Some h) ->
                     Printf.sprintf "|f=%d:%s" (if coll_is_ssz_fixed ek h.hlist then 1 else 0)
                       (dec_of_n (coll_ssz_fixed_len ek h.hlist capn))
                 | _ -> "")
            | _ -> "" in
          Buffer.add_string out (Printf.sprintf "R %d %s%s\n" (idx + 1) (pres r) extra);
          st := st'; s := s';
          prev := print_views out ek m !st !s !prev) ops
  with Exit -> ());
  let tags = List.sort compare (Hashtbl.fold (fun t c acc -> (t, c) :: acc) cov []) in
  List.iter (fun (t, c) -> Buffer.add_string out (Printf.sprintf "C %d %d\n" t c)) tags

let self_test () =
  let h = Sha256.hex (Sha256.sha256 "abc") in
  if h <> "ba7816bf8f01cfea414140de5dae2223b00361a396177a9cb410ff61f20015ad" then failwith "sha256 self-test 1";
  let h2 = Sha256.hex (Sha256.sha256 "") in
  if h2 <> "e3b0c44298fc1c149afbf4c8996fb92427ae41e4649b934ca495991b7852b855" then failwith "sha256 self-test 2";
  let h3 = Sha256.hex (Sha256.sha256 (String.make 64 '\000')) in
  (* hash of 64 zero bytes = ZERO_HASHES[1] *)
  if h3 <> "f5a5fd42d16a20302798ef6ed309979b43003d2320d9f0e8ea9831a92759fb4b" then failwith "sha256 self-test 3"

let () =
  self_test ();
  if Array.length Sys.argv < 2 then (prerr_endline "usage: model_driver <history-file>"; exit 2);
  if Sys.argv.(1) = "--self-test" then (print_endline "ok"; exit 0);
  let ic = open_in Sys.argv.(1) in
  let lines = ref [] in
  (try while true do lines := input_line ic :: !lines done with End_of_file -> ());
  close_in ic;
  let lines = List.filter (fun l -> l <> "" && l.[0] <> '#') (List.map String.trim (List.rev !lines)) in
  (* group into histories *)
  let hists = ref [] and cur = ref None in
  List.iter (fun l ->
    if String.length l >= 7 && String.sub l 0 7 = "config " then begin
      (match !cur with Some (c, ops) -> hists := (c, List.rev ops) :: !hists | None -> ());
      cur := Some (l, [])
    end else match !cur with
      | Some (c, ops) -> cur := Some (c, l :: ops)
      | None -> (prerr_endline ("operation before config: " ^ l); exit 2)) lines;
  (match !cur with Some (c, ops) -> hists := (c, List.rev ops) :: !hists | None -> ());
  let out = Buffer.create 65536 in
  List.iteri (fun idx (c, ops) ->
    (match String.split_on_char ' ' c with
     | ["config"; kind; nn; map] ->
         (match ekind_of kind with
          | None -> Buffer.add_string out (Printf.sprintf "H %d unsupported\n" idx)
          | Some ek ->
              Buffer.add_string out (Printf.sprintf "H %d %s %s %s\n" idx kind nn map);
              let capn = n_of_dec nn in
              (try
                (match map with
                 | "max" -> run_history out ek (maxmap_impl vecmap_impl) true capn ops
                 | "vec" -> run_history out ek vecmap_impl true capn ops
                 | "bt" -> run_history out ek btmap_impl false capn ops
                 | _ -> prerr_endline ("bad map " ^ map); exit 2)
              with Failure msg -> prerr_endline msg; exit 2))
     | _ -> prerr_endline ("bad config line: " ^ c); exit 2);
    print_string (Buffer.contents out); Buffer.clear out) (List.rev !hists)
