(* SHA-256 (FIPS 180-4) on OCaml strings; instantiates the model's Section variable H.
   Self-tested at start-up against the FIPS vectors (see driver.ml). *)
let k = [|
  0x428a2f98; 0x71374491; 0xb5c0fbcf; 0xe9b5dba5; 0x3956c25b; 0x59f111f1; 0x923f82a4; 0xab1c5ed5;
  0xd807aa98; 0x12835b01; 0x243185be; 0x550c7dc3; 0x72be5d74; 0x80deb1fe; 0x9bdc06a7; 0xc19bf174;
  0xe49b69c1; 0xefbe4786; 0x0fc19dc6; 0x240ca1cc; 0x2de92c6f; 0x4a7484aa; 0x5cb0a9dc; 0x76f988da;
  0x983e5152; 0xa831c66d; 0xb00327c8; 0xbf597fc7; 0xc6e00bf3; 0xd5a79147; 0x06ca6351; 0x14292967;
  0x27b70a85; 0x2e1b2138; 0x4d2c6dfc; 0x53380d13; 0x650a7354; 0x766a0abb; 0x81c2c92e; 0x92722c85;
  0xa2bfe8a1; 0xa81a664b; 0xc24b8b70; 0xc76c51a3; 0xd192e819; 0xd6990624; 0xf40e3585; 0x106aa070;
  0x19a4c116; 0x1e376c08; 0x2748774c; 0x34b0bcb5; 0x391c0cb3; 0x4ed8aa4a; 0x5b9cca4f; 0x682e6ff3;
  0x748f82ee; 0x78a5636f; 0x84c87814; 0x8cc70208; 0x90befffa; 0xa4506ceb; 0xbef9a3f7; 0xc67178f2 |]
let m32 = 0xffffffff
let rotr x n = ((x lsr n) lor (x lsl (32 - n))) land m32
let sha256 (msg : string) : string =
  let len = String.length msg in
  let padlen = let r = (len + 9) mod 64 in if r = 0 then 0 else 64 - r in
  let total = len + 9 + padlen in
  let b = Bytes.make total '\000' in
  Bytes.blit_string msg 0 b 0 len;
  Bytes.set b len '\x80';
  let bits = len * 8 in
  for i = 0 to 7 do
    Bytes.set b (total - 1 - i) (Char.chr ((bits lsr (8 * i)) land 0xff))
  done;
  let h = [| 0x6a09e667; 0xbb67ae85; 0x3c6ef372; 0xa54ff53a; 0x510e527f; 0x9b05688c; 0x1f83d9ab; 0x5be0cd19 |] in
  let w = Array.make 64 0 in
  for blk = 0 to total / 64 - 1 do
    for t = 0 to 15 do
      let o = blk * 64 + t * 4 in
      w.(t) <- (Char.code (Bytes.get b o) lsl 24) lor (Char.code (Bytes.get b (o+1)) lsl 16)
               lor (Char.code (Bytes.get b (o+2)) lsl 8) lor Char.code (Bytes.get b (o+3))
    done;
    for t = 16 to 63 do
      let s0 = rotr w.(t-15) 7 lxor rotr w.(t-15) 18 lxor (w.(t-15) lsr 3) in
      let s1 = rotr w.(t-2) 17 lxor rotr w.(t-2) 19 lxor (w.(t-2) lsr 10) in
      w.(t) <- (w.(t-16) + s0 + w.(t-7) + s1) land m32
    done;
    let a = ref h.(0) and bb = ref h.(1) and c = ref h.(2) and d = ref h.(3)
    and e = ref h.(4) and f = ref h.(5) and g = ref h.(6) and hh = ref h.(7) in
    for t = 0 to 63 do
      let s1 = rotr !e 6 lxor rotr !e 11 lxor rotr !e 25 in
      let ch = (!e land !f) lxor ((lnot !e) land m32 land !g) in
      let t1 = (!hh + s1 + ch + k.(t) + w.(t)) land m32 in
      let s0 = rotr !a 2 lxor rotr !a 13 lxor rotr !a 22 in
      let maj = (!a land !bb) lxor (!a land !c) lxor (!bb land !c) in
      let t2 = (s0 + maj) land m32 in
      hh := !g; g := !f; f := !e; e := (!d + t1) land m32;
      d := !c; c := !bb; bb := !a; a := (t1 + t2) land m32
    done;
    h.(0) <- (h.(0) + !a) land m32; h.(1) <- (h.(1) + !bb) land m32;
    h.(2) <- (h.(2) + !c) land m32; h.(3) <- (h.(3) + !d) land m32;
    h.(4) <- (h.(4) + !e) land m32; h.(5) <- (h.(5) + !f) land m32;
    h.(6) <- (h.(6) + !g) land m32; h.(7) <- (h.(7) + !hh) land m32
  done;
  let out = Bytes.create 32 in
  for i = 0 to 7 do
    for j = 0 to 3 do
      Bytes.set out (i * 4 + j) (Char.chr ((h.(i) lsr (8 * (3 - j))) land 0xff))
    done
  done;
  Bytes.to_string out
let hex (s : string) : string =
  let b = Buffer.create (2 * String.length s) in
  String.iter (fun c -> Buffer.add_string b (Printf.sprintf "%02x" (Char.code c))) s;
  Buffer.contents b
