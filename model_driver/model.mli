
val negb : bool -> bool

type nat =
| O
| S of nat

type ('a, 'b) sum =
| Inl of 'a
| Inr of 'b

val fst : ('a1 * 'a2) -> 'a1

val snd : ('a1 * 'a2) -> 'a2

val length : 'a1 list -> nat

val app : 'a1 list -> 'a1 list -> 'a1 list

type comparison =
| Eq
| Lt
| Gt

val add : nat -> nat -> nat

val sub : nat -> nat -> nat

val eqb : bool -> bool -> bool

module Nat :
 sig
  val add : nat -> nat -> nat

  val mul : nat -> nat -> nat

  val eqb : nat -> nat -> bool

  val leb : nat -> nat -> bool

  val ltb : nat -> nat -> bool

  val pow : nat -> nat -> nat
 end

val nth_error : 'a1 list -> nat -> 'a1 option

val rev : 'a1 list -> 'a1 list

val map : ('a1 -> 'a2) -> 'a1 list -> 'a2 list

val flat_map : ('a1 -> 'a2 list) -> 'a1 list -> 'a2 list

val fold_left : ('a1 -> 'a2 -> 'a1) -> 'a2 list -> 'a1 -> 'a1

val existsb : ('a1 -> bool) -> 'a1 list -> bool

val forallb : ('a1 -> bool) -> 'a1 list -> bool

val firstn : nat -> 'a1 list -> 'a1 list

val skipn : nat -> 'a1 list -> 'a1 list

val repeat : 'a1 -> nat -> 'a1 list

type positive =
| XI of positive
| XO of positive
| XH

type n =
| N0
| Npos of positive

module Pos :
 sig
  type mask =
  | IsNul
  | IsPos of positive
  | IsNeg
 end

module Coq_Pos :
 sig
  val succ : positive -> positive

  val add : positive -> positive -> positive

  val add_carry : positive -> positive -> positive

  val pred_double : positive -> positive

  val pred_N : positive -> n

  type mask = Pos.mask =
  | IsNul
  | IsPos of positive
  | IsNeg

  val succ_double_mask : mask -> mask

  val double_mask : mask -> mask

  val double_pred_mask : positive -> mask

  val sub_mask : positive -> positive -> mask

  val sub_mask_carry : positive -> positive -> mask

  val mul : positive -> positive -> positive

  val iter : ('a1 -> 'a1) -> 'a1 -> positive -> 'a1

  val pow : positive -> positive -> positive

  val compare_cont : comparison -> positive -> positive -> comparison

  val compare : positive -> positive -> comparison

  val eqb : positive -> positive -> bool

  val coq_lor : positive -> positive -> positive

  val shiftl : positive -> n -> positive

  val testbit : positive -> n -> bool

  val iter_op : ('a1 -> 'a1 -> 'a1) -> positive -> 'a1 -> 'a1

  val to_nat : positive -> nat

  val of_succ_nat : nat -> positive
 end

module N :
 sig
  val succ_double : n -> n

  val double : n -> n

  val pred : n -> n

  val add : n -> n -> n

  val sub : n -> n -> n

  val mul : n -> n -> n

  val compare : n -> n -> comparison

  val eqb : n -> n -> bool

  val leb : n -> n -> bool

  val ltb : n -> n -> bool

  val min : n -> n -> n

  val max : n -> n -> n

  val div2 : n -> n

  val pow : n -> n -> n

  val pos_div_eucl : positive -> n -> n * n

  val div_eucl : n -> n -> n * n

  val div : n -> n -> n

  val modulo : n -> n -> n

  val coq_lor : n -> n -> n

  val shiftl : n -> n -> n

  val shiftr : n -> n -> n

  val testbit : n -> n -> bool

  val to_nat : n -> nat

  val of_nat : nat -> n
 end

module PositiveMap :
 sig
  type key = positive

  type 'a tree =
  | Leaf
  | Node of 'a tree * 'a option * 'a tree

  type 'a t = 'a tree

  val empty : 'a1 t

  val find : key -> 'a1 t -> 'a1 option

  val add : key -> 'a1 -> 'a1 t -> 'a1 t
 end

type id = positive

type digest = n

type error =
| OutOfBoundsUpdate of n * n
| OutOfBoundsIterFrom of n * n
| ListFull of n
| PackedLeafFull of n
| LeafUpdateMissing of n
| PackedLeafOutOfBounds of n * n
| NodeUpdatesMissing of n
| InvalidListUpdate
| InvalidVectorUpdate
| WrongVectorLength of n * n
| PushNotSupported
| UpdateLeafError
| UpdateLeavesError
| InvalidRebaseNode
| InvalidRebaseLeaf
| BuilderInvalidDepth of n
| BuilderExpectedLeaf
| BuilderStackEmptyMerge
| BuilderStackEmptyMergeLeft
| BuilderStackEmptyMergeRight
| BuilderStackEmptyFinish
| BuilderStackEmptyFinishLeft
| BuilderStackEmptyFinishRight
| BuilderStackEmptyFinalize
| BuilderStackLeftover
| BuilderFull
| BulkUpdateUnclean
| CowMissingEntry
| LevelIterPendingUpdates
| IntraRebaseZeroHash
| IntraRebaseZeroDepth
| IntraRebaseRepeatVisit
| EDecode
| ESerde
| EBadReg
| EPending
| ENoBuilder
| EBadPath

type site =
| PZeroHashIndex
| PIterExpect
| PUnreachable
| PAssert
| PSliceIndex
| POverflow
| PShift
| PVectorDefault
| POutOfFuel

type 'a outcome =
| Ok of 'a
| Err of error
| Panic of site

val usize_max : n

val tzp : positive -> nat

val tz : n -> nat

val pow2 : nat -> n

val int_log_aux : nat -> nat -> n -> nat

val int_log : n -> nat

val compute_level : n -> nat -> nat -> nat

val takeN : n -> 'a1 list -> 'a1 list

val dropN : n -> 'a1 list -> 'a1 list

val lenN : 'a1 list -> n

val nthN : 'a1 list -> n -> 'a1 option

val setN : 'a1 list -> n -> 'a1 -> 'a1 list

val repeatN_pos : 'a1 -> positive -> 'a1 list

val repeatN : 'a1 -> n -> 'a1 list

type 'a prog =
| Ret of 'a
| Fail of error
| Crash of site
| Fresh of (id -> 'a prog)
| GetMemo of id * (digest -> 'a prog)
| SetMemo of id * digest * 'a prog
| Par of digest prog * digest prog * (digest -> digest -> 'a prog)
| Note of nat * 'a prog

val bind : 'a1 prog -> ('a1 -> 'a2 prog) -> 'a2 prog

val fresh : id prog

val set_memo : id -> digest -> unit prog

val lift_opt : 'a1 option -> error -> 'a1 prog

type state = { next : positive; memo : digest PositiveMap.t }

val mget : state -> id -> digest

val mset : state -> id -> digest -> state

val bump : state -> state

val init_state : state

val run : 'a1 prog -> state -> 'a1 outcome * state

val run_cov :
  'a1 prog -> state -> nat list -> ('a1 outcome * state) * nat list

type 't ekind = { eeqb : ('t -> 't -> bool); epd : nat option;
                  epenc : ('t -> n); etroot : ('t -> digest);
                  efixed : n option; eenc : ('t -> n list);
                  edec : (n list -> 't option); edefault : 't }

val pd_of : 'a1 ekind -> nat

val is_packed : 'a1 ekind -> bool

val pf_of : 'a1 ekind -> n

type bytes = n list

val le_num : bytes -> n

val num_le : nat -> n -> bytes

val bytes_eqb : bytes -> bytes -> bool

val valid_bytes : bytes -> bool

val ek_uint : nat -> bytes ekind

val ek_h256 : bytes ekind

val ek_pair : (digest -> digest -> digest) -> bytes ekind

val ek_var : (digest -> digest -> digest) -> bytes ekind

type 't tree0 =
| Leaf0 of id * 't
| Packed of id * 't list
| Node0 of id * 't tree0 * 't tree0
| Zero of id * nat

type 't stree =
| SLeaf of 't
| SPacked of 't list
| SNode of 't stree * 't stree
| SZero of nat

val shape : 'a1 tree0 -> 'a1 stree

val idof : 'a1 tree0 -> id

val selems : 'a1 stree -> 'a1 list

val elems : 'a1 tree0 -> 'a1 list

val compute_len : 'a1 tree0 -> n

val nodes : 'a1 tree0 -> 'a1 tree0 list

val list_eqb : 'a1 ekind -> 'a1 list -> 'a1 list -> bool

val stree_eqb : 'a1 ekind -> 'a1 stree -> 'a1 stree -> bool

val tree_eqb : 'a1 ekind -> 'a1 tree0 -> 'a1 tree0 -> bool

val zh : (digest -> digest -> digest) -> nat -> digest

val vbits : 'a1 ekind -> n

val chunk_of : 'a1 ekind -> 'a1 list -> n

type ('t, 'u) umap_impl = { uempty : 'u; uget : ('u -> n -> 't option);
                            uinsert : ('u -> n -> 't -> 'u);
                            uentry_insert : ('u -> n -> 't -> 'u);
                            urange : ('u -> n -> n -> (n * 't) list);
                            umax_index : ('u -> n option); ulen : ('u -> n);
                            ueqb : (('t -> 't -> bool) -> 'u -> 'u -> bool) }

val urange : ('a1, 'a2) umap_impl -> 'a2 -> n -> n -> (n * 'a1) list

val umax_index : ('a1, 'a2) umap_impl -> 'a2 -> n option

val uis_empty : ('a1, 'a2) umap_impl -> 'a2 -> bool

val pairs_eqb :
  ('a1 -> 'a1 -> bool) -> (n * 'a1) list -> (n * 'a1) list -> bool

type 't vecmap = 't option list

val vm_get : 'a1 vecmap -> n -> 'a1 option

val vm_insert : 'a1 vecmap -> n -> 'a1 -> 'a1 vecmap

val vm_range_aux : 'a1 vecmap -> n -> n -> n -> (n * 'a1) list

val vm_range : 'a1 vecmap -> n -> n -> (n * 'a1) list

val vm_max_aux : 'a1 vecmap -> n -> n option -> n option

val vm_len : 'a1 vecmap -> n

val vecmap_impl : ('a1, 'a1 vecmap) umap_impl

type 't btmap = (n * 't) list

val bt_get : 'a1 btmap -> n -> 'a1 option

val bt_insert : 'a1 btmap -> n -> 'a1 -> 'a1 btmap

val bt_range : 'a1 btmap -> n -> n -> (n * 'a1) list

val bt_max : 'a1 btmap -> n option

val btmap_impl : ('a1, 'a1 btmap) umap_impl

type 'u maxmap = 'u * n

val maxmap_impl : ('a1, 'a2) umap_impl -> ('a1, 'a2 maxmap) umap_impl

val get_rec : 'a1 ekind -> 'a1 tree0 -> n -> nat -> 'a1 option

val insert_mut : 'a1 list -> n -> 'a1 -> 'a1 list prog

val insert_all : 'a1 ekind -> 'a1 list -> (n * 'a1) list -> 'a1 list prog

val packed_update :
  'a1 ekind -> ('a1, 'a2) umap_impl -> 'a1 list -> n -> 'a2 -> 'a1 list prog

val has_updates : ('a1, 'a2) umap_impl -> 'a2 -> n -> n -> bool

val with_updated_leaves :
  'a1 ekind -> ('a1, 'a2) umap_impl -> nat -> 'a1 tree0 -> 'a2 -> n -> 'a1
  tree0 prog

val with_updated_leaf :
  'a1 ekind -> nat -> 'a1 tree0 -> n -> 'a1 -> 'a1 tree0 prog

type 't builder = { bstack : (bool * 't tree0) list; bdepth : nat;
                    blevel : n; blength : n; bcap : n }

val builder_new : 'a1 ekind -> n -> n -> 'a1 builder prog

val merge_n :
  nat -> 'a1 tree0 -> (bool * 'a1 tree0) list -> ('a1 tree0 * (bool * 'a1
  tree0) list) prog

val merge_avail :
  nat -> (bool * 'a1 tree0) -> (bool * 'a1 tree0) list -> ((bool * 'a1
  tree0) * (bool * 'a1 tree0) list) prog

val builder_push : 'a1 ekind -> 'a1 builder -> 'a1 -> 'a1 builder prog

val builder_push_node :
  'a1 ekind -> 'a1 builder -> 'a1 tree0 -> n -> 'a1 builder prog

val merge_up :
  'a1 ekind -> nat -> nat -> n -> (bool * 'a1 tree0) list -> error -> error
  -> (bool * 'a1 tree0) list prog

val finish_loop :
  'a1 ekind -> nat -> 'a1 builder -> nat -> n -> (bool * 'a1 tree0) list ->
  (bool * 'a1 tree0) list prog

val builder_finish : 'a1 ekind -> 'a1 builder -> (('a1 tree0 * nat) * n) prog

val pop_n : nat -> 'a1 list -> 'a1 list

type ('a, 's) step_res =
| SOk of 'a option * 's
| SPanic of site

type 't iter0 = { istack : 't tree0 list; iindex : n; ifull_depth : nat;
                  ilength : n }

val iter_from_index : n -> 'a1 tree0 -> nat -> n -> 'a1 iter0

val iter_next : 'a1 ekind -> nat -> 'a1 iter0 -> ('a1, 'a1 iter0) step_res

type 't liter = { lstack : 't tree0 list; lindex : n; llevel : nat;
                  lfull_depth : nat; llength : n }

type 't level_node =
| LInternal of 't tree0
| LPackedLeaf of 't

val liter_from_index : 'a1 ekind -> n -> 'a1 tree0 -> nat -> n -> 'a1 liter

val liter_set : 'a1 liter -> 'a1 tree0 list -> n -> 'a1 liter

val liter_jump :
  'a1 liter -> 'a1 tree0 -> ('a1 level_node, 'a1 liter) step_res

val liter_next :
  'a1 ekind -> nat -> 'a1 liter -> ('a1 level_node, 'a1 liter) step_res

val liter_collect :
  'a1 ekind -> nat -> 'a1 liter -> 'a1 level_node list outcome

type 't action =
| NotEqualNoop
| NotEqualReplace of 't tree0
| EqualNoop
| EqualReplace of 't tree0

val minN : n -> n -> n

val tag_shortcut : nat

val tag_ptr_eq : nat

val tag_rebuild : nat

val rebase_on :
  'a1 ekind -> 'a1 tree0 -> 'a1 tree0 -> (n * n) option -> nat -> 'a1 action
  prog

type 't iaction =
| INoop
| IReplace of 't tree0

type 't known = ((nat * digest) * 't tree0) list

val known_get : 'a1 known -> nat -> digest -> 'a1 tree0 option

val tag_intra_hit : nat

val tag_intra_collide : nat

val intra_rebase :
  'a1 ekind -> 'a1 tree0 -> 'a1 known -> nat -> ('a1 iaction * 'a1 known) prog

val tree_hash :
  'a1 ekind -> (digest -> digest -> digest) -> 'a1 tree0 -> digest prog

type 't layer = ('t tree0 * n) list

val mk_node : 'a1 tree0 -> 'a1 tree0 -> 'a1 tree0 prog

val mk_zero : nat -> 'a1 tree0 prog

val repeat_step : nat -> 'a1 layer -> 'a1 layer prog

val repeat_layers : nat -> nat -> 'a1 layer -> 'a1 layer prog

val packed_repeat : 'a1 ekind -> 'a1 -> n -> 'a1 tree0 prog

val repeat_tree : 'a1 ekind -> n -> nat -> 'a1 -> n -> 'a1 tree0 prog

val try_ : 'a1 prog -> (error, 'a1) sum prog

type ('t, 'u) handle = { hlist : bool; htree : 't tree0; hblen : n;
                         hdepth : nat; hupd : 'u }

val with_upd : ('a1, 'a2) handle -> 'a2 -> ('a1, 'a2) handle

val with_tree : ('a1, 'a2) handle -> 'a1 tree0 -> ('a1, 'a2) handle

val list_depth : 'a1 ekind -> n -> nat

val from_parts :
  ('a1, 'a2) umap_impl -> 'a1 tree0 -> nat -> n -> ('a1, 'a2) handle

val backing_get : 'a1 ekind -> ('a1, 'a2) handle -> n -> 'a1 option

val iface_get :
  'a1 ekind -> ('a1, 'a2) umap_impl -> ('a1, 'a2) handle -> n -> 'a1 option

val updated_length : ('a1, 'a2) umap_impl -> n -> 'a2 -> n

val iface_len : ('a1, 'a2) umap_impl -> ('a1, 'a2) handle -> n

val has_pending : ('a1, 'a2) umap_impl -> ('a1, 'a2) handle -> bool

val iface_get_mut :
  'a1 ekind -> ('a1, 'a2) umap_impl -> ('a1, 'a2) handle -> n -> ('a1 * ('a1,
  'a2) handle) option

val write_entry :
  ('a1, 'a2) umap_impl -> ('a1, 'a2) handle -> n -> 'a1 -> ('a1, 'a2) handle

val validate_push : n -> ('a1, 'a2) handle -> n -> unit prog

val iface_push :
  ('a1, 'a2) umap_impl -> n -> ('a1, 'a2) handle -> 'a1 -> ('a1, 'a2) handle
  prog

val apply_updates :
  'a1 ekind -> ('a1, 'a2) umap_impl -> n -> ('a1, 'a2) handle -> (error
  option * ('a1, 'a2) handle) prog

val apply_q :
  'a1 ekind -> ('a1, 'a2) umap_impl -> n -> ('a1, 'a2) handle -> ('a1, 'a2)
  handle prog

val bulk_walk : n -> (n * 'a1) list -> ('a1, 'a2) handle -> n -> n prog

val iface_bulk_update :
  ('a1, 'a2) umap_impl -> n -> ('a1, 'a2) handle -> 'a2 -> ('a1, 'a2) handle
  prog

type 't iiter = { ii_tree : 't iter0; ii_index : n; ii_length : n }

val iface_iter_from :
  ('a1, 'a2) umap_impl -> ('a1, 'a2) handle -> n -> 'a1 iiter

val iiter_next :
  'a1 ekind -> ('a1, 'a2) umap_impl -> ('a1, 'a2) handle -> 'a1 iiter ->
  ('a1, 'a1 iiter) step_res

val iiter_hint : 'a1 iiter -> n

val iiter_collect :
  'a1 ekind -> ('a1, 'a2) umap_impl -> nat -> ('a1, 'a2) handle -> 'a1 iiter
  -> ('a1 list * n list) outcome

val collect_fuel : ('a1, 'a2) umap_impl -> ('a1, 'a2) handle -> nat

val of_outcome : 'a1 outcome -> 'a1 prog

val to_vec :
  'a1 ekind -> ('a1, 'a2) umap_impl -> ('a1, 'a2) handle -> 'a1 list prog

val coll_iter_from :
  'a1 ekind -> ('a1, 'a2) umap_impl -> ('a1, 'a2) handle -> n -> ('a1
  list * n list) prog

val iter_cow_run :
  'a1 ekind -> ('a1, 'a2) umap_impl -> 'a1 option list -> ('a1, 'a2) handle
  -> 'a1 iter0 -> n -> n -> (n * ('a1, 'a2) handle) prog

val coll_iter_cow :
  'a1 ekind -> ('a1, 'a2) umap_impl -> ('a1, 'a2) handle -> 'a1 option list
  -> (n * ('a1, 'a2) handle) prog

val list_empty :
  'a1 ekind -> ('a1, 'a2) umap_impl -> n -> ('a1, 'a2) handle prog

val push_all : 'a1 ekind -> 'a1 builder -> 'a1 list -> 'a1 builder prog

val list_try_from_iter :
  'a1 ekind -> ('a1, 'a2) umap_impl -> n -> 'a1 list -> ('a1, 'a2) handle prog

val push_all_iface :
  ('a1, 'a2) umap_impl -> n -> ('a1, 'a2) handle -> 'a1 list -> ('a1, 'a2)
  handle prog

val list_try_from_iter_slow :
  'a1 ekind -> ('a1, 'a2) umap_impl -> n -> 'a1 list -> ('a1, 'a2) handle prog

val list_repeat :
  'a1 ekind -> ('a1, 'a2) umap_impl -> n -> 'a1 -> n -> ('a1, 'a2) handle prog

val list_repeat_slow :
  'a1 ekind -> ('a1, 'a2) umap_impl -> n -> 'a1 -> n -> ('a1, 'a2) handle prog

val list_level_iter_from :
  'a1 ekind -> ('a1, 'a2) umap_impl -> ('a1, 'a2) handle -> n -> 'a1
  level_node list prog

val pop_front_feed :
  'a1 ekind -> 'a1 level_node list -> nat -> 'a1 builder -> 'a1 builder prog

val list_pop_front :
  'a1 ekind -> ('a1, 'a2) umap_impl -> n -> ('a1, 'a2) handle -> n -> (error
  option * ('a1, 'a2) handle) prog

val list_pop_front_slow :
  'a1 ekind -> ('a1, 'a2) umap_impl -> n -> ('a1, 'a2) handle -> n -> ('a1,
  'a2) handle prog

val coll_rebase_on :
  'a1 ekind -> ('a1, 'a2) handle -> ('a1, 'a2) handle -> ('a1, 'a2) handle
  prog

val coll_tree_hash_root :
  'a1 ekind -> ('a1, 'a2) umap_impl -> (digest -> digest -> digest) -> ('a1,
  'a2) handle -> digest prog

val coll_intra_rebase :
  'a1 ekind -> ('a1, 'a2) umap_impl -> (digest -> digest -> digest) -> n ->
  ('a1, 'a2) handle -> (error option * ('a1, 'a2) handle) prog

val vector_try_from :
  'a1 ekind -> ('a1, 'a2) umap_impl -> n -> ('a1, 'a2) handle -> ('a1, 'a2)
  handle prog

val list_from_vector : n -> ('a1, 'a2) handle -> ('a1, 'a2) handle

val vector_new :
  'a1 ekind -> ('a1, 'a2) umap_impl -> n -> 'a1 list -> ('a1, 'a2) handle prog

val vector_try_from_iter :
  'a1 ekind -> ('a1, 'a2) umap_impl -> n -> 'a1 list -> ('a1, 'a2) handle prog

val vector_from_elem :
  'a1 ekind -> ('a1, 'a2) umap_impl -> n -> 'a1 -> ('a1, 'a2) handle prog

val fail_to_panic : 'a1 prog -> 'a1 prog

val vector_default :
  'a1 ekind -> ('a1, 'a2) umap_impl -> n -> ('a1, 'a2) handle prog

val coll_eqb :
  'a1 ekind -> ('a1, 'a2) umap_impl -> ('a1, 'a2) handle -> ('a1, 'a2) handle
  -> bool

val bytes_per_offset : n

val ssz_bytes_len :
  'a1 ekind -> ('a1, 'a2) umap_impl -> ('a1, 'a2) handle -> n prog

val var_offsets : 'a1 ekind -> 'a1 list -> n -> n list

val ssz_encode :
  'a1 ekind -> ('a1, 'a2) umap_impl -> ('a1, 'a2) handle -> bytes prog

val decode_chunks : 'a1 ekind -> nat -> n -> bytes -> 'a1 list option

val read_offset : bytes -> n option

val var_items : 'a1 ekind -> nat -> n -> bytes -> n -> n -> 'a1 list option

val decode_var_list : 'a1 ekind -> bytes -> n -> 'a1 list option

val list_from_ssz :
  'a1 ekind -> ('a1, 'a2) umap_impl -> n -> bytes -> ('a1, 'a2) handle prog

val vector_from_ssz :
  'a1 ekind -> ('a1, 'a2) umap_impl -> n -> bytes -> ('a1, 'a2) handle prog

val serde_ser :
  'a1 ekind -> ('a1, 'a2) umap_impl -> ('a1, 'a2) handle -> 'a1 list prog

val list_serde_de :
  'a1 ekind -> ('a1, 'a2) umap_impl -> n -> 'a1 list -> ('a1, 'a2) handle prog

val vector_serde_de :
  'a1 ekind -> ('a1, 'a2) umap_impl -> n -> 'a1 list -> ('a1, 'a2) handle prog

type 't op =
| ONewList of nat * 't list
| ONewVec of nat * 't list
| OListSlow of nat * 't list
| OVecIter of nat * 't list
| OEmpty of nat
| ORepeat of nat * 't * n
| ORepeatSlow of nat * 't * n
| OFromElem of nat * 't
| ODefaultVec of nat
| OSszList of nat * bytes
| OSszVec of nat * bytes
| OSerdeList of nat * 't list
| OSerdeVec of nat * 't list
| OGet of nat * n
| OLen of nat
| OIterFrom of nat * n
| OLevelIter of nat * n
| OEq of nat * nat
| OSszEnc of nat
| OSerdeSer of nat
| OSet of nat * n * 't
| OTouch of nat * n
| OCowRead of nat * n
| OCowInto of nat * n * 't
| OCowMake of nat * n * 't
| OCowMake2 of nat * n * 't * 't
| OIterCow of nat * 't option list
| OPush of nat * 't
| OBulk of nat * (n * 't) list
| OApply of nat
| OPopFront of nat * n
| OPopFrontSlow of nat * n
| OClone of nat * nat
| OToVector of nat * nat
| OToList of nat * nat
| ORebaseOn of nat * nat
| ORebase of nat * nat * nat
| OIntra of nat
| OHash of nat
| ODrop of nat
| OBNew of n * n
| OBPush of 't
| OBPushNode of nat * bool list
| OBFinish
| OParHash of nat * n
| OParMix of nat * 't list

type 't res =
| ROk
| RVal of 't option
| RNum of n
| RSome of bool
| RBool of bool
| RIter of 't list * n list
| RLevel of (bool * 't list) list
| RBytes of bytes * n
| RVals of 't list
| RHash of digest
| RHashes of digest list
| RFinish of nat * n * 't tree0 * digest * bool
| RErr of error

type ('t, 'u) sys = { regs : ('t, 'u) handle option list;
                      bslot : 't builder option }

val nregs : nat

val init_sys : ('a1, 'a2) sys

val rget : ('a1, 'a2) sys -> nat -> ('a1, 'a2) handle option

val set_nth : 'a1 list -> nat -> 'a1 -> 'a1 list

val rset : ('a1, 'a2) sys -> nat -> ('a1, 'a2) handle option -> ('a1, 'a2) sys

val bset : ('a1, 'a2) sys -> 'a1 builder option -> ('a1, 'a2) sys

val bad : ('a1, 'a2) sys -> ('a1 res * ('a1, 'a2) sys) prog

val construct :
  ('a1, 'a2) sys -> nat -> ('a1, 'a2) handle prog -> ('a1 res * ('a1, 'a2)
  sys) prog

val with_reg :
  ('a1, 'a2) sys -> nat -> (('a1, 'a2) handle -> ('a1 res * ('a1, 'a2) sys)
  prog) -> ('a1 res * ('a1, 'a2) sys) prog

val with_list :
  ('a1, 'a2) sys -> nat -> (('a1, 'a2) handle -> ('a1 res * ('a1, 'a2) sys)
  prog) -> ('a1 res * ('a1, 'a2) sys) prog

val with_vector :
  ('a1, 'a2) sys -> nat -> (('a1, 'a2) handle -> ('a1 res * ('a1, 'a2) sys)
  prog) -> ('a1 res * ('a1, 'a2) sys) prog

val inplace :
  ('a1, 'a2) sys -> nat -> ('a1, 'a2) handle prog -> ('a1 res * ('a1, 'a2)
  sys) prog

val inplace_e :
  ('a1, 'a2) sys -> nat -> (error option * ('a1, 'a2) handle) prog -> ('a1
  res * ('a1, 'a2) sys) prog

val level_item : 'a1 level_node -> bool * 'a1 list

val subtree_at : 'a1 tree0 -> bool list -> 'a1 tree0 option

val incremental :
  'a1 ekind -> nat -> 'a1 tree0 -> 'a1 list -> n -> 'a1 tree0 prog

val bulk_map : ('a1, 'a2) umap_impl -> 'a2 -> (n * 'a1) list -> 'a2

val par_mix_run :
  'a1 ekind -> ('a1, 'a2) umap_impl -> (digest -> digest -> digest) -> n ->
  ('a1, 'a2) handle -> 'a1 list -> n -> digest list prog

val step :
  'a1 ekind -> ('a1, 'a2) umap_impl -> (digest -> digest -> digest) -> n ->
  bool -> ('a1, 'a2) sys -> 'a1 op -> ('a1 res * ('a1, 'a2) sys) prog
