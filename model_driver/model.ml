
(** val negb : bool -> bool **)

let negb = function
| true -> false
| false -> true

type nat =
| O
| S of nat

type ('a, 'b) sum =
| Inl of 'a
| Inr of 'b

(** val fst : ('a1 * 'a2) -> 'a1 **)

let fst = function
| (x, _) -> x

(** val snd : ('a1 * 'a2) -> 'a2 **)

let snd = function
| (_, y) -> y

(** val length : 'a1 list -> nat **)

let rec length = function
| [] -> O
| _ :: l' -> S (length l')

(** val app : 'a1 list -> 'a1 list -> 'a1 list **)

let rec app l m =
  match l with
  | [] -> m
  | a :: l1 -> a :: (app l1 m)

type comparison =
| Eq
| Lt
| Gt

module Coq__1 = struct
 (** val add : nat -> nat -> nat **)
 let rec add n0 m =
   match n0 with
   | O -> m
   | S p -> S (add p m)
end
include Coq__1

(** val sub : nat -> nat -> nat **)

let rec sub n0 m =
  match n0 with
  | O -> n0
  | S k -> (match m with
            | O -> n0
            | S l -> sub k l)

(** val eqb : bool -> bool -> bool **)

let eqb b1 b2 =
  if b1 then b2 else if b2 then false else true

module Nat =
 struct
  (** val add : nat -> nat -> nat **)

  let rec add n0 m =
    match n0 with
    | O -> m
    | S p -> S (add p m)

  (** val mul : nat -> nat -> nat **)

  let rec mul n0 m =
    match n0 with
    | O -> O
    | S p -> add m (mul p m)

  (** val eqb : nat -> nat -> bool **)

  let rec eqb n0 m =
    match n0 with
    | O -> (match m with
            | O -> true
            | S _ -> false)
    | S n' -> (match m with
               | O -> false
               | S m' -> eqb n' m')

  (** val leb : nat -> nat -> bool **)

  let rec leb n0 m =
    match n0 with
    | O -> true
    | S n' -> (match m with
               | O -> false
               | S m' -> leb n' m')

  (** val ltb : nat -> nat -> bool **)

  let ltb n0 m =
    leb (S n0) m

  (** val pow : nat -> nat -> nat **)

  let rec pow n0 = function
  | O -> S O
  | S m0 -> mul n0 (pow n0 m0)
 end

(** val nth_error : 'a1 list -> nat -> 'a1 option **)

let rec nth_error l = function
| O -> (match l with
        | [] -> None
        | x :: _ -> Some x)
| S n1 -> (match l with
           | [] -> None
           | _ :: l0 -> nth_error l0 n1)

(** val rev : 'a1 list -> 'a1 list **)

let rec rev = function
| [] -> []
| x :: l' -> app (rev l') (x :: [])

(** val map : ('a1 -> 'a2) -> 'a1 list -> 'a2 list **)

let rec map f = function
| [] -> []
| a :: t0 -> (f a) :: (map f t0)

(** val flat_map : ('a1 -> 'a2 list) -> 'a1 list -> 'a2 list **)

let rec flat_map f = function
| [] -> []
| x :: t0 -> app (f x) (flat_map f t0)

(** val fold_left : ('a1 -> 'a2 -> 'a1) -> 'a2 list -> 'a1 -> 'a1 **)

let rec fold_left f l a0 =
  match l with
  | [] -> a0
  | b :: t0 -> fold_left f t0 (f a0 b)

(** val existsb : ('a1 -> bool) -> 'a1 list -> bool **)

let rec existsb f = function
| [] -> false
| a :: l0 -> (||) (f a) (existsb f l0)

(** val forallb : ('a1 -> bool) -> 'a1 list -> bool **)

let rec forallb f = function
| [] -> true
| a :: l0 -> (&&) (f a) (forallb f l0)

(** val firstn : nat -> 'a1 list -> 'a1 list **)

let rec firstn n0 l =
  match n0 with
  | O -> []
  | S n1 -> (match l with
             | [] -> []
             | a :: l0 -> a :: (firstn n1 l0))

(** val skipn : nat -> 'a1 list -> 'a1 list **)

let rec skipn n0 l =
  match n0 with
  | O -> l
  | S n1 -> (match l with
             | [] -> []
             | _ :: l0 -> skipn n1 l0)

(** val repeat : 'a1 -> nat -> 'a1 list **)

let rec repeat x = function
| O -> []
| S k -> x :: (repeat x k)

type positive =
| XI of positive
| XO of positive
| XH

type n =
| N0
| Npos of positive

module Pos =
 struct
  type mask =
  | IsNul
  | IsPos of positive
  | IsNeg
 end

module Coq_Pos =
 struct
  (** val succ : positive -> positive **)

  let rec succ = function
  | XI p -> XO (succ p)
  | XO p -> XI p
  | XH -> XO XH

  (** val add : positive -> positive -> positive **)

  let rec add x y =
    match x with
    | XI p ->
      (match y with
       | XI q -> XO (add_carry p q)
       | XO q -> XI (add p q)
       | XH -> XO (succ p))
    | XO p ->
      (match y with
       | XI q -> XI (add p q)
       | XO q -> XO (add p q)
       | XH -> XI p)
    | XH -> (match y with
             | XI q -> XO (succ q)
             | XO q -> XI q
             | XH -> XO XH)

  (** val add_carry : positive -> positive -> positive **)

  and add_carry x y =
    match x with
    | XI p ->
      (match y with
       | XI q -> XI (add_carry p q)
       | XO q -> XO (add_carry p q)
       | XH -> XI (succ p))
    | XO p ->
      (match y with
       | XI q -> XO (add_carry p q)
       | XO q -> XI (add p q)
       | XH -> XO (succ p))
    | XH ->
      (match y with
       | XI q -> XI (succ q)
       | XO q -> XO (succ q)
       | XH -> XI XH)

  (** val pred_double : positive -> positive **)

  let rec pred_double = function
  | XI p -> XI (XO p)
  | XO p -> XI (pred_double p)
  | XH -> XH

  (** val pred_N : positive -> n **)

  let pred_N = function
  | XI p -> Npos (XO p)
  | XO p -> Npos (pred_double p)
  | XH -> N0

  type mask = Pos.mask =
  | IsNul
  | IsPos of positive
  | IsNeg

  (** val succ_double_mask : mask -> mask **)

  let succ_double_mask = function
  | IsNul -> IsPos XH
  | IsPos p -> IsPos (XI p)
  | IsNeg -> IsNeg

  (** val double_mask : mask -> mask **)

  let double_mask = function
  | IsPos p -> IsPos (XO p)
  | x0 -> x0

  (** val double_pred_mask : positive -> mask **)

  let double_pred_mask = function
  | XI p -> IsPos (XO (XO p))
  | XO p -> IsPos (XO (pred_double p))
  | XH -> IsNul

  (** val sub_mask : positive -> positive -> mask **)

  let rec sub_mask x y =
    match x with
    | XI p ->
      (match y with
       | XI q -> double_mask (sub_mask p q)
       | XO q -> succ_double_mask (sub_mask p q)
       | XH -> IsPos (XO p))
    | XO p ->
      (match y with
       | XI q -> succ_double_mask (sub_mask_carry p q)
       | XO q -> double_mask (sub_mask p q)
       | XH -> IsPos (pred_double p))
    | XH -> (match y with
             | XH -> IsNul
             | _ -> IsNeg)

  (** val sub_mask_carry : positive -> positive -> mask **)

  and sub_mask_carry x y =
    match x with
    | XI p ->
      (match y with
       | XI q -> succ_double_mask (sub_mask_carry p q)
       | XO q -> double_mask (sub_mask p q)
       | XH -> IsPos (pred_double p))
    | XO p ->
      (match y with
       | XI q -> double_mask (sub_mask_carry p q)
       | XO q -> succ_double_mask (sub_mask_carry p q)
       | XH -> double_pred_mask p)
    | XH -> IsNeg

  (** val mul : positive -> positive -> positive **)

  let rec mul x y =
    match x with
    | XI p -> add y (XO (mul p y))
    | XO p -> XO (mul p y)
    | XH -> y

  (** val iter : ('a1 -> 'a1) -> 'a1 -> positive -> 'a1 **)

  let rec iter f x = function
  | XI n' -> f (iter f (iter f x n') n')
  | XO n' -> iter f (iter f x n') n'
  | XH -> f x

  (** val pow : positive -> positive -> positive **)

  let pow x =
    iter (mul x) XH

  (** val compare_cont : comparison -> positive -> positive -> comparison **)

  let rec compare_cont r x y =
    match x with
    | XI p ->
      (match y with
       | XI q -> compare_cont r p q
       | XO q -> compare_cont Gt p q
       | XH -> Gt)
    | XO p ->
      (match y with
       | XI q -> compare_cont Lt p q
       | XO q -> compare_cont r p q
       | XH -> Gt)
    | XH -> (match y with
             | XH -> r
             | _ -> Lt)

  (** val compare : positive -> positive -> comparison **)

  let compare =
    compare_cont Eq

  (** val eqb : positive -> positive -> bool **)

  let rec eqb p q =
    match p with
    | XI p0 -> (match q with
                | XI q0 -> eqb p0 q0
                | _ -> false)
    | XO p0 -> (match q with
                | XO q0 -> eqb p0 q0
                | _ -> false)
    | XH -> (match q with
             | XH -> true
             | _ -> false)

  (** val coq_lor : positive -> positive -> positive **)

  let rec coq_lor p q =
    match p with
    | XI p0 ->
      (match q with
       | XI q0 -> XI (coq_lor p0 q0)
       | XO q0 -> XI (coq_lor p0 q0)
       | XH -> p)
    | XO p0 ->
      (match q with
       | XI q0 -> XI (coq_lor p0 q0)
       | XO q0 -> XO (coq_lor p0 q0)
       | XH -> XI p0)
    | XH -> (match q with
             | XO q0 -> XI q0
             | _ -> q)

  (** val shiftl : positive -> n -> positive **)

  let shiftl p = function
  | N0 -> p
  | Npos n1 -> iter (fun x -> XO x) p n1

  (** val testbit : positive -> n -> bool **)

  let rec testbit p n0 =
    match p with
    | XI p0 -> (match n0 with
                | N0 -> true
                | Npos n1 -> testbit p0 (pred_N n1))
    | XO p0 -> (match n0 with
                | N0 -> false
                | Npos n1 -> testbit p0 (pred_N n1))
    | XH -> (match n0 with
             | N0 -> true
             | Npos _ -> false)

  (** val iter_op : ('a1 -> 'a1 -> 'a1) -> positive -> 'a1 -> 'a1 **)

  let rec iter_op op0 p a =
    match p with
    | XI p0 -> op0 a (iter_op op0 p0 (op0 a a))
    | XO p0 -> iter_op op0 p0 (op0 a a)
    | XH -> a

  (** val to_nat : positive -> nat **)

  let to_nat x =
    iter_op Coq__1.add x (S O)

  (** val of_succ_nat : nat -> positive **)

  let rec of_succ_nat = function
  | O -> XH
  | S x -> succ (of_succ_nat x)
 end

module N =
 struct
  (** val succ_double : n -> n **)

  let succ_double = function
  | N0 -> Npos XH
  | Npos p -> Npos (XI p)

  (** val double : n -> n **)

  let double = function
  | N0 -> N0
  | Npos p -> Npos (XO p)

  (** val pred : n -> n **)

  let pred = function
  | N0 -> N0
  | Npos p -> Coq_Pos.pred_N p

  (** val add : n -> n -> n **)

  let add n0 m =
    match n0 with
    | N0 -> m
    | Npos p -> (match m with
                 | N0 -> n0
                 | Npos q -> Npos (Coq_Pos.add p q))

  (** val sub : n -> n -> n **)

  let sub n0 m =
    match n0 with
    | N0 -> N0
    | Npos n' ->
      (match m with
       | N0 -> n0
       | Npos m' ->
         (match Coq_Pos.sub_mask n' m' with
          | Coq_Pos.IsPos p -> Npos p
          | _ -> N0))

  (** val mul : n -> n -> n **)

  let mul n0 m =
    match n0 with
    | N0 -> N0
    | Npos p -> (match m with
                 | N0 -> N0
                 | Npos q -> Npos (Coq_Pos.mul p q))

  (** val compare : n -> n -> comparison **)

  let compare n0 m =
    match n0 with
    | N0 -> (match m with
             | N0 -> Eq
             | Npos _ -> Lt)
    | Npos n' -> (match m with
                  | N0 -> Gt
                  | Npos m' -> Coq_Pos.compare n' m')

  (** val eqb : n -> n -> bool **)

  let eqb n0 m =
    match n0 with
    | N0 -> (match m with
             | N0 -> true
             | Npos _ -> false)
    | Npos p -> (match m with
                 | N0 -> false
                 | Npos q -> Coq_Pos.eqb p q)

  (** val leb : n -> n -> bool **)

  let leb x y =
    match compare x y with
    | Gt -> false
    | _ -> true

  (** val ltb : n -> n -> bool **)

  let ltb x y =
    match compare x y with
    | Lt -> true
    | _ -> false

  (** val min : n -> n -> n **)

  let min n0 n' =
    match compare n0 n' with
    | Gt -> n'
    | _ -> n0

  (** val max : n -> n -> n **)

  let max n0 n' =
    match compare n0 n' with
    | Gt -> n0
    | _ -> n'

  (** val div2 : n -> n **)

  let div2 = function
  | N0 -> N0
  | Npos p0 -> (match p0 with
                | XI p -> Npos p
                | XO p -> Npos p
                | XH -> N0)

  (** val pow : n -> n -> n **)

  let pow n0 = function
  | N0 -> Npos XH
  | Npos p0 -> (match n0 with
                | N0 -> N0
                | Npos q -> Npos (Coq_Pos.pow q p0))

  (** val pos_div_eucl : positive -> n -> n * n **)

  let rec pos_div_eucl a b =
    match a with
    | XI a' ->
      let (q, r) = pos_div_eucl a' b in
      let r' = succ_double r in
      if leb b r' then ((succ_double q), (sub r' b)) else ((double q), r')
    | XO a' ->
      let (q, r) = pos_div_eucl a' b in
      let r' = double r in
      if leb b r' then ((succ_double q), (sub r' b)) else ((double q), r')
    | XH ->
      (match b with
       | N0 -> (N0, (Npos XH))
       | Npos p -> (match p with
                    | XH -> ((Npos XH), N0)
                    | _ -> (N0, (Npos XH))))

  (** val div_eucl : n -> n -> n * n **)

  let div_eucl a b =
    match a with
    | N0 -> (N0, N0)
    | Npos na -> (match b with
                  | N0 -> (N0, a)
                  | Npos _ -> pos_div_eucl na b)

  (** val div : n -> n -> n **)

  let div a b =
    fst (div_eucl a b)

  (** val modulo : n -> n -> n **)

  let modulo a b =
    snd (div_eucl a b)

  (** val coq_lor : n -> n -> n **)

  let coq_lor n0 m =
    match n0 with
    | N0 -> m
    | Npos p -> (match m with
                 | N0 -> n0
                 | Npos q -> Npos (Coq_Pos.coq_lor p q))

  (** val shiftl : n -> n -> n **)

  let shiftl a n0 =
    match a with
    | N0 -> N0
    | Npos a0 -> Npos (Coq_Pos.shiftl a0 n0)

  (** val shiftr : n -> n -> n **)

  let shiftr a = function
  | N0 -> a
  | Npos p -> Coq_Pos.iter div2 a p

  (** val testbit : n -> n -> bool **)

  let testbit a n0 =
    match a with
    | N0 -> false
    | Npos p -> Coq_Pos.testbit p n0

  (** val to_nat : n -> nat **)

  let to_nat = function
  | N0 -> O
  | Npos p -> Coq_Pos.to_nat p

  (** val of_nat : nat -> n **)

  let of_nat = function
  | O -> N0
  | S n' -> Npos (Coq_Pos.of_succ_nat n')
 end

module PositiveMap =
 struct
  type key = positive

  type 'a tree =
  | Leaf
  | Node of 'a tree * 'a option * 'a tree

  type 'a t = 'a tree

  (** val empty : 'a1 t **)

  let empty =
    Leaf

  (** val find : key -> 'a1 t -> 'a1 option **)

  let rec find i = function
  | Leaf -> None
  | Node (l, o, r) ->
    (match i with
     | XI ii -> find ii r
     | XO ii -> find ii l
     | XH -> o)

  (** val add : key -> 'a1 -> 'a1 t -> 'a1 t **)

  let rec add i v = function
  | Leaf ->
    (match i with
     | XI ii -> Node (Leaf, None, (add ii v Leaf))
     | XO ii -> Node ((add ii v Leaf), None, Leaf)
     | XH -> Node (Leaf, (Some v), Leaf))
  | Node (l, o, r) ->
    (match i with
     | XI ii -> Node (l, o, (add ii v r))
     | XO ii -> Node ((add ii v l), o, r)
     | XH -> Node (l, (Some v), r))
 end

type id = positive

type digest = n

type error =
| OutOfBoundsUpdate of n * n
| OutOfBoundsIterFrom of n * n
| ListFull of n
| PackedLeafFull of n
| LeafUpdateMissing of n
| PackedLeafOutOfBounds of n * n
| NodeUpdatesMissing of n
| InvalidListUpdate
| InvalidVectorUpdate
| WrongVectorLength of n * n
| PushNotSupported
| UpdateLeafError
| UpdateLeavesError
| InvalidRebaseNode
| InvalidRebaseLeaf
| BuilderInvalidDepth of n
| BuilderExpectedLeaf
| BuilderStackEmptyMerge
| BuilderStackEmptyMergeLeft
| BuilderStackEmptyMergeRight
| BuilderStackEmptyFinish
| BuilderStackEmptyFinishLeft
| BuilderStackEmptyFinishRight
| BuilderStackEmptyFinalize
| BuilderStackLeftover
| BuilderFull
| BulkUpdateUnclean
| CowMissingEntry
| LevelIterPendingUpdates
| IntraRebaseZeroHash
| IntraRebaseZeroDepth
| IntraRebaseRepeatVisit
| EDecode
| ESerde
| EBadReg
| EPending
| ENoBuilder
| EBadPath

type site =
| PZeroHashIndex
| PIterExpect
| PUnreachable
| PAssert
| PSliceIndex
| POverflow
| PShift
| PVectorDefault
| POutOfFuel

type 'a outcome =
| Ok of 'a
| Err of error
| Panic of site

(** val usize_max : n **)

let usize_max =
  Npos (XI (XI (XI (XI (XI (XI (XI (XI (XI (XI (XI (XI (XI (XI (XI (XI (XI
    (XI (XI (XI (XI (XI (XI (XI (XI (XI (XI (XI (XI (XI (XI (XI (XI (XI (XI
    (XI (XI (XI (XI (XI (XI (XI (XI (XI (XI (XI (XI (XI (XI (XI (XI (XI (XI
    (XI (XI (XI (XI (XI (XI (XI (XI (XI (XI
    XH)))))))))))))))))))))))))))))))))))))))))))))))))))))))))))))))

(** val tzp : positive -> nat **)

let rec tzp = function
| XO p0 -> S (tzp p0)
| _ -> O

(** val tz : n -> nat **)

let tz = function
| N0 ->
  S (S (S (S (S (S (S (S (S (S (S (S (S (S (S (S (S (S (S (S (S (S (S (S (S
    (S (S (S (S (S (S (S (S (S (S (S (S (S (S (S (S (S (S (S (S (S (S (S (S
    (S (S (S (S (S (S (S (S (S (S (S (S (S (S (S
    O)))))))))))))))))))))))))))))))))))))))))))))))))))))))))))))))
| Npos p -> tzp p

(** val pow2 : nat -> n **)

let pow2 k =
  N.pow (Npos (XO XH)) (N.of_nat k)

(** val int_log_aux : nat -> nat -> n -> nat **)

let rec int_log_aux fuel d n0 =
  match fuel with
  | O -> d
  | S f -> if N.leb n0 (pow2 d) then d else int_log_aux f (S d) n0

(** val int_log : n -> nat **)

let int_log n0 =
  int_log_aux (S (S (S (S (S (S (S (S (S (S (S (S (S (S (S (S (S (S (S (S (S
    (S (S (S (S (S (S (S (S (S (S (S (S (S (S (S (S (S (S (S (S (S (S (S (S
    (S (S (S (S (S (S (S (S (S (S (S (S (S (S (S (S (S (S (S
    O)))))))))))))))))))))))))))))))))))))))))))))))))))))))))))))))) O n0

(** val compute_level : n -> nat -> nat -> nat **)

let compute_level index depth pd =
  let raw = if N.eqb index N0 then add depth pd else tz index in
  if Nat.ltb raw pd then O else raw

(** val takeN : n -> 'a1 list -> 'a1 list **)

let rec takeN n0 = function
| [] -> []
| x :: l' -> if N.eqb n0 N0 then [] else x :: (takeN (N.pred n0) l')

(** val dropN : n -> 'a1 list -> 'a1 list **)

let rec dropN n0 l = match l with
| [] -> []
| _ :: l' -> if N.eqb n0 N0 then l else dropN (N.pred n0) l'

(** val lenN : 'a1 list -> n **)

let lenN l =
  N.of_nat (length l)

(** val nthN : 'a1 list -> n -> 'a1 option **)

let rec nthN l n0 =
  match l with
  | [] -> None
  | x :: l' -> if N.eqb n0 N0 then Some x else nthN l' (N.pred n0)

(** val setN : 'a1 list -> n -> 'a1 -> 'a1 list **)

let rec setN l n0 x =
  match l with
  | [] -> []
  | y :: l' -> if N.eqb n0 N0 then x :: l' else y :: (setN l' (N.pred n0) x)

(** val repeatN_pos : 'a1 -> positive -> 'a1 list **)

let rec repeatN_pos x = function
| XI p' -> let r = repeatN_pos x p' in x :: (app r r)
| XO p' -> let r = repeatN_pos x p' in app r r
| XH -> x :: []

(** val repeatN : 'a1 -> n -> 'a1 list **)

let repeatN x = function
| N0 -> []
| Npos p -> repeatN_pos x p

type 'a prog =
| Ret of 'a
| Fail of error
| Crash of site
| Fresh of (id -> 'a prog)
| GetMemo of id * (digest -> 'a prog)
| SetMemo of id * digest * 'a prog
| Par of digest prog * digest prog * (digest -> digest -> 'a prog)
| Note of nat * 'a prog

(** val bind : 'a1 prog -> ('a1 -> 'a2 prog) -> 'a2 prog **)

let rec bind m f =
  match m with
  | Ret a -> f a
  | Fail e -> Fail e
  | Crash s -> Crash s
  | Fresh k -> Fresh (fun i -> bind (k i) f)
  | GetMemo (i, k) -> GetMemo (i, (fun d -> bind (k d) f))
  | SetMemo (i, d, k) -> SetMemo (i, d, (bind k f))
  | Par (p, q, k) -> Par (p, q, (fun a b -> bind (k a b) f))
  | Note (t0, k) -> Note (t0, (bind k f))

(** val fresh : id prog **)

let fresh =
  Fresh (fun i -> Ret i)

(** val set_memo : id -> digest -> unit prog **)

let set_memo i d =
  SetMemo (i, d, (Ret ()))

(** val lift_opt : 'a1 option -> error -> 'a1 prog **)

let lift_opt o e =
  match o with
  | Some a -> Ret a
  | None -> Fail e

type state = { next : positive; memo : digest PositiveMap.t }

(** val mget : state -> id -> digest **)

let mget s i =
  match PositiveMap.find i s.memo with
  | Some d -> d
  | None -> N0

(** val mset : state -> id -> digest -> state **)

let mset s i d =
  { next = s.next; memo = (PositiveMap.add i d s.memo) }

(** val bump : state -> state **)

let bump s =
  { next = (Coq_Pos.succ s.next); memo = s.memo }

(** val init_state : state **)

let init_state =
  { next = XH; memo = PositiveMap.empty }

(** val run : 'a1 prog -> state -> 'a1 outcome * state **)

let rec run m s =
  match m with
  | Ret a -> ((Ok a), s)
  | Fail e -> ((Err e), s)
  | Crash c -> ((Panic c), s)
  | Fresh k -> run (k s.next) (bump s)
  | GetMemo (i, k) -> run (k (mget s i)) s
  | SetMemo (i, d, k) -> run k (mset s i d)
  | Par (p, q, k) ->
    let (o, s1) = run (Obj.magic p) s in
    (match o with
     | Ok a ->
       let (o0, s2) = run (Obj.magic q) s1 in
       (match o0 with
        | Ok b -> run (Obj.magic k a b) s2
        | x -> (x, s2))
     | x -> (x, s1))
  | Note (_, k) -> run k s

(** val run_cov :
    'a1 prog -> state -> nat list -> ('a1 outcome * state) * nat list **)

let rec run_cov m s cov =
  match m with
  | Ret a -> (((Ok a), s), cov)
  | Fail e -> (((Err e), s), cov)
  | Crash c -> (((Panic c), s), cov)
  | Fresh k -> run_cov (k s.next) (bump s) cov
  | GetMemo (i, k) -> run_cov (k (mget s i)) s cov
  | SetMemo (i, d, k) -> run_cov k (mset s i d) cov
  | Par (p, q, k) ->
    let (p0, c1) = run_cov (Obj.magic p) s cov in
    let (o, s1) = p0 in
    (match o with
     | Ok a ->
       let (p1, c2) = run_cov (Obj.magic q) s1 c1 in
       let (o0, s2) = p1 in
       (match o0 with
        | Ok b -> run_cov (Obj.magic k a b) s2 c2
        | x -> ((x, s2), c2))
     | x -> ((x, s1), c1))
  | Note (t0, k) -> run_cov k s (t0 :: cov)

type 't ekind = { eeqb : ('t -> 't -> bool); epd : nat option;
                  epenc : ('t -> n); etroot : ('t -> digest);
                  efixed : n option; eenc : ('t -> n list);
                  edec : (n list -> 't option); edefault : 't }

(** val pd_of : 'a1 ekind -> nat **)

let pd_of ek =
  match ek.epd with
  | Some pd -> pd
  | None -> O

(** val is_packed : 'a1 ekind -> bool **)

let is_packed ek =
  match ek.epd with
  | Some _ -> true
  | None -> false

(** val pf_of : 'a1 ekind -> n **)

let pf_of ek =
  pow2 (pd_of ek)

type bytes = n list

(** val le_num : bytes -> n **)

let rec le_num = function
| [] -> N0
| x :: r ->
  N.add x (N.mul (Npos (XO (XO (XO (XO (XO (XO (XO (XO XH))))))))) (le_num r))

(** val num_le : nat -> n -> bytes **)

let rec num_le len n0 =
  match len with
  | O -> []
  | S l ->
    (N.modulo n0 (Npos (XO (XO (XO (XO (XO (XO (XO (XO XH)))))))))) :: 
      (num_le l (N.div n0 (Npos (XO (XO (XO (XO (XO (XO (XO (XO XH)))))))))))

(** val bytes_eqb : bytes -> bytes -> bool **)

let rec bytes_eqb a b =
  match a with
  | [] -> (match b with
           | [] -> true
           | _ :: _ -> false)
  | x :: a' ->
    (match b with
     | [] -> false
     | y :: b' -> (&&) (N.eqb x y) (bytes_eqb a' b'))

(** val valid_bytes : bytes -> bool **)

let valid_bytes b =
  forallb (fun x ->
    N.ltb x (Npos (XO (XO (XO (XO (XO (XO (XO (XO XH)))))))))) b

(** val ek_uint : nat -> bytes ekind **)

let ek_uint k =
  let w = Nat.pow (S (S O)) k in
  { eeqb = bytes_eqb; epd = (Some (sub (S (S (S (S (S O))))) k)); epenc =
  le_num; etroot = le_num; efixed = (Some (N.of_nat w)); eenc = (fun v -> v);
  edec = (fun b ->
  if (&&) (Nat.eqb (length b) w) (valid_bytes b) then Some b else None);
  edefault = (repeat N0 w) }

(** val ek_h256 : bytes ekind **)

let ek_h256 =
  { eeqb = bytes_eqb; epd = None; epenc = le_num; etroot = le_num; efixed =
    (Some (Npos (XO (XO (XO (XO (XO XH))))))); eenc = (fun v -> v); edec =
    (fun b ->
    if (&&)
         (Nat.eqb (length b) (S (S (S (S (S (S (S (S (S (S (S (S (S (S (S (S
           (S (S (S (S (S (S (S (S (S (S (S (S (S (S (S (S
           O))))))))))))))))))))))))))))))))) (valid_bytes b)
    then Some b
    else None); edefault =
    (repeat N0 (S (S (S (S (S (S (S (S (S (S (S (S (S (S (S (S (S (S (S (S (S
      (S (S (S (S (S (S (S (S (S (S (S O))))))))))))))))))))))))))))))))) }

(** val ek_pair : (digest -> digest -> digest) -> bytes ekind **)

let ek_pair h =
  { eeqb = bytes_eqb; epd = None; epenc = le_num; etroot = (fun v ->
    h (le_num (firstn (S (S (S (S (S (S (S (S O)))))))) v))
      (le_num (skipn (S (S (S (S (S (S (S (S O)))))))) v))); efixed = (Some
    (Npos (XO (XO (XO (XO XH)))))); eenc = (fun v -> v); edec = (fun b ->
    if (&&)
         (Nat.eqb (length b) (S (S (S (S (S (S (S (S (S (S (S (S (S (S (S (S
           O))))))))))))))))) (valid_bytes b)
    then Some b
    else None); edefault =
    (repeat N0 (S (S (S (S (S (S (S (S (S (S (S (S (S (S (S (S
      O))))))))))))))))) }

(** val ek_var : (digest -> digest -> digest) -> bytes ekind **)

let ek_var h =
  { eeqb = bytes_eqb; epd = None; epenc = le_num; etroot = (fun v ->
    h (le_num v) (N.of_nat (length v))); efixed = None; eenc = (fun v -> v);
    edec = (fun b ->
    if (&&) (Nat.leb (length b) (S (S (S (S O))))) (valid_bytes b)
    then Some b
    else None); edefault = [] }

type 't tree0 =
| Leaf0 of id * 't
| Packed of id * 't list
| Node0 of id * 't tree0 * 't tree0
| Zero of id * nat

type 't stree =
| SLeaf of 't
| SPacked of 't list
| SNode of 't stree * 't stree
| SZero of nat

(** val shape : 'a1 tree0 -> 'a1 stree **)

let rec shape = function
| Leaf0 (_, v) -> SLeaf v
| Packed (_, vs) -> SPacked vs
| Node0 (_, l, r) -> SNode ((shape l), (shape r))
| Zero (_, d) -> SZero d

(** val idof : 'a1 tree0 -> id **)

let idof = function
| Leaf0 (i, _) -> i
| Packed (i, _) -> i
| Node0 (i, _, _) -> i
| Zero (i, _) -> i

(** val selems : 'a1 stree -> 'a1 list **)

let rec selems = function
| SLeaf v -> v :: []
| SPacked vs -> vs
| SNode (l, r) -> app (selems l) (selems r)
| SZero _ -> []

(** val elems : 'a1 tree0 -> 'a1 list **)

let elems t0 =
  selems (shape t0)

(** val compute_len : 'a1 tree0 -> n **)

let rec compute_len = function
| Leaf0 (_, _) -> Npos XH
| Packed (_, vs) -> lenN vs
| Node0 (_, l, r) -> N.add (compute_len l) (compute_len r)
| Zero (_, _) -> N0

(** val nodes : 'a1 tree0 -> 'a1 tree0 list **)

let rec nodes t0 =
  t0 :: (match t0 with
         | Node0 (_, l, r) -> app (nodes l) (nodes r)
         | _ -> [])

(** val list_eqb : 'a1 ekind -> 'a1 list -> 'a1 list -> bool **)

let rec list_eqb ek a b =
  match a with
  | [] -> (match b with
           | [] -> true
           | _ :: _ -> false)
  | x :: a' ->
    (match b with
     | [] -> false
     | y :: b' -> (&&) (ek.eeqb x y) (list_eqb ek a' b'))

(** val stree_eqb : 'a1 ekind -> 'a1 stree -> 'a1 stree -> bool **)

let rec stree_eqb ek a b =
  match a with
  | SLeaf v -> (match b with
                | SLeaf w -> ek.eeqb v w
                | _ -> false)
  | SPacked vs -> (match b with
                   | SPacked ws -> list_eqb ek vs ws
                   | _ -> false)
  | SNode (l, r) ->
    (match b with
     | SNode (l', r') -> (&&) (stree_eqb ek l l') (stree_eqb ek r r')
     | _ -> false)
  | SZero d -> (match b with
                | SZero d' -> Nat.eqb d d'
                | _ -> false)

(** val tree_eqb : 'a1 ekind -> 'a1 tree0 -> 'a1 tree0 -> bool **)

let tree_eqb ek a b =
  stree_eqb ek (shape a) (shape b)

(** val zh : (digest -> digest -> digest) -> nat -> digest **)

let rec zh h = function
| O -> N0
| S d' -> h (zh h d') (zh h d')

(** val vbits : 'a1 ekind -> n **)

let vbits ek =
  N.div (Npos (XO (XO (XO (XO (XO (XO (XO (XO XH))))))))) (pf_of ek)

(** val chunk_of : 'a1 ekind -> 'a1 list -> n **)

let rec chunk_of ek = function
| [] -> N0
| v :: r ->
  N.add (ek.epenc v) (N.mul (N.pow (Npos (XO XH)) (vbits ek)) (chunk_of ek r))

type ('t, 'u) umap_impl = { uempty : 'u; uget : ('u -> n -> 't option);
                            uinsert : ('u -> n -> 't -> 'u);
                            uentry_insert : ('u -> n -> 't -> 'u);
                            urange : ('u -> n -> n -> (n * 't) list);
                            umax_index : ('u -> n option); ulen : ('u -> n);
                            ueqb : (('t -> 't -> bool) -> 'u -> 'u -> bool) }

(** val urange : ('a1, 'a2) umap_impl -> 'a2 -> n -> n -> (n * 'a1) list **)

let urange u =
  u.urange

(** val umax_index : ('a1, 'a2) umap_impl -> 'a2 -> n option **)

let umax_index u =
  u.umax_index

(** val uis_empty : ('a1, 'a2) umap_impl -> 'a2 -> bool **)

let uis_empty m u =
  N.eqb (m.ulen u) N0

(** val pairs_eqb :
    ('a1 -> 'a1 -> bool) -> (n * 'a1) list -> (n * 'a1) list -> bool **)

let rec pairs_eqb eqb0 a b =
  match a with
  | [] -> (match b with
           | [] -> true
           | _ :: _ -> false)
  | p :: a' ->
    let (i, x) = p in
    (match b with
     | [] -> false
     | p0 :: b' ->
       let (j, y) = p0 in
       (&&) ((&&) (N.eqb i j) (eqb0 x y)) (pairs_eqb eqb0 a' b'))

type 't vecmap = 't option list

(** val vm_get : 'a1 vecmap -> n -> 'a1 option **)

let vm_get m k =
  match nthN m k with
  | Some o -> o
  | None -> None

(** val vm_insert : 'a1 vecmap -> n -> 'a1 -> 'a1 vecmap **)

let vm_insert m k v =
  if N.ltb k (lenN m)
  then setN m k (Some v)
  else app m (app (repeatN None (N.sub k (lenN m))) ((Some v) :: []))

(** val vm_range_aux : 'a1 vecmap -> n -> n -> n -> (n * 'a1) list **)

let rec vm_range_aux m idx start end_ =
  match m with
  | [] -> []
  | x :: r ->
    if N.leb end_ idx
    then []
    else let rest = vm_range_aux r (N.add idx (Npos XH)) start end_ in
         (match x with
          | Some v -> if N.leb start idx then (idx, v) :: rest else rest
          | None -> rest)

(** val vm_range : 'a1 vecmap -> n -> n -> (n * 'a1) list **)

let vm_range m start end_ =
  vm_range_aux m N0 start end_

(** val vm_max_aux : 'a1 vecmap -> n -> n option -> n option **)

let rec vm_max_aux m idx acc =
  match m with
  | [] -> acc
  | x :: r ->
    vm_max_aux r (N.add idx (Npos XH))
      (match x with
       | Some _ -> Some idx
       | None -> acc)

(** val vm_len : 'a1 vecmap -> n **)

let rec vm_len = function
| [] -> N0
| o :: r ->
  (match o with
   | Some _ -> N.add (Npos XH) (vm_len r)
   | None -> vm_len r)

(** val vecmap_impl : ('a1, 'a1 vecmap) umap_impl **)

let vecmap_impl =
  { uempty = []; uget = vm_get; uinsert = vm_insert; uentry_insert =
    vm_insert; urange = vm_range; umax_index = (fun m ->
    vm_max_aux m N0 None); ulen = vm_len; ueqb = (fun eqb0 a b ->
    (&&) (N.eqb (vm_len a) (vm_len b))
      (pairs_eqb eqb0 (vm_range a N0 (lenN a)) (vm_range b N0 (lenN b)))) }

type 't btmap = (n * 't) list

(** val bt_get : 'a1 btmap -> n -> 'a1 option **)

let rec bt_get m k =
  match m with
  | [] -> None
  | p :: r ->
    let (j, v) = p in
    if N.eqb j k then Some v else if N.ltb k j then None else bt_get r k

(** val bt_insert : 'a1 btmap -> n -> 'a1 -> 'a1 btmap **)

let rec bt_insert m k v =
  match m with
  | [] -> (k, v) :: []
  | p :: r ->
    let (j, w) = p in
    if N.eqb j k
    then (k, v) :: r
    else if N.ltb k j then (k, v) :: m else (j, w) :: (bt_insert r k v)

(** val bt_range : 'a1 btmap -> n -> n -> (n * 'a1) list **)

let rec bt_range m start end_ =
  match m with
  | [] -> []
  | p :: r ->
    let (j, v) = p in
    if N.leb end_ j
    then []
    else if N.leb start j
         then (j, v) :: (bt_range r start end_)
         else bt_range r start end_

(** val bt_max : 'a1 btmap -> n option **)

let rec bt_max = function
| [] -> None
| p :: r -> let (j, _) = p in (match r with
                               | [] -> Some j
                               | _ :: _ -> bt_max r)

(** val btmap_impl : ('a1, 'a1 btmap) umap_impl **)

let btmap_impl =
  { uempty = []; uget = bt_get; uinsert = bt_insert; uentry_insert =
    bt_insert; urange = bt_range; umax_index = bt_max; ulen = lenN; ueqb =
    pairs_eqb }

type 'u maxmap = 'u * n

(** val maxmap_impl : ('a1, 'a2) umap_impl -> ('a1, 'a2 maxmap) umap_impl **)

let maxmap_impl m =
  { uempty = (m.uempty, N0); uget = (fun m0 k -> m.uget (fst m0) k);
    uinsert = (fun m0 k v -> ((m.uinsert (fst m0) k v),
    (if N.ltb (snd m0) k then k else snd m0))); uentry_insert =
    (fun m0 k v -> ((m.uentry_insert (fst m0) k v), (snd m0))); urange =
    (fun m0 s e -> m.urange (fst m0) s e); umax_index = (fun m0 ->
    if N.eqb (m.ulen (fst m0)) N0 then None else Some (snd m0)); ulen =
    (fun m0 -> m.ulen (fst m0)); ueqb = (fun eqb0 a b ->
    (&&) (m.ueqb eqb0 (fst a) (fst b)) (N.eqb (snd a) (snd b))) }

(** val get_rec : 'a1 ekind -> 'a1 tree0 -> n -> nat -> 'a1 option **)

let get_rec ek =
  let pd = pd_of ek in
  let pf = pf_of ek in
  let rec get_rec0 t0 index depth =
    match t0 with
    | Leaf0 (_, v) -> (match depth with
                       | O -> Some v
                       | S _ -> None)
    | Packed (_, vs) ->
      (match depth with
       | O -> nthN vs (N.modulo index pf)
       | S _ -> None)
    | Node0 (_, l, r) ->
      (match depth with
       | O -> None
       | S nd ->
         if N.testbit index (N.of_nat (add nd pd))
         then get_rec0 r index nd
         else get_rec0 l index nd)
    | Zero (_, _) -> None
  in get_rec0

(** val insert_mut : 'a1 list -> n -> 'a1 -> 'a1 list prog **)

let insert_mut vs sub_index v =
  if N.eqb sub_index (lenN vs)
  then Ret (app vs (v :: []))
  else if N.ltb sub_index (lenN vs)
       then Ret (setN vs sub_index v)
       else Fail (PackedLeafOutOfBounds (sub_index, (lenN vs)))

(** val insert_all :
    'a1 ekind -> 'a1 list -> (n * 'a1) list -> 'a1 list prog **)

let insert_all ek =
  let pf = pf_of ek in
  let rec insert_all0 vs = function
  | [] -> Ret vs
  | p :: r ->
    let (k, v) = p in
    bind (insert_mut vs (N.modulo k pf) v) (fun vs' -> insert_all0 vs' r)
  in insert_all0

(** val packed_update :
    'a1 ekind -> ('a1, 'a2) umap_impl -> 'a1 list -> n -> 'a2 -> 'a1 list prog **)

let packed_update ek m =
  let pf = pf_of ek in
  (fun vs prefix u -> insert_all ek vs (m.urange u prefix (N.add prefix pf)))

(** val has_updates : ('a1, 'a2) umap_impl -> 'a2 -> n -> n -> bool **)

let has_updates m u start end_ =
  match m.urange u start end_ with
  | [] -> false
  | _ :: _ -> true

(** val with_updated_leaves :
    'a1 ekind -> ('a1, 'a2) umap_impl -> nat -> 'a1 tree0 -> 'a2 -> n -> 'a1
    tree0 prog **)

let with_updated_leaves ek m =
  let pd = pd_of ek in
  let rec with_updated_leaves0 depth t0 u prefix =
    let leaf_case =
      bind (lift_opt (m.uget u prefix) (LeafUpdateMissing prefix)) (fun v ->
        bind fresh (fun i -> Ret (Leaf0 (i, v))))
    in
    let node_case = fun nd l r ->
      let right_prefix = N.coq_lor prefix (pow2 (add nd pd)) in
      let subtree_end = N.add prefix (pow2 (add (S nd) pd)) in
      let hasl = has_updates m u prefix right_prefix in
      let hasr = has_updates m u right_prefix subtree_end in
      if (&&) (negb hasl) (negb hasr)
      then Fail (NodeUpdatesMissing prefix)
      else bind (if hasl then with_updated_leaves0 nd l u prefix else Ret l)
             (fun l' ->
             bind
               (if hasr
                then with_updated_leaves0 nd r u right_prefix
                else Ret r) (fun r' ->
               bind fresh (fun i -> Ret (Node0 (i, l', r')))))
    in
    (match t0 with
     | Leaf0 (_, _) ->
       (match depth with
        | O -> leaf_case
        | S _ -> Fail UpdateLeavesError)
     | Packed (_, vs) ->
       (match depth with
        | O ->
          bind (packed_update ek m vs prefix u) (fun vs' ->
            bind fresh (fun i -> Ret (Packed (i, vs'))))
        | S _ -> Fail UpdateLeavesError)
     | Node0 (_, l, r) ->
       (match depth with
        | O -> Fail UpdateLeavesError
        | S nd -> node_case nd l r)
     | Zero (_, z) ->
       if negb (Nat.eqb z depth)
       then Fail UpdateLeavesError
       else (match depth with
             | O ->
               if is_packed ek
               then bind (packed_update ek m [] prefix u) (fun vs' ->
                      bind fresh (fun i -> Ret (Packed (i, vs'))))
               else leaf_case
             | S nd ->
               bind fresh (fun zi ->
                 node_case nd (Zero (zi, nd)) (Zero (zi, nd)))))
  in with_updated_leaves0

(** val with_updated_leaf :
    'a1 ekind -> nat -> 'a1 tree0 -> n -> 'a1 -> 'a1 tree0 prog **)

let with_updated_leaf ek =
  let pd = pd_of ek in
  let pf = pf_of ek in
  let rec with_updated_leaf0 depth t0 index v =
    let node_case = fun nd l r ->
      if N.testbit index (N.of_nat (add nd pd))
      then bind (with_updated_leaf0 nd r index v) (fun r' ->
             bind fresh (fun i -> Ret (Node0 (i, l, r'))))
      else bind (with_updated_leaf0 nd l index v) (fun l' ->
             bind fresh (fun i -> Ret (Node0 (i, l', r))))
    in
    (match t0 with
     | Leaf0 (_, _) ->
       (match depth with
        | O -> bind fresh (fun i -> Ret (Leaf0 (i, v)))
        | S _ -> Fail UpdateLeafError)
     | Packed (_, vs) ->
       (match depth with
        | O ->
          bind (insert_mut vs (N.modulo index pf) v) (fun vs' ->
            bind fresh (fun i -> Ret (Packed (i, vs'))))
        | S _ -> Fail UpdateLeafError)
     | Node0 (_, l, r) ->
       (match depth with
        | O -> Fail UpdateLeafError
        | S nd -> node_case nd l r)
     | Zero (_, z) ->
       if negb (Nat.eqb z depth)
       then Fail UpdateLeafError
       else (match depth with
             | O ->
               bind fresh (fun i ->
                 if is_packed ek
                 then Ret (Packed (i, (v :: [])))
                 else Ret (Leaf0 (i, v)))
             | S nd ->
               bind fresh (fun zi ->
                 node_case nd (Zero (zi, nd)) (Zero (zi, nd)))))
  in with_updated_leaf0

type 't builder = { bstack : (bool * 't tree0) list; bdepth : nat;
                    blevel : n; blength : n; bcap : n }

(** val builder_new : 'a1 ekind -> n -> n -> 'a1 builder prog **)

let builder_new ek =
  let pd = pd_of ek in
  (fun depth level ->
  if N.ltb (Npos (XI (XI (XI (XI (XI XH)))))) (N.add depth (N.of_nat pd))
  then Fail (BuilderInvalidDepth depth)
  else let d = N.to_nat depth in
       Ret { bstack = []; bdepth = d; blevel = level; blength = N0; bcap =
       (pow2 (add d pd)) })

(** val merge_n :
    nat -> 'a1 tree0 -> (bool * 'a1 tree0) list -> ('a1 tree0 * (bool * 'a1
    tree0) list) prog **)

let rec merge_n n0 top st =
  match n0 with
  | O -> Ret (top, st)
  | S n' ->
    (match st with
     | [] -> Fail BuilderStackEmptyMerge
     | p :: st' ->
       let (_, lft) = p in
       bind fresh (fun i -> merge_n n' (Node0 (i, lft, top)) st'))

(** val merge_avail :
    nat -> (bool * 'a1 tree0) -> (bool * 'a1 tree0) list -> ((bool * 'a1
    tree0) * (bool * 'a1 tree0) list) prog **)

let rec merge_avail n0 top st =
  match n0 with
  | O -> Ret (top, st)
  | S n' ->
    (match st with
     | [] -> Ret (top, st)
     | p :: st' ->
       let (_, lft) = p in
       bind fresh (fun i ->
         merge_avail n' (false, (Node0 (i, lft, (snd top)))) st'))

(** val builder_push : 'a1 ekind -> 'a1 builder -> 'a1 -> 'a1 builder prog **)

let builder_push ek =
  let pd = pd_of ek in
  let pf = pf_of ek in
  (fun b v ->
  if N.eqb b.blength b.bcap
  then Fail BuilderFull
  else let index = b.blength in
       let next_index = N.add index (Npos XH) in
       bind
         (if is_packed ek
          then if N.eqb (N.modulo index pf) N0
               then bind fresh (fun i -> Ret ((Packed (i, (v :: []))),
                      b.bstack))
               else (match b.bstack with
                     | [] -> Fail BuilderExpectedLeaf
                     | p :: st ->
                       let (b0, t0) = p in
                       if b0
                       then Fail BuilderExpectedLeaf
                       else (match t0 with
                             | Packed (i, vs) ->
                               if N.eqb (lenN vs) pf
                               then Fail (PackedLeafFull (lenN vs))
                               else Ret ((Packed (i, (app vs (v :: [])))), st)
                             | _ -> Fail BuilderExpectedLeaf))
          else bind fresh (fun i -> Ret ((Leaf0 (i, v)), b.bstack)))
         (fun x ->
         let (top, st) = x in
         let values_to_merge = sub (tz next_index) pd in
         bind (merge_n values_to_merge top st) (fun x0 ->
           let (top', st') = x0 in
           Ret { bstack = ((false, top') :: st'); bdepth = b.bdepth; blevel =
           b.blevel; blength = (N.add b.blength (Npos XH)); bcap = b.bcap })))

(** val builder_push_node :
    'a1 ekind -> 'a1 builder -> 'a1 tree0 -> n -> 'a1 builder prog **)

let builder_push_node ek =
  let pd = pd_of ek in
  (fun b node len ->
  if N.eqb b.blength b.bcap
  then Fail BuilderFull
  else if N.leb (Npos (XO (XO (XO (XO (XO (XO XH))))))) b.blevel
       then Crash PShift
       else let index_on_level = N.shiftr b.blength b.blevel in
            let next0 = N.add index_on_level (Npos XH) in
            let values_to_merge =
              if N.eqb b.blevel N0 then sub (tz next0) pd else tz next0
            in
            bind (merge_avail values_to_merge (true, node) b.bstack)
              (fun x ->
              let (top, st) = x in
              if N.ltb usize_max (N.add b.blength len)
              then Crash POverflow
              else Ret { bstack = (top :: st); bdepth = b.bdepth; blevel =
                     b.blevel; blength = (N.add b.blength len); bcap =
                     b.bcap }))

(** val merge_up :
    'a1 ekind -> nat -> nat -> n -> (bool * 'a1 tree0) list -> error -> error
    -> (bool * 'a1 tree0) list prog **)

let merge_up ek =
  let pd = pd_of ek in
  let rec merge_up0 n0 i x st eright eleft =
    match n0 with
    | O -> Ret st
    | S n' ->
      if N.testbit x (N.of_nat (add i pd))
      then (match st with
            | [] -> Fail eright
            | p :: l ->
              let (_, rgt) = p in
              (match l with
               | [] -> Fail eleft
               | p0 :: st' ->
                 let (_, lft) = p0 in
                 bind fresh (fun j ->
                   merge_up0 n' (S i) x ((false, (Node0 (j, lft,
                     rgt))) :: st') eright eleft)))
      else Ret st
  in merge_up0

(** val finish_loop :
    'a1 ekind -> nat -> 'a1 builder -> nat -> n -> (bool * 'a1 tree0) list ->
    (bool * 'a1 tree0) list prog **)

let finish_loop ek =
  let pd = pd_of ek in
  let rec finish_loop0 fuel b lv next0 st =
    if N.eqb
         (N.modulo (N.shiftl next0 (N.of_nat lv))
           (N.pow (Npos (XO XH)) (Npos (XO (XO (XO (XO (XO (XO XH)))))))))
         b.bcap
    then Ret st
    else (match fuel with
          | O -> Crash POutOfFuel
          | S f ->
            let depth = sub (add (tz next0) lv) pd in
            (match st with
             | [] -> Fail BuilderStackEmptyFinish
             | p :: st' ->
               let (_, top) = p in
               bind fresh (fun zi ->
                 bind fresh (fun ni ->
                   let st1 = (false, (Node0 (ni, top, (Zero (zi,
                     depth))))) :: st'
                   in
                   bind
                     (merge_up ek (sub b.bdepth (add depth (S O)))
                       (add depth (S O))
                       (N.modulo (N.shiftl next0 (N.of_nat lv))
                         (N.pow (Npos (XO XH)) (Npos (XO (XO (XO (XO (XO (XO
                           XH))))))))) st1 BuilderStackEmptyFinishRight
                       BuilderStackEmptyFinishLeft) (fun st2 ->
                     if Nat.ltb (add depth pd) lv
                     then Crash POverflow
                     else if Nat.leb (S (S (S (S (S (S (S (S (S (S (S (S (S
                               (S (S (S (S (S (S (S (S (S (S (S (S (S (S (S
                               (S (S (S (S (S (S (S (S (S (S (S (S (S (S (S
                               (S (S (S (S (S (S (S (S (S (S (S (S (S (S (S
                               (S (S (S (S (S (S
                               O))))))))))))))))))))))))))))))))))))))))))))))))))))))))))))))))
                               (sub (add depth pd) lv)
                          then Crash POverflow
                          else finish_loop0 f b lv
                                 (N.add next0 (pow2 (sub (add depth pd) lv)))
                                 st2)))))
  in finish_loop0

(** val builder_finish :
    'a1 ekind -> 'a1 builder -> (('a1 tree0 * nat) * n) prog **)

let builder_finish ek =
  let pf = pf_of ek in
  (fun b ->
  match b.bstack with
  | [] -> bind fresh (fun zi -> Ret (((Zero (zi, b.bdepth)), b.bdepth), N0))
  | _ :: _ ->
    if N.leb (Npos (XO (XO (XO (XO (XO (XO XH))))))) b.blevel
    then Crash PShift
    else let lv = N.to_nat b.blevel in
         let length0 = b.blength in
         let level_capacity = pow2 lv in
         let next0 =
           N.div (N.sub (N.add length0 level_capacity) (Npos XH))
             level_capacity
         in
         bind
           (if is_packed ek
            then let skip = N.modulo (N.sub pf (N.modulo length0 pf)) pf in
                 if (&&) (N.ltb N0 skip) (N.eqb b.blevel N0)
                 then bind
                        (merge_up ek b.bdepth O next0 b.bstack
                          BuilderStackEmptyMergeRight
                          BuilderStackEmptyMergeLeft) (fun st' -> Ret
                        ((N.add next0 skip), st'))
                 else Ret (next0, b.bstack)
            else Ret (next0, b.bstack)) (fun x ->
           let (next1, st1) = x in
           bind
             (finish_loop ek (S (S (S (S (S (S (S (S (S (S (S (S (S (S (S (S
               (S (S (S (S (S (S (S (S (S (S (S (S (S (S (S (S (S (S (S (S (S
               (S (S (S (S (S (S (S (S (S (S (S (S (S (S (S (S (S (S (S (S (S
               (S (S (S (S (S (S (S (S
               O))))))))))))))))))))))))))))))))))))))))))))))))))))))))))))))))))
               b lv next1 st1) (fun st2 ->
             match st2 with
             | [] -> Fail BuilderStackEmptyFinalize
             | p :: l ->
               let (_, t0) = p in
               (match l with
                | [] -> Ret ((t0, b.bdepth), b.blength)
                | _ :: _ -> Fail BuilderStackLeftover))))

(** val pop_n : nat -> 'a1 list -> 'a1 list **)

let rec pop_n n0 st =
  match n0 with
  | O -> st
  | S n' -> (match st with
             | [] -> []
             | _ :: r -> pop_n n' r)

type ('a, 's) step_res =
| SOk of 'a option * 's
| SPanic of site

type 't iter0 = { istack : 't tree0 list; iindex : n; ifull_depth : nat;
                  ilength : n }

(** val iter_from_index : n -> 'a1 tree0 -> nat -> n -> 'a1 iter0 **)

let iter_from_index index root depth length0 =
  { istack = (root :: []); iindex = index; ifull_depth = depth; ilength =
    length0 }

(** val iter_next :
    'a1 ekind -> nat -> 'a1 iter0 -> ('a1, 'a1 iter0) step_res **)

let iter_next ek =
  let pd = pd_of ek in
  let pf = pf_of ek in
  let rec iter_next0 fuel it =
    if N.leb it.ilength it.iindex
    then SOk (None, it)
    else (match it.istack with
          | [] -> SOk (None, it)
          | t0 :: _ ->
            (match t0 with
             | Leaf0 (_, v) ->
               let idx = N.add it.iindex (Npos XH) in
               SOk ((Some v), { istack = (pop_n (S (tz idx)) it.istack);
               iindex = idx; ifull_depth = it.ifull_depth; ilength =
               it.ilength })
             | Packed (_, vs) ->
               let sub0 = N.modulo it.iindex pf in
               let idx = N.add it.iindex (Npos XH) in
               if N.eqb (N.add sub0 (Npos XH)) pf
               then if Nat.ltb (tz idx) pd
                    then SPanic PIterExpect
                    else SOk ((nthN vs sub0), { istack =
                           (pop_n (S (sub (tz idx) pd)) it.istack); iindex =
                           idx; ifull_depth = it.ifull_depth; ilength =
                           it.ilength })
               else SOk ((nthN vs sub0), { istack = it.istack; iindex = idx;
                      ifull_depth = it.ifull_depth; ilength = it.ilength })
             | Node0 (_, l, r) ->
               (match fuel with
                | O -> SPanic POutOfFuel
                | S f ->
                  if Nat.ltb it.ifull_depth (length it.istack)
                  then SPanic POverflow
                  else let depth = sub it.ifull_depth (length it.istack) in
                       let child =
                         if N.testbit it.iindex (N.of_nat (add depth pd))
                         then r
                         else l
                       in
                       iter_next0 f { istack = (child :: it.istack); iindex =
                         it.iindex; ifull_depth = it.ifull_depth; ilength =
                         it.ilength })
             | Zero (_, _) -> SOk (None, it)))
  in iter_next0

type 't liter = { lstack : 't tree0 list; lindex : n; llevel : nat;
                  lfull_depth : nat; llength : n }

type 't level_node =
| LInternal of 't tree0
| LPackedLeaf of 't

(** val liter_from_index :
    'a1 ekind -> n -> 'a1 tree0 -> nat -> n -> 'a1 liter **)

let liter_from_index ek =
  let pd = pd_of ek in
  (fun index root depth length0 -> { lstack = (root :: []); lindex = index;
  llevel = (compute_level index depth pd); lfull_depth = depth; llength =
  length0 })

(** val liter_set : 'a1 liter -> 'a1 tree0 list -> n -> 'a1 liter **)

let liter_set it st idx =
  { lstack = st; lindex = idx; llevel = it.llevel; lfull_depth =
    it.lfull_depth; llength = it.llength }

(** val liter_jump :
    'a1 liter -> 'a1 tree0 -> ('a1 level_node, 'a1 liter) step_res **)

let liter_jump it node =
  let idx = N.add it.lindex (pow2 it.llevel) in
  let to_pop = sub (S (tz idx)) it.llevel in
  SOk ((Some (LInternal node)), (liter_set it (pop_n to_pop it.lstack) idx))

(** val liter_next :
    'a1 ekind -> nat -> 'a1 liter -> ('a1 level_node, 'a1 liter) step_res **)

let liter_next ek =
  let pd = pd_of ek in
  let pf = pf_of ek in
  let rec liter_next0 fuel it =
    if N.leb it.llength it.lindex
    then SOk (None, it)
    else (match it.lstack with
          | [] -> SOk (None, it)
          | node :: _ ->
            (match node with
             | Leaf0 (_, _) ->
               let idx = N.add it.lindex (Npos XH) in
               SOk ((Some (LInternal node)),
               (liter_set it (pop_n (S (tz idx)) it.lstack) idx))
             | Packed (_, vs) ->
               if Nat.ltb (add (add it.lfull_depth pd) (S O))
                    (length it.lstack)
               then SPanic POverflow
               else let node_depth =
                      add (sub (add it.lfull_depth pd) (length it.lstack)) (S
                        O)
                    in
                    if Nat.eqb node_depth it.llevel
                    then liter_jump it node
                    else let sub0 = N.modulo it.lindex pf in
                         let idx = N.add it.lindex (Npos XH) in
                         let res0 =
                           match nthN vs sub0 with
                           | Some v -> Some (LPackedLeaf v)
                           | None -> None
                         in
                         if N.eqb (N.add sub0 (Npos XH)) pf
                         then if Nat.ltb (tz idx) pd
                              then SPanic PIterExpect
                              else SOk (res0,
                                     (liter_set it
                                       (pop_n (S (sub (tz idx) pd)) it.lstack)
                                       idx))
                         else SOk (res0, (liter_set it it.lstack idx))
             | Node0 (_, l, r) ->
               if Nat.ltb (add it.lfull_depth pd) (length it.lstack)
               then SPanic POverflow
               else let child_depth =
                      sub (add it.lfull_depth pd) (length it.lstack)
                    in
                    let node_depth = S child_depth in
                    if Nat.eqb node_depth it.llevel
                    then liter_jump it node
                    else (match fuel with
                          | O -> SPanic POutOfFuel
                          | S f ->
                            let child =
                              if N.testbit it.lindex (N.of_nat child_depth)
                              then r
                              else l
                            in
                            liter_next0 f
                              (liter_set it (child :: it.lstack) it.lindex))
             | Zero (_, _) -> SOk (None, it)))
  in liter_next0

(** val liter_collect :
    'a1 ekind -> nat -> 'a1 liter -> 'a1 level_node list outcome **)

let rec liter_collect ek n0 it =
  match n0 with
  | O -> Panic POutOfFuel
  | S n' ->
    (match liter_next ek (S it.lfull_depth) it with
     | SOk (a, it') ->
       (match a with
        | Some x ->
          (match liter_collect ek n' it' with
           | Ok r -> Ok (x :: r)
           | x0 -> x0)
        | None -> Ok [])
     | SPanic c -> Panic c)

type 't action =
| NotEqualNoop
| NotEqualReplace of 't tree0
| EqualNoop
| EqualReplace of 't tree0

(** val minN : n -> n -> n **)

let minN a b =
  if N.leb a b then a else b

(** val tag_shortcut : nat **)

let tag_shortcut =
  S O

(** val tag_ptr_eq : nat **)

let tag_ptr_eq =
  S (S O)

(** val tag_rebuild : nat **)

let tag_rebuild =
  S (S (S O))

(** val rebase_on :
    'a1 ekind -> 'a1 tree0 -> 'a1 tree0 -> (n * n) option -> nat -> 'a1
    action prog **)

let rec rebase_on ek orig base lengths full_depth =
  if Coq_Pos.eqb (idof orig) (idof base)
  then Note (tag_ptr_eq, (Ret EqualNoop))
  else (match orig with
        | Leaf0 (_, v1) ->
          (match base with
           | Leaf0 (_, v2) ->
             if ek.eeqb v1 v2
             then Ret (EqualReplace base)
             else Ret NotEqualNoop
           | Zero (_, _) -> Ret NotEqualNoop
           | _ -> Fail InvalidRebaseLeaf)
        | Packed (_, vs1) ->
          (match base with
           | Packed (_, vs2) ->
             if list_eqb ek vs1 vs2
             then Ret (EqualReplace base)
             else Ret NotEqualNoop
           | Zero (_, _) -> Ret NotEqualNoop
           | _ -> Fail InvalidRebaseLeaf)
        | Node0 (io, l1, r1) ->
          (match base with
           | Node0 (ib, l2, r2) ->
             (match full_depth with
              | O -> Fail InvalidRebaseNode
              | S nfd ->
                GetMemo (io, (fun oh -> GetMemo (ib, (fun bh ->
                  if (&&) ((&&) (negb (N.eqb oh N0)) (N.eqb oh bh))
                       (match lengths with
                        | Some p -> let (a, b) = p in N.eqb a b
                        | None -> true)
                  then Note (tag_shortcut, (Ret (EqualReplace base)))
                  else let ml = pow2 nfd in
                       let ll =
                         match lengths with
                         | Some p ->
                           let (a, b) = p in Some ((minN a ml), (minN b ml))
                         | None -> None
                       in
                       let rl =
                         match lengths with
                         | Some p ->
                           let (a, b) = p in
                           Some ((N.sub a (minN a ml)), (N.sub b (minN b ml)))
                         | None -> None
                       in
                       bind (rebase_on ek l1 l2 ll nfd) (fun la ->
                         bind (rebase_on ek r1 r2 rl nfd) (fun ra ->
                           let mk = fun l r -> Note (tag_rebuild, (Fresh
                             (fun i -> SetMemo (i, oh, (Ret (NotEqualReplace
                             (Node0 (i, l, r))))))))
                           in
                           (match la with
                            | NotEqualNoop ->
                              (match ra with
                               | NotEqualReplace nr -> mk l1 nr
                               | EqualReplace nr -> mk l1 nr
                               | _ -> Ret NotEqualNoop)
                            | NotEqualReplace nl ->
                              (match ra with
                               | NotEqualReplace nr -> mk nl nr
                               | EqualReplace nr -> mk nl nr
                               | _ -> mk nl r1)
                            | EqualNoop ->
                              (match ra with
                               | NotEqualReplace nr -> mk l1 nr
                               | EqualReplace nr -> mk l1 nr
                               | x -> Ret x)
                            | EqualReplace nl ->
                              (match ra with
                               | NotEqualNoop -> mk nl r1
                               | NotEqualReplace nr -> mk nl nr
                               | _ -> Ret (EqualReplace base))))))))))
           | Zero (_, _) -> Ret NotEqualNoop
           | _ -> Fail InvalidRebaseLeaf)
        | Zero (_, z1) ->
          (match base with
           | Zero (_, z2) ->
             if Nat.eqb z1 z2
             then Ret (EqualReplace base)
             else Ret NotEqualNoop
           | _ -> Ret NotEqualNoop))

type 't iaction =
| INoop
| IReplace of 't tree0

type 't known = ((nat * digest) * 't tree0) list

(** val known_get : 'a1 known -> nat -> digest -> 'a1 tree0 option **)

let rec known_get k d h =
  match k with
  | [] -> None
  | p :: r ->
    let (p0, t0) = p in
    let (d', h') = p0 in
    if (&&) (Nat.eqb d d') (N.eqb h h') then Some t0 else known_get r d h

(** val tag_intra_hit : nat **)

let tag_intra_hit =
  S (S (S (S O)))

(** val tag_intra_collide : nat **)

let tag_intra_collide =
  S (S (S (S (S O))))

(** val intra_rebase :
    'a1 ekind -> 'a1 tree0 -> 'a1 known -> nat -> ('a1 iaction * 'a1 known)
    prog **)

let rec intra_rebase ek orig k depth =
  match orig with
  | Node0 (i, l, r) ->
    (match depth with
     | O -> Fail IntraRebaseZeroDepth
     | S nd ->
       GetMemo (i, (fun h ->
         if N.eqb h N0
         then Fail IntraRebaseZeroHash
         else let found = known_get k depth h in
              (match found with
               | Some ks ->
                 if tree_eqb ek ks orig
                 then Note (tag_intra_hit, (Ret ((IReplace ks), k)))
                 else let key_known =
                        match found with
                        | Some _ -> true
                        | None -> false
                      in
                      bind (intra_rebase ek l k nd) (fun x ->
                        let (la, k1) = x in
                        bind (intra_rebase ek r k1 nd) (fun x0 ->
                          let (ra, k2) = x0 in
                          bind
                            (match la with
                             | INoop ->
                               (match ra with
                                | INoop -> Ret INoop
                                | IReplace nr ->
                                  bind fresh (fun j ->
                                    bind (set_memo j h) (fun _ -> Ret
                                      (IReplace (Node0 (j, l, nr))))))
                             | IReplace nl ->
                               (match ra with
                                | INoop ->
                                  bind fresh (fun j ->
                                    bind (set_memo j h) (fun _ -> Ret
                                      (IReplace (Node0 (j, nl, r)))))
                                | IReplace nr ->
                                  bind fresh (fun j ->
                                    bind (set_memo j h) (fun _ -> Ret
                                      (IReplace (Node0 (j, nl, nr)))))))
                            (fun act ->
                            if key_known
                            then Note (tag_intra_collide, (Ret (act, k2)))
                            else let new_subtree =
                                   match act with
                                   | INoop -> orig
                                   | IReplace n0 -> n0
                                 in
                                 (match known_get k2 depth h with
                                  | Some _ -> Fail IntraRebaseRepeatVisit
                                  | None ->
                                    Ret (act, (((depth, h),
                                      new_subtree) :: k2))))))
               | None ->
                 let key_known =
                   match found with
                   | Some _ -> true
                   | None -> false
                 in
                 bind (intra_rebase ek l k nd) (fun x ->
                   let (la, k1) = x in
                   bind (intra_rebase ek r k1 nd) (fun x0 ->
                     let (ra, k2) = x0 in
                     bind
                       (match la with
                        | INoop ->
                          (match ra with
                           | INoop -> Ret INoop
                           | IReplace nr ->
                             bind fresh (fun j ->
                               bind (set_memo j h) (fun _ -> Ret (IReplace
                                 (Node0 (j, l, nr))))))
                        | IReplace nl ->
                          (match ra with
                           | INoop ->
                             bind fresh (fun j ->
                               bind (set_memo j h) (fun _ -> Ret (IReplace
                                 (Node0 (j, nl, r)))))
                           | IReplace nr ->
                             bind fresh (fun j ->
                               bind (set_memo j h) (fun _ -> Ret (IReplace
                                 (Node0 (j, nl, nr))))))) (fun act ->
                       if key_known
                       then Note (tag_intra_collide, (Ret (act, k2)))
                       else let new_subtree =
                              match act with
                              | INoop -> orig
                              | IReplace n0 -> n0
                            in
                            (match known_get k2 depth h with
                             | Some _ -> Fail IntraRebaseRepeatVisit
                             | None ->
                               Ret (act, (((depth, h), new_subtree) :: k2))))))))))
  | _ -> Ret (INoop, k)

(** val tree_hash :
    'a1 ekind -> (digest -> digest -> digest) -> 'a1 tree0 -> digest prog **)

let tree_hash ek h =
  let pf = pf_of ek in
  let rec tree_hash0 = function
  | Leaf0 (i, v) ->
    GetMemo (i, (fun e ->
      if negb (N.eqb e N0)
      then Ret e
      else SetMemo (i, (ek.etroot v), (Ret (ek.etroot v)))))
  | Packed (i, vs) ->
    GetMemo (i, (fun e ->
      if negb (N.eqb e N0)
      then Ret e
      else if N.ltb pf (lenN vs)
           then Crash PSliceIndex
           else SetMemo (i, (chunk_of ek vs), (Ret (chunk_of ek vs)))))
  | Node0 (i, l, r) ->
    GetMemo (i, (fun e ->
      if negb (N.eqb e N0)
      then Ret e
      else Par ((tree_hash0 l), (tree_hash0 r), (fun a b -> SetMemo (i,
             (h a b), (Ret (h a b)))))))
  | Zero (_, d) -> Ret (zh h d)
  in tree_hash0

type 't layer = ('t tree0 * n) list

(** val mk_node : 'a1 tree0 -> 'a1 tree0 -> 'a1 tree0 prog **)

let mk_node l r =
  bind fresh (fun i -> Ret (Node0 (i, l, r)))

(** val mk_zero : nat -> 'a1 tree0 prog **)

let mk_zero d =
  bind fresh (fun i -> Ret (Zero (i, d)))

(** val repeat_step : nat -> 'a1 layer -> 'a1 layer prog **)

let repeat_step depth = function
| [] -> Crash PUnreachable
| p :: l ->
  let (rl, c) = p in
  (match l with
   | [] ->
     if N.eqb c (Npos XH)
     then bind (mk_zero depth) (fun z ->
            bind (mk_node rl z) (fun n0 -> Ret ((n0, (Npos XH)) :: [])))
     else if N.eqb (N.modulo c (Npos (XO XH))) N0
          then bind (mk_node rl rl) (fun n0 -> Ret ((n0,
                 (N.div c (Npos (XO XH)))) :: []))
          else bind (mk_node rl rl) (fun n0 ->
                 bind (mk_zero depth) (fun z ->
                   bind (mk_node rl z) (fun m -> Ret ((n0,
                     (N.div c (Npos (XO XH)))) :: ((m, (Npos XH)) :: [])))))
   | p0 :: l0 ->
     let (ll, c2) = p0 in
     (match l0 with
      | [] ->
        if negb (N.eqb c2 (Npos XH))
        then Crash PUnreachable
        else if N.eqb c (Npos XH)
             then bind (mk_node rl ll) (fun n0 -> Ret ((n0, (Npos XH)) :: []))
             else if N.eqb (N.modulo c (Npos (XO XH))) N0
                  then bind (mk_node rl rl) (fun n0 ->
                         bind (mk_zero depth) (fun z ->
                           bind (mk_node ll z) (fun m -> Ret ((n0,
                             (N.div c (Npos (XO XH)))) :: ((m, (Npos
                             XH)) :: [])))))
                  else bind (mk_node rl rl) (fun n0 ->
                         bind (mk_node rl ll) (fun m -> Ret ((n0,
                           (N.div c (Npos (XO XH)))) :: ((m, (Npos
                           XH)) :: []))))
      | _ :: _ -> Crash PUnreachable))

(** val repeat_layers : nat -> nat -> 'a1 layer -> 'a1 layer prog **)

let rec repeat_layers todo depth ly =
  match todo with
  | O -> Ret ly
  | S t0 ->
    bind (repeat_step depth ly) (fun ly' -> repeat_layers t0 (S depth) ly')

(** val packed_repeat : 'a1 ekind -> 'a1 -> n -> 'a1 tree0 prog **)

let packed_repeat ek =
  let pf = pf_of ek in
  (fun v n0 ->
  if N.ltb pf n0
  then Crash PAssert
  else bind fresh (fun i -> Ret (Packed (i, (repeatN v n0)))))

(** val repeat_tree : 'a1 ekind -> n -> nat -> 'a1 -> n -> 'a1 tree0 prog **)

let repeat_tree ek =
  let pf = pf_of ek in
  (fun capN tree_depth elem n0 ->
  if N.ltb capN n0
  then Fail BuilderFull
  else bind
         (if is_packed ek
          then let repeat_count = N.div n0 pf in
               let lonely_count = N.modulo n0 pf in
               bind (packed_repeat ek elem pf) (fun rl ->
                 bind (packed_repeat ek elem lonely_count) (fun ll ->
                   if (&&) (N.eqb repeat_count N0) (N.eqb lonely_count N0)
                   then Crash PUnreachable
                   else if N.eqb lonely_count N0
                        then Ret ((rl, repeat_count) :: [])
                        else if N.eqb repeat_count N0
                             then Ret ((ll, (Npos XH)) :: [])
                             else Ret ((rl, repeat_count) :: ((ll, (Npos
                                    XH)) :: []))))
          else bind fresh (fun i -> Ret (((Leaf0 (i, elem)), n0) :: [])))
         (fun ly0 ->
         bind (repeat_layers tree_depth O ly0) (fun ly ->
           match rev ly with
           | [] -> Fail BuilderStackEmptyFinalize
           | p :: rest ->
             let (root, count) = p in
             if (||) (negb (match rest with
                            | [] -> true
                            | _ :: _ -> false)) (negb (N.eqb count (Npos XH)))
             then Fail BuilderStackLeftover
             else Ret root)))

(** val try_ : 'a1 prog -> (error, 'a1) sum prog **)

let rec try_ = function
| Ret a -> Ret (Inr a)
| Fail e -> Ret (Inl e)
| Crash s -> Crash s
| Fresh k -> Fresh (fun i -> try_ (k i))
| GetMemo (i, k) -> GetMemo (i, (fun d -> try_ (k d)))
| SetMemo (i, d, k) -> SetMemo (i, d, (try_ k))
| Par (p, q, k) -> Par (p, q, (fun a b -> try_ (k a b)))
| Note (t0, k) -> Note (t0, (try_ k))

type ('t, 'u) handle = { hlist : bool; htree : 't tree0; hblen : n;
                         hdepth : nat; hupd : 'u }

(** val with_upd : ('a1, 'a2) handle -> 'a2 -> ('a1, 'a2) handle **)

let with_upd h u =
  { hlist = h.hlist; htree = h.htree; hblen = h.hblen; hdepth = h.hdepth;
    hupd = u }

(** val with_tree : ('a1, 'a2) handle -> 'a1 tree0 -> ('a1, 'a2) handle **)

let with_tree h t0 =
  { hlist = h.hlist; htree = t0; hblen = h.hblen; hdepth = h.hdepth; hupd =
    h.hupd }

(** val list_depth : 'a1 ekind -> n -> nat **)

let list_depth ek capN =
  let pd = pd_of ek in sub (int_log capN) pd

(** val from_parts :
    ('a1, 'a2) umap_impl -> 'a1 tree0 -> nat -> n -> ('a1, 'a2) handle **)

let from_parts m t0 depth length0 =
  { hlist = true; htree = t0; hblen = length0; hdepth = depth; hupd =
    m.uempty }

(** val backing_get : 'a1 ekind -> ('a1, 'a2) handle -> n -> 'a1 option **)

let backing_get ek h index =
  if N.ltb index h.hblen then get_rec ek h.htree index h.hdepth else None

(** val iface_get :
    'a1 ekind -> ('a1, 'a2) umap_impl -> ('a1, 'a2) handle -> n -> 'a1 option **)

let iface_get ek m h idx =
  match m.uget h.hupd idx with
  | Some v -> Some v
  | None -> backing_get ek h idx

(** val updated_length : ('a1, 'a2) umap_impl -> n -> 'a2 -> n **)

let updated_length m prev u =
  match m.umax_index u with
  | Some m0 -> N.max (N.add m0 (Npos XH)) prev
  | None -> prev

(** val iface_len : ('a1, 'a2) umap_impl -> ('a1, 'a2) handle -> n **)

let iface_len m h =
  updated_length m h.hblen h.hupd

(** val has_pending : ('a1, 'a2) umap_impl -> ('a1, 'a2) handle -> bool **)

let has_pending m h =
  negb (uis_empty m h.hupd)

(** val iface_get_mut :
    'a1 ekind -> ('a1, 'a2) umap_impl -> ('a1, 'a2) handle -> n ->
    ('a1 * ('a1, 'a2) handle) option **)

let iface_get_mut ek m h idx =
  match m.uget h.hupd idx with
  | Some v -> Some (v, h)
  | None ->
    (match backing_get ek h idx with
     | Some v -> Some (v, (with_upd h (m.uentry_insert h.hupd idx v)))
     | None -> None)

(** val write_entry :
    ('a1, 'a2) umap_impl -> ('a1, 'a2) handle -> n -> 'a1 -> ('a1, 'a2) handle **)

let write_entry m h idx v =
  with_upd h (m.uentry_insert h.hupd idx v)

(** val validate_push : n -> ('a1, 'a2) handle -> n -> unit prog **)

let validate_push capN h current_len =
  if h.hlist
  then if N.eqb current_len capN then Fail (ListFull current_len) else Ret ()
  else Fail PushNotSupported

(** val iface_push :
    ('a1, 'a2) umap_impl -> n -> ('a1, 'a2) handle -> 'a1 -> ('a1, 'a2)
    handle prog **)

let iface_push m capN h v =
  let index = iface_len m h in
  bind (validate_push capN h index) (fun _ -> Ret
    (with_upd h (m.uinsert h.hupd index v)))

(** val apply_updates :
    'a1 ekind -> ('a1, 'a2) umap_impl -> n -> ('a1, 'a2) handle -> (error
    option * ('a1, 'a2) handle) prog **)

let apply_updates ek m capN h =
  if uis_empty m h.hupd
  then Ret (None, h)
  else let u = h.hupd in
       let h0 = with_upd h m.uempty in
       (match m.umax_index u with
        | Some m0 ->
          if h.hlist
          then if N.leb capN m0
               then Ret ((Some InvalidListUpdate), h0)
               else let h1 = { hlist = true; htree = h.htree; hblen =
                      (updated_length m h.hblen u); hdepth = h.hdepth; hupd =
                      m.uempty }
                    in
                    bind
                      (try_ (with_updated_leaves ek m h.hdepth h.htree u N0))
                      (fun r ->
                      match r with
                      | Inl e -> Ret ((Some e), h1)
                      | Inr t0 -> Ret (None, (with_tree h1 t0)))
          else if N.leb h.hblen m0
               then Ret ((Some InvalidVectorUpdate), h0)
               else bind
                      (try_ (with_updated_leaves ek m h.hdepth h.htree u N0))
                      (fun r ->
                      match r with
                      | Inl e -> Ret ((Some e), h0)
                      | Inr t0 -> Ret (None, (with_tree h0 t0)))
        | None -> Ret (None, h0))

(** val apply_q :
    'a1 ekind -> ('a1, 'a2) umap_impl -> n -> ('a1, 'a2) handle -> ('a1, 'a2)
    handle prog **)

let apply_q ek m capN h =
  bind (apply_updates ek m capN h) (fun x ->
    let (e, h') = x in (match e with
                        | Some e0 -> Fail e0
                        | None -> Ret h'))

(** val bulk_walk :
    n -> (n * 'a1) list -> ('a1, 'a2) handle -> n -> n prog **)

let rec bulk_walk capN kvs h expected =
  match kvs with
  | [] -> Ret expected
  | p :: r ->
    let (k, _) = p in
    if negb (N.eqb k expected)
    then Fail (OutOfBoundsUpdate (k, expected))
    else bind (validate_push capN h k) (fun _ ->
           bulk_walk capN r h (N.add expected (Npos XH)))

(** val iface_bulk_update :
    ('a1, 'a2) umap_impl -> n -> ('a1, 'a2) handle -> 'a2 -> ('a1, 'a2)
    handle prog **)

let iface_bulk_update m capN h u =
  if negb (uis_empty m h.hupd)
  then Fail BulkUpdateUnclean
  else (match m.umax_index u with
        | Some m0 ->
          let len = h.hblen in
          bind (bulk_walk capN (m.urange u len usize_max) h len)
            (fun expected ->
            if (&&) (N.leb len m0) (N.leb expected m0)
            then Fail (OutOfBoundsUpdate (m0, expected))
            else Ret (with_upd h u))
        | None -> Ret (with_upd h u))

type 't iiter = { ii_tree : 't iter0; ii_index : n; ii_length : n }

(** val iface_iter_from :
    ('a1, 'a2) umap_impl -> ('a1, 'a2) handle -> n -> 'a1 iiter **)

let iface_iter_from m h index =
  { ii_tree = (iter_from_index index h.htree h.hdepth h.hblen); ii_index =
    index; ii_length = (iface_len m h) }

(** val iiter_next :
    'a1 ekind -> ('a1, 'a2) umap_impl -> ('a1, 'a2) handle -> 'a1 iiter ->
    ('a1, 'a1 iiter) step_res **)

let iiter_next ek m h it =
  match iter_next ek (S h.hdepth) it.ii_tree with
  | SOk (bv, ti) ->
    let r = match m.uget h.hupd it.ii_index with
            | Some v -> Some v
            | None -> bv
    in
    SOk (r, { ii_tree = ti; ii_index = (N.add it.ii_index (Npos XH));
    ii_length = it.ii_length })
  | SPanic c -> SPanic c

(** val iiter_hint : 'a1 iiter -> n **)

let iiter_hint it =
  N.sub it.ii_length it.ii_index

(** val iiter_collect :
    'a1 ekind -> ('a1, 'a2) umap_impl -> nat -> ('a1, 'a2) handle -> 'a1
    iiter -> ('a1 list * n list) outcome **)

let rec iiter_collect ek m fuel h it =
  match fuel with
  | O -> Panic POutOfFuel
  | S f ->
    let hint = iiter_hint it in
    (match iiter_next ek m h it with
     | SOk (a, it') ->
       (match a with
        | Some v ->
          (match iiter_collect ek m f h it' with
           | Ok a0 -> let (vs, hs) = a0 in Ok ((v :: vs), (hint :: hs))
           | x -> x)
        | None -> Ok ([], (hint :: [])))
     | SPanic c -> Panic c)

(** val collect_fuel : ('a1, 'a2) umap_impl -> ('a1, 'a2) handle -> nat **)

let collect_fuel m h =
  S (S (N.to_nat (iface_len m h)))

(** val of_outcome : 'a1 outcome -> 'a1 prog **)

let of_outcome = function
| Ok a -> Ret a
| Err e -> Fail e
| Panic c -> Crash c

(** val to_vec :
    'a1 ekind -> ('a1, 'a2) umap_impl -> ('a1, 'a2) handle -> 'a1 list prog **)

let to_vec ek m h =
  bind
    (of_outcome
      (iiter_collect ek m (collect_fuel m h) h (iface_iter_from m h N0)))
    (fun x -> let (vs, _) = x in Ret vs)

(** val coll_iter_from :
    'a1 ekind -> ('a1, 'a2) umap_impl -> ('a1, 'a2) handle -> n -> ('a1
    list * n list) prog **)

let coll_iter_from ek m h index =
  if N.ltb (iface_len m h) index
  then Fail (OutOfBoundsIterFrom (index, (iface_len m h)))
  else of_outcome
         (iiter_collect ek m (collect_fuel m h) h (iface_iter_from m h index))

(** val iter_cow_run :
    'a1 ekind -> ('a1, 'a2) umap_impl -> 'a1 option list -> ('a1, 'a2) handle
    -> 'a1 iter0 -> n -> n -> (n * ('a1, 'a2) handle) prog **)

let rec iter_cow_run ek m items h ti index count =
  match items with
  | [] -> Ret (count, h)
  | item :: rest ->
    (match iter_next ek (S h.hdepth) ti with
     | SOk (bv, ti') ->
       let present =
         match m.uget h.hupd index with
         | Some _ -> true
         | None -> (match bv with
                    | Some _ -> true
                    | None -> false)
       in
       if present
       then let h' =
              match item with
              | Some v -> write_entry m h index v
              | None -> h
            in
            iter_cow_run ek m rest h' ti' (N.add index (Npos XH))
              (N.add count (Npos XH))
       else iter_cow_run ek m rest h ti' (N.add index (Npos XH)) count
     | SPanic c -> Crash c)

(** val coll_iter_cow :
    'a1 ekind -> ('a1, 'a2) umap_impl -> ('a1, 'a2) handle -> 'a1 option list
    -> (n * ('a1, 'a2) handle) prog **)

let coll_iter_cow ek m h items =
  iter_cow_run ek m items h (iter_from_index N0 h.htree h.hdepth h.hblen) N0
    N0

(** val list_empty :
    'a1 ekind -> ('a1, 'a2) umap_impl -> n -> ('a1, 'a2) handle prog **)

let list_empty ek m capN =
  bind fresh (fun z -> Ret
    (from_parts m (Zero (z, (list_depth ek capN))) (list_depth ek capN) N0))

(** val push_all :
    'a1 ekind -> 'a1 builder -> 'a1 list -> 'a1 builder prog **)

let rec push_all ek b = function
| [] -> Ret b
| v :: r -> bind (builder_push ek b v) (fun b' -> push_all ek b' r)

(** val list_try_from_iter :
    'a1 ekind -> ('a1, 'a2) umap_impl -> n -> 'a1 list -> ('a1, 'a2) handle
    prog **)

let list_try_from_iter ek m capN vs =
  bind (builder_new ek (N.of_nat (list_depth ek capN)) N0) (fun b ->
    bind (push_all ek b vs) (fun b' ->
      bind (builder_finish ek b') (fun x ->
        let (p, length0) = x in
        let (t0, depth) = p in
        if N.ltb capN length0
        then Fail BuilderFull
        else Ret (from_parts m t0 depth length0))))

(** val push_all_iface :
    ('a1, 'a2) umap_impl -> n -> ('a1, 'a2) handle -> 'a1 list -> ('a1, 'a2)
    handle prog **)

let rec push_all_iface m capN h = function
| [] -> Ret h
| v :: r ->
  bind (iface_push m capN h v) (fun h' -> push_all_iface m capN h' r)

(** val list_try_from_iter_slow :
    'a1 ekind -> ('a1, 'a2) umap_impl -> n -> 'a1 list -> ('a1, 'a2) handle
    prog **)

let list_try_from_iter_slow ek m capN vs =
  bind (list_empty ek m capN) (fun h ->
    bind (push_all_iface m capN h vs) (fun h' -> apply_q ek m capN h'))

(** val list_repeat :
    'a1 ekind -> ('a1, 'a2) umap_impl -> n -> 'a1 -> n -> ('a1, 'a2) handle
    prog **)

let list_repeat ek m capN elem n0 =
  if N.eqb n0 N0
  then list_empty ek m capN
  else bind (repeat_tree ek capN (list_depth ek capN) elem n0) (fun root ->
         Ret (from_parts m root (list_depth ek capN) n0))

(** val list_repeat_slow :
    'a1 ekind -> ('a1, 'a2) umap_impl -> n -> 'a1 -> n -> ('a1, 'a2) handle
    prog **)

let list_repeat_slow ek m capN =
  let pd = pd_of ek in
  (fun elem n0 ->
  let bound = N.add (pow2 (add (list_depth ek capN) pd)) (Npos XH) in
  list_try_from_iter ek m capN (repeatN elem (N.min n0 bound)))

(** val list_level_iter_from :
    'a1 ekind -> ('a1, 'a2) umap_impl -> ('a1, 'a2) handle -> n -> 'a1
    level_node list prog **)

let list_level_iter_from ek m h index =
  if N.ltb (iface_len m h) index
  then Fail (OutOfBoundsIterFrom (index, (iface_len m h)))
  else if has_pending m h
       then Fail LevelIterPendingUpdates
       else of_outcome
              (liter_collect ek (S (S (N.to_nat h.hblen)))
                (liter_from_index ek index h.htree h.hdepth h.hblen))

(** val pop_front_feed :
    'a1 ekind -> 'a1 level_node list -> nat -> 'a1 builder -> 'a1 builder prog **)

let rec pop_front_feed ek items level b =
  match items with
  | [] -> Ret b
  | l :: rest ->
    (match l with
     | LInternal node ->
       let last = match rest with
                  | [] -> true
                  | _ :: _ -> false in
       let sublen = if last then compute_len node else pow2 level in
       bind (builder_push_node ek b node sublen) (fun b' ->
         pop_front_feed ek rest level b')
     | LPackedLeaf v ->
       bind (builder_push ek b v) (fun b' -> pop_front_feed ek rest level b'))

(** val list_pop_front :
    'a1 ekind -> ('a1, 'a2) umap_impl -> n -> ('a1, 'a2) handle -> n ->
    (error option * ('a1, 'a2) handle) prog **)

let list_pop_front ek m capN =
  let pd = pd_of ek in
  (fun h n0 ->
  bind (apply_updates ek m capN h) (fun x ->
    let (e, h1) = x in
    (match e with
     | Some e0 -> Ret ((Some e0), h1)
     | None ->
       if N.eqb n0 N0
       then Ret (None, h1)
       else bind
              (try_
                (let level = compute_level n0 (list_depth ek capN) pd in
                 bind
                   (builder_new ek (N.of_nat (list_depth ek capN))
                     (N.of_nat level)) (fun b ->
                   bind (list_level_iter_from ek m h1 n0) (fun items ->
                     bind (pop_front_feed ek items level b) (fun b' ->
                       bind (builder_finish ek b') (fun x0 ->
                         let (p, length0) = x0 in
                         let (t0, depth) = p in
                         Ret (from_parts m t0 depth length0))))))) (fun r ->
              match r with
              | Inl e0 -> Ret ((Some e0), h1)
              | Inr h2 -> Ret (None, h2)))))

(** val list_pop_front_slow :
    'a1 ekind -> ('a1, 'a2) umap_impl -> n -> ('a1, 'a2) handle -> n -> ('a1,
    'a2) handle prog **)

let list_pop_front_slow ek m capN h n0 =
  bind (coll_iter_from ek m h n0) (fun x ->
    let (vs, _) = x in list_try_from_iter ek m capN vs)

(** val coll_rebase_on :
    'a1 ekind -> ('a1, 'a2) handle -> ('a1, 'a2) handle -> ('a1, 'a2) handle
    prog **)

let coll_rebase_on ek =
  let pd = pd_of ek in
  (fun h base ->
  bind
    (rebase_on ek h.htree base.htree
      (if h.hlist then Some (h.hblen, base.hblen) else None)
      (add h.hdepth pd)) (fun a ->
    match a with
    | NotEqualReplace t0 -> Ret (with_tree h t0)
    | EqualReplace t0 -> Ret (with_tree h t0)
    | _ -> Ret h))

(** val coll_tree_hash_root :
    'a1 ekind -> ('a1, 'a2) umap_impl -> (digest -> digest -> digest) ->
    ('a1, 'a2) handle -> digest prog **)

let coll_tree_hash_root ek m h h0 =
  bind (tree_hash ek h h0.htree) (fun root ->
    if h0.hlist then Ret (h root (iface_len m h0)) else Ret root)

(** val coll_intra_rebase :
    'a1 ekind -> ('a1, 'a2) umap_impl -> (digest -> digest -> digest) -> n ->
    ('a1, 'a2) handle -> (error option * ('a1, 'a2) handle) prog **)

let coll_intra_rebase ek m h capN h0 =
  bind (apply_updates ek m capN h0) (fun x ->
    let (e, h1) = x in
    (match e with
     | Some e0 -> Ret ((Some e0), h1)
     | None ->
       bind (coll_tree_hash_root ek m h h1) (fun _ ->
         bind (try_ (intra_rebase ek h1.htree [] h1.hdepth)) (fun r ->
           match r with
           | Inl e0 -> Ret ((Some e0), h1)
           | Inr p ->
             let (i, _) = p in
             (match i with
              | INoop -> Ret (None, h1)
              | IReplace t0 -> Ret (None, (with_tree h1 t0)))))))

(** val vector_try_from :
    'a1 ekind -> ('a1, 'a2) umap_impl -> n -> ('a1, 'a2) handle -> ('a1, 'a2)
    handle prog **)

let vector_try_from ek m capN l =
  if N.eqb (iface_len m l) capN
  then bind
         (if negb (N.eqb l.hblen capN) then apply_q ek m capN l else Ret l)
         (fun l' -> Ret { hlist = false; htree = l'.htree; hblen = capN;
         hdepth = l'.hdepth; hupd = l'.hupd })
  else Fail (WrongVectorLength ((iface_len m l), capN))

(** val list_from_vector : n -> ('a1, 'a2) handle -> ('a1, 'a2) handle **)

let list_from_vector capN v =
  { hlist = true; htree = v.htree; hblen = capN; hdepth = v.hdepth; hupd =
    v.hupd }

(** val vector_new :
    'a1 ekind -> ('a1, 'a2) umap_impl -> n -> 'a1 list -> ('a1, 'a2) handle
    prog **)

let vector_new ek m capN vs =
  if N.eqb (lenN vs) capN
  then bind (list_try_from_iter ek m capN vs) (fun l ->
         vector_try_from ek m capN l)
  else Fail (WrongVectorLength ((lenN vs), capN))

(** val vector_try_from_iter :
    'a1 ekind -> ('a1, 'a2) umap_impl -> n -> 'a1 list -> ('a1, 'a2) handle
    prog **)

let vector_try_from_iter ek m capN vs =
  bind (list_try_from_iter ek m capN vs) (fun l ->
    vector_try_from ek m capN l)

(** val vector_from_elem :
    'a1 ekind -> ('a1, 'a2) umap_impl -> n -> 'a1 -> ('a1, 'a2) handle prog **)

let vector_from_elem ek m capN elem =
  bind (list_repeat ek m capN elem capN) (fun l ->
    vector_try_from ek m capN l)

(** val fail_to_panic : 'a1 prog -> 'a1 prog **)

let rec fail_to_panic = function
| Fail _ -> Crash PVectorDefault
| Fresh k -> Fresh (fun i -> fail_to_panic (k i))
| GetMemo (i, k) -> GetMemo (i, (fun d -> fail_to_panic (k d)))
| SetMemo (i, d, k) -> SetMemo (i, d, (fail_to_panic k))
| Par (p, q, k) -> Par (p, q, (fun a b -> fail_to_panic (k a b)))
| Note (t0, k) -> Note (t0, (fail_to_panic k))
| x -> x

(** val vector_default :
    'a1 ekind -> ('a1, 'a2) umap_impl -> n -> ('a1, 'a2) handle prog **)

let vector_default ek m capN =
  fail_to_panic (vector_from_elem ek m capN ek.edefault)

(** val coll_eqb :
    'a1 ekind -> ('a1, 'a2) umap_impl -> ('a1, 'a2) handle -> ('a1, 'a2)
    handle -> bool **)

let coll_eqb ek m a b =
  (&&)
    ((&&) ((&&) (tree_eqb ek a.htree b.htree) (N.eqb a.hblen b.hblen))
      (Nat.eqb a.hdepth b.hdepth)) (m.ueqb ek.eeqb a.hupd b.hupd)

(** val bytes_per_offset : n **)

let bytes_per_offset =
  Npos (XO (XO XH))

(** val ssz_bytes_len :
    'a1 ekind -> ('a1, 'a2) umap_impl -> ('a1, 'a2) handle -> n prog **)

let ssz_bytes_len ek m h =
  match ek.efixed with
  | Some s -> Ret (N.mul s (iface_len m h))
  | None ->
    bind (to_vec ek m h) (fun vs -> Ret
      (N.add (fold_left (fun acc v -> N.add acc (lenN (ek.eenc v))) vs N0)
        (N.mul bytes_per_offset (iface_len m h))))

(** val var_offsets : 'a1 ekind -> 'a1 list -> n -> n list **)

let rec var_offsets ek vs off =
  match vs with
  | [] -> []
  | v :: r ->
    app (num_le (S (S (S (S O)))) off)
      (var_offsets ek r (N.add off (lenN (ek.eenc v))))

(** val ssz_encode :
    'a1 ekind -> ('a1, 'a2) umap_impl -> ('a1, 'a2) handle -> bytes prog **)

let ssz_encode ek m h =
  bind (to_vec ek m h) (fun vs ->
    match ek.efixed with
    | Some _ -> Ret (flat_map ek.eenc vs)
    | None ->
      Ret
        (app (var_offsets ek vs (N.mul bytes_per_offset (iface_len m h)))
          (flat_map ek.eenc vs)))

(** val decode_chunks : 'a1 ekind -> nat -> n -> bytes -> 'a1 list option **)

let rec decode_chunks ek fuel s b = match b with
| [] -> Some []
| _ :: _ ->
  (match fuel with
   | O -> None
   | S f ->
     (match ek.edec (takeN s b) with
      | Some v ->
        (match decode_chunks ek f s (dropN s b) with
         | Some r -> Some (v :: r)
         | None -> None)
      | None -> None))

(** val read_offset : bytes -> n option **)

let read_offset b =
  if N.ltb (lenN b) (Npos (XO (XO XH)))
  then None
  else Some (le_num (takeN (Npos (XO (XO XH))) b))

(** val var_items :
    'a1 ekind -> nat -> n -> bytes -> n -> n -> 'a1 list option **)

let rec var_items ek n0 i b offset first =
  match n0 with
  | O -> Some []
  | S n' ->
    (match n' with
     | O ->
       (match ek.edec (dropN offset b) with
        | Some v -> Some (v :: [])
        | None -> None)
     | S _ ->
       (match read_offset (dropN (N.mul i (Npos (XO (XO XH)))) b) with
        | Some nxt ->
          if (||) ((||) (N.ltb nxt first) (N.ltb (lenN b) nxt))
               (N.ltb nxt offset)
          then None
          else (match ek.edec (takeN (N.sub nxt offset) (dropN offset b)) with
                | Some v ->
                  (match var_items ek n' (N.add i (Npos XH)) b nxt first with
                   | Some r -> Some (v :: r)
                   | None -> None)
                | None -> None)
        | None -> None))

(** val decode_var_list : 'a1 ekind -> bytes -> n -> 'a1 list option **)

let decode_var_list ek b max_len =
  match b with
  | [] -> Some []
  | _ :: _ ->
    (match read_offset b with
     | Some first ->
       if N.ltb (lenN b) first
       then None
       else if (||) (negb (N.eqb (N.modulo first (Npos (XO (XO XH)))) N0))
                 (N.ltb first (Npos (XO (XO XH))))
            then None
            else let num_items = N.div first (Npos (XO (XO XH))) in
                 if N.ltb max_len num_items
                 then None
                 else var_items ek (N.to_nat num_items) (Npos XH) b first
                        first
     | None -> None)

(** val list_from_ssz :
    'a1 ekind -> ('a1, 'a2) umap_impl -> n -> bytes -> ('a1, 'a2) handle prog **)

let list_from_ssz ek m capN b = match b with
| [] -> list_empty ek m capN
| _ :: _ ->
  (match ek.efixed with
   | Some s ->
     if N.eqb s N0
     then Fail EDecode
     else let num_items = N.div (lenN b) s in
          if N.ltb capN num_items
          then Fail EDecode
          else (match decode_chunks ek (S (length b)) s b with
                | Some vs ->
                  bind (try_ (list_try_from_iter ek m capN vs)) (fun r ->
                    match r with
                    | Inl _ -> Fail EDecode
                    | Inr h -> Ret h)
                | None -> Fail EDecode)
   | None ->
     (match decode_var_list ek b capN with
      | Some vs ->
        bind (try_ (list_try_from_iter ek m capN vs)) (fun r ->
          match r with
          | Inl _ -> Fail EDecode
          | Inr h -> Ret h)
      | None -> Fail EDecode))

(** val vector_from_ssz :
    'a1 ekind -> ('a1, 'a2) umap_impl -> n -> bytes -> ('a1, 'a2) handle prog **)

let vector_from_ssz ek m capN b =
  bind (list_from_ssz ek m capN b) (fun l ->
    bind (try_ (vector_try_from ek m capN l)) (fun r ->
      match r with
      | Inl _ -> Fail EDecode
      | Inr v -> Ret v))

(** val serde_ser :
    'a1 ekind -> ('a1, 'a2) umap_impl -> ('a1, 'a2) handle -> 'a1 list prog **)

let serde_ser =
  to_vec

(** val list_serde_de :
    'a1 ekind -> ('a1, 'a2) umap_impl -> n -> 'a1 list -> ('a1, 'a2) handle
    prog **)

let list_serde_de ek m capN vs =
  bind (try_ (list_try_from_iter ek m capN vs)) (fun r ->
    match r with
    | Inl _ -> Fail ESerde
    | Inr h -> Ret h)

(** val vector_serde_de :
    'a1 ekind -> ('a1, 'a2) umap_impl -> n -> 'a1 list -> ('a1, 'a2) handle
    prog **)

let vector_serde_de ek m capN vs =
  bind (list_serde_de ek m capN vs) (fun l ->
    bind (try_ (vector_try_from ek m capN l)) (fun r ->
      match r with
      | Inl _ -> Fail ESerde
      | Inr v -> Ret v))

type 't op =
| ONewList of nat * 't list
| ONewVec of nat * 't list
| OListSlow of nat * 't list
| OVecIter of nat * 't list
| OEmpty of nat
| ORepeat of nat * 't * n
| ORepeatSlow of nat * 't * n
| OFromElem of nat * 't
| ODefaultVec of nat
| OSszList of nat * bytes
| OSszVec of nat * bytes
| OSerdeList of nat * 't list
| OSerdeVec of nat * 't list
| OGet of nat * n
| OLen of nat
| OIterFrom of nat * n
| OLevelIter of nat * n
| OEq of nat * nat
| OSszEnc of nat
| OSerdeSer of nat
| OSet of nat * n * 't
| OTouch of nat * n
| OCowRead of nat * n
| OCowInto of nat * n * 't
| OCowMake of nat * n * 't
| OCowMake2 of nat * n * 't * 't
| OIterCow of nat * 't option list
| OPush of nat * 't
| OBulk of nat * (n * 't) list
| OApply of nat
| OPopFront of nat * n
| OPopFrontSlow of nat * n
| OClone of nat * nat
| OToVector of nat * nat
| OToList of nat * nat
| ORebaseOn of nat * nat
| ORebase of nat * nat * nat
| OIntra of nat
| OHash of nat
| ODrop of nat
| OBNew of n * n
| OBPush of 't
| OBPushNode of nat * bool list
| OBFinish
| OParHash of nat * n
| OParMix of nat * 't list

type 't res =
| ROk
| RVal of 't option
| RNum of n
| RSome of bool
| RBool of bool
| RIter of 't list * n list
| RLevel of (bool * 't list) list
| RBytes of bytes * n
| RVals of 't list
| RHash of digest
| RHashes of digest list
| RFinish of nat * n * 't tree0 * digest * bool
| RErr of error

type ('t, 'u) sys = { regs : ('t, 'u) handle option list;
                      bslot : 't builder option }

(** val nregs : nat **)

let nregs =
  S (S (S (S (S (S (S (S O)))))))

(** val init_sys : ('a1, 'a2) sys **)

let init_sys =
  { regs = (repeat None nregs); bslot = None }

(** val rget : ('a1, 'a2) sys -> nat -> ('a1, 'a2) handle option **)

let rget s a =
  match nth_error s.regs a with
  | Some o -> o
  | None -> None

(** val set_nth : 'a1 list -> nat -> 'a1 -> 'a1 list **)

let rec set_nth l n0 x =
  match l with
  | [] -> []
  | y :: r -> (match n0 with
               | O -> x :: r
               | S n' -> y :: (set_nth r n' x))

(** val rset :
    ('a1, 'a2) sys -> nat -> ('a1, 'a2) handle option -> ('a1, 'a2) sys **)

let rset s a h =
  { regs = (set_nth s.regs a h); bslot = s.bslot }

(** val bset : ('a1, 'a2) sys -> 'a1 builder option -> ('a1, 'a2) sys **)

let bset s b =
  { regs = s.regs; bslot = b }

(** val bad : ('a1, 'a2) sys -> ('a1 res * ('a1, 'a2) sys) prog **)

let bad s =
  Ret ((RErr EBadReg), s)

(** val construct :
    ('a1, 'a2) sys -> nat -> ('a1, 'a2) handle prog -> ('a1 res * ('a1, 'a2)
    sys) prog **)

let construct s d m =
  if Nat.leb nregs d
  then bad s
  else bind (try_ m) (fun r ->
         match r with
         | Inl e -> Ret ((RErr e), s)
         | Inr h -> Ret (ROk, (rset s d (Some h))))

(** val with_reg :
    ('a1, 'a2) sys -> nat -> (('a1, 'a2) handle -> ('a1 res * ('a1, 'a2) sys)
    prog) -> ('a1 res * ('a1, 'a2) sys) prog **)

let with_reg s a f =
  match rget s a with
  | Some h -> f h
  | None -> bad s

(** val with_list :
    ('a1, 'a2) sys -> nat -> (('a1, 'a2) handle -> ('a1 res * ('a1, 'a2) sys)
    prog) -> ('a1 res * ('a1, 'a2) sys) prog **)

let with_list s a f =
  with_reg s a (fun h -> if h.hlist then f h else bad s)

(** val with_vector :
    ('a1, 'a2) sys -> nat -> (('a1, 'a2) handle -> ('a1 res * ('a1, 'a2) sys)
    prog) -> ('a1 res * ('a1, 'a2) sys) prog **)

let with_vector s a f =
  with_reg s a (fun h -> if h.hlist then bad s else f h)

(** val inplace :
    ('a1, 'a2) sys -> nat -> ('a1, 'a2) handle prog -> ('a1 res * ('a1, 'a2)
    sys) prog **)

let inplace s a m =
  bind (try_ m) (fun r ->
    match r with
    | Inl e -> Ret ((RErr e), s)
    | Inr h -> Ret (ROk, (rset s a (Some h))))

(** val inplace_e :
    ('a1, 'a2) sys -> nat -> (error option * ('a1, 'a2) handle) prog -> ('a1
    res * ('a1, 'a2) sys) prog **)

let inplace_e s a m =
  bind m (fun x ->
    let (e, h) = x in
    Ret ((match e with
          | Some e0 -> RErr e0
          | None -> ROk), (rset s a (Some h))))

(** val level_item : 'a1 level_node -> bool * 'a1 list **)

let level_item = function
| LInternal t0 -> (true, (elems t0))
| LPackedLeaf v -> (false, (v :: []))

(** val subtree_at : 'a1 tree0 -> bool list -> 'a1 tree0 option **)

let rec subtree_at t0 = function
| [] -> Some t0
| b :: r ->
  (match t0 with
   | Node0 (_, l, rr) -> subtree_at (if b then rr else l) r
   | _ -> None)

(** val incremental :
    'a1 ekind -> nat -> 'a1 tree0 -> 'a1 list -> n -> 'a1 tree0 prog **)

let rec incremental ek depth t0 vs j =
  match vs with
  | [] -> Ret t0
  | v :: r ->
    bind (with_updated_leaf ek depth t0 j v) (fun t' ->
      incremental ek depth t' r (N.add j (Npos XH)))

(** val bulk_map : ('a1, 'a2) umap_impl -> 'a2 -> (n * 'a1) list -> 'a2 **)

let rec bulk_map m u = function
| [] -> u
| p :: r -> let (k, v) = p in bulk_map m (m.uinsert u k v) r

(** val par_mix_run :
    'a1 ekind -> ('a1, 'a2) umap_impl -> (digest -> digest -> digest) -> n ->
    ('a1, 'a2) handle -> 'a1 list -> n -> digest list prog **)

let rec par_mix_run ek m h capN h0 vs j =
  match vs with
  | [] -> Ret []
  | v :: r ->
    let len = iface_len m h0 in
    bind
      (if N.eqb len N0
       then Ret h0
       else (match iface_get_mut ek m h0 (N.modulo j len) with
             | Some p ->
               let (_, h') = p in Ret (write_entry m h' (N.modulo j len) v)
             | None -> Ret h0)) (fun h1 ->
      bind (apply_q ek m capN h1) (fun h2 ->
        bind (coll_tree_hash_root ek m h h2) (fun d ->
          bind (par_mix_run ek m h capN h0 r (N.add j (Npos XH))) (fun ds ->
            Ret (d :: ds)))))

(** val step :
    'a1 ekind -> ('a1, 'a2) umap_impl -> (digest -> digest -> digest) -> n ->
    bool -> ('a1, 'a2) sys -> 'a1 op -> ('a1 res * ('a1, 'a2) sys) prog **)

let step ek m h capN vec_based s = function
| ONewList (d, vs) -> construct s d (list_try_from_iter ek m capN vs)
| ONewVec (d, vs) -> construct s d (vector_new ek m capN vs)
| OListSlow (d, vs) -> construct s d (list_try_from_iter_slow ek m capN vs)
| OVecIter (d, vs) -> construct s d (vector_try_from_iter ek m capN vs)
| OEmpty d -> construct s d (list_empty ek m capN)
| ORepeat (d, v, n0) -> construct s d (list_repeat ek m capN v n0)
| ORepeatSlow (d, v, n0) -> construct s d (list_repeat_slow ek m capN v n0)
| OFromElem (d, v) -> construct s d (vector_from_elem ek m capN v)
| ODefaultVec d -> construct s d (vector_default ek m capN)
| OSszList (d, b) -> construct s d (list_from_ssz ek m capN b)
| OSszVec (d, b) -> construct s d (vector_from_ssz ek m capN b)
| OSerdeList (d, vs) -> construct s d (list_serde_de ek m capN vs)
| OSerdeVec (d, vs) -> construct s d (vector_serde_de ek m capN vs)
| OGet (a, i) ->
  with_reg s a (fun h0 -> Ret ((RVal (iface_get ek m h0 i)), s))
| OLen a -> with_reg s a (fun h0 -> Ret ((RNum (iface_len m h0)), s))
| OIterFrom (a, i) ->
  with_reg s a (fun h0 ->
    bind (try_ (coll_iter_from ek m h0 i)) (fun r ->
      match r with
      | Inl e -> Ret ((RErr e), s)
      | Inr p -> let (vs, hs) = p in Ret ((RIter (vs, hs)), s)))
| OLevelIter (a, i) ->
  with_list s a (fun h0 ->
    bind (try_ (list_level_iter_from ek m h0 i)) (fun r ->
      match r with
      | Inl e -> Ret ((RErr e), s)
      | Inr items -> Ret ((RLevel (map level_item items)), s)))
| OEq (a, b) ->
  with_reg s a (fun ha ->
    with_reg s b (fun hb ->
      if eqb ha.hlist hb.hlist
      then Ret ((RBool (coll_eqb ek m ha hb)), s)
      else bad s))
| OSszEnc a ->
  with_reg s a (fun h0 ->
    bind (ssz_encode ek m h0) (fun b ->
      bind (ssz_bytes_len ek m h0) (fun n0 -> Ret ((RBytes (b, n0)), s))))
| OSerdeSer a ->
  with_reg s a (fun h0 ->
    bind (serde_ser ek m h0) (fun vs -> Ret ((RVals vs), s)))
| OSet (a, i, v) ->
  with_reg s a (fun h0 ->
    match iface_get_mut ek m h0 i with
    | Some p ->
      let (_, h') = p in
      Ret ((RSome true), (rset s a (Some (write_entry m h' i v))))
    | None -> Ret ((RSome false), s))
| OTouch (a, i) ->
  with_reg s a (fun h0 ->
    match iface_get_mut ek m h0 i with
    | Some p -> let (_, h') = p in Ret ((RSome true), (rset s a (Some h')))
    | None -> Ret ((RSome false), s))
| OCowRead (a, i) ->
  with_reg s a (fun h0 -> Ret ((RVal (iface_get ek m h0 i)), s))
| OCowInto (a, i, v) ->
  with_reg s a (fun h0 ->
    match iface_get_mut ek m h0 i with
    | Some p ->
      let (_, h') = p in
      Ret ((RSome true), (rset s a (Some (write_entry m h' i v))))
    | None -> Ret ((RSome false), s))
| OCowMake (a, i, v) ->
  with_reg s a (fun h0 ->
    match iface_get_mut ek m h0 i with
    | Some p ->
      let (_, h') = p in
      Ret ((RSome true), (rset s a (Some (write_entry m h' i v))))
    | None -> Ret ((RSome false), s))
| OCowMake2 (a, i, v, w) ->
  with_reg s a (fun h0 ->
    match iface_get_mut ek m h0 i with
    | Some p ->
      let (_, h') = p in
      Ret ((RSome true),
      (rset s a (Some (write_entry m (write_entry m h' i v) i w))))
    | None -> Ret ((RSome false), s))
| OIterCow (a, items) ->
  with_reg s a (fun h0 ->
    bind (coll_iter_cow ek m h0 items) (fun x ->
      let (c, h') = x in Ret ((RNum c), (rset s a (Some h')))))
| OPush (a, v) ->
  with_list s a (fun h0 -> inplace s a (iface_push m capN h0 v))
| OBulk (a, kvs) ->
  with_list s a (fun h0 ->
    if (&&) vec_based
         (existsb (fun kv ->
           N.leb (Npos (XO (XO (XO (XO (XO (XO (XO (XO (XO (XO (XO (XO (XO
             (XO (XO (XO XH))))))))))))))))) (fst kv)) kvs)
    then bad s
    else inplace s a (iface_bulk_update m capN h0 (bulk_map m m.uempty kvs)))
| OApply a ->
  with_reg s a (fun h0 -> inplace_e s a (apply_updates ek m capN h0))
| OPopFront (a, n0) ->
  with_list s a (fun h0 -> inplace_e s a (list_pop_front ek m capN h0 n0))
| OPopFrontSlow (a, n0) ->
  with_list s a (fun h0 -> inplace s a (list_pop_front_slow ek m capN h0 n0))
| OClone (a, b) ->
  if Nat.leb nregs b
  then bad s
  else with_reg s a (fun h0 -> Ret (ROk, (rset s b (Some h0))))
| OToVector (a, b) ->
  if Nat.leb nregs b
  then bad s
  else with_list s a (fun h0 -> construct s b (vector_try_from ek m capN h0))
| OToList (a, b) ->
  if Nat.leb nregs b
  then bad s
  else with_vector s a (fun h0 -> Ret (ROk,
         (rset s b (Some (list_from_vector capN h0)))))
| ORebaseOn (a, b) ->
  with_reg s a (fun ha ->
    with_reg s b (fun hb ->
      if eqb ha.hlist hb.hlist
      then inplace s a (coll_rebase_on ek ha hb)
      else bad s))
| ORebase (a, b, c) ->
  if Nat.leb nregs c
  then bad s
  else with_reg s a (fun ha ->
         with_reg s b (fun hb ->
           if eqb ha.hlist hb.hlist
           then construct s c (coll_rebase_on ek ha hb)
           else bad s))
| OIntra a ->
  with_reg s a (fun h0 -> inplace_e s a (coll_intra_rebase ek m h capN h0))
| OHash a ->
  with_reg s a (fun h0 ->
    if has_pending m h0
    then Ret ((RErr EPending), s)
    else bind (coll_tree_hash_root ek m h h0) (fun d -> Ret ((RHash d), s)))
| ODrop a -> with_reg s a (fun _ -> Ret (ROk, (rset s a None)))
| OBNew (d, l) ->
  bind (try_ (builder_new ek d l)) (fun r ->
    match r with
    | Inl e -> Ret ((RErr e), s)
    | Inr b -> Ret (ROk, (bset s (Some b))))
| OBPush v ->
  (match s.bslot with
   | Some b ->
     bind (try_ (builder_push ek b v)) (fun r ->
       match r with
       | Inl e ->
         (match e with
          | BuilderFull -> Ret ((RErr BuilderFull), s)
          | _ -> Ret ((RErr e), (bset s None)))
       | Inr b' -> Ret (ROk, (bset s (Some b'))))
   | None -> Ret ((RErr ENoBuilder), s))
| OBPushNode (a, path) ->
  (match s.bslot with
   | Some b ->
     with_reg s a (fun h0 ->
       if has_pending m h0
       then Ret ((RErr EPending), s)
       else (match subtree_at h0.htree path with
             | Some t0 ->
               bind (try_ (builder_push_node ek b t0 (compute_len t0)))
                 (fun r ->
                 match r with
                 | Inl e ->
                   (match e with
                    | BuilderFull -> Ret ((RErr BuilderFull), s)
                    | _ -> Ret ((RErr e), (bset s None)))
                 | Inr b' -> Ret (ROk, (bset s (Some b'))))
             | None -> Ret ((RErr EBadPath), s)))
   | None -> Ret ((RErr ENoBuilder), s))
| OBFinish ->
  (match s.bslot with
   | Some b ->
     bind (try_ (builder_finish ek b)) (fun r ->
       match r with
       | Inl e -> Ret ((RErr e), (bset s None))
       | Inr p ->
         let (p0, len) = p in
         let (t0, depth) = p0 in
         bind (tree_hash ek h t0) (fun root ->
           bind fresh (fun z ->
             bind
               (try_ (incremental ek depth (Zero (z, depth)) (elems t0) N0))
               (fun r2 ->
               let inc =
                 match r2 with
                 | Inl _ -> false
                 | Inr t2 -> tree_eqb ek t0 t2
               in
               Ret ((RFinish (depth, len, t0, root, inc)), (bset s None))))))
   | None -> Ret ((RErr ENoBuilder), s))
| OParHash (a, _) ->
  with_reg s a (fun h0 ->
    if has_pending m h0
    then Ret ((RErr EPending), s)
    else bind (coll_tree_hash_root ek m h h0) (fun d -> Ret ((RHash d), s)))
| OParMix (a, vs) ->
  with_reg s a (fun h0 ->
    if has_pending m h0
    then Ret ((RErr EPending), s)
    else bind (par_mix_run ek m h capN h0 vs N0) (fun ds ->
           bind (coll_tree_hash_root ek m h h0) (fun d -> Ret ((RHashes
             (app ds (d :: []))), s))))
