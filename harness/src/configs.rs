//! The configuration table: kind x N x map -> a monomorphised `run_history`.
//!
//! `dispatch` returns `None` for a configuration the harness was not compiled with.

use crate::driver::run_history;
use crate::elem::{Bu16, Fu64, Nl, Pair, Quad, Var};
use alloy_primitives::{U128, U256};
use milhouse::update_map::MaxMap;
use std::collections::BTreeMap;
use tree_hash::Hash256;
use typenum::{
    U0, U1, U1024, U1099511627776, U16, U17, U2, U281474976710656, U3, U32, U33, U4, U5,
    U562949953421312, U64, U7, U8, U9, U9223372036854775808,
};
use vec_map::VecMap;

pub type Out<'a> = std::io::BufWriter<std::io::StdoutLock<'a>>;

/// Innermost level: pick the update map.
macro_rules! with_map {
    ($t:ty, $n:ty, $map:expr, $ops:expr, $out:expr, $hdr:expr) => {
        match $map {
            "max" => {
                $hdr($out);
                Some(run_history::<$t, $n, MaxMap<VecMap<$t>>>($ops, $out))
            }
            "vec" => {
                $hdr($out);
                Some(run_history::<$t, $n, VecMap<$t>>($ops, $out))
            }
            "bt" => {
                $hdr($out);
                Some(run_history::<$t, $n, BTreeMap<usize, $t>>($ops, $out))
            }
            _ => None,
        }
    };
}

/// Middle level: pick the capacity. The 15 capacities available for every kind, plus any extra
/// `value => type` pairs given by the caller.
macro_rules! with_n {
    ($t:ty, $n:expr, $map:expr, $ops:expr, $out:expr, $hdr:expr; $($val:literal => $ty:ty),*) => {
        match $n {
            1 => with_map!($t, U1, $map, $ops, $out, $hdr),
            2 => with_map!($t, U2, $map, $ops, $out, $hdr),
            3 => with_map!($t, U3, $map, $ops, $out, $hdr),
            4 => with_map!($t, U4, $map, $ops, $out, $hdr),
            5 => with_map!($t, U5, $map, $ops, $out, $hdr),
            7 => with_map!($t, U7, $map, $ops, $out, $hdr),
            8 => with_map!($t, U8, $map, $ops, $out, $hdr),
            9 => with_map!($t, U9, $map, $ops, $out, $hdr),
            16 => with_map!($t, U16, $map, $ops, $out, $hdr),
            17 => with_map!($t, U17, $map, $ops, $out, $hdr),
            32 => with_map!($t, U32, $map, $ops, $out, $hdr),
            33 => with_map!($t, U33, $map, $ops, $out, $hdr),
            64 => with_map!($t, U64, $map, $ops, $out, $hdr),
            1024 => with_map!($t, U1024, $map, $ops, $out, $hdr),
            1099511627776 => with_map!($t, U1099511627776, $map, $ops, $out, $hdr),
            $( $val => with_map!($t, $ty, $map, $ops, $out, $hdr), )*
            _ => None,
        }
    };
}

/// One function per kind (keeps the monomorphisations of different kinds in different items).
macro_rules! kind_fn {
    ($name:ident, $t:ty; $($val:literal => $ty:ty),*) => {
        fn $name(
            n: u64,
            map: &str,
            ops: &[String],
            out: &mut Out,
            hdr: &dyn Fn(&mut Out),
        ) -> Option<Result<(), String>> {
            with_n!($t, n, map, ops, out, hdr; $($val => $ty),*)
        }
    };
}

kind_fn!(run_u8, u8;
    0 => U0,
    281474976710656 => U281474976710656,
    562949953421312 => U562949953421312,
    9223372036854775808 => U9223372036854775808);
kind_fn!(run_u16, u16;);
kind_fn!(run_u32, u32;);
kind_fn!(run_u64, u64;
    0 => U0,
    281474976710656 => U281474976710656,
    562949953421312 => U562949953421312,
    9223372036854775808 => U9223372036854775808);
kind_fn!(run_u128, U128;);
kind_fn!(run_u256, U256;);
kind_fn!(run_h256, Hash256;
    0 => U0,
    281474976710656 => U281474976710656,
    562949953421312 => U562949953421312,
    9223372036854775808 => U9223372036854775808);
kind_fn!(run_pair, Pair;);
kind_fn!(run_quad, Quad;);
kind_fn!(run_var, Var;);
kind_fn!(run_nl, Nl;);
kind_fn!(run_fu64, Fu64;);
kind_fn!(run_bu16, Bu16;);

/// Run `ops` under configuration `(kind, n, map)`. Prints the `H` line itself (via `hdr`) once
/// the configuration is known to be supported; returns `None` (nothing printed) otherwise.
pub fn dispatch(
    kind: &str,
    n: u64,
    map: &str,
    ops: &[String],
    out: &mut Out,
    hdr: &dyn Fn(&mut Out),
) -> Option<Result<(), String>> {
    match kind {
        "u8" => run_u8(n, map, ops, out, hdr),
        "u16" => run_u16(n, map, ops, out, hdr),
        "u32" => run_u32(n, map, ops, out, hdr),
        "u64" => run_u64(n, map, ops, out, hdr),
        "u128" => run_u128(n, map, ops, out, hdr),
        "u256" => run_u256(n, map, ops, out, hdr),
        "h256" => run_h256(n, map, ops, out, hdr),
        "pair" => run_pair(n, map, ops, out, hdr),
        "quad" => run_quad(n, map, ops, out, hdr),
        "var" => run_var(n, map, ops, out, hdr),
        "nl" => run_nl(n, map, ops, out, hdr),
        "fu64" => run_fu64(n, map, ops, out, hdr),
        "bu16" => run_bu16(n, map, ops, out, hdr),
        _ => None,
    }
}
