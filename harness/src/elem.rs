//! Element kinds, value/hex codecs and small parsing helpers.
//!
//! Everything here is generic over the element type only (never over `N` or the update map), so
//! it is instantiated nine times, not once per configuration.

use serde::{de::DeserializeOwned, Deserialize, Serialize};
use ssz::{Decode, Encode};
use ssz_derive::{Decode, Encode};
use tree_hash_derive::TreeHash;

/// The `pair` kind: a fixed-size 16 byte SSZ container.
#[derive(Debug, Default, Clone, PartialEq, Encode, Decode, TreeHash, Serialize, Deserialize)]
pub struct Pair {
    pub a: u64,
    pub b: u64,
}

/// The `quad` kind: a fixed-size SSZ container of exactly 32 bytes - the size of one chunk (and of `Hash256`), but
/// four field chunks: its root is `H(H(a,b),H(c,d))`, not its bytes.
#[derive(Debug, Default, Clone, PartialEq, Encode, Decode, TreeHash, Serialize, Deserialize)]
pub struct Quad {
    pub a: u64,
    pub b: u64,
    pub c: u64,
    pub d: u64,
}

/// The `var` kind: a variable-size element (0..=4 bytes).
pub type Var = ssz_types::VariableList<u8, typenum::U4>;

/// The `nl` kind: a nested milhouse collection used as an element (0..=64 `u64`s, inner tree depth 4,
/// so hashing one element forks inside the outer leaf's hash computation).
pub type Nl = milhouse::List<u64, typenum::U64>;

/// The `fu64` kind: a `u64` whose tree-hash callbacks can be made to fail (fault injection).
///
/// `fault k` arms a countdown: the `k`-th call of `tree_hash_packed_encoding` / `tree_hash_root` on
/// any `Fu64` from then on panics ("injected fault"); the countdown is disarmed when the operation
/// following `fault` ends. Everything else is exactly `u64`.
#[derive(Debug, Default, Clone, PartialEq, Serialize, Deserialize)]
#[serde(transparent)]
pub struct Fu64(pub u64);

pub static FAULT: std::sync::atomic::AtomicI64 = std::sync::atomic::AtomicI64::new(0);
pub static FIRED: std::sync::atomic::AtomicBool = std::sync::atomic::AtomicBool::new(false);

fn fault_tick() {
    use std::sync::atomic::Ordering::SeqCst;
    if FAULT.load(SeqCst) > 0 && FAULT.fetch_sub(1, SeqCst) == 1 {
        FIRED.store(true, SeqCst);
        panic!("injected fault");
    }
}

impl Encode for Fu64 {
    fn is_ssz_fixed_len() -> bool {
        true
    }
    fn ssz_fixed_len() -> usize {
        8
    }
    fn ssz_bytes_len(&self) -> usize {
        8
    }
    fn ssz_append(&self, buf: &mut Vec<u8>) {
        self.0.ssz_append(buf)
    }
}

impl Decode for Fu64 {
    fn is_ssz_fixed_len() -> bool {
        true
    }
    fn ssz_fixed_len() -> usize {
        8
    }
    fn from_ssz_bytes(bytes: &[u8]) -> Result<Self, ssz::DecodeError> {
        u64::from_ssz_bytes(bytes).map(Fu64)
    }
}

impl tree_hash::TreeHash for Fu64 {
    fn tree_hash_type() -> tree_hash::TreeHashType {
        tree_hash::TreeHashType::Basic
    }
    fn tree_hash_packed_encoding(&self) -> tree_hash::PackedEncoding {
        fault_tick();
        self.0.tree_hash_packed_encoding()
    }
    fn tree_hash_packing_factor() -> usize {
        4
    }
    fn tree_hash_root(&self) -> tree_hash::Hash256 {
        fault_tick();
        self.0.tree_hash_root()
    }
}

/// The `bu16` kind: a `u16` that lives behind a pointer (`Box<u16>`), so that its in-memory size (8) and alignment have
/// nothing to do with its SSZ size (2) and packing factor (16). Everything SSZ / tree-hash is delegated to `u16`;
/// the model and the reference treat it as `u16`.
#[derive(Debug, Default, Clone, PartialEq, Serialize, Deserialize)]
#[serde(transparent)]
pub struct Bu16(pub Box<u16>);

impl Encode for Bu16 {
    fn is_ssz_fixed_len() -> bool {
        true
    }
    fn ssz_fixed_len() -> usize {
        2
    }
    fn ssz_bytes_len(&self) -> usize {
        2
    }
    fn ssz_append(&self, buf: &mut Vec<u8>) {
        self.0.ssz_append(buf)
    }
}

impl Decode for Bu16 {
    fn is_ssz_fixed_len() -> bool {
        true
    }
    fn ssz_fixed_len() -> usize {
        2
    }
    fn from_ssz_bytes(bytes: &[u8]) -> Result<Self, ssz::DecodeError> {
        u16::from_ssz_bytes(bytes).map(|x| Bu16(Box::new(x)))
    }
}

impl tree_hash::TreeHash for Bu16 {
    fn tree_hash_type() -> tree_hash::TreeHashType {
        tree_hash::TreeHashType::Basic
    }
    fn tree_hash_packed_encoding(&self) -> tree_hash::PackedEncoding {
        self.0.tree_hash_packed_encoding()
    }
    fn tree_hash_packing_factor() -> usize {
        16
    }
    fn tree_hash_root(&self) -> tree_hash::Hash256 {
        self.0.tree_hash_root()
    }
}

/// Everything the driver needs from an element type.
pub trait Elem:
    milhouse::Value + Send + Sync + Default + Serialize + DeserializeOwned + 'static
{
}

impl<T> Elem for T where
    T: milhouse::Value + Send + Sync + Default + Serialize + DeserializeOwned + 'static
{
}

/// Everything the driver needs from an update map.
pub trait Map<T>: milhouse::UpdateMap<T> + PartialEq + Send + Sync + 'static {
    /// Backed by a `VecMap`: inserting key `k` allocates `k + 1` slots.
    const VEC_BACKED: bool;
}

impl<T: Elem> Map<T> for vec_map::VecMap<T> {
    const VEC_BACKED: bool = true;
}

impl<T: Elem> Map<T> for milhouse::update_map::MaxMap<vec_map::VecMap<T>> {
    const VEC_BACKED: bool = true;
}

impl<T: Elem> Map<T> for std::collections::BTreeMap<usize, T> {
    const VEC_BACKED: bool = false;
}

const HEX: &[u8; 16] = b"0123456789abcdef";

pub fn push_hex(out: &mut String, bytes: &[u8]) {
    for b in bytes {
        out.push(HEX[(b >> 4) as usize] as char);
        out.push(HEX[(b & 15) as usize] as char);
    }
}

pub fn hex(bytes: &[u8]) -> String {
    let mut s = String::with_capacity(bytes.len() * 2);
    push_hex(&mut s, bytes);
    s
}

/// `<HEX>`: lowercase hex, `.` when empty.
pub fn hex_or_dot(bytes: &[u8]) -> String {
    if bytes.is_empty() {
        ".".to_string()
    } else {
        hex(bytes)
    }
}

/// Raw hex of the SSZ encoding (empty string for an empty encoding); used inside tree dumps.
pub fn raw<T: Encode>(v: &T) -> String {
    hex(&v.as_ssz_bytes())
}

/// `<V>`: hex of the SSZ encoding, `.` when the encoding is empty.
pub fn val<T: Encode>(v: &T) -> String {
    hex_or_dot(&v.as_ssz_bytes())
}

/// `<V>` or `none`.
pub fn opt_val<T: Encode>(v: Option<&T>) -> String {
    match v {
        Some(v) => val(v),
        None => "none".to_string(),
    }
}

/// `<VALS>`: comma separated `<V>`, `-` when the list is empty.
pub fn vals<'a, T: Encode + 'a>(it: impl IntoIterator<Item = &'a T>) -> String {
    let mut s = String::new();
    let mut first = true;
    for v in it {
        if !first {
            s.push(',');
        }
        first = false;
        let b = v.as_ssz_bytes();
        if b.is_empty() {
            s.push('.');
        } else {
            push_hex(&mut s, &b);
        }
    }
    if first {
        s.push('-');
    }
    s
}

pub fn parse_hex(s: &str) -> Result<Vec<u8>, String> {
    if s == "." {
        return Ok(vec![]);
    }
    let b = s.as_bytes();
    if b.is_empty() || b.len() % 2 != 0 {
        return Err(format!("bad hex string `{s}`"));
    }
    let nib = |c: u8| -> Result<u8, String> {
        match c {
            b'0'..=b'9' => Ok(c - b'0'),
            b'a'..=b'f' => Ok(c - b'a' + 10),
            _ => Err(format!("bad hex string `{s}`")),
        }
    };
    let mut out = Vec::with_capacity(b.len() / 2);
    for p in b.chunks(2) {
        out.push((nib(p[0])? << 4) | nib(p[1])?);
    }
    Ok(out)
}

pub fn parse_val<T: Decode>(s: &str) -> Result<T, String> {
    let bytes = parse_hex(s)?;
    T::from_ssz_bytes(&bytes).map_err(|e| format!("bad value `{s}`: {e:?}"))
}

pub fn parse_vals<T: Decode>(s: &str) -> Result<Vec<T>, String> {
    if s == "-" {
        return Ok(vec![]);
    }
    s.split(',').map(parse_val::<T>).collect()
}

pub fn parse_int(s: &str) -> Result<usize, String> {
    if s.is_empty() || !s.bytes().all(|c| c.is_ascii_digit()) {
        return Err(format!("bad integer `{s}`"));
    }
    s.parse::<u64>()
        .map(|x| x as usize)
        .map_err(|e| format!("bad integer `{s}`: {e}"))
}

pub fn parse_reg(s: &str) -> Result<usize, String> {
    let b = s.as_bytes();
    if b.len() == 2 && b[0] == b'h' && (b'0'..=b'7').contains(&b[1]) {
        Ok((b[1] - b'0') as usize)
    } else {
        Err(format!("bad register `{s}`"))
    }
}

/// `{:?}` rendering of a `milhouse::Error` with all spaces removed.
pub fn err(e: &milhouse::Error) -> String {
    let mut s = format!("err:{e:?}");
    s.retain(|c| c != ' ');
    s
}
