//! Read-only observation of backing trees (dump, memo, identity, reachability).
//!
//! Generic over the element type only. Nothing in here ever calls `tree_hash`: memoised hashes
//! are read with `*hash.read()`.

use crate::elem::{push_hex, raw, Elem};
use milhouse::{Arc, Tree};
use std::collections::{HashMap, HashSet};
use tree_hash::Hash256;

/// Collections/subtrees with more elements than this are rendered as `big`.
pub const BIG: usize = 4096;

/// Purely defensive bound on the number of nodes of a pre-order expansion. A well-formed tree
/// with at most `BIG` elements never comes close (<= ~2*4096 + 2*64 nodes).
pub const NODE_BUDGET: usize = 1_000_000;

/// Does the pre-order expansion of `t` (shared nodes counted once per occurrence) fit in `budget`?
pub fn fits<T: Elem>(t: &Tree<T>, budget: &mut usize) -> bool {
    if *budget == 0 {
        return false;
    }
    *budget -= 1;
    match t {
        Tree::Node { left, right, .. } => fits(left, budget) && fits(right, budget),
        _ => true,
    }
}

/// Pre-order dump: node `(` left right `)`, leaf `L<V>;`, packed leaf `P<V>:<V>:...;`, zero `Z<d>;`.
pub fn dump<T: Elem>(t: &Tree<T>, out: &mut String) {
    match t {
        Tree::Leaf(l) => {
            out.push('L');
            out.push_str(&raw(&*l.value));
            out.push(';');
        }
        Tree::PackedLeaf(p) => {
            out.push('P');
            for (i, v) in p.verif_values().iter().enumerate() {
                if i > 0 {
                    out.push(':');
                }
                out.push_str(&raw(v));
            }
            out.push(';');
        }
        Tree::Node { left, right, .. } => {
            out.push('(');
            dump(left, out);
            dump(right, out);
            out.push(')');
        }
        Tree::Zero(d) => {
            out.push('Z');
            out.push_str(&d.to_string());
            out.push(';');
        }
    }
}

/// Dump of a tree known to hold `len` elements; `big` if `len > BIG` (or the defensive node
/// budget is exceeded).
pub fn dump_or_big<T: Elem>(t: &Tree<T>, len: usize) -> String {
    if len > BIG || !fits(t, &mut { NODE_BUDGET }) {
        return "big".to_string();
    }
    let mut s = String::new();
    dump(t, &mut s);
    s
}

fn memo_item(h: &Hash256, out: &mut String, first: &mut bool) {
    if !*first {
        out.push(',');
    }
    *first = false;
    if h.is_zero() {
        out.push('-');
    } else {
        push_hex(out, &h.as_slice()[..8]);
    }
}

fn memo_rec<T: Elem>(t: &Tree<T>, out: &mut String, first: &mut bool) {
    match t {
        Tree::Leaf(l) => memo_item(&l.hash.read(), out, first),
        Tree::PackedLeaf(p) => memo_item(&p.hash.read(), out, first),
        Tree::Node { hash, left, right } => {
            let h = *hash.read();
            memo_item(&h, out, first);
            memo_rec(left, out, first);
            memo_rec(right, out, first);
        }
        Tree::Zero(_) => {}
    }
}

/// Memoised hashes in pre-order over `Node`, `Leaf`, `PackedLeaf` (first 16 hex digits, `-` when
/// all-zero); `-` when there is no such node.
pub fn memo<T: Elem>(t: &Tree<T>) -> String {
    let mut s = String::new();
    let mut first = true;
    memo_rec(t, &mut s, &mut first);
    if first {
        s.push('-');
    }
    s
}

fn ident_rec<T: Elem>(
    t: &Arc<Tree<T>>,
    ids: &mut HashMap<usize, usize>,
    out: &mut String,
    first: &mut bool,
) {
    let next = ids.len();
    let id = *ids.entry(Arc::as_ptr(t) as usize).or_insert(next);
    if !*first {
        out.push(',');
    }
    *first = false;
    out.push_str(&id.to_string());
    if let Tree::Node { left, right, .. } = &**t {
        ident_rec(left, ids, out, first);
        ident_rec(right, ids, out, first);
    }
}

/// Pointer-identity classes in pre-order over all nodes, numbered by first occurrence in `ids`.
pub fn ident<T: Elem>(t: &Arc<Tree<T>>, ids: &mut HashMap<usize, usize>) -> String {
    let mut s = String::new();
    let mut first = true;
    ident_rec(t, ids, &mut s, &mut first);
    s
}

/// Add every node reachable from `t` to `set` (each shared node visited once).
pub fn reach<T: Elem>(t: &Arc<Tree<T>>, set: &mut HashSet<usize>) {
    if !set.insert(Arc::as_ptr(t) as usize) {
        return;
    }
    if let Tree::Node { left, right, .. } = &**t {
        reach(left, set);
        reach(right, set);
    }
}

/// Elements stored under `t`, left to right. `None` if there are more than `BIG` of them (or the
/// defensive node budget runs out).
pub fn elems<T: Elem>(t: &Tree<T>) -> Option<Vec<T>> {
    fn go<T: Elem>(t: &Tree<T>, acc: &mut Vec<T>, budget: &mut usize) -> bool {
        if *budget == 0 {
            return false;
        }
        *budget -= 1;
        match t {
            Tree::Leaf(l) => acc.push((*l.value).clone()),
            Tree::PackedLeaf(p) => acc.extend(p.verif_values().iter().cloned()),
            Tree::Node { left, right, .. } => {
                return go(left, acc, budget) && acc.len() <= BIG && go(right, acc, budget);
            }
            Tree::Zero(_) => {}
        }
        acc.len() <= BIG
    }
    let mut acc = Vec::new();
    if go(t, &mut acc, &mut { NODE_BUDGET }) {
        Some(acc)
    } else {
        None
    }
}

/// Follow a path of `false` = left / `true` = right from the root. `None` when the path runs into
/// a leaf or zero node.
pub fn subtree<'a, T: Elem>(root: &'a Arc<Tree<T>>, path: &[bool]) -> Option<&'a Arc<Tree<T>>> {
    let mut cur = root;
    for &right_turn in path {
        match &**cur {
            Tree::Node { left, right, .. } => cur = if right_turn { right } else { left },
            _ => return None,
        }
    }
    Some(cur)
}

pub fn hash_hex(h: &Hash256) -> String {
    crate::elem::hex(h.as_slice())
}
