//! Optional process isolation (`--isolate`): one forked child per history.
//!
//! `catch_unwind` turns panics into outcomes, but it cannot do anything about an allocation
//! failure (abort), a stack overflow, or an endless loop inside the crate. With `--isolate` such
//! an event costs exactly one history: the parent appends `R <n> abort` (killed by a signal or
//! abnormal exit) or `R <n> timeout` (killed by the alarm) for the operation that was running and
//! carries on with the next history.
//!
//! The parent never touches milhouse (so it has no rayon pool and no threads: `fork` is safe);
//! each child creates its own rayon pool on first use.

use crate::{configs, run_one, History};
use std::io::Write;
use std::sync::atomic::{AtomicPtr, AtomicU64, Ordering};

pub struct Limits {
    /// Wall-clock seconds per history (0 = unlimited).
    pub timeout_secs: u32,
    /// Address-space limit per history in MiB (0 = unlimited).
    pub mem_mb: u64,
}

/// Shared (parent/child) cell holding the 1-based number of the operation being executed.
static PROGRESS: AtomicPtr<AtomicU64> = AtomicPtr::new(std::ptr::null_mut());

/// Called by the driver right before operation `n` is executed.
pub fn progress(n: usize) {
    let p = PROGRESS.load(Ordering::Relaxed);
    if !p.is_null() {
        // SAFETY: `p` points into a live MAP_SHARED page set up by `shared_cell`.
        unsafe { (*p).store(n as u64, Ordering::SeqCst) };
    }
}

fn shared_cell() -> &'static AtomicU64 {
    let p = PROGRESS.load(Ordering::Relaxed);
    if !p.is_null() {
        // SAFETY: see below; the mapping is never unmapped.
        return unsafe { &*p };
    }
    // SAFETY: plain anonymous shared mapping; checked for failure; page-aligned, zeroed, and at
    // least 8 bytes, so it is a valid `AtomicU64`.
    let p = unsafe {
        libc::mmap(
            std::ptr::null_mut(),
            4096,
            libc::PROT_READ | libc::PROT_WRITE,
            libc::MAP_SHARED | libc::MAP_ANONYMOUS,
            -1,
            0,
        )
    };
    if p == libc::MAP_FAILED {
        eprintln!("harness: mmap failed");
        std::process::exit(3);
    }
    let p = p as *mut AtomicU64;
    PROGRESS.store(p, Ordering::Relaxed);
    unsafe { &*p }
}

/// histories of this process that were killed by the alarm so far
static TIMEOUTS: std::sync::atomic::AtomicU32 = std::sync::atomic::AtomicU32::new(0);

pub fn run_isolated(
    idx: usize,
    h: &History,
    out: &mut configs::Out,
    limits: &Limits,
) -> Result<(), String> {
    let cell = shared_cell();
    cell.store(0, Ordering::SeqCst);
    let _ = out.flush();

    // SAFETY: the parent is single-threaded at this point (it never runs milhouse code).
    let pid = unsafe { libc::fork() };
    if pid < 0 {
        return Err("fork failed".to_string());
    }
    if pid == 0 {
        // Child.
        unsafe {
            if limits.mem_mb > 0 {
                let bytes = (limits.mem_mb as libc::rlim_t).saturating_mul(1 << 20);
                let lim = libc::rlimit {
                    rlim_cur: bytes,
                    rlim_max: bytes,
                };
                libc::setrlimit(libc::RLIMIT_AS, &lim);
            }
            if limits.timeout_secs > 0 {
                // once two histories of this run have hung, the remaining ones get a much shorter leash: a change
                // that makes many histories hang must not cost a minute each (the finding is already in hand)
                let t = if TIMEOUTS.load(Ordering::SeqCst) >= 2 {
                    std::cmp::max(3, limits.timeout_secs / 12)
                } else {
                    limits.timeout_secs
                };
                libc::alarm(t);
            }
        }
        let code = match run_one(idx, h, out) {
            Ok(()) => 0,
            Err(e) => {
                eprintln!("harness: unparsable input: {e}");
                2
            }
        };
        let _ = out.flush();
        // SAFETY: skip atexit handlers / destructors of state inherited from the parent.
        unsafe { libc::_exit(code) };
    }

    // Parent.
    let mut status: libc::c_int = 0;
    loop {
        // SAFETY: plain waitpid on our own child.
        let r = unsafe { libc::waitpid(pid, &mut status, 0) };
        if r == pid {
            break;
        }
        if r < 0 && std::io::Error::last_os_error().kind() != std::io::ErrorKind::Interrupted {
            return Err("waitpid failed".to_string());
        }
    }
    let n = cell.load(Ordering::SeqCst);
    if libc::WIFEXITED(status) {
        match libc::WEXITSTATUS(status) {
            0 => Ok(()),
            2 => {
                // The child already printed the message.
                let _ = out.flush();
                std::process::exit(2);
            }
            _ => {
                let _ = writeln!(out, "R {n} abort");
                Ok(())
            }
        }
    } else {
        let word = if libc::WIFSIGNALED(status) && libc::WTERMSIG(status) == libc::SIGALRM {
            TIMEOUTS.fetch_add(1, Ordering::SeqCst);
            "timeout"
        } else {
            "abort"
        };
        let _ = writeln!(out, "R {n} {word}");
        Ok(())
    }
}
