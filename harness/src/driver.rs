//! The history driver.
//!
//! `run_history::<T, N, U>` is the per-configuration entry point; it only builds the
//! configuration's constructor table (`Cfg<T, N, U>`) and hands over to `run_core::<T>`, which
//! is generic over the element type alone (see `coll.rs` for why).

use crate::coll::{Boxed, Cfg, DynColl, Factory, Len};
use crate::elem::{err, hex_or_dot, opt_val, val, vals, Elem, Map};
use crate::obs::{self, hash_hex, BIG};
use crate::ops::{parse_op, Op};
use milhouse::builder::Builder;
use milhouse::level_iter::LevelNode;
use milhouse::{Arc, Error, Tree};
use std::collections::{HashMap, HashSet};
use std::fmt::Write as _;
use std::io::Write;
use std::panic::{catch_unwind, AssertUnwindSafe};
use std::sync::Barrier;
use tree_hash::Hash256;

/// Upper bound on the number of threads `par_hash` / `par_mix` will spawn.
pub const MAX_THREADS: usize = 64;

/// `bulk` on a `VecMap`-backed map refuses keys at or above this bound (`err:badreg`, nothing
/// called): `VecMap::insert(k, _)` allocates `k + 1` slots.
pub const MAX_VECMAP_KEY: usize = 65536;

const BADREG: &str = "err:badreg";
const NOBUILDER: &str = "err:nobuilder";
const PENDING: &str = "err:pending";

fn unit(r: Result<(), Error>) -> String {
    match r {
        Ok(()) => "ok".to_string(),
        Err(e) => err(&e),
    }
}

fn some_none(b: bool) -> String {
    if b { "ok:some" } else { "ok:none" }.to_string()
}

fn join<I: IntoIterator<Item = String>>(items: I, sep: &str, empty: &str) -> String {
    let v: Vec<String> = items.into_iter().collect();
    if v.is_empty() {
        empty.to_string()
    } else {
        v.join(sep)
    }
}

/// The `inc=` oracle of `b_finish`: is `tree` equal to the tree built incrementally from its own
/// elements with `with_updated_leaf`? Generic over `T` only.
fn incremental_eq<T: Elem>(tree: &Arc<Tree<T>>, depth: usize) -> String {
    let r = catch_unwind(AssertUnwindSafe(|| {
        let Some(es) = obs::elems(tree) else {
            return "big";
        };
        let mut t = Tree::<T>::empty(depth);
        for (j, v) in es.into_iter().enumerate() {
            match t.with_updated_leaf(j, v, depth) {
                Ok(n) => t = n,
                Err(_) => return "false",
            }
        }
        if *t == **tree {
            "true"
        } else {
            "false"
        }
    }));
    r.unwrap_or("panic").to_string()
}

struct State<'f, T: Elem> {
    cfg: &'f dyn Factory<T>,
    regs: [Option<Boxed<T>>; 8],
    builder: Option<Builder<T>>,
    /// Roots of every register after the previous operation (kept alive so that addresses are
    /// not reused while counting fresh nodes).
    prev_roots: Vec<Arc<Tree<T>>>,
    /// Addresses of all nodes reachable from `prev_roots`.
    prev_set: HashSet<usize>,
}

impl<'f, T: Elem> State<'f, T> {
    fn new(cfg: &'f dyn Factory<T>) -> Self {
        State {
            cfg,
            regs: [None, None, None, None, None, None, None, None],
            builder: None,
            prev_roots: Vec::new(),
            prev_set: HashSet::new(),
        }
    }

    /// Store the result of a constructor: a failing constructor leaves `d` unchanged.
    fn put(&mut self, d: usize, r: Result<Boxed<T>, Error>) -> String {
        match r {
            Ok(c) => {
                self.regs[d] = Some(c);
                "ok".to_string()
            }
            Err(e) => err(&e),
        }
    }

    /// Same for constructors whose error is rendered as a fixed word.
    fn put_opt(&mut self, d: usize, r: Option<Boxed<T>>, failure: &str) -> String {
        match r {
            Some(c) => {
                self.regs[d] = Some(c);
                "ok".to_string()
            }
            None => failure.to_string(),
        }
    }

    /// Result of `b_push` / `b_push_node`: `BuilderFull` leaves the builder usable, any other
    /// error drops it (its stack may have been partially consumed).
    fn builder_result(&mut self, r: Result<(), Error>) -> String {
        match &r {
            Ok(()) | Err(Error::BuilderFull) => {}
            Err(_) => self.builder = None,
        }
        unit(r)
    }

    /// Execute one operation, returning the result payload of its `R` line.
    fn exec(&mut self, op: &Op<T>) -> String {
        // Source register holding any collection (`&mut dyn DynColl<T>`).
        macro_rules! src {
            ($a:expr) => {
                match &mut self.regs[*$a] {
                    Some(c) => &mut **c,
                    None => return BADREG.to_string(),
                }
            };
        }
        // Result of a List-only / Vector-only / same-kind method: `None` = wrong kind.
        macro_rules! kind {
            ($e:expr) => {
                match $e {
                    Some(r) => r,
                    None => return BADREG.to_string(),
                }
            };
        }

        let cfg = self.cfg;
        match op {
            Op::NewList(d, vs) => self.put(*d, cfg.new_list(vs.clone())),
            Op::NewVec(d, vs) => self.put(*d, cfg.new_vec(vs.clone())),
            Op::ListSlow(d, vs) => self.put(*d, cfg.list_slow(vs.clone())),
            Op::VecIter(d, vs) => self.put(*d, cfg.vec_iter(vs.clone())),
            Op::Empty(d) => self.put(*d, Ok(cfg.empty())),
            Op::Repeat(d, v, n) => self.put(*d, cfg.repeat(v.clone(), *n)),
            Op::RepeatSlow(d, v, n) => self.put(*d, cfg.repeat_slow(v.clone(), *n)),
            Op::FromElem(d, v) => self.put(*d, cfg.from_elem(v.clone())),
            Op::DefaultVec(d) => self.put(*d, Ok(cfg.default_vec())),
            Op::SszList(d, bytes) => self.put_opt(*d, cfg.ssz_list(bytes), "err:decode"),
            Op::SszVec(d, bytes) => self.put_opt(*d, cfg.ssz_vec(bytes), "err:decode"),
            Op::SerdeList(d, vs) => self.put_opt(*d, cfg.serde_list(json_array(vs)), "err:serde"),
            Op::SerdeVec(d, vs) => self.put_opt(*d, cfg.serde_vec(json_array(vs)), "err:serde"),
            Op::Get(a, i) => {
                let c = src!(a);
                format!("ok:{}", opt_val(c.get(*i)))
            }
            Op::Len(a) => {
                let c = src!(a);
                format!("ok:{}", c.len())
            }
            Op::IterFrom(a, i) => {
                let c = src!(a);
                match c.iter_from(*i) {
                    Err(e) => err(&e),
                    Ok(mut it) => {
                        let mut hints = Vec::new();
                        let mut seen = Vec::new();
                        loop {
                            hints.push(it.len().to_string());
                            match it.next() {
                                Some(v) => seen.push(v),
                                None => break,
                            }
                        }
                        // The other `Iterator` methods must agree with stepping (they may be overridden):
                        // a second and third walk with `nth` jumps of varying width (this is what `skip` and
                        // `step_by` call), then `count` / `last` on fresh iterators.
                        let mut bad: Option<String> = None;
                        for jumps in [&[0usize, 1, 2, 3, 5, 8, 4, 7][..], &[4usize, 0, 9, 1, 6][..]] {
                            if bad.is_some() {
                                break;
                            }
                            if let Ok(mut it2) = c.iter_from(*i) {
                                let mut pos = 0usize;
                                let mut k = 0usize;
                                // one plain step first, so that jumps also start in the middle of a leaf
                                if let Some(v) = it2.next() {
                                    if seen.first().map(|w| **w == *v) != Some(true) {
                                        bad = Some("next".to_string());
                                    }
                                    pos = 1;
                                }
                                while bad.is_none() && pos <= seen.len() {
                                    let j = jumps[k % jumps.len()];
                                    k += 1;
                                    let got = it2.nth(j);
                                    let want = seen.get(pos + j);
                                    let same = match (got, want) {
                                        (Some(g), Some(w)) => *g == **w,
                                        (None, None) => true,
                                        _ => false,
                                    };
                                    if !same {
                                        bad = Some(format!("nth({}) at position {}", j, pos));
                                    }
                                    pos += j + 1;
                                    if pos <= seen.len() && it2.len() != seen.len() - pos {
                                        bad = Some(format!("len after nth({}) at position {}", j, pos));
                                    }
                                }
                            }
                        }
                        if bad.is_none() {
                            if let (Ok(it3), Ok(it4)) = (c.iter_from(*i), c.iter_from(*i)) {
                                if it3.count() != seen.len() {
                                    bad = Some("count".to_string());
                                }
                                let same = match (it4.last(), seen.last()) {
                                    (Some(g), Some(w)) => *g == **w,
                                    (None, None) => true,
                                    _ => false,
                                };
                                if !same {
                                    bad = Some("last".to_string());
                                }
                            }
                        }
                        match bad {
                            None => format!("ok:{}|{}", vals(seen), hints.join(",")),
                            Some(b) => format!("ok:{}|{}|adaptor-differs:{}", vals(seen), hints.join(","), b.replace(' ', "_")),
                        }
                    }
                }
            }
            Op::LevelIter(a, i) => {
                let c = src!(a);
                match kind!(c.level_iter_from(*i)) {
                    Err(e) => err(&e),
                    Ok(it) => {
                        let items = it.map(|node| match node {
                            LevelNode::Internal(t) => match obs::elems(t) {
                                Some(es) => format!("I:{}", vals(&es)),
                                None => "I:big".to_string(),
                            },
                            LevelNode::PackedLeaf(v) => format!("P:{}", val(v)),
                        });
                        format!("ok:{}", join(items, "/", "-"))
                    }
                }
            }
            Op::Eq(a, b) => match (&self.regs[*a], &self.regs[*b]) {
                (Some(x), Some(y)) => format!("ok:{}", kind!(x.eq_dyn(&**y))),
                _ => BADREG.to_string(),
            },
            Op::SszEnc(a) => {
                let c = src!(a);
                let (bytes, len, bad_append) = c.ssz();
                let (fixed, fixed_len) = c.ssz_static();
                let mut r = format!(
                    "ok:{}|{}|f={}:{}",
                    hex_or_dot(&bytes),
                    len,
                    fixed as u8,
                    fixed_len
                );
                if let Some(b) = bad_append {
                    r.push_str(&format!("|append-differs:{}", hex_or_dot(&b)));
                }
                r
            }
            Op::SerdeSer(a) => {
                let c = src!(a);
                match c.to_json() {
                    Some(serde_json::Value::Array(items)) => {
                        let mut back = Vec::with_capacity(items.len());
                        for item in items {
                            match serde_json::from_value::<T>(item) {
                                Ok(v) => back.push(v),
                                Err(_) => return "err:serde".to_string(),
                            }
                        }
                        format!("ok:{}", vals(&back))
                    }
                    _ => "err:serde".to_string(),
                }
            }
            Op::Set(a, i, v) => {
                let c = src!(a);
                some_none(c.get_mut(*i).map(|x| *x = v.clone()).is_some())
            }
            Op::Touch(a, i) => {
                let c = src!(a);
                some_none(c.get_mut(*i).is_some())
            }
            Op::CowRead(a, i) => {
                let c = src!(a);
                let got = c.get_cow(*i).map(|cow| (*cow).clone());
                format!("ok:{}", opt_val(got.as_ref()))
            }
            Op::CowInto(a, i, v) => {
                let c = src!(a);
                match c.get_cow(*i) {
                    None => some_none(false),
                    Some(cow) => match cow.into_mut() {
                        Ok(r) => {
                            *r = v.clone();
                            some_none(true)
                        }
                        Err(e) => err(&e),
                    },
                }
            }
            Op::CowMake(a, i, v) => {
                let c = src!(a);
                match c.get_cow(*i) {
                    None => some_none(false),
                    Some(mut cow) => match cow.make_mut() {
                        Ok(r) => {
                            *r = v.clone();
                            some_none(true)
                        }
                        Err(e) => err(&e),
                    },
                }
            }
            Op::CowMake2(a, i, v, w) => {
                let c = src!(a);
                match c.get_cow(*i) {
                    None => some_none(false),
                    Some(mut cow) => {
                        match cow.make_mut() {
                            Ok(r) => *r = v.clone(),
                            Err(e) => return err(&e),
                        }
                        match cow.make_mut() {
                            Ok(r) => *r = w.clone(),
                            Err(e) => return err(&e),
                        }
                        some_none(true)
                    }
                }
            }
            Op::IterCow(a, items) => {
                let c = src!(a);
                match kind!(c.iter_cow(items)) {
                    Ok(count) => format!("ok:{count}"),
                    Err(e) => err(&e),
                }
            }
            Op::Push(a, v) => {
                let c = src!(a);
                unit(kind!(c.push(v.clone())))
            }
            Op::Bulk(a, pairs) => {
                let c = src!(a);
                if c.tag() != 'L' {
                    return BADREG.to_string();
                }
                if c.vec_backed() && pairs.iter().any(|(i, _)| *i >= MAX_VECMAP_KEY) {
                    return BADREG.to_string();
                }
                unit(kind!(c.bulk(pairs)))
            }
            Op::BulkVia(a, cow, pairs) => {
                let c = src!(a);
                if c.tag() != 'L' {
                    return BADREG.to_string();
                }
                if c.vec_backed() && pairs.iter().any(|(i, _)| *i >= MAX_VECMAP_KEY) {
                    return BADREG.to_string();
                }
                unit(kind!(c.bulk_via(*cow, pairs)))
            }
            Op::Apply(a) => {
                let c = src!(a);
                unit(c.apply())
            }
            Op::PopFront(a, n) => {
                let c = src!(a);
                unit(kind!(c.pop_front(*n)))
            }
            Op::PopFrontSlow(a, n) => {
                let c = src!(a);
                unit(kind!(c.pop_front_slow(*n)))
            }
            Op::Clone(a, b) => {
                let copy = match &self.regs[*a] {
                    Some(c) => c.clone_box(),
                    None => return BADREG.to_string(),
                };
                self.regs[*b] = Some(copy);
                "ok".to_string()
            }
            Op::ToVector(a, b) => {
                let r = kind!(src!(a).to_vector());
                self.put(*b, r)
            }
            Op::ToList(a, b) => {
                let r = kind!(src!(a).to_list());
                self.put(*b, Ok(r))
            }
            Op::RebaseOn(a, b) => {
                // `a.rebase_on(&a)` cannot be written with a single register; a clone shares the
                // same root `Arc`, so it is observationally the same base.
                let mut target = self.regs[*a].take();
                let base_copy;
                let base = if a == b {
                    base_copy = target.as_ref().map(|c| c.clone_box());
                    &base_copy
                } else {
                    &self.regs[*b]
                };
                let r = match (&mut target, base) {
                    (Some(x), Some(y)) => x.rebase_on_dyn(&**y).map(unit),
                    _ => None,
                };
                self.regs[*a] = target;
                r.unwrap_or_else(|| BADREG.to_string())
            }
            Op::Rebase(a, b, c) => {
                let r = match (&self.regs[*a], &self.regs[*b]) {
                    (Some(x), Some(y)) => kind!(x.rebase_dyn(&**y)),
                    _ => return BADREG.to_string(),
                };
                self.put(*c, r)
            }
            Op::Intra(a) => {
                let c = src!(a);
                unit(c.intra())
            }
            Op::Hash(a) => {
                let c = src!(a);
                if c.pending() {
                    PENDING.to_string()
                } else {
                    format!("ok:{}", hash_hex(&c.root()))
                }
            }
            Op::Fault(k) => {
                crate::elem::FAULT.store(*k as i64, std::sync::atomic::Ordering::SeqCst);
                "ok".to_string()
            }
            Op::Drop(a) => {
                if self.regs[*a].is_none() {
                    return BADREG.to_string();
                }
                self.regs[*a] = None;
                "ok".to_string()
            }
            Op::BNew(d, l) => match Builder::<T>::new(*d, *l) {
                Ok(b) => {
                    self.builder = Some(b);
                    "ok".to_string()
                }
                Err(e) => err(&e),
            },
            Op::BPush(v) => {
                let Some(b) = &mut self.builder else {
                    return NOBUILDER.to_string();
                };
                let r = b.push(v.clone());
                self.builder_result(r)
            }
            Op::BPushNode(a, path) => {
                if self.builder.is_none() {
                    return NOBUILDER.to_string();
                }
                let c = src!(a);
                if c.pending() {
                    return PENDING.to_string();
                }
                let t = match obs::subtree(c.backing().0, path) {
                    Some(t) => t.clone(),
                    None => return "err:badpath".to_string(),
                };
                let Some(b) = &mut self.builder else {
                    return NOBUILDER.to_string();
                };
                let len = t.compute_len();
                let r = b.push_node(t, len);
                self.builder_result(r)
            }
            Op::BFinish => {
                let Some(b) = self.builder.take() else {
                    return NOBUILDER.to_string();
                };
                match b.finish() {
                    Err(e) => err(&e),
                    Ok((tree, depth, length)) => {
                        let len = length.as_usize();
                        let dump = obs::dump_or_big(&tree, len);
                        let inc = if dump == "big" {
                            "big".to_string()
                        } else {
                            incremental_eq(&tree, depth)
                        };
                        let root = tree.tree_hash();
                        format!(
                            "ok:d={depth},len={len},tree={dump},root={},inc={inc}",
                            hash_hex(&root)
                        )
                    }
                }
            }
            Op::ParHash(a, k) => {
                let c = &*src!(a);
                if c.pending() {
                    return PENDING.to_string();
                }
                if *k > MAX_THREADS {
                    return "err:badarg".to_string();
                }
                par_hash(c, *k)
            }
            Op::ParMix(a, vs) => {
                let c = &*src!(a);
                if c.pending() {
                    return PENDING.to_string();
                }
                if vs.len() > MAX_THREADS {
                    return "err:badarg".to_string();
                }
                par_mix(c, vs)
            }
        }
    }

    /// Write the `O`/`S`/`M`/`I` lines of every non-empty register and the `F` line.
    fn observe(&mut self, out: &mut String) {
        let mut ids: HashMap<usize, usize> = HashMap::new();
        let mut new_set: HashSet<usize> = HashSet::new();
        let mut new_roots: Vec<Arc<Tree<T>>> = Vec::new();

        for (k, reg) in self.regs.iter().enumerate() {
            let Some(c) = reg else { continue };

            // O: public API only.
            let (tag, len, empty, pend) = (c.tag(), c.len(), c.is_empty(), c.pending());
            let (vals_s, gets_s) = if len > BIG {
                ("big".to_string(), "big".to_string())
            } else {
                (
                    vals(c.iter()),
                    join((0..=len + 1).map(|j| opt_val(c.get(j))), ",", "-"),
                )
            };
            let _ = writeln!(
                out,
                "O h{k} {tag} len={len} empty={} pend={} vals={vals_s} gets={gets_s}",
                empty as u8, pend as u8
            );

            // S, M, I: verif accessors.
            let (tree, blen, depth) = c.backing();
            let (upd, max) = c.upd_fields();
            let dump = obs::dump_or_big(tree, blen);
            let _ = writeln!(
                out,
                "S h{k} blen={blen} depth={depth} tree={dump} upd={upd} max={max}"
            );
            if dump == "big" {
                let _ = writeln!(out, "M h{k} big");
                let _ = writeln!(out, "I h{k} big");
            } else {
                let _ = writeln!(out, "M h{k} {}", obs::memo(tree));
                let _ = writeln!(out, "I h{k} {}", obs::ident(tree, &mut ids));
            }

            obs::reach(tree, &mut new_set);
            new_roots.push(tree.clone());
        }

        let fresh = new_set
            .iter()
            .filter(|p| !self.prev_set.contains(p))
            .count();
        let _ = writeln!(out, "F {fresh}");

        // Only now let go of the previous roots.
        self.prev_set = new_set;
        self.prev_roots = new_roots;
    }
}

fn json_array<T: Elem>(vs: &[T]) -> serde_json::Value {
    serde_json::Value::Array(
        vs.iter()
            .map(|v| serde_json::to_value(v).expect("element serialises to JSON"))
            .collect(),
    )
}

fn par_hash<T: Elem>(c: &dyn DynColl<T>, k: usize) -> String {
    let barrier = Barrier::new(k);
    let roots: Vec<Option<Hash256>> = std::thread::scope(|s| {
        let handles: Vec<_> = (0..k)
            .map(|_| {
                s.spawn(|| {
                    barrier.wait();
                    catch_unwind(AssertUnwindSafe(|| c.root())).ok()
                })
            })
            .collect();
        handles
            .into_iter()
            .map(|h| h.join().ok().flatten())
            .collect()
    });
    if roots.iter().any(|r| r.is_none()) {
        panic!("par_hash: a hashing thread panicked");
    }
    let roots: Vec<Hash256> = roots.into_iter().flatten().collect();
    match roots.first() {
        None => "ok:-".to_string(),
        Some(first) if roots.iter().all(|r| r == first) => format!("ok:{}", hash_hex(first)),
        Some(_) => format!(
            "err:mismatch:{}",
            join(roots.iter().map(hash_hex), ",", "-")
        ),
    }
}

/// What a worker checks about a handle of its own after rebasing it on the shared independent copy.
fn rebased_ok<T: Elem>(y: &dyn DynColl<T>, before: &[T]) -> Option<String> {
    let after: Vec<T> = y.iter().cloned().collect();
    if after != before {
        Some("contents-after-rebase".to_string())
    } else if y.len() != before.len()
        || (0..before.len() + 1).any(|i| y.get(i).is_some() != (i < before.len()))
    {
        Some("reads-after-rebase".to_string())
    } else {
        None
    }
}

fn par_mix<T: Elem>(c: &dyn DynColl<T>, vs: &[T]) -> String {
    let k = vs.len();
    // Private work (never printed, only checked) happens on `twin`, an independently allocated, not yet hashed
    // collection showing what `c` shows, so that it never writes a memo into a node of a live register.
    // `base`: another independent, unhashed collection that differs from it in one element. While the workers rebase
    // clones of `twin` onto `base`, one helper thread hashes `twin` by reference and another hashes `base`.
    let (twin, base): (Option<Boxed<T>>, Option<Boxed<T>>) = if k > 0 && c.len() <= 4096 {
        let base = c.fresh_copy().and_then(|mut b| {
            let len = b.len();
            if len > 0 {
                if let Some(slot) = b.get_mut(len / 2) {
                    *slot = vs[0].clone();
                }
                b.apply().ok()?;
            }
            Some(b)
        });
        match (c.fresh_copy(), base) {
            (Some(t), Some(b)) => (Some(t), Some(b)),
            _ => (None, None),
        }
    } else {
        (None, None)
    };
    let helpers = if twin.is_some() { 2 } else { 0 };
    let barrier = Barrier::new(k + 1 + helpers);
    // (root printed for this thread, first failed self-check, root of an unmodified clone of `twin` after its rebase)
    type W = Result<(Hash256, Option<String>, Option<Hash256>), Error>;
    let (workers, own): (Vec<Option<W>>, Option<Hash256>) =
        std::thread::scope(|s| {
            let barrier = &barrier;
            let (twin, base) = (&twin, &base);
            let handles: Vec<_> = (0..k)
                .map(|j| {
                    s.spawn(move || {
                        barrier.wait();
                        catch_unwind(AssertUnwindSafe(|| -> W {
                            let mut bad = None;
                            let mut plain_root = None;
                            // Odd threads, before they hash anything: an UNMODIFIED clone of the twin (all of its nodes
                            // are shared with the twin, which a helper thread is hashing right now) is rebased on the
                            // base; it must show what it showed and hash to the root of the twin (= the root of `c`).
                            if let (Some(t), Some(b), 1) = (twin, base, j % 2) {
                                let mut y = t.clone_box();
                                let before: Vec<T> = y.iter().cloned().collect();
                                match y.rebase_on_dyn(&**b) {
                                    Some(Ok(())) => {
                                        bad = rebased_ok(&*y, &before);
                                        plain_root = Some(y.root());
                                    }
                                    Some(Err(e)) => bad = Some(format!("rebase:{:?}", e).replace(' ', "")),
                                    None => {}
                                }
                            }
                            let mut x = c.clone_box();
                            let len = x.len();
                            if len > 0 {
                                if let Some(slot) = x.get_mut(j % len) {
                                    *slot = vs[j].clone();
                                }
                                x.apply()?;
                            }
                            let r = x.root();
                            // Even threads: a clone of the twin with the same write plus a push is hashed, then rebased
                            // on the base (which a helper thread is hashing); it must show, and hash to, what it did.
                            if let (Some(t), Some(b), 0, None) = (twin, base, j % 2, &bad) {
                                let mut y = t.clone_box();
                                if len > 0 {
                                    if let Some(slot) = y.get_mut(j % len) {
                                        *slot = vs[j].clone();
                                    }
                                }
                                let _ = y.push(vs[j].clone());
                                y.apply()?;
                                let r2 = y.root();
                                let before: Vec<T> = y.iter().cloned().collect();
                                match y.rebase_on_dyn(&**b) {
                                    Some(Ok(())) => {
                                        bad = rebased_ok(&*y, &before);
                                        if bad.is_none() && y.root() != r2 {
                                            bad = Some("root-after-rebase".to_string());
                                        }
                                    }
                                    Some(Err(e)) => bad = Some(format!("rebase:{:?}", e).replace(' ', "")),
                                    None => {}
                                }
                            }
                            Ok((r, bad, plain_root))
                        }))
                        .ok()
                    })
                })
                .collect();
            let helper_handles: Vec<_> = [twin, base]
                .into_iter()
                .flatten()
                .map(|b| {
                    s.spawn(move || {
                        barrier.wait();
                        catch_unwind(AssertUnwindSafe(|| b.root())).ok()
                    })
                })
                .collect();
            barrier.wait();
            let own = catch_unwind(AssertUnwindSafe(|| c.root())).ok();
            let workers = handles
                .into_iter()
                .map(|h| h.join().ok().flatten())
                .collect();
            let helper_roots: Vec<Option<Hash256>> = helper_handles.into_iter().map(|h| h.join().ok().flatten()).collect();
            // the twin shows what `c` shows: same root; a helper that panicked counts as a panicking thread
            let ok = helper_roots.iter().all(|r| r.is_some()) && (helper_roots.is_empty() || helper_roots[0] == own);
            (workers, if ok { own } else { None })
        });
    if own.is_none() || workers.iter().any(|r| r.is_none()) {
        panic!("par_mix: a thread panicked (or the independent copy hashed differently)");
    }
    let mut mism: Vec<String> = Vec::new();
    let mut parts: Vec<String> = workers
        .into_iter()
        .flatten()
        .enumerate()
        .map(|(j, r)| match r {
            Ok((h, bad, plain_root)) => {
                if let Some(b) = bad {
                    mism.push(format!("{}:{}", j, b));
                } else if plain_root.is_some() && plain_root != own {
                    mism.push(format!("{}:root-of-rebased-unmodified-clone", j));
                }
                hash_hex(&h)
            }
            Err(e) => err(&e),
        })
        .collect();
    parts.extend(own.iter().map(hash_hex));
    if !mism.is_empty() {
        return format!("err:mismatch:private-rebase:{}", mism.join(";"));
    }
    format!("ok:{}", parts.join(","))
}

/// Element-type-generic core of `run_history`.
fn run_core<T: Elem>(
    cfg: &dyn Factory<T>,
    ops: &[String],
    out: &mut dyn Write,
) -> Result<(), String> {
    let parsed: Vec<Op<T>> = ops
        .iter()
        .map(|line| parse_op::<T>(line).map_err(|e| format!("{e} in `{line}`")))
        .collect::<Result<_, _>>()?;

    let mut st = State::<T>::new(cfg);
    let mut buf = String::new();
    for (k, op) in parsed.iter().enumerate() {
        let n = k + 1;
        buf.clear();
        crate::isolate::progress(n);
        let outcome = catch_unwind(AssertUnwindSafe(|| st.exec(op)));
        if !matches!(op, Op::Fault(_)) {
            // the countdown armed by `fault k` covers exactly the next operation
            crate::elem::FAULT.store(0, std::sync::atomic::Ordering::SeqCst);
        }
        match outcome {
            Err(_) if crate::elem::FIRED.swap(false, std::sync::atomic::Ordering::SeqCst) => {
                // an injected fault inside an element callback: the operation was abandoned by the
                // caller's catch_unwind, the collections stay in their registers and the history goes on
                let _ = writeln!(buf, "R {n} fault");
            }
            Err(_) => {
                let _ = writeln!(out, "R {n} panic");
                let _ = out.flush();
                return Ok(());
            }
            Ok(payload) => {
                let _ = writeln!(buf, "R {n} {payload}");
            }
        }
        let observed = catch_unwind(AssertUnwindSafe(|| st.observe(&mut buf)));
        let _ = out.write_all(buf.as_bytes());
        // One flush per operation: if the process dies in a later operation (abort on allocation
        // failure, kill on timeout) the trace on disk is complete up to this point.
        let _ = out.flush();
        if observed.is_err() {
            // Not part of FORMAT.md: observing the registers panicked (only possible when the
            // crate left a register in a broken state). Flag it and abandon the history.
            if !buf.ends_with('\n') {
                let _ = writeln!(out);
            }
            let _ = writeln!(out, "X observe-panic");
            return Ok(());
        }
    }
    Ok(())
}

/// Run one history (the operation lines following a `config` line) under configuration
/// `(T, N, U)` and write its trace, without the `H` line, to `out`. `Err` means the history text
/// is unparsable.
pub fn run_history<T: Elem, N: Len, U: Map<T>>(
    ops: &[String],
    out: &mut impl Write,
) -> Result<(), String> {
    run_core::<T>(&Cfg::<T, N, U>::new(), ops, out)
}
