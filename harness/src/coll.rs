//! Type-erased view of `List<T, N, U>` / `Vector<T, N, U>`.
//!
//! The driver proper (`driver.rs`) is generic over the element type only and talks to the
//! collections through `dyn DynColl<T>` and `dyn Factory<T>`. What is instantiated once per
//! configuration `(T, N, U)` is just the thin forwarding impls in this file (plus, inevitably,
//! the `N`-generic code of milhouse itself). This keeps the 432-configuration build small.

use crate::elem::{val, Elem, Map};
use milhouse::level_iter::LevelIter;
use milhouse::{Arc, Cow, Error, List, Tree, Vector};
use ssz::{Decode, Encode};
use std::any::Any;
use std::convert::TryFrom;
use std::fmt::Write as _;
use std::marker::PhantomData;
use std::ops::ControlFlow;
use tree_hash::{Hash256, TreeHash};
use typenum::Unsigned;

pub trait Len: Unsigned + Send + Sync + 'static {}
impl<N: Unsigned + Send + Sync + 'static> Len for N {}

pub type Boxed<T> = Box<dyn DynColl<T>>;

/// `None` from a method documented "List only" / "Vector only" / "same kind" means the register
/// holds the wrong collection kind (`err:badreg`).
pub trait DynColl<T: Elem>: Send + Sync {
    fn as_any(&self) -> &dyn Any;
    /// `'L'` or `'V'`.
    fn tag(&self) -> char;
    fn clone_box(&self) -> Boxed<T>;
    /// An independently allocated collection with the same contents (SSZ round trip): shares no node with `self`.
    fn fresh_copy(&self) -> Option<Boxed<T>>;
    /// Is the update map backed by a `VecMap`?
    fn vec_backed(&self) -> bool;

    // Public API, both kinds.
    fn len(&self) -> usize;
    fn is_empty(&self) -> bool;
    fn pending(&self) -> bool;
    fn get(&self, i: usize) -> Option<&T>;
    fn iter(&self) -> Box<dyn Iterator<Item = &T> + '_>;
    fn iter_from(&self, i: usize) -> Result<Box<dyn ExactSizeIterator<Item = &T> + '_>, Error>;
    fn get_mut(&mut self, i: usize) -> Option<&mut T>;
    fn get_cow(&mut self, i: usize) -> Option<Cow<'_, T>>;
    fn apply(&mut self) -> Result<(), Error>;
    fn intra(&mut self) -> Result<(), Error>;
    fn root(&self) -> Hash256;
    /// `as_ssz_bytes()` and `ssz_bytes_len()`.
    /// third component: `Some(bytes)` when `ssz_append` onto a NON-EMPTY buffer appended something else than
    /// `as_ssz_bytes()` (the encoding of a collection must not depend on where in a buffer it is written)
    fn ssz(&self) -> (Vec<u8>, usize, Option<Vec<u8>>);
    /// The static half of `Encode`: `is_ssz_fixed_len()` and `ssz_fixed_len()` of the type.
    fn ssz_static(&self) -> (bool, usize);
    fn to_json(&self) -> Option<serde_json::Value>;

    // Same kind (and same configuration, which is always the case within a history).
    fn eq_dyn(&self, other: &dyn DynColl<T>) -> Option<bool>;
    fn rebase_on_dyn(&mut self, base: &dyn DynColl<T>) -> Option<Result<(), Error>>;
    fn rebase_dyn(&self, base: &dyn DynColl<T>) -> Option<Result<Boxed<T>, Error>>;

    // List only.
    fn level_iter_from(&self, i: usize) -> Option<Result<LevelIter<'_, T>, Error>>;
    fn iter_cow(&mut self, items: &[Option<T>]) -> Option<Result<usize, Error>>;
    fn push(&mut self, v: T) -> Option<Result<(), Error>>;
    fn bulk(&mut self, pairs: &[(usize, T)]) -> Option<Result<(), Error>>;
    /// like `bulk`, but the map is filled through `get_mut_with` (`cow == false`) or `get_cow_with` + `into_mut`
    fn bulk_via(&mut self, cow: bool, pairs: &[(usize, T)]) -> Option<Result<(), Error>>;
    fn pop_front(&mut self, n: usize) -> Option<Result<(), Error>>;
    fn pop_front_slow(&mut self, n: usize) -> Option<Result<(), Error>>;
    /// `Vector::try_from(self.clone())`.
    fn to_vector(&self) -> Option<Result<Boxed<T>, Error>>;

    // Vector only.
    /// `List::from(self.clone())`.
    fn to_list(&self) -> Option<Boxed<T>>;

    // `verif` accessors.
    /// Backing tree, backing length (vector: `N`), backing depth.
    fn backing(&self) -> (&Arc<Tree<T>>, usize, usize);
    /// `upd=` and `max=` payloads of the `S` line.
    fn upd_fields(&self) -> (String, String);
}

/// `upd=` / `max=`. Generic over `(T, U)` only.
fn upd_fields<T: Elem, U: Map<T>>(u: &U) -> (String, String) {
    let mut s = String::new();
    let _: Result<(), ()> = u.for_each_range(0, usize::MAX, |i, v| {
        if !s.is_empty() {
            s.push(',');
        }
        let _ = write!(s, "{}:{}", i, val(v));
        ControlFlow::Continue(Ok(()))
    });
    if s.is_empty() {
        s.push('-');
    }
    let max = match u.max_index() {
        Some(m) => m.to_string(),
        None => "none".to_string(),
    };
    (s, max)
}

/// `let mut m = U::default(); for (i, v) { m.insert(i, v) }`. Generic over `(T, U)` only.
fn build_map<T: Elem, U: Map<T>>(pairs: &[(usize, T)]) -> U {
    let mut m = U::default();
    for (i, v) in pairs {
        m.insert(*i, v.clone());
    }
    m
}

/// The same map entered through the other two public ways of putting a value into an `UpdateMap`:
/// `get_mut_with(i, |_| Some(v))` (what `Interface::get_mut` uses) or `get_cow_with(i, |_| Some(&v))` followed by
/// `into_mut()` (what `Interface::get_cow` hands out). A later pair for the same index overwrites through the
/// returned reference, like `insert` would.
fn build_map_via<T: Elem, U: Map<T>>(cow: bool, pairs: &[(usize, T)]) -> U {
    use milhouse::cow::CowTrait;
    let mut m = U::default();
    for (i, v) in pairs {
        if cow {
            if let Some(c) = m.get_cow_with(*i, |_| Some(v)) {
                if let Ok(slot) = c.into_mut() {
                    *slot = v.clone();
                }
            }
        } else if let Some(slot) = m.get_mut_with(*i, |_| Some(v.clone())) {
            *slot = v.clone();
        }
    }
    m
}

/// Methods whose text is identical for `List` and `Vector`.
macro_rules! common_methods {
    () => {
        fn as_any(&self) -> &dyn Any {
            self
        }
        fn clone_box(&self) -> Boxed<T> {
            Box::new(self.clone())
        }
        fn fresh_copy(&self) -> Option<Boxed<T>> {
            let b: Self = Self::from_ssz_bytes(&self.as_ssz_bytes()).ok()?;
            Some(Box::new(b))
        }
        fn vec_backed(&self) -> bool {
            U::VEC_BACKED
        }
        fn len(&self) -> usize {
            Self::len(self)
        }
        fn is_empty(&self) -> bool {
            Self::is_empty(self)
        }
        fn pending(&self) -> bool {
            self.has_pending_updates()
        }
        fn get(&self, i: usize) -> Option<&T> {
            Self::get(self, i)
        }
        fn iter(&self) -> Box<dyn Iterator<Item = &T> + '_> {
            Box::new(Self::iter(self))
        }
        fn iter_from(
            &self,
            i: usize,
        ) -> Result<Box<dyn ExactSizeIterator<Item = &T> + '_>, Error> {
            Ok(Box::new(Self::iter_from(self, i)?))
        }
        fn get_mut(&mut self, i: usize) -> Option<&mut T> {
            Self::get_mut(self, i)
        }
        fn get_cow(&mut self, i: usize) -> Option<Cow<'_, T>> {
            Self::get_cow(self, i)
        }
        fn apply(&mut self) -> Result<(), Error> {
            self.apply_updates()
        }
        fn intra(&mut self) -> Result<(), Error> {
            self.intra_rebase()
        }
        fn root(&self) -> Hash256 {
            self.tree_hash_root()
        }
        fn ssz(&self) -> (Vec<u8>, usize, Option<Vec<u8>>) {
            let bytes = self.as_ssz_bytes();
            let mut buf = vec![0xa5u8; 7];
            self.ssz_append(&mut buf);
            let appended = buf[7..].to_vec();
            let bad = if buf[..7] != [0xa5u8; 7] || appended != bytes { Some(appended) } else { None };
            (bytes, self.ssz_bytes_len(), bad)
        }
        fn ssz_static(&self) -> (bool, usize) {
            (
                <Self as Encode>::is_ssz_fixed_len(),
                <Self as Encode>::ssz_fixed_len(),
            )
        }
        fn to_json(&self) -> Option<serde_json::Value> {
            // Both serializer paths must agree: the in-memory `Value` serializer (exact-size
            // hints are only capacities there) and the streaming text serializer (where a wrong
            // length hint produces malformed JSON).
            let direct = serde_json::to_value(self).ok()?;
            let text = serde_json::to_string(self).ok()?;
            let parsed: serde_json::Value = serde_json::from_str(&text).ok()?;
            if parsed == direct {
                Some(direct)
            } else {
                None
            }
        }
        fn eq_dyn(&self, other: &dyn DynColl<T>) -> Option<bool> {
            other.as_any().downcast_ref::<Self>().map(|o| self == o)
        }
        fn rebase_on_dyn(&mut self, base: &dyn DynColl<T>) -> Option<Result<(), Error>> {
            base.as_any()
                .downcast_ref::<Self>()
                .map(|b| self.rebase_on(b))
        }
        fn rebase_dyn(&self, base: &dyn DynColl<T>) -> Option<Result<Boxed<T>, Error>> {
            base.as_any()
                .downcast_ref::<Self>()
                .map(|b| self.rebase(b).map(|r| Box::new(r) as Boxed<T>))
        }
        fn upd_fields(&self) -> (String, String) {
            upd_fields::<T, U>(self.verif_updates())
        }
    };
}

impl<T: Elem, N: Len, U: Map<T>> DynColl<T> for List<T, N, U> {
    common_methods!();

    fn tag(&self) -> char {
        'L'
    }
    fn level_iter_from(&self, i: usize) -> Option<Result<LevelIter<'_, T>, Error>> {
        Some(Self::level_iter_from(self, i))
    }
    fn iter_cow(&mut self, items: &[Option<T>]) -> Option<Result<usize, Error>> {
        let mut it = Self::iter_cow(self);
        let mut count = 0usize;
        for item in items {
            if let Some((_, cow)) = it.next_cow() {
                count += 1;
                if let Some(v) = item {
                    match cow.into_mut() {
                        Ok(r) => *r = v.clone(),
                        Err(e) => return Some(Err(e)),
                    }
                }
            }
        }
        Some(Ok(count))
    }
    fn push(&mut self, v: T) -> Option<Result<(), Error>> {
        Some(Self::push(self, v))
    }
    fn bulk(&mut self, pairs: &[(usize, T)]) -> Option<Result<(), Error>> {
        Some(self.bulk_update(build_map::<T, U>(pairs)))
    }
    fn bulk_via(&mut self, cow: bool, pairs: &[(usize, T)]) -> Option<Result<(), Error>> {
        Some(self.bulk_update(build_map_via::<T, U>(cow, pairs)))
    }
    fn pop_front(&mut self, n: usize) -> Option<Result<(), Error>> {
        Some(Self::pop_front(self, n))
    }
    fn pop_front_slow(&mut self, n: usize) -> Option<Result<(), Error>> {
        Some(Self::pop_front_slow(self, n))
    }
    fn to_vector(&self) -> Option<Result<Boxed<T>, Error>> {
        Some(Vector::<T, N, U>::try_from(self.clone()).map(|v| Box::new(v) as Boxed<T>))
    }
    fn to_list(&self) -> Option<Boxed<T>> {
        None
    }
    fn backing(&self) -> (&Arc<Tree<T>>, usize, usize) {
        self.verif_backing()
    }
}

impl<T: Elem, N: Len, U: Map<T>> DynColl<T> for Vector<T, N, U> {
    common_methods!();

    fn tag(&self) -> char {
        'V'
    }
    fn level_iter_from(&self, _: usize) -> Option<Result<LevelIter<'_, T>, Error>> {
        None
    }
    fn iter_cow(&mut self, _: &[Option<T>]) -> Option<Result<usize, Error>> {
        None
    }
    fn push(&mut self, _: T) -> Option<Result<(), Error>> {
        None
    }
    fn bulk(&mut self, _: &[(usize, T)]) -> Option<Result<(), Error>> {
        None
    }
    fn bulk_via(&mut self, _: bool, _: &[(usize, T)]) -> Option<Result<(), Error>> {
        None
    }
    fn pop_front(&mut self, _: usize) -> Option<Result<(), Error>> {
        None
    }
    fn pop_front_slow(&mut self, _: usize) -> Option<Result<(), Error>> {
        None
    }
    fn to_vector(&self) -> Option<Result<Boxed<T>, Error>> {
        None
    }
    fn to_list(&self) -> Option<Boxed<T>> {
        Some(Box::new(List::<T, N, U>::from(self.clone())))
    }
    fn backing(&self) -> (&Arc<Tree<T>>, usize, usize) {
        let (tree, depth) = self.verif_backing();
        (tree, N::to_usize(), depth)
    }
}

/// The constructors of one configuration.
pub trait Factory<T: Elem> {
    fn new_list(&self, vs: Vec<T>) -> Result<Boxed<T>, Error>;
    fn new_vec(&self, vs: Vec<T>) -> Result<Boxed<T>, Error>;
    fn list_slow(&self, vs: Vec<T>) -> Result<Boxed<T>, Error>;
    fn vec_iter(&self, vs: Vec<T>) -> Result<Boxed<T>, Error>;
    fn empty(&self) -> Boxed<T>;
    fn repeat(&self, v: T, n: usize) -> Result<Boxed<T>, Error>;
    fn repeat_slow(&self, v: T, n: usize) -> Result<Boxed<T>, Error>;
    fn from_elem(&self, v: T) -> Result<Boxed<T>, Error>;
    fn default_vec(&self) -> Boxed<T>;
    /// `None` = decode error.
    fn ssz_list(&self, bytes: &[u8]) -> Option<Boxed<T>>;
    fn ssz_vec(&self, bytes: &[u8]) -> Option<Boxed<T>>;
    /// `None` = serde error.
    fn serde_list(&self, json: serde_json::Value) -> Option<Boxed<T>>;
    fn serde_vec(&self, json: serde_json::Value) -> Option<Boxed<T>>;
}

pub struct Cfg<T, N, U>(PhantomData<(T, N, U)>);

impl<T, N, U> Cfg<T, N, U> {
    pub fn new() -> Self {
        Cfg(PhantomData)
    }
}

fn bl<T: Elem, N: Len, U: Map<T>>(l: List<T, N, U>) -> Boxed<T> {
    Box::new(l)
}

fn bv<T: Elem, N: Len, U: Map<T>>(v: Vector<T, N, U>) -> Boxed<T> {
    Box::new(v)
}

impl<T: Elem, N: Len, U: Map<T>> Factory<T> for Cfg<T, N, U> {
    fn new_list(&self, vs: Vec<T>) -> Result<Boxed<T>, Error> {
        List::<T, N, U>::new(vs).map(bl)
    }
    fn new_vec(&self, vs: Vec<T>) -> Result<Boxed<T>, Error> {
        Vector::<T, N, U>::new(vs).map(bv)
    }
    fn list_slow(&self, vs: Vec<T>) -> Result<Boxed<T>, Error> {
        List::<T, N, U>::try_from_iter_slow(vs).map(bl)
    }
    fn vec_iter(&self, vs: Vec<T>) -> Result<Boxed<T>, Error> {
        Vector::<T, N, U>::try_from_iter(vs).map(bv)
    }
    fn empty(&self) -> Boxed<T> {
        bl(List::<T, N, U>::empty())
    }
    fn repeat(&self, v: T, n: usize) -> Result<Boxed<T>, Error> {
        List::<T, N, U>::repeat(v, n).map(bl)
    }
    fn repeat_slow(&self, v: T, n: usize) -> Result<Boxed<T>, Error> {
        List::<T, N, U>::repeat_slow(v, n).map(bl)
    }
    fn from_elem(&self, v: T) -> Result<Boxed<T>, Error> {
        Vector::<T, N, U>::from_elem(v).map(bv)
    }
    fn default_vec(&self) -> Boxed<T> {
        bv(Vector::<T, N, U>::default())
    }
    fn ssz_list(&self, bytes: &[u8]) -> Option<Boxed<T>> {
        List::<T, N, U>::from_ssz_bytes(bytes).ok().map(bl)
    }
    fn ssz_vec(&self, bytes: &[u8]) -> Option<Boxed<T>> {
        Vector::<T, N, U>::from_ssz_bytes(bytes).ok().map(bv)
    }
    fn serde_list(&self, json: serde_json::Value) -> Option<Boxed<T>> {
        // deserialize both from the in-memory value and from its text form; they must agree
        let text = serde_json::to_string(&json).ok()?;
        let a = serde_json::from_value::<List<T, N, U>>(json).ok();
        let b = serde_json::from_str::<List<T, N, U>>(&text).ok();
        match (a, b) {
            (Some(x), Some(y)) if x == y => Some(bl(x)),
            (None, None) => None,
            _ => panic!("serde: value and text deserializers disagree"),
        }
    }
    fn serde_vec(&self, json: serde_json::Value) -> Option<Boxed<T>> {
        let text = serde_json::to_string(&json).ok()?;
        let a = serde_json::from_value::<Vector<T, N, U>>(json).ok();
        let b = serde_json::from_str::<Vector<T, N, U>>(&text).ok();
        match (a, b) {
            (Some(x), Some(y)) if x == y => Some(bv(x)),
            (None, None) => None,
            _ => panic!("serde: value and text deserializers disagree"),
        }
    }
}
