//! Operation syntax. Generic over the element type only.

use crate::elem::{parse_hex, parse_int, parse_reg, parse_val, parse_vals, Elem};

pub enum Op<T> {
    NewList(usize, Vec<T>),
    NewVec(usize, Vec<T>),
    ListSlow(usize, Vec<T>),
    VecIter(usize, Vec<T>),
    Empty(usize),
    Repeat(usize, T, usize),
    RepeatSlow(usize, T, usize),
    FromElem(usize, T),
    DefaultVec(usize),
    SszList(usize, Vec<u8>),
    SszVec(usize, Vec<u8>),
    SerdeList(usize, Vec<T>),
    SerdeVec(usize, Vec<T>),
    Get(usize, usize),
    Len(usize),
    IterFrom(usize, usize),
    LevelIter(usize, usize),
    Eq(usize, usize),
    SszEnc(usize),
    SerdeSer(usize),
    Set(usize, usize, T),
    Touch(usize, usize),
    CowRead(usize, usize),
    CowInto(usize, usize, T),
    CowMake(usize, usize, T),
    CowMake2(usize, usize, T, T),
    /// `None` = `_` (ignore the result), `Some(v)` = write `v` through `into_mut`.
    IterCow(usize, Vec<Option<T>>),
    Push(usize, T),
    Bulk(usize, Vec<(usize, T)>),
    BulkVia(usize, bool, Vec<(usize, T)>),
    Apply(usize),
    PopFront(usize, usize),
    PopFrontSlow(usize, usize),
    Clone(usize, usize),
    ToVector(usize, usize),
    ToList(usize, usize),
    RebaseOn(usize, usize),
    Rebase(usize, usize, usize),
    Intra(usize),
    Hash(usize),
    Drop(usize),
    BNew(usize, usize),
    BPush(T),
    /// Path from the root: `false` = `L`, `true` = `R`.
    BPushNode(usize, Vec<bool>),
    BFinish,
    ParHash(usize, usize),
    ParMix(usize, Vec<T>),
    /// Arm the fault countdown of the `fu64` kind (a no-op for every other kind).
    Fault(usize),
}

fn arity(name: &str) -> Option<usize> {
    Some(match name {
        "b_finish" => 0,
        "empty" | "default_vec" | "len" | "ssz_enc" | "serde_ser" | "apply" | "intra" | "hash"
        | "drop" | "b_push" | "fault" => 1,
        "new_list" | "new_vec" | "list_slow" | "vec_iter" | "from_elem" | "ssz_list"
        | "ssz_vec" | "serde_list" | "serde_vec" | "get" | "iter_from" | "level_iter" | "eq"
        | "touch" | "cow_read" | "iter_cow" | "push" | "bulk" | "pop_front"
        | "pop_front_slow" | "clone" | "to_vector" | "to_list" | "rebase_on" | "b_new"
        | "b_push_node" | "par_hash" | "par_mix" => 2,
        "repeat" | "repeat_slow" | "set" | "cow_into" | "cow_make" | "rebase" | "bulk_via" => 3,
        "cow_make2" => 4,
        _ => return None,
    })
}

pub fn parse_op<T: Elem>(line: &str) -> Result<Op<T>, String> {
    let mut it = line.split_whitespace();
    let name = it.next().ok_or_else(|| "empty operation".to_string())?;
    let a: Vec<&str> = it.collect();
    let want = arity(name).ok_or_else(|| format!("unknown operation `{name}`"))?;
    if a.len() != want {
        return Err(format!(
            "operation `{name}` takes {want} argument(s), got {}",
            a.len()
        ));
    }
    let reg = |i: usize| parse_reg(a[i]);
    let int = |i: usize| parse_int(a[i]);
    let v = |i: usize| parse_val::<T>(a[i]);
    let vs = |i: usize| parse_vals::<T>(a[i]);
    Ok(match name {
        "new_list" => Op::NewList(reg(0)?, vs(1)?),
        "new_vec" => Op::NewVec(reg(0)?, vs(1)?),
        "list_slow" => Op::ListSlow(reg(0)?, vs(1)?),
        "vec_iter" => Op::VecIter(reg(0)?, vs(1)?),
        "empty" => Op::Empty(reg(0)?),
        "repeat" => Op::Repeat(reg(0)?, v(1)?, int(2)?),
        "repeat_slow" => Op::RepeatSlow(reg(0)?, v(1)?, int(2)?),
        "from_elem" => Op::FromElem(reg(0)?, v(1)?),
        "default_vec" => Op::DefaultVec(reg(0)?),
        "ssz_list" => Op::SszList(reg(0)?, parse_hex(a[1])?),
        "ssz_vec" => Op::SszVec(reg(0)?, parse_hex(a[1])?),
        "serde_list" => Op::SerdeList(reg(0)?, vs(1)?),
        "serde_vec" => Op::SerdeVec(reg(0)?, vs(1)?),
        "get" => Op::Get(reg(0)?, int(1)?),
        "len" => Op::Len(reg(0)?),
        "iter_from" => Op::IterFrom(reg(0)?, int(1)?),
        "level_iter" => Op::LevelIter(reg(0)?, int(1)?),
        "eq" => Op::Eq(reg(0)?, reg(1)?),
        "ssz_enc" => Op::SszEnc(reg(0)?),
        "serde_ser" => Op::SerdeSer(reg(0)?),
        "set" => Op::Set(reg(0)?, int(1)?, v(2)?),
        "touch" => Op::Touch(reg(0)?, int(1)?),
        "cow_read" => Op::CowRead(reg(0)?, int(1)?),
        "cow_into" => Op::CowInto(reg(0)?, int(1)?, v(2)?),
        "cow_make" => Op::CowMake(reg(0)?, int(1)?, v(2)?),
        "cow_make2" => Op::CowMake2(reg(0)?, int(1)?, v(2)?, v(3)?),
        "iter_cow" => {
            let items = if a[1] == "-" {
                vec![]
            } else {
                a[1].split(',')
                    .map(|s| {
                        if s == "_" {
                            Ok(None)
                        } else {
                            parse_val::<T>(s).map(Some)
                        }
                    })
                    .collect::<Result<Vec<_>, String>>()?
            };
            Op::IterCow(reg(0)?, items)
        }
        "push" => Op::Push(reg(0)?, v(1)?),
        "bulk" => {
            let pairs = if a[1] == "-" {
                vec![]
            } else {
                a[1].split(',')
                    .map(|s| {
                        let (i, x) = s
                            .split_once(':')
                            .ok_or_else(|| format!("bad pair `{s}` (want i:V)"))?;
                        Ok((parse_int(i)?, parse_val::<T>(x)?))
                    })
                    .collect::<Result<Vec<_>, String>>()?
            };
            Op::Bulk(reg(0)?, pairs)
        }
        "bulk_via" => {
            let cow = match a[1] {
                "mut" => false,
                "cow" => true,
                other => return Err(format!("bad bulk_via mode `{other}`")),
            };
            let pairs = if a[2] == "-" {
                vec![]
            } else {
                a[2].split(',')
                    .map(|s| {
                        let (i, x) = s
                            .split_once(':')
                            .ok_or_else(|| format!("bad pair `{s}` (want i:V)"))?;
                        Ok((parse_int(i)?, parse_val::<T>(x)?))
                    })
                    .collect::<Result<Vec<_>, String>>()?
            };
            Op::BulkVia(reg(0)?, cow, pairs)
        }
        "apply" => Op::Apply(reg(0)?),
        "pop_front" => Op::PopFront(reg(0)?, int(1)?),
        "pop_front_slow" => Op::PopFrontSlow(reg(0)?, int(1)?),
        "clone" => Op::Clone(reg(0)?, reg(1)?),
        "to_vector" => Op::ToVector(reg(0)?, reg(1)?),
        "to_list" => Op::ToList(reg(0)?, reg(1)?),
        "rebase_on" => Op::RebaseOn(reg(0)?, reg(1)?),
        "rebase" => Op::Rebase(reg(0)?, reg(1)?, reg(2)?),
        "intra" => Op::Intra(reg(0)?),
        "hash" => Op::Hash(reg(0)?),
        "drop" => Op::Drop(reg(0)?),
        "b_new" => Op::BNew(int(0)?, int(1)?),
        "b_push" => Op::BPush(v(0)?),
        "b_push_node" => {
            let path = if a[1] == "." {
                vec![]
            } else {
                a[1].chars()
                    .map(|c| match c {
                        'L' => Ok(false),
                        'R' => Ok(true),
                        _ => Err(format!("bad path `{}`", a[1])),
                    })
                    .collect::<Result<Vec<_>, String>>()?
            };
            Op::BPushNode(reg(0)?, path)
        }
        "b_finish" => Op::BFinish,
        "par_hash" => Op::ParHash(reg(0)?, int(1)?),
        "par_mix" => Op::ParMix(reg(0)?, vs(1)?),
        "fault" => Op::Fault(int(0)?),
        _ => unreachable!("arity() knows every operation"),
    })
}
