//! `harness <history-file>`: run histories (docs/FORMAT.md) on the real milhouse crate and print
//! the trace on stdout.

mod configs;
mod driver;
mod elem;
mod obs;
mod ops;

use std::io::Write;
use std::process::exit;

struct History {
    kind: String,
    n: u64,
    map: String,
    ops: Vec<String>,
}

fn parse_file(text: &str) -> Result<Vec<History>, String> {
    let mut histories: Vec<History> = Vec::new();
    for (lineno, raw) in text.lines().enumerate() {
        // Whole-line comments are what FORMAT.md specifies; a trailing `# ...` is stripped too
        // (no token of the language contains `#`).
        let line = raw.split('#').next().unwrap_or("").trim();
        if line.is_empty() {
            continue;
        }
        let mut toks = line.split_whitespace();
        if toks.next() == Some("config") {
            let rest: Vec<&str> = toks.collect();
            if rest.len() != 3 {
                return Err(format!(
                    "line {}: `config` takes <kind> <N> <map>",
                    lineno + 1
                ));
            }
            let n = elem::parse_int(rest[1]).map_err(|e| format!("line {}: {e}", lineno + 1))?;
            histories.push(History {
                kind: rest[0].to_string(),
                n: n as u64,
                map: rest[2].to_string(),
                ops: Vec::new(),
            });
        } else {
            match histories.last_mut() {
                Some(h) => h.ops.push(line.to_string()),
                None => {
                    return Err(format!(
                        "line {}: operation before the first `config`",
                        lineno + 1
                    ))
                }
            }
        }
    }
    Ok(histories)
}

fn main() {
    let args: Vec<String> = std::env::args().collect();
    if args.len() != 2 {
        eprintln!("usage: harness <history-file>");
        exit(2);
    }
    let text = match std::fs::read_to_string(&args[1]) {
        Ok(t) => t,
        Err(e) => {
            eprintln!("harness: cannot read {}: {e}", args[1]);
            exit(2);
        }
    };
    let histories = match parse_file(&text) {
        Ok(h) => h,
        Err(e) => {
            eprintln!("harness: unparsable input: {e}");
            exit(2);
        }
    };

    // Panics inside operations are outcomes; keep them off stderr/stdout.
    std::panic::set_hook(Box::new(|_| {}));

    let stdout = std::io::stdout();
    let mut out: configs::Out = std::io::BufWriter::new(stdout.lock());

    for (idx, h) in histories.iter().enumerate() {
        let header = |out: &mut configs::Out| {
            let _ = writeln!(out, "H {idx} {} {} {}", h.kind, h.n, h.map);
        };
        match configs::dispatch(&h.kind, h.n, &h.map, &h.ops, &mut out, &header) {
            None => {
                let _ = writeln!(out, "H {idx} unsupported");
            }
            Some(Ok(())) => {}
            Some(Err(e)) => {
                let _ = out.flush();
                eprintln!("harness: unparsable input: history {idx}: {e}");
                exit(2);
            }
        }
        // One flush per history: if the process is ever killed (e.g. an allocation failure
        // aborts), the traces of all earlier histories are still complete.
        let _ = out.flush();
    }
    let _ = out.flush();
}
