//! `harness <history-file>`: run histories (docs/FORMAT.md) on the real milhouse crate and print
//! the trace on stdout.
//!
//! Extras (see README.md): `--isolate [--timeout=S] [--mem-mb=M]` runs every history in a forked
//! child so that aborts / OOM / endless loops cost one history, not the whole run;
//! `--selfcheck` compares a few roots against `ssz_types`.

mod coll;
mod configs;
mod driver;
mod elem;
mod isolate;
mod obs;
mod ops;
mod selfcheck;

use std::io::Write;
use std::process::exit;

pub struct History {
    pub kind: String,
    pub n: u64,
    pub map: String,
    pub ops: Vec<String>,
}

fn parse_file(text: &str) -> Result<Vec<History>, String> {
    let mut histories: Vec<History> = Vec::new();
    for (lineno, raw) in text.lines().enumerate() {
        // Whole-line comments are what FORMAT.md specifies; a trailing `# ...` is stripped too
        // (no token of the language contains `#`).
        let line = raw.split('#').next().unwrap_or("").trim();
        if line.is_empty() {
            continue;
        }
        let mut toks = line.split_whitespace();
        if toks.next() == Some("config") {
            let rest: Vec<&str> = toks.collect();
            if rest.len() != 3 {
                return Err(format!(
                    "line {}: `config` takes <kind> <N> <map>",
                    lineno + 1
                ));
            }
            let n = elem::parse_int(rest[1]).map_err(|e| format!("line {}: {e}", lineno + 1))?;
            histories.push(History {
                kind: rest[0].to_string(),
                n: n as u64,
                map: rest[2].to_string(),
                ops: Vec::new(),
            });
        } else {
            match histories.last_mut() {
                Some(h) => h.ops.push(line.to_string()),
                None => {
                    return Err(format!(
                        "line {}: operation before the first `config`",
                        lineno + 1
                    ))
                }
            }
        }
    }
    Ok(histories)
}

/// Run history `idx` in this process. `Err` = unparsable history text.
pub fn run_one(idx: usize, h: &History, out: &mut configs::Out) -> Result<(), String> {
    let header = |out: &mut configs::Out| {
        let _ = writeln!(out, "H {idx} {} {} {}", h.kind, h.n, h.map);
    };
    let r = match configs::dispatch(&h.kind, h.n, &h.map, &h.ops, out, &header) {
        None => {
            let _ = writeln!(out, "H {idx} unsupported");
            Ok(())
        }
        Some(r) => r.map_err(|e| format!("history {idx}: {e}")),
    };
    let _ = out.flush();
    r
}

fn usage() -> ! {
    eprintln!("usage: harness [--isolate [--timeout=SECS] [--mem-mb=MB]] <history-file>");
    eprintln!("       harness --selfcheck");
    exit(2);
}

fn main() {
    let mut isolate = false;
    let mut limits = isolate::Limits {
        timeout_secs: 60,
        mem_mb: 8192,
    };
    let mut file: Option<String> = None;
    for arg in std::env::args().skip(1) {
        if arg == "--selfcheck" {
            exit(selfcheck::run());
        } else if arg == "--isolate" {
            isolate = true;
        } else if let Some(v) = arg.strip_prefix("--timeout=") {
            limits.timeout_secs = v.parse().unwrap_or_else(|_| usage());
        } else if let Some(v) = arg.strip_prefix("--mem-mb=") {
            limits.mem_mb = v.parse().unwrap_or_else(|_| usage());
        } else if arg.starts_with("--") || file.is_some() {
            usage();
        } else {
            file = Some(arg);
        }
    }
    let Some(file) = file else { usage() };

    let text = match std::fs::read_to_string(&file) {
        Ok(t) => t,
        Err(e) => {
            eprintln!("harness: cannot read {file}: {e}");
            exit(2);
        }
    };
    let histories = match parse_file(&text) {
        Ok(h) => h,
        Err(e) => {
            eprintln!("harness: unparsable input: {e}");
            exit(2);
        }
    };

    // Panics inside operations are outcomes; keep them off stderr/stdout.
    std::panic::set_hook(Box::new(|_| {}));

    let stdout = std::io::stdout();
    let mut out: configs::Out = std::io::BufWriter::new(stdout.lock());

    for (idx, h) in histories.iter().enumerate() {
        let r = if isolate {
            isolate::run_isolated(idx, h, &mut out, &limits)
        } else {
            run_one(idx, h, &mut out)
        };
        if let Err(e) = r {
            let _ = out.flush();
            eprintln!("harness: unparsable input: {e}");
            exit(2);
        }
    }
    let _ = out.flush();
}
