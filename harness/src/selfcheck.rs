//! `harness --selfcheck`: compare a few milhouse roots / encodings with `ssz_types`.

use crate::elem::{Pair, Var};
use milhouse::{List, Vector};
use ssz::Encode;
use ssz_types::{FixedVector, VariableList};
use tree_hash::{Hash256, TreeHash};
use typenum::{U1099511627776, U3, U4, U5, U8};

fn check(name: &str, ok: bool, failures: &mut u32) {
    println!("{} {name}", if ok { "ok  " } else { "FAIL" });
    if !ok {
        *failures += 1;
    }
}

pub fn run() -> i32 {
    let mut failures = 0;

    let v = vec![1u64, 2];
    check(
        "u64 8 list root [1,2]",
        List::<u64, U8>::new(v.clone()).unwrap().tree_hash_root()
            == VariableList::<u64, U8>::from(v.clone()).tree_hash_root(),
        &mut failures,
    );
    check(
        "u64 2^40 list root [1,2]",
        List::<u64, U1099511627776>::new(v.clone())
            .unwrap()
            .tree_hash_root()
            == VariableList::<u64, U1099511627776>::from(v.clone()).tree_hash_root(),
        &mut failures,
    );
    check(
        "u64 8 list ssz [1,2]",
        List::<u64, U8>::new(v.clone()).unwrap().as_ssz_bytes()
            == VariableList::<u64, U8>::from(v).as_ssz_bytes(),
        &mut failures,
    );

    let hs: Vec<Hash256> = (1u8..=3).map(|i| Hash256::repeat_byte(i)).collect();
    check(
        "h256 5 list root",
        List::<Hash256, U5>::new(hs.clone())
            .unwrap()
            .tree_hash_root()
            == VariableList::<Hash256, U5>::from(hs).tree_hash_root(),
        &mut failures,
    );

    let bs = vec![1u8, 2, 3];
    check(
        "u8 3 vector root",
        Vector::<u8, U3>::new(bs.clone()).unwrap().tree_hash_root()
            == FixedVector::<u8, U3>::from(bs.clone()).tree_hash_root(),
        &mut failures,
    );
    check(
        "u8 3 vector ssz",
        Vector::<u8, U3>::new(bs.clone()).unwrap().as_ssz_bytes()
            == FixedVector::<u8, U3>::from(bs).as_ssz_bytes(),
        &mut failures,
    );

    let vs: Vec<Var> = vec![
        Var::from(vec![]),
        Var::from(vec![1]),
        Var::from(vec![1, 2]),
        Var::from(vec![1, 2, 3, 4]),
    ];
    check(
        "var 4 list root",
        List::<Var, U4>::new(vs.clone()).unwrap().tree_hash_root()
            == VariableList::<Var, U4>::from(vs.clone()).tree_hash_root(),
        &mut failures,
    );
    check(
        "var 4 list ssz",
        List::<Var, U4>::new(vs.clone()).unwrap().as_ssz_bytes()
            == VariableList::<Var, U4>::from(vs.clone()).as_ssz_bytes(),
        &mut failures,
    );
    check(
        "var 4 vector root",
        Vector::<Var, U4>::new(vs.clone()).unwrap().tree_hash_root()
            == FixedVector::<Var, U4>::from(vs).tree_hash_root(),
        &mut failures,
    );

    let ps = vec![Pair { a: 1, b: 2 }, Pair { a: 3, b: 4 }];
    check(
        "pair 4 list root",
        List::<Pair, U4>::new(ps.clone()).unwrap().tree_hash_root()
            == VariableList::<Pair, U4>::from(ps.clone()).tree_hash_root(),
        &mut failures,
    );
    check(
        "pair 4 list ssz",
        List::<Pair, U4>::new(ps.clone()).unwrap().as_ssz_bytes()
            == VariableList::<Pair, U4>::from(ps).as_ssz_bytes(),
        &mut failures,
    );

    if failures == 0 {
        0
    } else {
        1
    }
}
