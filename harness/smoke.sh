#!/usr/bin/env bash
# Build the harness (offline) and run the smoke history; the trace goes to stdout.
#   ./smoke.sh            full trace
#   ./smoke.sh --brief    only the H and R lines
set -euo pipefail
here="$(cd "$(dirname "${BASH_SOURCE[0]}")" && pwd)"
export CARGO_TARGET_DIR="${CARGO_TARGET_DIR:-/verif/build/cargo-target}"
export CARGO_NET_OFFLINE=true
mkdir -p "$CARGO_TARGET_DIR"
[ -f "$here/Cargo.lock" ] || cp /repo/Cargo.lock "$here/Cargo.lock"

(cd "$here" && cargo build --release --offline --quiet 2>/dev/null) \
  || (cd "$here" && cargo build --release --offline)   # on failure, rerun loudly

bin="$CARGO_TARGET_DIR/release/harness"
"$bin" --selfcheck >&2
if [ "${1:-}" = "--brief" ]; then
  "$bin" "$here/smoke.hist" | grep -E '^(H|R) '
else
  "$bin" "$here/smoke.hist"
fi
