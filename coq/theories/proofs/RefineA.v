(* RefineA.v — the per-operation refinement lemmas (statement shape `SysInv st s a -> refines s a o st`
   of SysInv.v) for the constructors, the writes and the register operations:
     ONewList ONewVec OListSlow OVecIter OEmpty ORepeat ORepeatSlow OFromElem ODefaultVec
     OSet OCowInto OCowMake OCowMake2 OTouch OIterCow OPush OBulk
     OApply OPopFront OPopFrontSlow OClone OToVector OToList ODrop.
   Proof file; no model code.  Section context: ek M H capN vec_based uinv valid,
   EKW : ek_wf ek, UL : umap_lawful ek M uinv, CAP : capacity_ok capN. *)
From Coq Require Import FMapPositive.
From MH Require Import Inv IfaceP IterP IntraP WulP RepeatP CollCtorP CollObsP SysInv RefineBase.
Local Open Scope N_scope.

(* ---------- allocation-only programs (so that try_ catches all their failures) ---------- *)
Ltac alloc_step :=
  match goal with
  | |- allocp (bind _ _) => apply allocp_bind; [|intro]
  | |- allocp (Ret _) => exact I
  | |- allocp (Fail _) => exact I
  | |- allocp (Crash _) => exact I
  | |- allocp fresh => intro; exact I
  | |- allocp (Fresh _) => cbn [allocp]; intro
  | |- allocp (lift_opt _ _) => unfold lift_opt
  | |- allocp (if ?c then _ else _) => destruct c
  | |- allocp (match ?x with _ => _ end) => destruct x
  | |- allocp (let '(_, _) := ?x in _) => destruct x
  end.

Lemma allocp_of_outcome {A} (o : outcome A) : allocp (of_outcome o).
Proof. destruct o; exact I. Qed.
Lemma allocp_fail_to_panic {A} (m : prog A) : allocp m -> allocp (fail_to_panic m).
Proof.
  induction m as [A a|A e|A c|A k IH|A i k IH|A i d k IH|A p IHp q IHq k IHk|A t k IH]; cbn [allocp fail_to_panic]; intros Hm; auto.
Qed.

Section Alloc.
  Context {T U : Type}.
  Variable ek : ekind T.
  Variable M : umap_impl T U.
  Variable capN : N.
  Notation tree := (tree T).
  Notation handle := (handle T U).

  Lemma allocp_insert_mut (vs : list T) i v : allocp (insert_mut vs i v).
  Proof. unfold insert_mut. repeat alloc_step. Qed.
  Lemma allocp_insert_all kvs : forall vs : list T, allocp (insert_all ek vs kvs).
  Proof.
    induction kvs as [|[k v] r IH]; intros vs; cbn [insert_all]; [exact I|].
    apply allocp_bind; [apply allocp_insert_mut|]. intros vs'. apply IH.
  Qed.
  Lemma allocp_packed_update vs p u : allocp (packed_update ek M vs p u).
  Proof. unfold packed_update. apply allocp_insert_all. Qed.

  Lemma allocp_wul : forall depth (t : tree) u prefix, allocp (with_updated_leaves ek M depth t u prefix).
  Proof.
    induction depth as [|nd IH]; intros t u prefix; destruct t as [i v|i vs|i l r|i z]; cbn [with_updated_leaves]; cbv zeta;
      repeat first [apply IH | apply allocp_packed_update | alloc_step].
  Qed.

  Lemma allocp_apply_updates (h : handle) : allocp (apply_updates ek M capN h).
  Proof.
    unfold apply_updates. cbv zeta.
    repeat first [apply allocp_try, allocp_wul | alloc_step].
  Qed.
  Lemma allocp_apply_q (h : handle) : allocp (apply_q ek M capN h).
  Proof. unfold apply_q. apply allocp_bind; [apply allocp_apply_updates|]. intros [e h']. destruct e; exact I. Qed.

  Lemma allocp_validate_push (h : handle) n : allocp (validate_push capN h n).
  Proof. unfold validate_push. repeat alloc_step. Qed.
  Lemma allocp_iface_push (h : handle) v : allocp (iface_push M capN h v).
  Proof. unfold iface_push. cbv zeta. apply allocp_bind; [apply allocp_validate_push|]. intros _. exact I. Qed.
  Lemma allocp_push_all_iface vs : forall h : handle, allocp (push_all_iface M capN h vs).
  Proof.
    induction vs as [|v r IH]; intros h; cbn [push_all_iface]; [exact I|].
    apply allocp_bind; [apply allocp_iface_push|]. intros h'. apply IH.
  Qed.
  Lemma allocp_list_slow vs : allocp (list_try_from_iter_slow ek M capN vs).
  Proof.
    unfold list_try_from_iter_slow. apply allocp_bind; [apply allocp_list_empty|]. intros h.
    apply allocp_bind; [apply allocp_push_all_iface|]. intros h'. apply allocp_apply_q.
  Qed.
  Lemma allocp_bulk_walk kvs : forall (h : handle) e, allocp (bulk_walk capN kvs h e).
  Proof.
    induction kvs as [|[k v] r IH]; intros h e; cbn [bulk_walk]; [exact I|].
    destruct (negb (k =? e)); [exact I|]. apply allocp_bind; [apply allocp_validate_push|]. intros _. apply IH.
  Qed.
  Lemma allocp_bulk (h : handle) u : allocp (iface_bulk_update M capN h u).
  Proof.
    unfold iface_bulk_update. destruct (negb (uis_empty M (hupd h))); [exact I|].
    destruct (umax_index M u) as [m|]; [|exact I]. cbv zeta.
    apply allocp_bind; [apply allocp_bulk_walk|]. intros e. destruct (_ && _); exact I.
  Qed.

  Lemma allocp_vector_try_from (h : handle) : allocp (vector_try_from ek M capN h).
  Proof.
    unfold vector_try_from. destruct (iface_len M h =? capN); [|exact I].
    apply allocp_bind; [|intros l'; exact I]. destruct (negb _); [apply allocp_apply_q|exact I].
  Qed.
  Lemma allocp_vector_new vs : allocp (vector_new ek M capN vs).
  Proof.
    unfold vector_new. destruct (lenN vs =? capN); [|exact I].
    apply allocp_bind; [apply allocp_list_try_from_iter|]. intros l. apply allocp_vector_try_from.
  Qed.
  Lemma allocp_vector_try_from_iter vs : allocp (vector_try_from_iter ek M capN vs).
  Proof.
    unfold vector_try_from_iter.
    apply allocp_bind; [apply allocp_list_try_from_iter|]. intros l. apply allocp_vector_try_from.
  Qed.

  Lemma allocp_mk_node (l r : tree) : allocp (mk_node l r).
  Proof. unfold mk_node. repeat alloc_step. Qed.
  Lemma allocp_mk_zero d : allocp (@mk_zero T d).
  Proof. unfold mk_zero. repeat alloc_step. Qed.
  Lemma allocp_repeat_step d (ly : @layer T) : allocp (repeat_step d ly).
  Proof.
    unfold repeat_step.
    repeat first [ match goal with
                   | |- allocp (mk_node _ _) => apply allocp_mk_node
                   | |- allocp (mk_zero _) => apply allocp_mk_zero
                   end
                 | alloc_step ].
  Qed.
  Lemma allocp_repeat_layers todo : forall d (ly : @layer T), allocp (repeat_layers todo d ly).
  Proof.
    induction todo as [|t IH]; intros d ly; cbn [repeat_layers]; [exact I|].
    apply allocp_bind; [apply allocp_repeat_step|]. intros ly'. apply IH.
  Qed.
  Lemma allocp_packed_repeat v n : allocp (packed_repeat ek v n).
  Proof. unfold packed_repeat. repeat alloc_step. Qed.
  Lemma allocp_repeat_tree d v n : allocp (repeat_tree ek capN d v n).
  Proof.
    unfold repeat_tree. destruct (capN <? n); [exact I|].
    apply allocp_bind.
    - destruct (is_packed ek); cbv zeta; repeat first [ match goal with |- allocp (packed_repeat _ _ _) => apply allocp_packed_repeat end | alloc_step ].
    - intros ly0. apply allocp_bind; [apply allocp_repeat_layers|]. intros ly.
      destruct (rev ly) as [|[root c] rest]; [exact I|]. destruct (_ || _); exact I.
  Qed.
  Lemma allocp_list_repeat v n : allocp (list_repeat ek M capN v n).
  Proof.
    unfold list_repeat. destruct (n =? 0); [apply allocp_list_empty|].
    apply allocp_bind; [apply allocp_repeat_tree|]. intros root. exact I.
  Qed.
  Lemma allocp_list_repeat_slow v n : allocp (list_repeat_slow ek M capN v n).
  Proof. unfold list_repeat_slow. cbv zeta. apply allocp_list_try_from_iter. Qed.
  Lemma allocp_vector_from_elem v : allocp (vector_from_elem ek M capN v).
  Proof.
    unfold vector_from_elem. apply allocp_bind; [apply allocp_list_repeat|]. intros l. apply allocp_vector_try_from.
  Qed.
  Lemma allocp_vector_default : allocp (vector_default ek M capN).
  Proof. unfold vector_default. apply allocp_fail_to_panic, allocp_vector_from_elem. Qed.
  Lemma allocp_coll_iter_from (h : handle) n : allocp (coll_iter_from ek M h n).
  Proof. unfold coll_iter_from. destruct (_ <? _); [exact I|apply allocp_of_outcome]. Qed.
  Lemma allocp_pop_front_slow (h : handle) n : allocp (list_pop_front_slow ek M capN h n).
  Proof.
    unfold list_pop_front_slow. apply allocp_bind; [apply allocp_coll_iter_from|]. intros [vs hs].
    apply allocp_list_try_from_iter.
  Qed.
End Alloc.

Section RefineA.
  Context {T U : Type}.
  Variable ek : ekind T.
  Variable M : umap_impl T U.
  Variable H : digest -> digest -> digest.
  Variable capN : N.
  Variable vec_based : bool.
  Variable uinv : U -> Prop.
  Variable valid : T -> Prop.
  Hypothesis EKW : ek_wf ek.
  Hypothesis UL : umap_lawful ek M uinv.
  Hypothesis CAP : capacity_ok capN.
  Notation tree := (tree T).
  Notation handle := (handle T U).
  Notation sys := (@sys T U).
  Notation aval := (@aval T).
  Notation sregs := (@sregs T).
  Notation res := (@res T).
  Notation op := (@op T).
  Notation hinv := (hinv ek M capN uinv).
  Notation hclean := (hclean ek M capN uinv).
  Notation gok := (gok ek H).
  Notation SysInv := (SysInv ek M H capN uinv).
  Notation refines := (refines ek M H capN vec_based uinv valid).
  Notation rpost := (rpost ek M H capN uinv).
  Notation hpost := (hpost ek M H capN uinv).
  Notation ctor_post := (ctor_post ek M H capN uinv).
  Notation vctor_post := (vctor_post ek M H capN uinv).

  Let CLD : capN <= cap ek (list_depth ek capN) := cap_list_depth ek capN CAP.
  Let GRC := @get_rec_canon T ek.

  (* ================= constructors ================= *)
  (* a List constructor that succeeds exactly when c holds *)
  Lemma construct_list st s a d (m : prog handle) vs e (c : bool) :
    SysInv st s a -> allocp m ->
    (c = true -> wp Rexact m (ctor_post st (live_trees s) vs) st) ->
    (c = false -> wp Rexact m (fail_post st e) st) ->
    wp Rexact (construct s d m) (rpost s (fun r a' => ctor a d (if c then Some (clean_list vs) else None) e r a')) st.
  Proof.
    intros I AL Hok Hfail. apply wp_construct; [exact I|apply allocp_noset; exact AL|]. destruct c.
    - eapply wp_mono; [|apply Hok; reflexivity]. intros o st' Hp. apply ctor_post_hpost in Hp; [|exact UL].
      eapply hpost_mono; [| |exact Hp]; cbn beta; [intros x ->; reflexivity|intros e' []].
    - eapply wp_mono; [|apply Hfail; reflexivity]. intros o st' Hp.
      apply (fail_post_hpost ek M H capN uinv s st e o st' (SysInv_gok _ _ _ _ _ _ _ _ I)) in Hp.
      eapply hpost_mono; [| |exact Hp]; cbn beta; [intros x []|intros e' ->; auto].
  Qed.
  Lemma construct_vec st s a d (m : prog handle) vs e (c : bool) :
    SysInv st s a -> allocp m ->
    (c = true -> wp Rexact m (vctor_post st (live_trees s) vs) st) ->
    (c = false -> wp Rexact m (fail_post st e) st) ->
    wp Rexact (construct s d m) (rpost s (fun r a' => ctor a d (if c then Some (clean_vec capN vs) else None) e r a')) st.
  Proof.
    intros I AL Hok Hfail. apply wp_construct; [exact I|apply allocp_noset; exact AL|]. destruct c.
    - eapply wp_mono; [|apply Hok; reflexivity]. intros o st' Hp. apply vctor_post_hpost in Hp.
      eapply hpost_mono; [| |exact Hp]; cbn beta; [intros x ->; reflexivity|intros e' []].
    - eapply wp_mono; [|apply Hfail; reflexivity]. intros o st' Hp.
      apply (fail_post_hpost ek M H capN uinv s st e o st' (SysInv_gok _ _ _ _ _ _ _ _ I)) in Hp.
      eapply hpost_mono; [| |exact Hp]; cbn beta; [intros x []|intros e' ->; auto].
  Qed.

  Lemma refines_ONewList st s a d vs : SysInv st s a -> refines s a (ONewList d vs) st.
  Proof.
    intros I. pose proof (SysInv_gok _ _ _ _ _ _ _ _ I) as G. rewrite refines_rpost. cbn [step spec_ok].
    apply construct_list; [exact I|apply allocp_list_try_from_iter| |].
    - intros E. apply N.leb_le in E. apply list_try_from_iter_spec; auto.
    - intros E. apply N.leb_gt in E. apply list_try_from_iter_full; auto.
  Qed.
  Lemma refines_ONewVec st s a d vs : SysInv st s a -> refines s a (ONewVec d vs) st.
  Proof.
    intros I. pose proof (SysInv_gok _ _ _ _ _ _ _ _ I) as G. rewrite refines_rpost. cbn [step spec_ok].
    apply construct_vec; [exact I|apply allocp_vector_new| |].
    - intros E. apply N.eqb_eq in E. apply vector_new_spec; auto.
    - intros E. apply N.eqb_neq in E. apply vector_new_wrong; auto.
  Qed.
  Lemma refines_OListSlow st s a d vs : SysInv st s a -> refines s a (OListSlow d vs) st.
  Proof.
    intros I. pose proof (SysInv_gok _ _ _ _ _ _ _ _ I) as G. rewrite refines_rpost. cbn [step spec_ok].
    apply construct_list; [exact I|apply allocp_list_slow| |].
    - intros E. apply N.leb_le in E. apply list_try_from_iter_slow_spec; auto.
    - intros E. apply N.leb_gt in E. eapply list_try_from_iter_slow_full; eauto.
  Qed.
  Lemma refines_OVecIter st s a d vs : SysInv st s a -> refines s a (OVecIter d vs) st.
  Proof.
    intros I. pose proof (SysInv_gok _ _ _ _ _ _ _ _ I) as G. rewrite refines_rpost. cbn [step spec_ok].
    apply construct_vec; [exact I|apply allocp_vector_try_from_iter| |].
    - intros E. apply N.eqb_eq in E. apply vector_try_from_iter_spec; auto.
    - intros E. apply N.eqb_neq in E. destruct (N.ltb_spec capN (lenN vs)) as [L|L].
      + apply vector_try_from_iter_long; auto.
      + eapply vector_try_from_iter_short; eauto. lia.
  Qed.
  Lemma refines_OEmpty st s a d : SysInv st s a -> refines s a (OEmpty d) st.
  Proof.
    intros I. pose proof (SysInv_gok _ _ _ _ _ _ _ _ I) as G. rewrite refines_rpost. cbn [step spec_ok].
    apply (construct_list st s a d _ [] BuilderFull true); [exact I|apply allocp_list_empty| |discriminate].
    intros _. apply list_empty_spec; auto.
  Qed.
  Lemma refines_ORepeat st s a d v n : SysInv st s a -> refines s a (ORepeat d v n) st.
  Proof.
    intros I. pose proof (SysInv_gok _ _ _ _ _ _ _ _ I) as G. rewrite refines_rpost. cbn [step spec_ok].
    apply construct_list; [exact I|apply allocp_list_repeat| |].
    - intros E. apply N.leb_le in E. apply list_repeat_spec; auto.
    - intros E. apply N.leb_gt in E. apply list_repeat_full; auto.
  Qed.
  Lemma refines_ORepeatSlow st s a d v n : SysInv st s a -> refines s a (ORepeatSlow d v n) st.
  Proof.
    intros I. pose proof (SysInv_gok _ _ _ _ _ _ _ _ I) as G. rewrite refines_rpost. cbn [step spec_ok].
    apply construct_list; [exact I|apply allocp_list_repeat_slow| |].
    - intros E. apply N.leb_le in E. apply list_repeat_slow_spec; auto.
    - intros E. apply N.leb_gt in E. apply list_repeat_slow_full; auto.
  Qed.
  Lemma refines_OFromElem st s a d v : SysInv st s a -> refines s a (OFromElem d v) st.
  Proof.
    intros I. pose proof (SysInv_gok _ _ _ _ _ _ _ _ I) as G. rewrite refines_rpost. cbn [step spec_ok].
    apply (construct_vec st s a d _ (repeatN v capN) BuilderFull true); [exact I|apply allocp_vector_from_elem| |discriminate].
    intros _. apply vector_from_elem_spec; auto.
  Qed.
  Lemma refines_ODefaultVec st s a d : SysInv st s a -> refines s a (ODefaultVec d) st.
  Proof.
    intros I. pose proof (SysInv_gok _ _ _ _ _ _ _ _ I) as G. rewrite refines_rpost. cbn [step spec_ok].
    apply (construct_vec st s a d _ (repeatN (edefault ek) capN) BuilderFull true); [exact I|apply allocp_vector_default| |discriminate].
    intros _. apply vector_default_spec; auto.
  Qed.

  (* ================= register operations ================= *)
  Lemma refines_OClone st s a i j : SysInv st s a -> refines s a (OClone i j) st.
  Proof.
    intros I. rewrite refines_rpost. cbn [step spec_ok].
    destruct (nregs <=? j)%nat eqn:E.
    - apply wp_bad. exact I.
    - eapply wp_with_reg; [exact I|]. intros h l Er Hi Ea Hin. cbn beta.
      eapply wp_ret; [reflexivity|split; reflexivity|]. apply SysInv_rset_live; assumption.
  Qed.
  Lemma refines_ODrop st s a i : SysInv st s a -> refines s a (ODrop i) st.
  Proof.
    intros I. rewrite refines_rpost. cbn [step spec_ok].
    eapply wp_with_reg; [exact I|]. intros h l Er Hi Ea Hin. cbn beta.
    eapply wp_ret; [reflexivity|split; reflexivity|]. apply SysInv_drop; assumption.
  Qed.
  Lemma refines_OToList st s a i j : SysInv st s a -> refines s a (OToList i j) st.
  Proof.
    intros I. rewrite refines_rpost. cbn [step spec_ok].
    destruct (nregs <=? j)%nat eqn:E.
    - apply wp_bad. exact I.
    - eapply wp_with_vector; [exact I|]. intros h l Er Hi Ea Hin Hl. cbn beta.
      destruct (list_from_vector_spec ek M capN uinv h l Hi Hl) as (Hi' & Hl' & Ht & Hu & Hp).
      eapply wp_ret; [reflexivity| |apply (SysInv_rset_live ek M H capN uinv st s a j _ l I Hi'); rewrite Ht; exact Hin].
      split; [reflexivity|].
      replace (abs_of M (list_from_vector capN h) l) with (mk true (a_vals (abs_of M h l)) (a_pend (abs_of M h l)) capN); [reflexivity|].
      unfold abs_of, mk. cbn [a_vals a_pend]. rewrite Hl', Hp. reflexivity.
  Qed.

  (* ================= facts about handles and their abstract values ================= *)
  Lemma hinv_uinv (h : handle) l : hinv h l -> uinv (hupd h).
  Proof. intros (_ & _ & _ & _ & _ & Hu). exact Hu. Qed.
  Lemma has_key_pending (h : handle) k : uinv (hupd h) -> has_key M (hupd h) k -> has_pending M h = true.
  Proof.
    intros Hu Hk. unfold has_pending, uis_empty. destruct (N.eqb_spec (ulen M (hupd h)) 0) as [E|E]; [|reflexivity].
    exfalso. apply Hk. apply (len0_get ek M uinv UL _ Hu E).
  Qed.
  (* a write into the pending map: the backing part of the abstract value is unchanged, it is dirty *)
  Lemma abs_write (h h' : handle) l l' : same_backing h h' -> has_pending M h' = true ->
    abs_of M h' l' = mk (a_list (abs_of M h l)) l' true (a_blen (abs_of M h l)).
  Proof.
    intros (_ & Hb & _ & Hl) Hp. unfold abs_of, mk. cbn [a_list a_blen]. rewrite Hb, Hl, Hp. reflexivity.
  Qed.
  Lemma abs_flushed (h h' : handle) l : hinv h' l -> has_pending M h' = false -> hlist h' = hlist h ->
    abs_of M h' l = Spec.flushed capN (abs_of M h l).
  Proof.
    intros Hi Hp Hl. destruct (has_pending_spec ek M uinv capN UL h' l Hi Hp) as [_ El].
    unfold abs_of, Spec.flushed, mk, len. cbn [a_list a_vals]. rewrite Hp, Hl, <- El.
    destruct (hlist h) eqn:E; [reflexivity|]. destruct Hi as (_ & _ & _ & _ & Hv & _).
    rewrite Hl in Hv. destruct (Hv eq_refl) as [_ ->]. reflexivity.
  Qed.
  Lemma same_backing_trans (h1 h2 h3 : handle) : same_backing h1 h2 -> same_backing h2 h3 -> same_backing h1 h3.
  Proof. intros (A1 & A2 & A3 & A4) (B1 & B2 & B3 & B4). repeat split; congruence. Qed.
  Lemma same_backing_refl (h : handle) : same_backing h h.
  Proof. repeat split. Qed.

  (* returning a handle over the same backing tree *)
  Lemma wp_ret_write R st s a i (h h' : handle) l' (K : res -> sregs -> Prop) r :
    SysInv st s a -> In (htree h) (live_trees s) -> hinv h' l' -> same_backing h h' ->
    K r (aset a i (Some (abs_of M h' l'))) -> wp R (Ret (r, rset s i (Some h'))) (rpost s K) st.
  Proof.
    intros I Hin Hi' Hsb Hk. eapply wp_ret; [reflexivity|exact Hk|].
    apply SysInv_rset_live; [exact I|exact Hi'|]. destruct Hsb as (-> & _). exact Hin.
  Qed.

  (* the write of a present position, whether its entry is materialised or it lies in the backing list *)
  Lemma write_entry_any (h : handle) l i v : hinv h l -> i < lenN l ->
    hinv (write_entry M h i v) (setN l i v) /\ same_backing h (write_entry M h i v) /\
    has_pending M (write_entry M h i v) = true.
  Proof.
    intros Hi Hlt. pose proof Hi as ((bl & I1 & I2 & I3 & I4) & I5 & I6 & I7 & I8 & I9).
    assert (Hk' : has_key M (uentry_insert M (hupd h) i v) i).
    { unfold has_key. rewrite (ul_entry_get _ _ _ UL) by exact I9. rewrite N.eqb_refl. discriminate. }
    assert (Hu' : uinv (uentry_insert M (hupd h) i v)) by (apply (ul_entry_inv _ _ _ UL); exact I9).
    split; [|split; [apply same_backing_with_upd|]].
    - unfold write_entry. apply (hinv_with_upd ek M uinv capN h l); auto.
      + intros bl' _ Hag. apply (agrees_entry_write ek M uinv capN UL CLD); auto.
      + rewrite lenN_setN. rewrite <- I4. destruct (N.lt_ge_cases i (hblen h)) as [Lb|Lb].
        * apply (updlen_entry_below ek M uinv capN UL CLD); auto.
        * apply (updlen_entry_same ek M uinv UL); auto. destruct I3 as (_ & _ & _ & A4). apply A4; lia.
      + rewrite lenN_setN. exact I6.
      + rewrite lenN_setN. intros Hv. apply I8. exact Hv.
    - apply (has_key_pending _ i); cbn [write_entry with_upd hupd]; assumption.
  Qed.

  Lemma setN_setN_same (l : list T) i v w : setN (setN l i v) i w = setN l i w.
  Proof.
    apply listN_ext. intros k. rewrite !nthN_setN, lenN_setN.
    destruct (N.eqb_spec k i) as [->|E]; cbn [andb]; [|reflexivity]. destruct (i <? lenN l); reflexivity.
  Qed.

  (* ================= writes through get_mut / Cow ================= *)
  (* the shape common to OSet, OCowInto, OCowMake, OCowMake2, OTouch *)
  Lemma write_case st s a i idx (g : handle -> handle) (fl : list T -> list T) :
    SysInv st s a ->
    (forall h l x, hinv h l -> nthN l idx = Some x -> has_key M (hupd h) idx ->
       hinv (g h) (fl l) /\ same_backing h (g h) /\ has_pending M (g h) = true) ->
    wp Rexact (System.with_reg s i (fun h =>
         match iface_get_mut ek M h idx with
         | Some (_, h') => Ret (RSome true, rset s i (Some (g h')))
         | None => Ret (RSome false, s)
         end))
       (rpost s (fun r a' => Spec.with_reg a i (fun x =>
          if idx <? len x then r = RSome true /\ a' = aset a i (Some (mk (a_list x) (fl (a_vals x)) true (a_blen x)))
          else r = RSome false /\ a' = a) r a')) st.
  Proof.
    intros I Hg. eapply wp_with_reg; [exact I|]. intros h l Er Hi Ea Hin. cbn beta.
    pose proof (get_mut_spec ek M uinv capN UL GRC CLD h l idx Hi) as Hs.
    unfold len. cbn [abs_of a_vals]. destruct (N.ltb_spec idx (lenN l)) as [L|L].
    - destruct (nthN l idx) as [x|] eqn:En; [|apply nthN_None in En; lia].
      destruct Hs as (h' & Eg & Hi' & Hk & Hsb). rewrite Eg.
      destruct (Hg h' l x Hi' En Hk) as (Hi2 & Hsb2 & Hp2).
      pose proof (same_backing_trans _ _ _ Hsb Hsb2) as Hsb3.
      eapply (wp_ret_write Rexact st s a i h (g h') (fl l)); [exact I|exact Hin|exact Hi2|exact Hsb3|].
      split; [reflexivity|]. rewrite (abs_write h (g h') l (fl l) Hsb3 Hp2). reflexivity.
    - assert (nthN l idx = None) as En by (apply nthN_None; exact L). rewrite En in Hs. rewrite Hs.
      apply (wp_ret_same ek M H capN uinv Rexact s a); [exact I|]. split; reflexivity.
  Qed.

  Lemma write_entry_key (h : handle) l idx x v : hinv h l -> nthN l idx = Some x -> has_key M (hupd h) idx ->
    hinv (write_entry M h idx v) (setN l idx v) /\ same_backing h (write_entry M h idx v) /\
    has_pending M (write_entry M h idx v) = true /\ has_key M (hupd (write_entry M h idx v)) idx.
  Proof.
    intros Hi En Hk. assert (idx < lenN l) as L by (apply nthN_Some; rewrite En; discriminate).
    destruct (write_entry_any h l idx v Hi L) as (A & B & C).
    split; [exact A|]. split; [exact B|]. split; [exact C|].
    unfold write_entry, has_key. cbn [with_upd hupd]. rewrite (ul_entry_get _ _ _ UL) by (eapply hinv_uinv; eauto).
    rewrite N.eqb_refl. discriminate.
  Qed.

  Lemma refines_OSet st s a i idx v : SysInv st s a -> refines s a (OSet i idx v) st.
  Proof.
    intros I. rewrite refines_rpost. cbn [step spec_ok]. unfold write_spec.
    apply (write_case st s a i idx (fun h' => write_entry M h' idx v) (fun l => setN l idx v) I).
    intros h l x Hi En Hk. destruct (write_entry_key h l idx x v Hi En Hk) as (A & B & C & _). auto.
  Qed.
  Lemma refines_OCowInto st s a i idx v : SysInv st s a -> refines s a (OCowInto i idx v) st.
  Proof. apply refines_OSet. Qed.
  Lemma refines_OCowMake st s a i idx v : SysInv st s a -> refines s a (OCowMake i idx v) st.
  Proof. apply refines_OSet. Qed.
  Lemma refines_OCowMake2 st s a i idx v w : SysInv st s a -> refines s a (OCowMake2 i idx v w) st.
  Proof.
    intros I. rewrite refines_rpost. cbn [step spec_ok]. unfold write_spec.
    apply (write_case st s a i idx (fun h' => write_entry M (write_entry M h' idx v) idx w) (fun l => setN l idx w) I).
    intros h l x Hi En Hk. destruct (write_entry_key h l idx x v Hi En Hk) as (A & B & C & D).
    assert (nthN (setN l idx v) idx = Some v) as En'.
    { rewrite nthN_setN, N.eqb_refl. cbn [andb]. destruct (N.ltb_spec idx (lenN l)) as [L|L]; [reflexivity|].
      apply nthN_None in L. congruence. }
    destruct (write_entry_key _ _ idx v w A En' D) as (A' & B' & C' & _).
    rewrite setN_setN_same in A'. split; [exact A'|]. split; [eapply same_backing_trans; eauto|exact C'].
  Qed.
  Lemma refines_OTouch st s a i idx : SysInv st s a -> refines s a (OTouch i idx) st.
  Proof.
    intros I. rewrite refines_rpost. cbn [step spec_ok].
    apply (write_case st s a i idx (fun h' => h') (fun l => l) I).
    intros h l x Hi En Hk. split; [exact Hi|]. split; [apply same_backing_refl|].
    apply (has_key_pending h idx); [eapply hinv_uinv; eauto|exact Hk].
  Qed.

  (* ================= push ================= *)
  Lemma push_pending (h h' : handle) v : uinv (hupd h) -> iface_push M capN h v = Ret h' -> has_pending M h' = true.
  Proof.
    intros Hu. unfold iface_push, validate_push. cbv zeta.
    destruct (hlist h); [|discriminate]. destruct (_ =? capN); [discriminate|]. cbn [bind]. intros E. injection E as <-.
    apply (has_key_pending _ (iface_len M h)); cbn [with_upd hupd].
    - apply (ul_insert_inv _ _ _ UL). exact Hu.
    - unfold has_key. rewrite (ul_insert_get _ _ _ UL) by exact Hu. rewrite N.eqb_refl. discriminate.
  Qed.
  Lemma refines_OPush st s a i v : SysInv st s a -> refines s a (OPush i v) st.
  Proof.
    intros I. pose proof (SysInv_gok _ _ _ _ _ _ _ _ I) as G. rewrite refines_rpost. cbn [step spec_ok].
    eapply wp_with_list; [exact I|]. intros h l Er Hi Ea Hin Hl. cbn beta.
    apply (wp_inplace ek M H capN uinv Rexact s a); [exact I|apply allocp_noset, allocp_iface_push|].
    unfold len. cbn [abs_of a_vals]. destruct (N.eqb_spec (lenN l) capN) as [E|E].
    - rewrite (push_spec_full ek M uinv capN h l v Hi Hl E). cbn [wp RefineBase.hpost]. split; [exact G|split; reflexivity].
    - destruct (push_spec_list ek M uinv capN UL CLD h l v Hi Hl) as (h' & Ep & Hi' & Hsb).
      { destruct Hi as (_ & _ & Hle & _). lia. }
      rewrite Ep. cbn [wp RefineBase.hpost]. exists (l ++ [v]). split; [exact Hi'|]. split.
      { destruct Hsb as (-> & _). apply gok_dup; assumption. }
      split; [reflexivity|].
      rewrite (abs_write h h' l (l ++ [v]) Hsb (push_pending h h' v (hinv_uinv _ _ Hi) Ep)).
      cbn [abs_of a_list]. rewrite Hl. reflexivity.
  Qed.

  (* ================= apply_updates, pop_front ================= *)
  Lemma refines_OApply st s a i : SysInv st s a -> refines s a (OApply i) st.
  Proof.
    intros I. pose proof (SysInv_gok _ _ _ _ _ _ _ _ I) as G. rewrite refines_rpost. cbn [step spec_ok].
    eapply wp_with_reg; [exact I|]. intros h l Er Hi Ea Hin. cbn beta.
    apply (wp_inplace_e ek M H capN uinv Rexact s a); [exact I|].
    eapply wp_mono; [|apply (apply_spec ek M H capN uinv EKW UL CAP Rexact h l st (live_trees s) G Hi Hin)].
    intros o st' (h' & -> & Hi' & Hp & AO & FF & G' & Hl' & _). exists l. split; [exact Hi'|]. split; [exact G'|].
    split; [reflexivity|]. rewrite (abs_flushed h h' l Hi' Hp Hl'). reflexivity.
  Qed.
  Lemma refines_OPopFront st s a i n : SysInv st s a -> refines s a (OPopFront i n) st.
  Proof.
    intros I. pose proof (SysInv_gok _ _ _ _ _ _ _ _ I) as G. rewrite refines_rpost. cbn [step spec_ok].
    eapply wp_with_list; [exact I|]. intros h l Er Hi Ea Hin Hl. cbn beta.
    apply (wp_inplace_e ek M H capN uinv Rexact s a); [exact I|].
    unfold len. cbn [abs_of a_vals]. destruct (N.ltb_spec (lenN l) n) as [L|L].
    - eapply wp_mono; [|apply (pop_front_oob ek M H capN uinv EKW UL CAP Rexact h l n st (live_trees s) G Hi Hin L)].
      intros o st' (h1 & -> & Hc & Hl1 & AO & FF & G' & _). exists l. split; [apply Hc|]. split; [exact G'|].
      split; [reflexivity|]. destruct Hc as [Hi1 Hp1]. rewrite (abs_flushed h h1 l Hi1 Hp1 Hl1). reflexivity.
    - eapply wp_mono; [|apply (pop_front_spec ek M H capN uinv EKW UL CAP Rexact h l n st (live_trees s) G Hi Hin Hl L)].
      intros o st' (h' & -> & Hc & Hl' & AO & FF & G' & _). exists (dropN n l). split; [apply Hc|]. split; [exact G'|].
      split; [reflexivity|]. rewrite (abs_clean_list ek M capN uinv UL h' (dropN n l) Hc Hl'). reflexivity.
  Qed.
  Lemma refines_OPopFrontSlow st s a i n : SysInv st s a -> refines s a (OPopFrontSlow i n) st.
  Proof.
    intros I. pose proof (SysInv_gok _ _ _ _ _ _ _ _ I) as G. rewrite refines_rpost. cbn [step spec_ok].
    eapply wp_with_list; [exact I|]. intros h l Er Hi Ea Hin Hl. cbn beta.
    apply (wp_inplace ek M H capN uinv Rexact s a); [exact I|apply allocp_noset, allocp_pop_front_slow|].
    unfold len. cbn [abs_of a_vals]. destruct (N.ltb_spec (lenN l) n) as [L|L].
    - eapply wp_mono; [|apply (pop_front_slow_oob ek M capN uinv CAP Rexact h l n st Hi L)].
      intros o st' Hp. apply (fail_post_hpost ek M H capN uinv s st _ o st' G) in Hp.
      eapply hpost_mono; [| |exact Hp]; cbn beta; [intros x []|intros e' ->; split; reflexivity].
    - eapply wp_mono; [|apply (pop_front_slow_spec ek M H capN uinv EKW UL CAP Rexact h l n st (live_trees s) G Hi L)].
      intros o st' Hp. apply ctor_post_hpost in Hp; [|exact UL].
      eapply hpost_mono; [| |exact Hp]; cbn beta; [intros x ->; split; reflexivity|intros e' []].
  Qed.

  (* ================= List -> Vector ================= *)
  Lemma refines_OToVector st s a i j : SysInv st s a -> refines s a (OToVector i j) st.
  Proof.
    intros I. pose proof (SysInv_gok _ _ _ _ _ _ _ _ I) as G. rewrite refines_rpost. cbn [step spec_ok].
    destruct (nregs <=? j)%nat eqn:E.
    - apply wp_bad. exact I.
    - eapply wp_with_list; [exact I|]. intros h l Er Hi Ea Hin Hl. cbn beta.
      apply (wp_construct_K ek M H capN uinv Rexact s a); [exact I|apply allocp_noset, allocp_vector_try_from|congruence|intros _].
      unfold len. cbn [abs_of a_vals a_blen a_pend]. destruct (N.eqb_spec (lenN l) capN) as [El|El].
      + eapply wp_mono; [|apply (vector_try_from_spec ek M H capN uinv EKW UL CAP Rexact h l st (live_trees s) G Hi Hin El)].
        intros o st' (v & -> & Hv & Hlv & AO & FF & G' & Heq & Hne). cbn [RefineBase.hpost].
        exists l. split; [exact Hv|]. split; [exact G'|]. split; [reflexivity|]. f_equal. f_equal.
        destruct (N.eqb_spec (hblen h) capN) as [Eb|Eb].
        * destruct (Heq Eb) as [_ ->]. reflexivity.
        * unfold abs_of, mk. rewrite Hlv, (Hne Eb). destruct Hv as (_ & _ & _ & _ & Hvv & _).
          destruct (Hvv Hlv) as [-> _]. reflexivity.
      + eapply wp_mono; [|apply (vector_try_from_wrong_spec ek M capN uinv Rexact h l st Hi El)].
        intros o st' [-> ->]. cbn [RefineBase.hpost]. split; [exact G|]. split; reflexivity.
  Qed.

  (* ================= bulk_update ================= *)
  Lemma bulk_map_get kvs : forall u k, uinv u ->
    uinv (bulk_map M u kvs) /\
    uget M (bulk_map M u kvs) k = match kv_get kvs k with Some w => Some w | None => uget M u k end.
  Proof.
    induction kvs as [|[j v] r IH]; intros u k Hu; cbn [bulk_map kv_get]; [auto|].
    destruct (IH (uinsert M u j v) k (ul_insert_inv _ _ _ UL u j v Hu)) as [A B]. split; [exact A|].
    rewrite B. destruct (kv_get r k) as [w|]; [reflexivity|].
    rewrite (ul_insert_get _ _ _ UL) by exact Hu. rewrite (N.eqb_sym k j). destruct (j =? k); reflexivity.
  Qed.
  Lemma bulk_map_uinv kvs : uinv (bulk_map M (uempty M) kvs).
  Proof. apply (bulk_map_get kvs (uempty M) 0). apply (ul_empty_inv _ _ _ UL). Qed.
  Lemma bulk_map_kv kvs k : uget M (bulk_map M (uempty M) kvs) k = kv_get kvs k.
  Proof.
    destruct (bulk_map_get kvs (uempty M) k (ul_empty_inv _ _ _ UL)) as [_ E]. rewrite E.
    rewrite (ul_empty_get _ _ _ UL). destruct (kv_get kvs k); reflexivity.
  Qed.
  Lemma bulk_has_key kvs k : has_key M (bulk_map M (uempty M) kvs) k <-> kv_has kvs k.
  Proof. unfold has_key, kv_has. rewrite bulk_map_kv. tauto. Qed.
  Lemma bulk_overlay kvs l l' : agrees M (bulk_map M (uempty M) kvs) l l' -> overlay kvs l l'.
  Proof.
    intros (A1 & A2 & A3 & A4). split; [exact A1|]. split; [|split].
    - intros k v E. apply A2. rewrite bulk_map_kv. exact E.
    - intros k E. apply A3. rewrite bulk_map_kv. exact E.
    - intros k L1 L2. apply bulk_has_key. apply A4; assumption.
  Qed.
  Lemma bulk_pending (h : handle) kvs :
    has_pending M (with_upd h (bulk_map M (uempty M) kvs)) = negb (match kvs with [] => true | _ => false end).
  Proof.
    destruct kvs as [|[j v] r].
    - cbn [bulk_map negb]. unfold has_pending, uis_empty. cbn [with_upd hupd].
      rewrite (ulen_empty ek M uinv UL). reflexivity.
    - cbn [negb]. apply (has_key_pending _ j); cbn [with_upd hupd]; [apply bulk_map_uinv|].
      apply bulk_has_key. unfold kv_has. cbn [kv_get]. destruct (kv_get r j); [discriminate|].
      rewrite N.eqb_refl. discriminate.
  Qed.

  Lemma refines_OBulk st s a i kvs : SysInv st s a -> refines s a (OBulk i kvs) st.
  Proof.
    intros I. pose proof (SysInv_gok _ _ _ _ _ _ _ _ I) as G. rewrite refines_rpost. cbn [step spec_ok].
    eapply wp_with_list; [exact I|]. intros h l Er Hi Ea Hin Hl. cbn beta.
    destruct (vec_based && existsb (fun kv => 65536 <=? fst kv) kvs); [apply wp_bad; exact I|].
    cbn [abs_of a_pend a_vals a_blen].
    apply (wp_inplace ek M H capN uinv Rexact s a); [exact I|apply allocp_noset, allocp_bulk|].
    destruct (has_pending M h) eqn:Hp.
    - rewrite (bulk_spec_unclean M capN h _ Hp). cbn [wp RefineBase.hpost]. split; [exact G|]. split; reflexivity.
    - pose proof (bulk_spec ek M uinv capN UL CAP CLD h l kvs Hi Hl Hp) as Hb. cbv zeta in Hb.
      destruct (iface_bulk_update M capN h (bulk_map M (uempty M) kvs)) as [h'|e|c|k0|i0 k0|i0 d0 k0|p0 q0 k0|t0 k0] eqn:Eb;
        try contradiction.
      + destruct Hb as (-> & l' & Hag & Hi'). cbn [wp RefineBase.hpost]. exists l'. split; [exact Hi'|]. split.
        { cbn [with_upd htree]. apply gok_dup; assumption. }
        left. exists l'. split; [apply bulk_overlay; exact Hag|]. split; [destruct Hi' as (_ & _ & Hle & _); exact Hle|].
        split; [reflexivity|]. f_equal. f_equal. unfold abs_of, mk. rewrite bulk_pending. cbn [with_upd hlist hblen].
        rewrite Hl. reflexivity.
      + cbn [wp RefineBase.hpost]. split; [exact G|]. destruct e; try contradiction.
        * destruct Hb as (B1 & B2 & B3 & B4 & B5 & B6 & B7 & B8). right. right. exists index, len.
          split; [reflexivity|]. split; [reflexivity|]. split; [exact B1|]. split; [exact B2|]. split; [exact B3|].
          split; [intros j L1 L2; apply bulk_has_key; apply B4; assumption|].
          split; [intros Hk; apply B5; apply bulk_has_key; exact Hk|].
          split; [apply bulk_has_key; exact B6|].
          split; [intros j L1 L2 Hk; apply (B7 j L1 L2); apply bulk_has_key; exact Hk|].
          intros Lu j Hk. apply (B8 Lu). apply bulk_has_key. exact Hk.
        * destruct Hb as [-> Hb]. right. left. split; [reflexivity|]. split; [reflexivity|].
          intros j L1 L2. apply bulk_has_key. apply Hb; assumption.
  Qed.

  (* ================= iter_cow ================= *)
  (* the tree iterator of InterfaceIterCow at position j of the backing list bl *)
  Definition titer (bl : list T) (t : tree) (d : nat) (ti : iter T) (j : N) : Prop :=
    exists i', iinv ek bl t d ti i' /\ (i' = j \/ (lenN bl <= i' /\ lenN bl <= j)).
  Lemma titer_next bl t d ti j : lenN bl <= cap ek d -> titer bl t d ti j ->
    exists ti', iter_next ek (S d) ti = SOk (nthN bl j) ti' /\ titer bl t d ti' (j + 1).
  Proof.
    intros Hc (i' & Hinv & Hi').
    assert (Hend : lenN bl <= i' -> lenN bl <= j ->
              exists ti', iter_next ek (S d) ti = SOk (nthN bl j) ti' /\ titer bl t d ti' (j + 1)).
    { intros L1 L2. exists ti. rewrite (iter_end ek bl t d Hc ti i' (S d) Hinv L1).
      split; [f_equal; symmetry; apply nthN_None; exact L2|]. exists i'. split; [exact Hinv|right; lia]. }
    destruct Hi' as [->|[L1 L2]]; [|apply Hend; assumption].
    destruct (N.lt_ge_cases j (lenN bl)) as [L|L]; [|apply Hend; assumption].
    destruct (iter_step ek bl t d Hc ti j Hinv L) as (v & ti' & Ev & En & Hinv').
    exists ti'. rewrite En, Ev. split; [reflexivity|]. exists (j + 1). split; [exact Hinv'|left; reflexivity].
  Qed.
  Lemma cow_present (u : U) bl lj j : agrees M u bl lj ->
    match uget M u j with
    | Some _ => true
    | None => match nthN bl j with Some _ => true | None => false end
    end = (j <? lenN lj).
  Proof.
    intros (A1 & A2 & A3 & A4). destruct (uget M u j) as [w|] eqn:Eg.
    - apply A2 in Eg. symmetry. apply N.ltb_lt. apply nthN_Some. rewrite Eg. discriminate.
    - destruct (nthN bl j) as [w|] eqn:Eb.
      + symmetry. apply N.ltb_lt. assert (j < lenN bl) by (apply nthN_Some; rewrite Eb; discriminate). lia.
      + apply nthN_None in Eb. symmetry. apply N.ltb_ge. destruct (N.le_gt_cases (lenN lj) j) as [L|L]; [exact L|].
        exfalso. apply (A4 j Eb L). exact Eg.
  Qed.

  Lemma iter_cow_run_spec (h : handle) bl : lenN bl <= cap ek (hdepth h) ->
    forall items (hj : handle) lj ti j c,
    hinv hj lj -> same_backing h hj -> agrees M (hupd hj) bl lj -> titer bl (htree h) (hdepth h) ti j ->
    c = N.min j (lenN lj) ->
    exists h', iter_cow_run ek M items hj ti j c = Ret (N.min (j + lenN items) (lenN lj), h') /\
      hinv h' (iter_cow_vals items lj j) /\ same_backing h h' /\
      has_pending M h' = has_pending M hj || iter_cow_wrote items (lenN lj) j.
  Proof.
    intros Hc. induction items as [|item rest IH]; intros hj lj ti j c Hi Hsb Hag Hti ->;
      cbn [iter_cow_run iter_cow_vals iter_cow_wrote].
    - exists hj. change (lenN (@nil (option T))) with 0. rewrite N.add_0_r, orb_false_r. auto.
    - destruct (titer_next bl (htree h) (hdepth h) ti j Hc Hti) as (ti' & En & Hti').
      assert (hdepth hj = hdepth h) as -> by apply Hsb. rewrite En. cbv beta iota zeta.
      rewrite (cow_present (hupd hj) bl lj j Hag).
      assert (Elen : j + lenN (item :: rest) = j + 1 + lenN rest) by (rewrite lenN_cons; lia). rewrite Elen.
      destruct (N.ltb_spec j (lenN lj)) as [L|L].
      + destruct item as [v|].
        * destruct (write_entry_any hj lj j v Hi L) as (A & B & C).
          destruct (IH (write_entry M hj j v) (setN lj j v) ti' (j + 1) (N.min j (lenN lj) + 1)) as (h' & E & Hi' & Hsb' & Hp').
          { exact A. } { eapply same_backing_trans; eauto. }
          { cbn [write_entry with_upd hupd]. apply (agrees_entry_write ek M uinv capN UL CLD); [eapply hinv_uinv; eauto|exact Hag|exact L]. }
          { exact Hti'. } { rewrite lenN_setN. lia. }
          rewrite lenN_setN in E, Hp'. exists h'. split; [exact E|]. split; [exact Hi'|]. split; [exact Hsb'|].
          rewrite Hp', C. cbn [orb]. rewrite orb_true_r. reflexivity.
        * destruct (IH hj lj ti' (j + 1) (N.min j (lenN lj) + 1)) as (h' & E & Hi' & Hsb' & Hp'); auto; [lia|].
          exists h'. split; [exact E|]. split; [exact Hi'|]. split; [exact Hsb'|]. rewrite Hp'. reflexivity.
      + destruct (IH hj lj ti' (j + 1) (N.min j (lenN lj))) as (h' & E & Hi' & Hsb' & Hp'); auto; [lia|].
        exists h'. split; [exact E|]. split; [destruct item; exact Hi'|]. split; [exact Hsb'|]. rewrite Hp'.
        destruct item; reflexivity.
  Qed.

  Lemma coll_iter_cow_spec (h : handle) l items : hinv h l ->
    exists h', coll_iter_cow ek M h items = Ret (N.min (lenN items) (lenN l), h') /\
      hinv h' (iter_cow_vals items l 0) /\ same_backing h h' /\
      has_pending M h' = has_pending M h || iter_cow_wrote items (lenN l) 0.
  Proof.
    intros Hi. pose proof Hi as ((bl & I1 & I2 & I3 & I4) & I5 & I6 & I7 & I8 & I9).
    assert (Hc : lenN bl <= cap ek (hdepth h)) by (rewrite I5, I2; lia).
    unfold coll_iter_cow.
    destruct (iter_cow_run_spec h bl Hc items h l (iter_from_index 0 (htree h) (hdepth h) (hblen h)) 0 0)
      as (h' & E & R); auto.
    - apply same_backing_refl.
    - exists 0. split; [|left; reflexivity]. rewrite <- I2. apply iinv_init; assumption.
    - lia.
    - exists h'. rewrite N.add_0_l in E. auto.
  Qed.

  Lemma refines_OIterCow st s a i items : SysInv st s a -> refines s a (OIterCow i items) st.
  Proof.
    intros I. rewrite refines_rpost. cbn [step spec_ok].
    eapply wp_with_list; [exact I|]. intros h l Er Hi Ea Hin Hl. cbn beta.
    destruct (coll_iter_cow_spec h l items Hi) as (h' & E & Hi' & Hsb & Hp). rewrite E. cbn [bind].
    eapply (wp_ret_write Rexact st s a i h h'); [exact I|exact Hin|exact Hi'|exact Hsb|].
    unfold len. cbn [abs_of a_vals a_pend a_blen]. split; [reflexivity|].
    unfold mk, abs_of. rewrite Hp. destruct Hsb as (_ & -> & _ & ->). rewrite Hl. reflexivity.
  Qed.
End RefineA.

Print Assumptions refines_ONewList.
Print Assumptions refines_ONewVec.
Print Assumptions refines_OListSlow.
Print Assumptions refines_OVecIter.
Print Assumptions refines_OEmpty.
Print Assumptions refines_ORepeat.
Print Assumptions refines_ORepeatSlow.
Print Assumptions refines_OFromElem.
Print Assumptions refines_ODefaultVec.
Print Assumptions refines_OSet.
Print Assumptions refines_OCowInto.
Print Assumptions refines_OCowMake.
Print Assumptions refines_OCowMake2.
Print Assumptions refines_OTouch.
Print Assumptions refines_OIterCow.
Print Assumptions refines_OPush.
Print Assumptions refines_OBulk.
Print Assumptions refines_OApply.
Print Assumptions refines_OPopFront.
Print Assumptions refines_OPopFrontSlow.
Print Assumptions refines_OClone.
Print Assumptions refines_OToVector.
Print Assumptions refines_OToList.
Print Assumptions refines_ODrop.
