(* BuilderP.v — the builder (src/builder.rs) as a binary counter: pushing the elements of a list
   (or the level-L blocks yielded by LevelIter) and finishing yields the canonical tree.
   Route: identity-free pure shadows of the model functions (section "shadows"), one simulation
   lemma per monadic function ("simulation"), the counter argument on the shadows ("pure theory"). *)
From MH Require Import Defs.
Local Open Scope N_scope.
Local Open Scope prog_scope.

(* ---------- numeric preliminaries ---------- *)
Definition sh (p : positive) (j : nat) : N := Npos p * pow2 j.
Lemma sh_O p j : sh (xO p) j = sh p (S j).
Proof. unfold sh. rewrite pow2_S. change (Npos (xO p)) with (2 * Npos p). lia. Qed.
Lemma sh_I p j : sh (xI p) j = sh p (S j) + pow2 j.
Proof. unfold sh. rewrite pow2_S. change (Npos (xI p)) with (2 * Npos p + 1). lia. Qed.
Lemma sh_H j : sh xH j = pow2 j. Proof. unfold sh. lia. Qed.
Lemma sh_succ p j : sh (Pos.succ p) j = sh p j + pow2 j.
Proof. unfold sh. replace (Npos (Pos.succ p)) with (N.succ (Npos p)) by reflexivity. lia. Qed.
Lemma sh_pos p j : 0 < sh p j.
Proof. unfold sh. pose proof (pow2_pos j). nia. Qed.
Lemma sh_add p j k : sh p (j + k) = sh p j * pow2 k.
Proof. unfold sh. rewrite pow2_add. lia. Qed.
Lemma sh_0 p : sh p 0 = Npos p.
Proof. unfold sh. rewrite pow2_0. lia. Qed.
Lemma tz_sh : forall j p, tz (sh p j) = (j + tzp p)%nat.
Proof.
  induction j as [|j IH]; intros p.
  - rewrite sh_0. reflexivity.
  - rewrite <- sh_O, IH. cbn [tzp]. lia.
Qed.
Lemma sh_bit p j m : N.testbit (sh p j) (N.of_nat (j + m)) = N.testbit (Npos p) (N.of_nat m).
Proof. unfold sh, pow2. replace (N.of_nat (j + m)) with (N.of_nat m + N.of_nat j) by lia. apply N.mul_pow2_bits_add. Qed.

Lemma bit0_I p : N.testbit (Npos (xI p)) 0 = true. Proof. reflexivity. Qed.
Lemma bit0_O p : N.testbit (Npos (xO p)) 0 = false. Proof. reflexivity. Qed.
Lemma bitS_I p m : N.testbit (Npos (xI p)) (N.of_nat (S m)) = N.testbit (Npos p) (N.of_nat m).
Proof. replace (N.of_nat (S m)) with (N.succ (N.of_nat m)) by lia. change (Npos (xI p)) with (2 * Npos p + 1). apply N.testbit_odd_succ. lia. Qed.
Lemma bitS_O p m : N.testbit (Npos (xO p)) (N.of_nat (S m)) = N.testbit (Npos p) (N.of_nat m).
Proof. replace (N.of_nat (S m)) with (N.succ (N.of_nat m)) by lia. change (Npos (xO p)) with (2 * Npos p). apply N.testbit_even_succ. lia. Qed.
Lemma bit_H m : N.testbit (Npos xH) (N.of_nat (S m)) = false.
Proof. replace (N.of_nat (S m)) with (N.succ (N.of_nat m)) by lia. change (Npos xH) with (2 * 0 + 1). rewrite N.testbit_odd_succ by lia. apply N.bits_0. Qed.

(* bits above a low part: (c * 2^k + r).[k + m] = c.[m] for r < 2^k *)
Lemma bit_above c r k m : r < pow2 k -> N.testbit (c * pow2 k + r) (N.of_nat (k + m)) = N.testbit c (N.of_nat m).
Proof.
  intros Hr. replace (N.of_nat (k + m)) with (N.of_nat m + N.of_nat k) by lia.
  rewrite <- N.div_pow2_bits. fold (pow2 k). f_equal.
  pose proof (pow2_pos k) as Hk. remember (pow2 k) as q eqn:Eq; clear Eq.
  symmetry. apply N.div_unique with (r := r); lia.
Qed.

(* a number that is not a multiple of 2^k has fewer than k trailing zeros *)
Lemma tzp_mod : forall p k, Npos p mod pow2 k <> 0 -> (tzp p < k)%nat.
Proof.
  induction p as [p IH|p IH|]; intros k Hm; cbn [tzp].
  - destruct k; [rewrite pow2_0, N.mod_1_r in Hm; congruence|lia].
  - destruct k as [|k]; [rewrite pow2_0, N.mod_1_r in Hm; congruence|].
    enough (tzp p < k)%nat by lia. apply IH. intro E. apply Hm.
    rewrite pow2_S. change (Npos (xO p)) with (2 * Npos p).
    pose proof (pow2_pos k). rewrite N.mul_mod_distr_l by lia. lia.
  - destruct k; [rewrite pow2_0, N.mod_1_r in Hm; congruence|lia].
Qed.
Lemma tz_mod x k : x mod pow2 k <> 0 -> (tz x < k)%nat.
Proof.
  destruct x as [|p]; [intros Hm; rewrite N.mod_0_l in Hm; [congruence|pose proof (pow2_pos k); lia]|].
  apply tzp_mod.
Qed.

Fixpoint oddpart (p : positive) : positive := match p with xO p => oddpart p | _ => p end.
Lemma sh_oddpart : forall p j, sh p j = sh (oddpart p) (j + tzp p).
Proof.
  induction p as [p IH|p IH|]; intros j; cbn [oddpart tzp]; rewrite ?Nat.add_0_r; auto.
  rewrite sh_O, IH. f_equal. lia.
Qed.
Lemma next_le : forall p j dep, sh p j < pow2 dep ->
  (j + tzp p < dep)%nat /\ sh p j + pow2 (j + tzp p) <= pow2 dep.
Proof.
  intros p j dep Hlt. rewrite sh_oddpart in *.
  remember (j + tzp p)%nat as d eqn:Ed. remember (oddpart p) as q eqn:Eq. clear Ed Eq p j.
  unfold sh in *.
  assert (Hd: (d < dep)%nat).
  { apply pow2_lt_inv. pose proof (pow2_pos d) as Ha.
    remember (pow2 d) as a eqn:Ea; clear Ea. assert (a <= Npos q * a) by nia. lia. }
  split; auto.
  assert (Ee: dep = ((dep - d) + d)%nat) by lia. remember (dep - d)%nat as e eqn:He; clear He. subst dep.
  rewrite pow2_add in *. pose proof (pow2_pos d) as Ha.
  remember (pow2 d) as a eqn:Ea; clear Ea. remember (pow2 e) as b eqn:Eb; clear Eb.
  assert (Npos q < b) by nia. nia.
Qed.

Definition obind {A B} (o : outcome A) (f : A -> outcome B) : outcome B :=
  match o with Ok a => f a | Err e => Err e | Panic c => Panic c end.

Section BuilderP.
  Context {T : Type}.
  Variable ek : ekind T.
  Hypothesis EKW : ek_wf ek.
  Local Notation pd := (pd_of ek).
  Local Notation pf := (pf_of ek).
  Notation tree := (tree T).
  Notation stree := (stree T).
  Notation sent := (bool * stree)%type.
  Notation ent := (bool * tree)%type.
  Implicit Types (srcs : list tree) (s : state).

  (* ---------- canonical form ---------- *)
  Lemma cap_pos d : 0 < cap ek d. Proof. unfold cap. apply pow2_pos. Qed.
  Lemma cap_S d : cap ek (S d) = 2 * cap ek d.
  Proof. unfold cap. change (S d + pd)%nat with (S (d + pd)). apply pow2_S. Qed.
  Lemma cap_0 : cap ek 0 = pf. Proof. reflexivity. Qed.
  Lemma pf_pos : 0 < pf. Proof. apply pow2_pos. Qed.
  Lemma unpacked_pd : is_packed ek = false -> pd = O.
  Proof. unfold is_packed, pd_of. destruct (epd ek); [discriminate|reflexivity]. Qed.

  Lemma canon_nil d : canon ek d [] = SZero d. Proof. destruct d; reflexivity. Qed.
  Lemma canon_S d l : l <> [] ->
    canon ek (S d) l = SNode (canon ek d (takeN (cap ek d) l)) (canon ek d (dropN (cap ek d) l)).
  Proof. destruct l; [congruence|reflexivity]. Qed.
  Lemma canon_0_packed l : is_packed ek = true -> l <> [] -> canon ek 0 l = SPacked l.
  Proof. intros Hp Hl. destruct l; [congruence|]. cbn [canon]. now rewrite Hp. Qed.
  Lemma canon_0_leaf v : is_packed ek = false -> canon ek 0 [v] = SLeaf v.
  Proof. intros Hp. cbn [canon]. now rewrite Hp. Qed.

  Definition full (d : nat) (l : list T) : Prop := lenN l = cap ek d.
  Lemma full_ne d l : full d l -> l <> [].
  Proof. unfold full. pose proof (cap_pos d). destruct l; [rewrite lenN_nil; lia|congruence]. Qed.
  Lemma canon_app_full d l1 l2 : full d l1 -> canon ek (S d) (l1 ++ l2) = SNode (canon ek d l1) (canon ek d l2).
  Proof.
    intros F. rewrite canon_S.
    - rewrite <- F, takeN_app_exact, dropN_app_exact. reflexivity.
    - apply full_ne in F. destruct l1; [congruence|discriminate].
  Qed.
  Lemma canon_S_small d l : l <> [] -> lenN l <= cap ek d -> canon ek (S d) l = SNode (canon ek d l) (SZero d).
  Proof. intros Hne Hl. rewrite canon_S by auto. rewrite takeN_all, dropN_all by auto. now rewrite canon_nil. Qed.
  Lemma full_app d l1 l2 : full d l1 -> full d l2 -> full (S d) (l1 ++ l2).
  Proof. unfold full. rewrite lenN_app, cap_S. lia. Qed.
  Lemma app_ne (l1 l2 : list T) : l2 <> [] -> l1 ++ l2 <> [].
  Proof. intros Hne E. apply app_eq_nil in E. tauto. Qed.

  (* ---------- allocation discipline ---------- *)
  Lemma ao_refl s : alloc_only s s. Proof. split; [reflexivity|lia]. Qed.
  Lemma ao_trans s1 s2 s3 : alloc_only s1 s2 -> alloc_only s2 s3 -> alloc_only s1 s3.
  Proof. intros [M1 N1] [M2 N2]. split; [congruence|lia]. Qed.
  Lemma ao_bump s : alloc_only s (bump s).
  Proof. split; [reflexivity|cbn [bump next]; lia]. Qed.
  Lemma ao_bump_l s s' : alloc_only (bump s) s' -> alloc_only s s'.
  Proof. apply ao_trans, ao_bump. Qed.

  (* a stack entry (flag, t): every node of t is retained from a source or was allocated since s0;
     an Unarced entry (flag false) was created by the builder itself: its root identity is new *)
  Definition ent_ok (s0 s : state) (srcs : list tree) (e : ent) : Prop :=
    fresh_or_from s0 s srcs (snd e) /\
    (fst e = false -> (next s0 <= idof (snd e))%positive /\ (idof (snd e) < next s)%positive).

  Lemma fof_mono s0 s s' srcs (t : tree) : fresh_or_from s0 s srcs t -> (next s <= next s')%positive -> fresh_or_from s0 s' srcs t.
  Proof. intros Hf Hn u Hu. destruct (Hf u Hu) as [Hs|[Ha Hb]]; [left; exact Hs|right; split; [exact Ha|lia]]. Qed.
  Lemma ent_mono s0 s s' srcs e : ent_ok s0 s srcs e -> (next s <= next s')%positive -> ent_ok s0 s' srcs e.
  Proof. intros [Hf Hi] Hn. split; [eapply fof_mono; eauto|]. intros Hfl. destruct (Hi Hfl). split; lia. Qed.
  Lemma ent_node s0 s srcs f1 l f2 r : ent_ok s0 s srcs (f1, l) -> ent_ok s0 s srcs (f2, r) ->
    (next s0 <= next s)%positive -> ent_ok s0 (bump s) srcs (false, Node (next s) l r).
  Proof.
    intros [Hl _] [Hr _] Hn. cbn [fst snd] in *. split; cbn [fst snd idof bump next].
    - intros u Hu. cbn [subt] in Hu. cbn [bump next]. destruct Hu as [->|[Hu|Hu]].
      + right. cbn [idof]. split; lia.
      + destruct (Hl u Hu) as [Hs|[Ha Hb]]; [left; exact Hs|right; split; [exact Ha|lia]].
      + destruct (Hr u Hu) as [Hs|[Ha Hb]]; [left; exact Hs|right; split; [exact Ha|lia]].
    - intros _. split; lia.
  Qed.
  Definition atom (t : tree) : Prop := match t with Node _ _ _ => False | _ => True end.
  Lemma ent_atom s0 s srcs t : atom t -> idof t = next s -> (next s0 <= next s)%positive ->
    ent_ok s0 (bump s) srcs (false, t).
  Proof.
    intros Ha Hi Hn. split; cbn [fst snd bump next].
    - intros u Hu. assert (u = t) as -> by (destruct t; cbn [subt atom] in *; tauto).
      right. rewrite Hi. cbn [bump next]. split; lia.
    - intros _. rewrite Hi. split; lia.
  Qed.
  Lemma ent_packed_upd s0 s srcs i vs vs' : ent_ok s0 s srcs (false, Packed i vs) -> ent_ok s0 s srcs (false, Packed i vs').
  Proof.
    intros [_ Hi]. cbn [fst snd idof] in *. specialize (Hi eq_refl). split; cbn [fst snd idof]; [|auto].
    intros u Hu. cbn [subt] in Hu. destruct Hu as [->|[]]. right. exact Hi.
  Qed.
  Lemma ent_src s0 s srcs t : In t srcs -> ent_ok s0 s srcs (true, t).
  Proof. intros Hin. split; cbn [fst snd]; [|discriminate]. intros u Hu. left. exists t. auto. Qed.

  (* ---------- identities name nodes ---------- *)
  Lemma subt_refl (t : tree) : subt t t.
  Proof. destruct t; left; reflexivity. Qed.
  Lemma subt_In_id (u t : tree) : subt u t -> In_id (idof u) t.
  Proof.
    induction t as [i v|i vs|i l IHl r IHr|i d0]; cbn [subt In_id]; intros [->|Hs]; try (left; reflexivity); try tauto.
  Qed.
  Lemma In_id_subt i (t : tree) : In_id i t -> exists u, subt u t /\ idof u = i.
  Proof.
    induction t as [j v|j vs|j l IHl r IHr|j d0]; cbn [In_id]; intros [->|Hs]; try tauto;
      try (eexists; split; [apply subt_refl|reflexivity]).
    destruct Hs as [Hs|Hs]; [destruct (IHl Hs) as (u & Hu & E)|destruct (IHr Hs) as (u & Hu & E)];
      exists u; (split; [cbn [subt]; tauto|exact E]).
  Qed.
  Lemma In_id_root (t : tree) : In_id (idof t) t.
  Proof. apply subt_In_id, subt_refl. Qed.
  Lemma fof_below s0 s srcs (t : tree) : fresh_or_from s0 s srcs t ->
    (forall u, In u srcs -> below (next s0) u) -> (next s0 <= next s)%positive -> below (next s) t.
  Proof.
    intros Hf Hs Hn i Hi. destruct (In_id_subt i t Hi) as (u & Hu & <-).
    destruct (Hf u Hu) as [(t0 & Hin & Hsub)|[_ Hb]]; [|exact Hb].
    pose proof (Hs t0 Hin (idof u) (subt_In_id u t0 Hsub)). lia.
  Qed.

  Lemma idf_incl (ts ts' : list tree) : incl ts' ts -> idf ts -> idf ts'.
  Proof. intros Hi Hf t1 t2 u v H1 H2. apply Hf; auto. Qed.
  (* a new root whose identity is above everything else *)
  Lemma idf_fresh_root (t : tree) (Y Y' : list tree) : idf Y -> (forall x, In x Y -> below (idof t) x) ->
    (forall u, subt u t -> u = t \/ exists x, In x Y /\ subt u x) -> incl Y' Y -> idf (t :: Y').
  Proof.
    intros Hf Hb Hsub Hinc.
    assert (Hcl: forall t1 u, In t1 (t :: Y') -> subt u t1 -> u = t \/ exists x, In x Y /\ subt u x).
    { intros t1 u [<-|Hin] Hu; [apply Hsub; exact Hu|right; exists t1; split; [apply Hinc; exact Hin|exact Hu]]. }
    intros t1 t2 u v H1 H2 Hu Hv E.
    destruct (Hcl t1 u H1 Hu) as [->|(x & Hx & Hux)]; destruct (Hcl t2 v H2 Hv) as [->|(y & Hy & Hvy)]; auto.
    - pose proof (Hb y Hy _ (subt_In_id v y Hvy)). lia.
    - pose proof (Hb x Hx _ (subt_In_id u x Hux)). lia.
    - apply (Hf x y); auto.
  Qed.
  Lemma idf_packed_upd i vs vs' (X : list tree) : idf (Packed i vs :: X) -> (forall x, In x X -> ~ In_id i x) ->
    idf (Packed i vs' :: X).
  Proof.
    intros Hf Hno.
    assert (Hcl: forall t1 u, In t1 (Packed i vs' :: X) -> subt u t1 -> u = Packed i vs' \/ exists x, In x X /\ subt u x).
    { intros t1 u [<-|Hin] Hu; [cbn [subt] in Hu; tauto|right; exists t1; auto]. }
    intros t1 t2 u v H1 H2 Hu Hv E.
    destruct (Hcl t1 u H1 Hu) as [->|(x & Hx & Hux)]; destruct (Hcl t2 v H2 Hv) as [->|(y & Hy & Hvy)]; auto.
    - exfalso. apply (Hno y Hy). cbn [idof] in E. rewrite E. apply subt_In_id. exact Hvy.
    - exfalso. apply (Hno x Hx). cbn [idof] in E. rewrite <- E. apply subt_In_id. exact Hux.
    - apply (Hf x y); auto; right; assumption.
  Qed.

  Definition trees (st : list ent) : list tree := map snd st.
  (* the sources are well-formed and were allocated before s0 *)
  Definition srcs_ok (s0 : state) (srcs : list tree) : Prop :=
    idf srcs /\ forall u, In u srcs -> below (next s0) u.
  (* the root identity of an Unarced entry occurs nowhere else in the stack *)
  Fixpoint uroots (st : list ent) : Prop :=
    match st with
    | [] => True
    | e :: st' =>
        (fst e = false -> forall x, In x (trees st') -> ~ In_id (idof (snd e)) x) /\
        (forall e', In e' st' -> fst e' = false -> ~ In_id (idof (snd e')) (snd e)) /\
        uroots st'
    end.

  Definition stk_inv (s0 s : state) (srcs : list tree) (st : list ent) : Prop :=
    (next s0 <= next s)%positive /\ Forall (ent_ok s0 s srcs) st /\
    (srcs_ok s0 srcs -> idf (trees st ++ srcs) /\ uroots st).

  Lemma stk_mono s0 s s' srcs st : stk_inv s0 s srcs st -> (next s <= next s')%positive -> stk_inv s0 s' srcs st.
  Proof.
    intros (Hn & Hall & Hid) Hle. split; [lia|]. split; [|exact Hid].
    eapply Forall_impl; [|exact Hall]. intros e He. eapply ent_mono; eauto.
  Qed.
  Lemma stk_inv_nil s srcs : stk_inv s s srcs [].
  Proof. split; [lia|]. split; [constructor|]. intros [Hi _]. split; [exact Hi|exact I]. Qed.

  Lemma stk_below s0 s srcs st : (next s0 <= next s)%positive -> Forall (ent_ok s0 s srcs) st -> srcs_ok s0 srcs ->
    forall x, In x (trees st ++ srcs) -> below (next s) x.
  Proof.
    intros Hn Hall [_ Hb] x Hx. apply in_app_or in Hx. destruct Hx as [Hx|Hx].
    - unfold trees in Hx. apply in_map_iff in Hx. destruct Hx as (e & <- & He).
      rewrite Forall_forall in Hall. eapply fof_below; eauto. apply (Hall e He).
    - intros i Hi. pose proof (Hb x Hx i Hi). lia.
  Qed.
  Lemma Forall_bump s0 s srcs st : Forall (ent_ok s0 s srcs) st -> Forall (ent_ok s0 (bump s) srcs) st.
  Proof. intros Hall. eapply Forall_impl; [|exact Hall]. intros e He. eapply ent_mono; eauto. cbn [bump next]. lia. Qed.

  (* the four ways the stack changes *)
  Lemma stk_push_atom s0 s srcs st (t : tree) : stk_inv s0 s srcs st -> atom t -> idof t = next s ->
    stk_inv s0 (bump s) srcs ((false, t) :: st).
  Proof.
    intros (Hn & Hall & Hid) Ha Hi. split; [cbn [bump next]; lia|]. split.
    - constructor; [apply ent_atom; auto|apply Forall_bump; exact Hall].
    - intros Hok. destruct (Hid Hok) as [Hf Hur]. pose proof (stk_below _ _ _ _ Hn Hall Hok) as Hb.
      split.
      + cbn [trees map snd app]. apply (idf_fresh_root t (trees st ++ srcs)); auto.
        * rewrite Hi. exact Hb.
        * intros u Hu. left. destruct t; cbn [subt atom] in *; tauto.
        * apply incl_refl.
      + cbn [uroots fst snd]. split; [|split; [|exact Hur]].
        * intros _ x Hx Hin. pose proof (Hb x (in_or_app _ _ _ (or_introl Hx)) _ Hin). lia.
        * intros e' He' _ Hin.
          assert (E: idof (snd e') = idof t) by (destruct t; cbn [In_id atom] in *; tauto).
          pose proof (Hb (snd e') (in_or_app _ _ _ (or_introl (in_map snd _ _ He'))) _ (In_id_root _)). lia.
  Qed.
  Lemma stk_merge s0 s srcs f1 (r : tree) f2 (l : tree) st : stk_inv s0 s srcs ((f1, r) :: (f2, l) :: st) ->
    stk_inv s0 (bump s) srcs ((false, Node (next s) l r) :: st).
  Proof.
    intros (Hn & Hall & Hid). split; [cbn [bump next]; lia|]. split.
    - inversion Hall as [|e1 l1 He1 Hall1]; subst. inversion Hall1 as [|e2 l2 He2 Hall2]; subst.
      constructor; [eapply ent_node; eauto|apply Forall_bump; exact Hall2].
    - intros Hok. destruct (Hid Hok) as [Hf Hur]. pose proof (stk_below _ _ _ _ Hn Hall Hok) as Hb.
      cbn [trees map snd app] in Hf, Hb. fold (trees st) in Hf, Hb.
      split.
      + cbn [trees map snd app]. fold (trees st).
        apply (idf_fresh_root (Node (next s) l r) (r :: l :: trees st ++ srcs)); auto.
        * intros u Hu. cbn [subt] in Hu. destruct Hu as [->|[Hu|Hu]]; [left; reflexivity| |];
            right; [exists l|exists r]; cbn [In]; auto.
        * intros x Hx. right. right. exact Hx.
      + cbn [uroots fst snd] in Hur. destruct Hur as (_ & Ho1 & _ & Ho2 & Hur).
        cbn [uroots fst snd]. split; [|split; [|exact Hur]].
        * intros _ x Hx Hin. cbn [idof] in Hin.
          pose proof (Hb x (or_intror (or_intror (in_or_app _ _ _ (or_introl Hx)))) _ Hin). lia.
        * intros e' He' Hfl Hin. cbn [In_id idof] in Hin. destruct Hin as [E|[Hin|Hin]].
          -- pose proof (Hb (snd e') (or_intror (or_intror (in_or_app _ _ _ (or_introl (in_map snd _ _ He'))))) _ (In_id_root _)). lia.
          -- exact (Ho2 e' He' Hfl Hin).
          -- exact (Ho1 e' (or_intror He') Hfl Hin).
  Qed.
  Lemma stk_packed_upd s0 s srcs i vs vs' st : stk_inv s0 s srcs ((false, Packed i vs) :: st) ->
    stk_inv s0 s srcs ((false, Packed i vs') :: st).
  Proof.
    intros (Hn & Hall & Hid). split; [exact Hn|]. inversion Hall as [|e1 l1 He1 Hall1]; subst. split.
    - constructor; [eapply ent_packed_upd; eauto|exact Hall1].
    - intros Hok. destruct (Hid Hok) as [Hf Hur]. split.
      + cbn [trees map snd app] in *. apply (idf_packed_upd i vs vs'); auto.
        intros x Hx Hin. apply in_app_or in Hx. destruct Hx as [Hx|Hx].
        * cbn [uroots fst snd idof] in Hur. exact (proj1 Hur eq_refl x Hx Hin).
        * destruct He1 as [_ Hfr]. cbn [fst snd idof] in Hfr. destruct (Hfr eq_refl) as [Hlo _].
          pose proof (proj2 Hok x Hx i Hin). lia.
      + exact Hur.
  Qed.
  Lemma stk_push_src s0 s srcs st (t : tree) : stk_inv s0 s srcs st -> In t srcs -> stk_inv s0 s srcs ((true, t) :: st).
  Proof.
    intros (Hn & Hall & Hid) Hin. split; [exact Hn|]. split; [constructor; [apply ent_src; exact Hin|exact Hall]|].
    intros Hok. destruct (Hid Hok) as [Hf Hur]. split.
    - cbn [trees map snd app]. eapply idf_incl; [|exact Hf]. intros x [<-|Hx]; [apply in_or_app; right; exact Hin|exact Hx].
    - cbn [uroots fst snd]. split; [discriminate|]. split; [|exact Hur].
      intros e' He' Hfl Hid'. rewrite Forall_forall in Hall. destruct (Hall e' He') as [_ Hfr].
      destruct (Hfr Hfl) as [Hlo _]. pose proof (proj2 Hok t Hin _ Hid'). lia.
  Qed.

  (* ---------- shadows ---------- *)
  Record pbuilder := { pstack : list sent; pdepth : nat; plevel : N; plength : N; pcap : N }.
  Definition shp (e : ent) : sent := let '(f, t) := e in (f, shape t).
  Definition shb (b : builder T) : pbuilder :=
    {| pstack := map shp (bstack b); pdepth := bdepth b; plevel := blevel b; plength := blength b; pcap := bcap b |}.
  (* number of tree nodes held by a stack *)
  Definition wt (st : list sent) : N := fold_right (fun e a => snodes (snd e) + a) 0 st.

  Fixpoint pmerge_n (n : nat) (top : stree) (st : list sent) : outcome (stree * list sent) :=
    match n with
    | O => Ok (top, st)
    | S n' => match st with
              | [] => Err BuilderStackEmptyMerge
              | (_, lft) :: st' => pmerge_n n' (SNode lft top) st'
              end
    end.
  Fixpoint pmerge_avail (n : nat) (top : sent) (st : list sent) : sent * list sent :=
    match n with
    | O => (top, st)
    | S n' => match st with
              | [] => (top, st)
              | (_, lft) :: st' => pmerge_avail n' (false, SNode lft (snd top)) st'
              end
    end.
  Definition ppush_top (b : pbuilder) (v : T) : outcome (stree * list sent) :=
    if is_packed ek then
      if plength b mod pf =? 0 then Ok (SPacked [v], pstack b)
      else match pstack b with
           | (false, SPacked vs) :: st =>
               if lenN vs =? pf then Err (PackedLeafFull (lenN vs)) else Ok (SPacked (vs ++ [v]), st)
           | _ => Err BuilderExpectedLeaf
           end
    else Ok (SLeaf v, pstack b).
  Definition ppush (b : pbuilder) (v : T) : outcome pbuilder :=
    if plength b =? pcap b then Err BuilderFull else
    obind (ppush_top b v) (fun '(top, st) =>
    obind (pmerge_n (tz (plength b + 1) - pd) top st) (fun '(top', st') =>
    Ok {| pstack := (false, top') :: st'; pdepth := pdepth b; plevel := plevel b;
          plength := plength b + 1; pcap := pcap b |})).
  Definition ppush_node (b : pbuilder) (node : stree) (len : N) : outcome pbuilder :=
    if plength b =? pcap b then Err BuilderFull else
    if 64 <=? plevel b then Panic PShift else
    let next := N.shiftr (plength b) (plevel b) + 1 in
    let values_to_merge := if plevel b =? 0 then (tz next - pd)%nat else tz next in
    let '(top, st) := pmerge_avail values_to_merge (true, node) (pstack b) in
    if usize_max <? plength b + len then Panic POverflow else
    Ok {| pstack := top :: st; pdepth := pdepth b; plevel := plevel b;
          plength := plength b + len; pcap := pcap b |}.
  Fixpoint pmerge_up (n : nat) (i : nat) (x : N) (st : list sent) (eright eleft : error) : outcome (list sent) :=
    match n with
    | O => Ok st
    | S n' =>
        if N.testbit x (N.of_nat (i + pd)) then
          match st with
          | [] => Err eright
          | [_] => Err eleft
          | (_, rgt) :: (_, lft) :: st' => pmerge_up n' (S i) x ((false, SNode lft rgt) :: st') eright eleft
          end
        else Ok st
    end.
  Fixpoint pfinish_loop (fuel : nat) (cp : N) (dep : nat) (lv : nat) (next : N) (st : list sent) : outcome (list sent) :=
    if N.shiftl next (N.of_nat lv) mod 2 ^ 64 =? cp then Ok st else
    match fuel with
    | O => Panic POutOfFuel
    | S f =>
        let depth := ((tz next + lv) - pd)%nat in
        match st with
        | [] => Err BuilderStackEmptyFinish
        | (_, top) :: st' =>
            obind (pmerge_up (dep - (depth + 1)) (depth + 1) (N.shiftl next (N.of_nat lv) mod 2 ^ 64)
                     ((false, SNode top (SZero depth)) :: st')
                     BuilderStackEmptyFinishRight BuilderStackEmptyFinishLeft) (fun st2 =>
            if (depth + pd <? lv)%nat then Panic POverflow else
            if (64 <=? depth + pd - lv)%nat then Panic POverflow else
            pfinish_loop f cp dep lv (next + pow2 (depth + pd - lv)) st2)
        end
    end.
  Definition pfinish_pre (b : pbuilder) (next : N) : outcome (N * list sent) :=
    if is_packed ek then
      let skip := (pf - plength b mod pf) mod pf in
      if (0 <? skip) && (plevel b =? 0) then
        obind (pmerge_up (pdepth b) 0 next (pstack b) BuilderStackEmptyMergeRight BuilderStackEmptyMergeLeft)
          (fun st' => Ok (next + skip, st'))
      else Ok (next, pstack b)
    else Ok (next, pstack b).
  Definition pfinish_ne (b : pbuilder) : outcome (stree * nat * N) :=
    if 64 <=? plevel b then Panic PShift else
    let lv := N.to_nat (plevel b) in
    let next := (plength b + pow2 lv - 1) / pow2 lv in
    obind (pfinish_pre b next) (fun '(next1, st1) =>
    obind (pfinish_loop 66 (pcap b) (pdepth b) lv next1 st1) (fun st2 =>
    match st2 with
    | [] => Err BuilderStackEmptyFinalize
    | [(_, t)] => Ok (t, pdepth b, plength b)
    | _ => Err BuilderStackLeftover
    end)).
  Definition pfinish (b : pbuilder) : outcome (stree * nat * N) :=
    match pstack b with
    | [] => Ok (SZero (pdepth b), pdepth b, 0)
    | _ => pfinish_ne b
    end.
  Fixpoint ppush_all (b : pbuilder) (vs : list T) : outcome pbuilder :=
    match vs with [] => Ok b | v :: r => obind (ppush b v) (fun b' => ppush_all b' r) end.
  Fixpoint pfeed (items : list (level_node T)) (level : nat) (b : pbuilder) : outcome pbuilder :=
    match items with
    | [] => Ok b
    | LInternal node :: rest =>
        let last := match rest with [] => true | _ => false end in
        let sublen := if last then compute_len node else pow2 level in
        obind (ppush_node b (shape node) sublen) (fun b' => pfeed rest level b')
    | LPackedLeaf v :: rest => obind (ppush b v) (fun b' => pfeed rest level b')
    end.

  Lemma wt_cons e st : wt (e :: st) = snodes (snd e) + wt st. Proof. reflexivity. Qed.
  Ltac wt_simp := cbn [map shp]; rewrite ?wt_cons; cbn [fst snd shape snodes bump next].

  (* ---------- simulation ---------- *)
  (* the step from s to s' only allocated, keeps the stack invariant and allocated exactly the new nodes *)
  (* retention: a tree held by the stack (as a subtree of an Arced entry or of a Node entry) stays held;
     only the open packed leaf, an Unarced non-Node entry, is ever replaced *)
  Definition isnode (t : tree) : Prop := match t with Node _ _ _ => True | _ => False end.
  Definition held (st : list ent) (u : tree) : Prop :=
    exists e, In e st /\ subt u (snd e) /\ (fst e = true \/ isnode (snd e)).
  Definition keeps (st st' : list ent) : Prop := forall u, held st u -> held st' u.
  Lemma keeps_refl st : keeps st st. Proof. intros u Hu. exact Hu. Qed.
  Lemma keeps_trans st1 st2 st3 : keeps st1 st2 -> keeps st2 st3 -> keeps st1 st3.
  Proof. intros H1 H2 u Hu. auto. Qed.
  Lemma keeps_incl st st' : incl st st' -> keeps st st'.
  Proof. intros Hi u (e & He & Hs). exists e. split; [apply Hi; exact He|exact Hs]. Qed.
  Lemma keeps_cons e st : keeps st (e :: st).
  Proof. apply keeps_incl. intros x Hx. right. exact Hx. Qed.
  Lemma keeps_app (A B B' : list ent) : keeps B B' -> keeps (A ++ B) (A ++ B').
  Proof.
    intros Hk u (e & He & Hs). apply in_app_or in He. destruct He as [He|He].
    - exists e. split; [apply in_or_app; left; exact He|exact Hs].
    - destruct (Hk u (ex_intro _ e (conj He Hs))) as (e' & He' & Hs'). exists e'. split; [apply in_or_app; right; exact He'|exact Hs'].
  Qed.
  Lemma keeps_merge f1 (r : tree) f2 (l : tree) n st : keeps ((f1, r) :: (f2, l) :: st) ((false, Node n l r) :: st).
  Proof.
    intros u (e & He & Hs & Hfl). destruct He as [<-|[<-|He]]; cbn [fst snd] in *.
    - exists (false, Node n l r). split; [left; reflexivity|]. cbn [fst snd subt isnode]. tauto.
    - exists (false, Node n l r). split; [left; reflexivity|]. cbn [fst snd subt isnode]. tauto.
    - exists e. split; [right; exact He|tauto].
  Qed.
  Lemma keeps_packed i vs vs' st : keeps ((false, Packed i vs) :: st) ((false, Packed i vs') :: st).
  Proof.
    intros u (e & He & Hs & Hfl). destruct He as [<-|He]; cbn [fst snd isnode] in *.
    - destruct Hfl as [Hfl|[]]. discriminate.
    - exists e. split; [right; exact He|tauto].
  Qed.

  Definition step_ok (s0 : state) (srcs : list tree) (s : state) (Win : N) (ist : list ent) (s' : state) (st' : list ent) : Prop :=
    alloc_only s s' /\ stk_inv s0 s' srcs st' /\ Npos (next s') + Win = Npos (next s) + wt (map shp st') /\
    keeps ist st'.

  Lemma merge_n_sim R s0 srcs n : forall top st s,
    stk_inv s0 s srcs ((false, top) :: st) ->
    wp R (merge_n n top st) (fun o s' =>
      match pmerge_n n (shape top) (map shp st) with
      | Ok (pt, pst) => exists t st', o = Ok (t, st') /\ shape t = pt /\ map shp st' = pst /\
                          step_ok s0 srcs s (wt (map shp ((false, top) :: st))) ((false, top) :: st) s' ((false, t) :: st')
      | Err e => o = Err e
      | Panic c => o = Panic c
      end) s.
  Proof.
    induction n as [|n IH]; intros top st s Hinv; cbn [merge_n pmerge_n].
    - cbn [wp]. exists top, st. split; [reflexivity|]. split; [reflexivity|]. split; [reflexivity|].
      split; [apply ao_refl|]. split; [exact Hinv|]. split; [reflexivity|apply keeps_refl].
    - destruct st as [|[f lft] st']; cbn [map shp fst snd]; [reflexivity|].
      cbn [bind fresh wp]. eapply wp_mono; [|apply IH].
      + intros o s'. cbn [shape]. destruct (pmerge_n n _ _) as [[pt pst]|e|c]; auto.
        intros (t & st2 & -> & Ht & Hst & Hao & Hinv' & Hcnt & Hk). exists t, st2.
        split; [reflexivity|]. split; [exact Ht|]. split; [exact Hst|].
        split; [apply ao_bump_l, Hao|]. split; [exact Hinv'|].
        split; [revert Hcnt; wt_simp; lia|]. eapply keeps_trans; [apply keeps_merge|exact Hk].
      + eapply stk_merge; exact Hinv.
  Qed.

  Lemma merge_avail_sim R s0 srcs n : forall top st s,
    stk_inv s0 s srcs (top :: st) ->
    wp R (merge_avail n top st) (fun o s' =>
      exists t st', o = Ok (t, st') /\ (shp t, map shp st') = pmerge_avail n (shp top) (map shp st) /\
                    step_ok s0 srcs s (wt (map shp (top :: st))) (top :: st) s' (t :: st')) s.
  Proof.
    induction n as [|n IH]; intros top st s Hinv; cbn [merge_avail pmerge_avail].
    - cbn [wp]. exists top, st. split; [reflexivity|]. split; [reflexivity|].
      split; [apply ao_refl|]. split; [exact Hinv|]. split; [reflexivity|apply keeps_refl].
    - destruct top as [ft tt]. destruct st as [|[f lft] st']; cbn [map shp fst snd].
      + cbn [wp]. exists (ft, tt), []. split; [reflexivity|]. split; [reflexivity|].
        split; [apply ao_refl|]. split; [exact Hinv|]. split; [reflexivity|apply keeps_refl].
      + cbn [bind fresh wp]. eapply wp_mono; [|apply IH].
        * intros o s'. intros (t & st2 & -> & Hsh & Hao & Hinv' & Hcnt & Hk). exists t, st2.
          split; [reflexivity|]. split; [exact Hsh|].
          split; [apply ao_bump_l, Hao|]. split; [exact Hinv'|].
          split; [revert Hcnt; wt_simp; lia|]. eapply keeps_trans; [apply keeps_merge|exact Hk].
        * eapply stk_merge; exact Hinv.
  Qed.

  Lemma merge_up_sim R s0 srcs x er el n : forall i st s,
    stk_inv s0 s srcs st ->
    wp R (merge_up ek n i x st er el) (fun o s' =>
      match pmerge_up n i x (map shp st) er el with
      | Ok pst => exists st', o = Ok st' /\ map shp st' = pst /\ step_ok s0 srcs s (wt (map shp st)) st s' st'
      | Err e => o = Err e
      | Panic c => o = Panic c
      end) s.
  Proof.
    induction n as [|n IH]; intros i st s Hinv; cbn [merge_up pmerge_up].
    - cbn [wp]. exists st. split; [reflexivity|]. split; [reflexivity|].
      split; [apply ao_refl|]. split; [exact Hinv|]. split; [reflexivity|apply keeps_refl].
    - destruct (N.testbit x (N.of_nat (i + pd))).
      + destruct st as [|[f1 rgt] [|[f2 lft] st']]; cbn [map shp fst snd]; [reflexivity|reflexivity|].
        cbn [bind fresh wp]. eapply wp_mono; [|apply IH].
        * intros o s'. cbn [map shp fst snd shape]. destruct (pmerge_up n _ _ _ _ _) as [pst|e|c]; auto.
          intros (st2 & -> & Hsh & Hao & Hinv' & Hcnt & Hk). exists st2.
          split; [reflexivity|]. split; [exact Hsh|].
          split; [apply ao_bump_l, Hao|]. split; [exact Hinv'|].
          split; [revert Hcnt; wt_simp; lia|]. eapply keeps_trans; [apply keeps_merge|exact Hk].
        * eapply stk_merge; exact Hinv.
      + cbn [wp]. exists st. split; [reflexivity|]. split; [reflexivity|].
        split; [apply ao_refl|]. split; [exact Hinv|]. split; [reflexivity|apply keeps_refl].
  Qed.


  Lemma push_tail_sim R s0 srcs (b : builder T) top st s (W : N) (ist : list ent) s1 :
    stk_inv s0 s1 srcs ((false, top) :: st) -> alloc_only s s1 ->
    Npos (next s1) + W = Npos (next s) + wt (map shp ((false, top) :: st)) ->
    keeps ist ((false, top) :: st) ->
    wp R ('(top', st') <- merge_n (tz (blength b + 1) - pd) top st ;;
          Ret {| bstack := (false, top') :: st'; bdepth := bdepth b; blevel := blevel b;
                 blength := blength b + 1; bcap := bcap b |})
      (fun o s' =>
        match obind (pmerge_n (tz (blength b + 1) - pd) (shape top) (map shp st)) (fun '(top', st') =>
              Ok {| pstack := (false, top') :: st'; pdepth := bdepth b; plevel := blevel b;
                    plength := blength b + 1; pcap := bcap b |}) with
        | Ok pb' => exists b', o = Ok b' /\ shb b' = pb' /\ step_ok s0 srcs s W ist s' (bstack b')
        | Err e => o = Err e
        | Panic c => o = Panic c
        end) s1.
  Proof.
    intros Hinv Hao Hcnt Hkp. apply wp_bind. eapply wp_mono; [|apply merge_n_sim; exact Hinv].
    intros o s'. destruct (pmerge_n _ _ _) as [[pt pst]|e|c]; cbn [obind lift].
    - intros (t & st2 & -> & Ht & Hst & Hao' & Hinv' & Hcnt' & Hk'). cbn [lift wp].
      eexists. split; [reflexivity|]. split; [unfold shb; cbn [bstack bdepth blevel blength bcap map shp fst snd]; now rewrite Ht, Hst|].
      cbn [bstack]. split; [eapply ao_trans; eauto|]. split; [exact Hinv'|]. split; [lia|eapply keeps_trans; eauto].
    - intros ->. reflexivity.
    - intros ->. reflexivity.
  Qed.

  Lemma push_sim R s0 srcs (b : builder T) v s :
    stk_inv s0 s srcs (bstack b) ->
    wp R (builder_push ek b v) (fun o s' =>
      match ppush (shb b) v with
      | Ok pb' => exists b', o = Ok b' /\ shb b' = pb' /\ step_ok s0 srcs s (wt (pstack (shb b))) (bstack b) s' (bstack b')
      | Err e => o = Err e
      | Panic c => o = Panic c
      end) s.
  Proof.
    intros Hinv. unfold builder_push, ppush, ppush_top. cbn [shb plength pcap pstack pdepth plevel].
    destruct (blength b =? bcap b); [reflexivity|].
    destruct (is_packed ek).
    - destruct (blength b mod pf =? 0).
      + cbn [bind fresh wp obind]. apply push_tail_sim.
        * apply stk_push_atom; [exact Hinv|exact I|reflexivity].
        * apply ao_bump.
        * wt_simp. lia.
        * apply keeps_cons.
      + destruct (bstack b) as [|[[|] [i0 v0|i0 vs|i0 l0 r0|i0 d0]] st] eqn:Est; cbn [map shp fst snd shape bind wp obind]; try reflexivity.
        destruct (lenN vs =? pf); cbn [bind wp obind]; [reflexivity|].
        apply push_tail_sim.
        * eapply stk_packed_upd; exact Hinv.
        * apply ao_refl.
        * wt_simp. lia.
        * apply keeps_packed.
    - cbn [bind fresh wp obind]. apply push_tail_sim.
      + apply stk_push_atom; [exact Hinv|exact I|reflexivity].
      + apply ao_bump.
      + wt_simp. lia.
      + apply keeps_cons.
  Qed.


  Lemma step_trans s0 srcs s W ist s1 st1 s2 st2 :
    step_ok s0 srcs s W ist s1 st1 -> step_ok s0 srcs s1 (wt (map shp st1)) st1 s2 st2 -> step_ok s0 srcs s W ist s2 st2.
  Proof.
    intros (A1 & I1 & C1 & K1) (A2 & I2 & C2 & K2). split; [eapply ao_trans; eauto|]. split; [exact I2|].
    split; [lia|eapply keeps_trans; eauto].
  Qed.

  Lemma push_node_sim R s0 srcs (b : builder T) node len s :
    stk_inv s0 s srcs (bstack b) -> In node srcs ->
    wp R (builder_push_node ek b node len) (fun o s' =>
      match ppush_node (shb b) (shape node) len with
      | Ok pb' => exists b', o = Ok b' /\ shb b' = pb' /\
                    step_ok s0 srcs s (snodes (shape node) + wt (pstack (shb b))) ((true, node) :: bstack b) s' (bstack b')
      | Err e => o = Err e
      | Panic c => o = Panic c
      end) s.
  Proof.
    intros Hinv Hin. unfold builder_push_node, ppush_node. cbn [shb plength pcap pstack pdepth plevel].
    destruct (blength b =? bcap b); [reflexivity|].
    destruct (64 <=? blevel b); [reflexivity|].
    apply wp_bind. eapply wp_mono; [|apply merge_avail_sim with (s0 := s0) (srcs := srcs)].
    - intros o s' (t & st' & -> & Hsh & Hstep). cbn [lift]. cbn [shp] in Hsh. rewrite <- Hsh.
      destruct (usize_max <? blength b + len); [reflexivity|]. cbn [wp].
      eexists. split; [reflexivity|]. split; [reflexivity|]. cbn [bstack].
      revert Hstep. wt_simp. auto.
    - apply stk_push_src; assumption.
  Qed.

  Lemma finish_loop_sim R s0 srcs (b : builder T) lv fuel : forall next st s,
    stk_inv s0 s srcs st ->
    wp R (finish_loop ek fuel b lv next st) (fun o s' =>
      match pfinish_loop fuel (bcap b) (bdepth b) lv next (map shp st) with
      | Ok pst => exists st', o = Ok st' /\ map shp st' = pst /\ step_ok s0 srcs s (wt (map shp st)) st s' st'
      | Err e => o = Err e
      | Panic c => o = Panic c
      end) s.
  Proof.
    induction fuel as [|fuel IH]; intros nx st s Hinv; cbn [finish_loop pfinish_loop].
    - destruct (_ =? bcap b); [|reflexivity].
      cbn [wp]. exists st. split; [reflexivity|]. split; [reflexivity|].
      split; [apply ao_refl|]. split; [exact Hinv|]. split; [reflexivity|apply keeps_refl].
    - destruct (_ =? bcap b).
      { cbn [wp]. exists st. split; [reflexivity|]. split; [reflexivity|].
        split; [apply ao_refl|]. split; [exact Hinv|]. split; [reflexivity|apply keeps_refl]. }
      destruct st as [|[f top] st']; cbn [map shp]; [reflexivity|].
      cbn [bind fresh wp]. apply wp_bind. eapply wp_mono; [|apply merge_up_sim with (s0 := s0) (srcs := srcs)].
      + intros o s1. cbn [map shp shape]. destruct (pmerge_up _ _ _ _ _ _) as [pst|e|c]; cbn [obind];
          [|intros ->; reflexivity|intros ->; reflexivity].
        intros (st2 & -> & <- & Hstep1). cbn [lift].
        destruct (_ <? lv)%nat; [reflexivity|]. destruct (64 <=? _)%nat; [reflexivity|].
        eapply wp_mono; [|apply IH; apply Hstep1].
        intros o s2. destruct (pfinish_loop _ _ _ _ _ _) as [pst2|e|c]; auto.
        intros (st3 & -> & Hsh3 & Hstep2). exists st3. split; [reflexivity|]. split; [exact Hsh3|].
        pose proof (step_trans _ _ _ _ _ _ _ _ _ Hstep1 Hstep2) as (A & I' & C & K).
        split; [apply ao_bump_l, ao_bump_l, A|]. split; [exact I'|].
        split; [revert C; wt_simp; lia|].
        eapply keeps_trans; [apply (keeps_cons (false, Zero (next s) (tz nx + lv - pd)))|].
        eapply keeps_trans; [apply keeps_merge|exact K].
      + apply (stk_merge s0 (bump s) srcs false (Zero (next s) _) f top st').
        apply stk_push_atom; [exact Hinv|exact I|reflexivity].
  Qed.


  Lemma finish_pre_sim R s0 srcs (b : builder T) nx s :
    stk_inv s0 s srcs (bstack b) ->
    wp R (if is_packed ek then
            let skip := (pf - blength b mod pf) mod pf in
            if (0 <? skip) && (blevel b =? 0) then
              st' <- merge_up ek (bdepth b) 0 nx (bstack b) BuilderStackEmptyMergeRight BuilderStackEmptyMergeLeft ;;
              Ret (nx + skip, st')
            else Ret (nx, bstack b)
          else Ret (nx, bstack b))
      (fun o s' =>
        match pfinish_pre (shb b) nx with
        | Ok (n1, pst) => exists st1, o = Ok (n1, st1) /\ map shp st1 = pst /\
                            step_ok s0 srcs s (wt (map shp (bstack b))) (bstack b) s' st1
        | Err e => o = Err e
        | Panic c => o = Panic c
        end) s.
  Proof.
    intros Hinv. unfold pfinish_pre. cbn [shb plength pcap pstack pdepth plevel].
    assert (Hret: forall n1 : N, wp R (Ret (n1, bstack b)) (fun o s' =>
              exists st1, o = Ok (n1, st1) /\ map shp st1 = map shp (bstack b) /\
                          step_ok s0 srcs s (wt (map shp (bstack b))) (bstack b) s' st1) s).
    { intros n1. cbn [wp]. eexists. split; [reflexivity|]. split; [reflexivity|].
      split; [apply ao_refl|]. split; [exact Hinv|]. split; [reflexivity|apply keeps_refl]. }
    destruct (is_packed ek); [|apply Hret].
    cbv zeta. destruct ((0 <? _) && _); [|apply Hret].
    apply wp_bind. eapply wp_mono; [|apply merge_up_sim; exact Hinv].
    intros o s1. destruct (pmerge_up _ _ _ _ _ _) as [pst|e|c]; cbn [obind];
      [|intros ->; reflexivity|intros ->; reflexivity].
    intros (st1 & -> & <- & Hstep). cbn [lift wp]. exists st1. auto.
  Qed.

  Lemma finish_sim R s0 srcs (b : builder T) s :
    stk_inv s0 s srcs (bstack b) ->
    wp R (builder_finish ek b) (fun o s' =>
      match pfinish (shb b) with
      | Ok (pt, d, n) => exists f t, o = Ok (t, d, n) /\ shape t = pt /\
                           step_ok s0 srcs s (wt (pstack (shb b))) (bstack b) s' [(f, t)]
      | Err e => o = Err e
      | Panic c => o = Panic c
      end) s.
  Proof.
    intros Hinv. unfold builder_finish, pfinish. cbn [shb pstack].
    destruct (bstack b) as [|e0 st0] eqn:Est; cbn [map].
    - cbn [bind fresh wp]. exists false, (Zero (next s) (bdepth b)).
      cbn [shb pdepth]. split; [reflexivity|]. split; [reflexivity|].
      split; [apply ao_bump|]. split.
      + apply stk_push_atom; [exact Hinv|exact I|reflexivity].
      + split; [wt_simp; cbn [wt fold_right]; lia|apply keeps_cons].
    - rewrite <- Est in *. unfold pfinish_ne. cbn [shb plength pcap pstack pdepth plevel].
      destruct (64 <=? blevel b); [reflexivity|].
      apply wp_bind. eapply wp_mono; [|apply finish_pre_sim; exact Hinv].
      intros o s1.
      match goal with |- context [pfinish_pre ?pb ?nx] => change pb with (shb b); destruct (pfinish_pre (shb b) nx) as [[n1 pst]|e|c] end;
        cbn [obind]; [|intros ->; reflexivity|intros ->; reflexivity].
      intros (st1 & -> & <- & Hstep1). cbn [lift].
      apply wp_bind. eapply wp_mono; [|apply finish_loop_sim; apply Hstep1].
      intros o s2. destruct (pfinish_loop _ _ _ _ _ _) as [pst2|e|c]; cbn [obind];
        [|intros ->; reflexivity|intros ->; reflexivity].
      intros (st2 & -> & <- & Hstep2). cbn [lift].
      pose proof (step_trans _ _ _ _ _ _ _ _ _ Hstep1 Hstep2) as Hstep.
      destruct st2 as [|[f t] [|e2 st2]]; cbn [map shp wp]; try reflexivity.
      exists f, t. split; [reflexivity|]. split; [reflexivity|].
      destruct Hstep as (A & I' & C & K). split; [exact A|]. split; [exact I'|]. split; [rewrite Est in C; exact C|exact K].
  Qed.

  Lemma push_all_sim R s0 srcs vs : forall (b : builder T) s,
    stk_inv s0 s srcs (bstack b) ->
    wp R (push_all ek b vs) (fun o s' =>
      match ppush_all (shb b) vs with
      | Ok pb' => exists b', o = Ok b' /\ shb b' = pb' /\ step_ok s0 srcs s (wt (pstack (shb b))) (bstack b) s' (bstack b')
      | Err e => o = Err e
      | Panic c => o = Panic c
      end) s.
  Proof.
    induction vs as [|v vs IH]; intros b s Hinv; cbn [push_all ppush_all].
    - cbn [wp]. exists b. split; [reflexivity|]. split; [reflexivity|].
      split; [apply ao_refl|]. split; [exact Hinv|]. split; [reflexivity|apply keeps_refl].
    - apply wp_bind. eapply wp_mono; [|apply push_sim; exact Hinv].
      intros o s1. destruct (ppush (shb b) v) as [pb1|e|c]; cbn [obind];
        [|intros ->; reflexivity|intros ->; reflexivity].
      intros (b1 & -> & <- & Hstep1). cbn [lift].
      eapply wp_mono; [|apply IH; apply Hstep1].
      intros o s2. destruct (ppush_all (shb b1) vs) as [pb2|e|c]; auto.
      intros (b2 & -> & <- & Hstep2). exists b2. split; [reflexivity|]. split; [reflexivity|].
      eapply step_trans; eauto.
  Qed.


  Definition iwt (items : list (level_node T)) : N :=
    fold_right (fun x a => match x with LInternal u => snodes (shape u) + a | LPackedLeaf _ => a end) 0 items.

  Definition srcents (items : list (level_node T)) : list ent := map (fun u => (true, u)) (internal_nodes items).

  Lemma feed_sim R s0 srcs L items : forall (b : builder T) s,
    stk_inv s0 s srcs (bstack b) -> incl (internal_nodes items) srcs ->
    wp R (pop_front_feed ek items L b) (fun o s' =>
      match pfeed items L (shb b) with
      | Ok pb' => exists b', o = Ok b' /\ shb b' = pb' /\
                    step_ok s0 srcs s (iwt items + wt (pstack (shb b))) (srcents items ++ bstack b) s' (bstack b')
      | Err e => o = Err e
      | Panic c => o = Panic c
      end) s.
  Proof.
    induction items as [|[node|v] items IH]; intros b s Hinv Hincl; cbn [pop_front_feed pfeed].
    - cbn [wp]. exists b. split; [reflexivity|]. split; [reflexivity|].
      split; [apply ao_refl|]. split; [exact Hinv|]. split; [reflexivity|apply keeps_refl].
    - apply wp_bind. eapply wp_mono; [|apply push_node_sim; [exact Hinv|apply Hincl; left; reflexivity]].
      intros o s1. destruct (ppush_node (shb b) (shape node) _) as [pb1|e|c]; cbn [obind];
        [|intros ->; reflexivity|intros ->; reflexivity].
      intros (b1 & -> & <- & Hstep1). cbn [lift].
      eapply wp_mono; [|apply IH; [apply Hstep1|intros x Hx; apply Hincl; right; exact Hx]].
      intros o s2. destruct (pfeed items L (shb b1)) as [pb2|e|c]; auto.
      intros (b2 & -> & <- & Hstep2). exists b2. split; [reflexivity|]. split; [reflexivity|].
      destruct Hstep1 as (A1 & I1 & C1 & K1). destruct Hstep2 as (A2 & I2 & C2 & K2).
      split; [eapply ao_trans; eauto|]. split; [exact I2|].
      split; [revert C1 C2; cbn [iwt fold_right shb pstack]; fold (iwt items); lia|].
      eapply keeps_trans; [|exact K2]. eapply keeps_trans; [|apply keeps_app; exact K1].
      apply keeps_incl. unfold srcents. cbn [internal_nodes flat_map app map]. fold (internal_nodes items).
      intros x [<-|Hx]; [apply in_or_app; right; left; reflexivity|].
      apply in_app_or in Hx. apply in_or_app. destruct Hx as [Hx|Hx]; [left; exact Hx|right; right; exact Hx].
    - apply wp_bind. eapply wp_mono; [|apply push_sim; exact Hinv].
      intros o s1. destruct (ppush (shb b) v) as [pb1|e|c]; cbn [obind];
        [|intros ->; reflexivity|intros ->; reflexivity].
      intros (b1 & -> & <- & Hstep1). cbn [lift].
      eapply wp_mono; [|apply IH; [apply Hstep1|exact Hincl]].
      intros o s2. destruct (pfeed items L (shb b1)) as [pb2|e|c]; auto.
      intros (b2 & -> & <- & Hstep2). exists b2. split; [reflexivity|]. split; [reflexivity|].
      destruct Hstep1 as (A1 & I1 & C1 & K1). destruct Hstep2 as (A2 & I2 & C2 & K2).
      split; [eapply ao_trans; eauto|]. split; [exact I2|].
      split; [revert C1 C2; cbn [iwt fold_right shb pstack]; fold (iwt items); lia|].
      eapply keeps_trans; [|exact K2]. apply (keeps_app (srcents items)). exact K1.
  Qed.


  (* ---------- pure theory: the stack is a binary counter ---------- *)
  (* srep p j st l : st (top first) holds, for the set bits of p read from bit 0 (weight j: blocks of
     cap j elements) upwards, full canonical blocks; l is the concatenation of their contents *)
  Inductive srep : positive -> nat -> list stree -> list T -> Prop :=
  | sr_H j l : full j l -> srep xH j [canon ek j l] l
  | sr_O p j st l : srep p (S j) st l -> srep (xO p) j st l
  | sr_I p j st l' l : srep p (S j) st l' -> full j l -> srep (xI p) j (canon ek j l :: st) (l' ++ l).
  (* the top block may be partial *)
  Inductive frep : positive -> nat -> list stree -> list T -> Prop :=
  | fr_H j l : l <> [] -> lenN l <= cap ek j -> frep xH j [canon ek j l] l
  | fr_O p j st l : frep p (S j) st l -> frep (xO p) j st l
  | fr_I p j st l' l : srep p (S j) st l' -> l <> [] -> lenN l <= cap ek j ->
                       frep (xI p) j (canon ek j l :: st) (l' ++ l).

  Lemma srep_ne p j st l : srep p j st l -> l <> [].
  Proof.
    induction 1 as [j l F|p j st l R IH|p j st l' l R IH F]; auto.
    - eapply full_ne; eauto.
    - apply app_ne. eapply full_ne; eauto.
  Qed.
  Lemma srep_stack_ne p j st l : srep p j st l -> st <> [].
  Proof. induction 1; auto; discriminate. Qed.
  Lemma frep_stack_ne p j st l : frep p j st l -> st <> [].
  Proof. induction 1; auto; discriminate. Qed.
  Lemma srep_frep p j st l : srep p j st l -> frep p j st l.
  Proof.
    induction 1 as [j l F|p j st l R IH|p j st l' l R IH F].
    - constructor; [eapply full_ne; eauto | unfold full in F; lia].
    - now constructor.
    - constructor; auto; [eapply full_ne; eauto | unfold full in F; lia].
  Qed.
  Lemma srep_len p j st l : srep p j st l -> lenN l = sh p j * pf.
  Proof.
    induction 1 as [j l F|p j st l R IH|p j st l' l R IH F].
    - rewrite sh_H. unfold full, cap in F. rewrite pow2_add in F. exact F.
    - rewrite sh_O. exact IH.
    - rewrite sh_I, lenN_app, IH. unfold full, cap in F. rewrite pow2_add in F.
      unfold pf_of. rewrite N.mul_add_distr_r. lia.
  Qed.

  Lemma full_app_le d l1 l2 : full d l1 -> lenN l2 <= cap ek d -> lenN (l1 ++ l2) <= cap ek (S d).
  Proof. unfold full. rewrite lenN_app, cap_S. lia. Qed.

  (* pushing one full block of weight j onto the counter = Pos.succ *)
  Lemma merge_succ : forall p j (st : list sent) l x,
    srep p j (map snd st) l -> full j x ->
    exists t st', pmerge_n (tzp (Pos.succ p)) (canon ek j x) st = Ok (t, st') /\
                  srep (Pos.succ p) j (t :: map snd st') (l ++ x).
  Proof.
    induction p as [p IH|p IH|]; intros j st l x R F; inversion R; subst; cbn [Pos.succ tzp pmerge_n].
    - destruct st as [|[f a] st]; [discriminate|]. cbn [map snd] in *.
      match goal with E : _ :: ?s0 = ?a0 :: _ |- _ => injection E as E1 E2; subst a0 s0 end.
      rewrite <- canon_app_full by assumption.
      match goal with R1 : srep p (S j) (map snd st) ?l1, F1 : full j ?l0 |- _ =>
        destruct (IH (S j) st l1 (l0 ++ x) R1 (full_app _ _ _ F1 F)) as (t & st' & M & R') end.
      exists t, st'. split; auto. constructor. now rewrite <- app_assoc.
    - exists (canon ek j x), st. split; auto. now constructor.
    - destruct st as [|[f a] [|e st]]; try discriminate. cbn [map snd] in *.
      match goal with E : _ :: _ = ?a0 :: _ |- _ => injection E as E1; subst a0 end.
      rewrite <- canon_app_full by assumption.
      exists (canon ek (S j) (l ++ x)), []. split; auto. constructor. constructor. now apply full_app.
  Qed.

  (* pushing a possibly partial block of weight j: the counter still advances, the new top may be partial *)
  Lemma merge_succ_partial : forall p j (st : list sent) l x,
    srep p j (map snd st) l -> x <> [] -> lenN x <= cap ek j ->
    exists t st', pmerge_n (tzp (Pos.succ p)) (canon ek j x) st = Ok (t, st') /\
                  frep (Pos.succ p) j (t :: map snd st') (l ++ x).
  Proof.
    induction p as [p IH|p IH|]; intros j st l x R Hne Hle; inversion R; subst; cbn [Pos.succ tzp pmerge_n].
    - destruct st as [|[f a] st]; [discriminate|]. cbn [map snd] in *.
      match goal with E : _ :: ?s0 = ?a0 :: _ |- _ => injection E as E1 E2; subst a0 s0 end.
      rewrite <- canon_app_full by assumption.
      match goal with R1 : srep p (S j) (map snd st) ?l1, F1 : full j ?l0 |- _ =>
        destruct (IH (S j) st l1 (l0 ++ x) R1 (app_ne _ _ Hne) (full_app_le _ _ _ F1 Hle)) as (t & st' & M & R') end.
      exists t, st'. split; auto. constructor. now rewrite <- app_assoc.
    - exists (canon ek j x), st. split; auto. now constructor.
    - destruct st as [|[f a] [|e st]]; try discriminate. cbn [map snd] in *.
      match goal with E : _ :: _ = ?a0 :: _ |- _ => injection E as E1; subst a0 end.
      rewrite <- canon_app_full by assumption.
      exists (canon ek (S j) (l ++ x)), []. split; auto. constructor. constructor.
      + now apply app_ne.
      + now apply full_app_le.
  Qed.

  (* carry propagation in finish: a (possibly partial) block of weight i on top of full blocks = Pos.succ *)
  Lemma carry er el : forall q i n (st' : list sent) l' f ltop x dep,
    srep q i (map snd st') l' -> ltop <> [] -> lenN ltop <= cap ek i ->
    (forall m, N.testbit x (N.of_nat (i + pd + m)) = N.testbit (Npos q) (N.of_nat m)) ->
    (n + i = dep)%nat -> sh q i < pow2 dep ->
    exists st2, pmerge_up n i x ((f, canon ek i ltop) :: st') er el = Ok st2 /\
                frep (Pos.succ q) i (map snd st2) (l' ++ ltop).
  Proof.
    induction q as [r IH|r IH|]; intros i n st' l' f ltop x dep R; inversion R; subst; intros Hne Hle Hb Hn Hroom.
    - (* xI r : bit set, merge, continue *)
      assert (Hi: (i < dep)%nat).
      { apply pow2_lt_inv. rewrite sh_I in Hroom. pose proof (sh_pos r (S i)). lia. }
      destruct n as [|n]; [lia|]. cbn [pmerge_up].
      pose proof (Hb O) as B0. rewrite Nat.add_0_r in B0. rewrite B0, bit0_I.
      destruct st' as [|[f' a] st']; [discriminate|]. cbn [map snd] in *.
      match goal with E : _ :: ?s0 = ?a0 :: _ |- _ => injection E as E1 E2; subst a0 s0 end.
      rewrite <- canon_app_full by assumption.
      match goal with R1 : srep r (S i) (map snd st') ?l1, F1 : full i ?l0 |- _ =>
        destruct (IH (S i) n st' l1 false (l0 ++ ltop) x dep R1) as (st2 & M & F2) end; auto.
      + now apply app_ne.
      + now apply full_app_le.
      + intros m. replace (S i + pd + m)%nat with (i + pd + S m)%nat by lia. rewrite Hb. apply bitS_I.
      + lia.
      + rewrite sh_I in Hroom. pose proof (pow2_pos i). lia.
      + exists st2. split; auto. cbn [Pos.succ]. constructor. now rewrite <- app_assoc.
    - (* xO r : bit clear, stop *)
      exists ((f, canon ek i ltop) :: st'). split.
      + destruct n; cbn [pmerge_up]; auto. pose proof (Hb O) as B0. rewrite Nat.add_0_r in B0. now rewrite B0, bit0_O.
      + cbn [Pos.succ map snd]. now constructor.
    - (* xH : merge once, then stop *)
      assert (Hi: (i < dep)%nat).
      { apply pow2_lt_inv. rewrite sh_H in Hroom. exact Hroom. }
      destruct n as [|n]; [lia|]. cbn [pmerge_up].
      pose proof (Hb O) as B0. rewrite Nat.add_0_r in B0. rewrite B0. cbn [N.testbit N.of_nat Pos.testbit].
      destruct st' as [|[f' a] [|e st']]; try discriminate. cbn [map snd] in *.
      match goal with E : _ :: _ = ?a0 :: _ |- _ => injection E as E1; subst a0 end.
      rewrite <- canon_app_full by assumption.
      exists [(false, canon ek (S i) (l' ++ ltop))]. split.
      + destruct n; cbn [pmerge_up]; auto. pose proof (Hb 1%nat) as B1.
        replace (i + pd + 1)%nat with (S i + pd)%nat in B1 by lia.
        rewrite B1. change 1%nat with (S O). rewrite bit_H. reflexivity.
      + cbn [Pos.succ map snd]. constructor. constructor.
        * now apply app_ne.
        * now apply full_app_le.
  Qed.


  (* one iteration of the padding loop of finish *)
  Lemma iter_ok er el : forall p j sst l, frep p j sst l ->
    forall (st : list sent) dep, map snd st = sst -> sh p j < pow2 dep ->
    exists f top st', st = (f, top) :: st' /\
    exists st2 p' j',
      pmerge_up (dep - ((j + tzp p) + 1)) ((j + tzp p) + 1) (sh p (j + pd))
        ((false, SNode top (SZero (j + tzp p))) :: st') er el = Ok st2 /\
      frep p' j' (map snd st2) l /\ sh p' j' = sh p j + pow2 (j + tzp p) /\
      (j + tzp p < j' + tzp p')%nat /\ (j <= j')%nat.
  Proof.
    induction 1 as [j l Hne Hle|p j sst l F IH|p j sst l' l R Hne Hle]; intros st dep Est Hroom.
    - (* single partial block *)
      cbn [tzp]. rewrite Nat.add_0_r.
      destruct st as [|[f a] [|e st]]; try discriminate. cbn [map snd] in Est. injection Est as ->.
      exists f, (canon ek j l), []. split; auto.
      rewrite <- canon_S_small by assumption.
      exists [(false, canon ek (S j) l)], xH, (S j). repeat split.
      + destruct (dep - (j + 1))%nat; cbn [pmerge_up]; auto.
        replace (j + 1 + pd)%nat with ((j + pd) + 1)%nat by lia. rewrite (sh_bit xH (j + pd) 1).
        change 1%nat with (S O). now rewrite bit_H.
      + cbn [map snd]. constructor; auto. rewrite cap_S. lia.
      + rewrite !sh_H, pow2_S. lia.
      + cbn [tzp]. lia.
      + lia.
    - rewrite sh_O in Hroom. destruct (IH st dep Est Hroom) as (f & top & st' & E1 & st2 & p' & j' & M & F' & Hs & Htz & Hj).
      exists f, top, st'. split; auto. exists st2, p', j'.
      cbn [tzp]. rewrite !sh_O.
      replace (j + S (tzp p))%nat with (S j + tzp p)%nat by lia.
      replace (sh p (S (j + pd))) with (sh p (S j + pd)) by reflexivity.
      repeat split; auto. lia.
    - cbn [tzp]. rewrite Nat.add_0_r.
      destruct st as [|[f a] st]; [discriminate|]. cbn [map snd] in Est. injection Est as -> Est.
      exists f, (canon ek j l), st. split; auto.
      rewrite <- canon_S_small by assumption.
      assert (Hj: (j + 1 <= dep)%nat).
      { rewrite sh_I in Hroom. pose proof (sh_pos p (S j)). enough (j < dep)%nat by lia. apply pow2_lt_inv. lia. }
      rewrite <- Est in R.
      destruct (carry er el p (S j) (dep - (j + 1)) st l' false l (sh (xI p) (j + pd)) dep R) as (st2 & M & F2); auto.
      + rewrite cap_S. lia.
      + intros m. replace (S j + pd + m)%nat with ((j + pd) + S m)%nat by lia. rewrite sh_bit. apply bitS_I.
      + lia.
      + rewrite sh_I in Hroom. pose proof (pow2_pos j). lia.
      + exists st2, (Pos.succ p), (S j). replace (j + 1)%nat with (S j) by lia. repeat split; auto.
        * replace (dep - S j)%nat with (dep - (j + 1))%nat by lia. exact M.
        * rewrite sh_succ, sh_I, pow2_S. lia.
        * lia.
  Qed.

  Lemma frep_done : forall p j st l, frep p j st l -> forall dep, sh p j = pow2 dep -> st = [canon ek dep l].
  Proof.
    induction 1 as [j l Hne Hle|p j st l F IH|p j st l' l R Hne Hle]; intros dep E.
    - rewrite sh_H in E. apply pow2_inj in E. now subst.
    - rewrite sh_O in E. auto.
    - exfalso. rewrite sh_I in E. unfold sh in E.
      destruct (le_lt_dec dep j) as [Lt|Lt].
      + apply pow2_mono in Lt. pose proof (pow2_pos (S j)). nia.
      + assert (Ee: dep = ((dep - S j) + S j)%nat) by lia.
        remember (dep - S j)%nat as e eqn:He; clear He. subst dep.
        rewrite pow2_add, pow2_S in E. pose proof (pow2_pos j) as Hp.
        remember (pow2 j) as a eqn:Ea; clear Ea. remember (pow2 e) as b eqn:Eb; clear Eb.
        assert (E2: a * (2 * Npos p + 1) = a * (2 * b)) by lia.
        apply N.mul_cancel_l in E2; lia.
  Qed.

  Lemma tz_mul_pow2 n k : n <> 0 -> tz (n * pow2 k) = (tz n + k)%nat.
  Proof. destruct n as [|q]; [congruence|]. intros _. fold (sh q k). rewrite tz_sh. cbn [tz]. lia. Qed.

  Lemma fin_loop_ok : forall fuel dep lv nx p j (st : list sent) l,
    frep p j (map snd st) l -> sh p j <= pow2 dep -> (dep - (j + tzp p) < fuel)%nat ->
    nx * pow2 lv = sh p (j + pd) -> (lv <= j + pd)%nat -> (dep + pd <= 63)%nat ->
    exists st', pfinish_loop fuel (cap ek dep) dep lv nx st = Ok st' /\ map snd st' = [canon ek dep l].
  Proof.
    induction fuel as [|fuel IH]; intros dep lv nx p j st l F Hle Hf Hnx Hlv Hd; [lia|].
    cbn [pfinish_loop].
    assert (Hx: N.shiftl nx (N.of_nat lv) mod 2 ^ 64 = sh p (j + pd)).
    { rewrite N.shiftl_mul_pow2. fold (pow2 lv). rewrite Hnx. apply N.mod_small.
      rewrite sh_add. assert (pow2 dep * pow2 pd <= pow2 63) by (rewrite <- pow2_add; apply pow2_mono; lia).
      pose proof (pow2_pos pd). change (2 ^ 64) with (2 * pow2 63).
      pose proof (pow2_pos 63).
      remember (pow2 pd) as a eqn:Ea; clear Ea. remember (pow2 dep) as b eqn:Eb; clear Eb.
      remember (pow2 63) as c eqn:Ec; clear Ec. remember (sh p j) as d eqn:Ed; clear Ed.
      assert (d * a <= b * a) by (apply N.mul_le_mono_r; lia). lia. }
    rewrite Hx. unfold cap.
    destruct (N.eqb_spec (sh p (j + pd)) (pow2 (dep + pd))) as [E|NE].
    - exists st. split; auto. eapply frep_done; eauto.
      rewrite sh_add, pow2_add in E. pose proof (pow2_pos pd). apply N.mul_cancel_r in E; [exact E|lia].
    - assert (Hlt: sh p j < pow2 dep).
      { assert (sh p j <> pow2 dep) by (intro E; apply NE; rewrite sh_add, pow2_add, E; reflexivity). lia. }
      destruct (next_le _ _ _ Hlt) as [Hdd Hnext].
      assert (Hnx0: nx <> 0) by (intros ->; pose proof (sh_pos p (j + pd)); lia).
      assert (Htz: (tz nx + lv - pd = j + tzp p)%nat).
      { pose proof (tz_mul_pow2 nx lv Hnx0) as Ht. rewrite Hnx, tz_sh in Ht. lia. }
      rewrite Htz.
      destruct (iter_ok BuilderStackEmptyFinishRight BuilderStackEmptyFinishLeft _ _ _ _ F st dep eq_refl Hlt)
        as (f & top & st' & -> & st2 & p' & j' & M & F' & Hs & Htz' & Hj).
      rewrite M. cbn [obind].
      destruct (Nat.ltb_spec (j + tzp p + pd) lv) as [Hc|_]; [lia|].
      destruct (Nat.leb_spec 64 (j + tzp p + pd - lv)) as [Hc|_]; [lia|].
      apply (IH dep lv _ p' j' st2 l F').
      + rewrite Hs. exact Hnext.
      + lia.
      + rewrite N.mul_add_distr_r, Hnx, <- pow2_add.
        replace (j + tzp p + pd - lv + lv)%nat with (j + tzp p + pd)%nat by lia.
        rewrite (sh_add p' j' pd), Hs, N.mul_add_distr_r, <- sh_add, <- pow2_add. reflexivity.
      + lia.
      + exact Hd.
  Qed.


  (* ---------- level 0: pushing single values ---------- *)
  (* c full blocks of weight j have been pushed *)
  Definition cnt (j : nat) (c : N) (sst : list stree) (l : list T) : Prop :=
    match c with N0 => sst = [] /\ l = [] | Npos p => srep p j sst l end.

  Lemma cnt_push j c (st0 : list sent) lf x : cnt j c (map snd st0) lf -> full j x ->
    exists t st', pmerge_n (tz (c + 1)) (canon ek j x) st0 = Ok (t, st') /\
                  cnt j (c + 1) (t :: map snd st') (lf ++ x).
  Proof.
    intros Hc F. destruct c as [|p].
    - destruct Hc as [Hs ->]. apply map_eq_nil in Hs. subst st0. cbn [N.add tz tzp pmerge_n app cnt].
      exists (canon ek j x), []. split; auto. cbn [map]. now constructor.
    - assert (ES: Npos p + 1 = Npos (Pos.succ p)) by (rewrite N.add_1_r; reflexivity).
      rewrite ES. cbn [tz cnt] in *. apply merge_succ; auto.
  Qed.

  (* the builder after pushing the values l one by one: c full leaves in the counter, the open
     (partial) packed leaf, if any, on top *)
  Definition brep (st : list sent) (l : list T) : Prop :=
    exists c lf lo st0, l = lf ++ lo /\ lenN lf = c * pf /\ lenN lo < pf /\ cnt 0 c (map snd st0) lf /\
      ((lo = [] /\ st = st0) \/ (lo <> [] /\ is_packed ek = true /\ st = (false, SPacked lo) :: st0)).

  Lemma brep_nil : brep [] [].
  Proof.
    exists 0, [], [], []. split; [reflexivity|]. split; [reflexivity|]. split; [apply pf_pos|].
    split; [split; reflexivity|]. left. auto.
  Qed.

  Lemma ppush_ok b l v : brep (pstack b) l -> plength b = lenN l -> lenN l < pcap b ->
    exists b', ppush b v = Ok b' /\ brep (pstack b') (l ++ [v]) /\ plength b' = lenN (l ++ [v]) /\
               pdepth b' = pdepth b /\ pcap b' = pcap b /\ plevel b' = plevel b.
  Proof.
    intros (c & lf & lo & st0 & -> & Hlf & Hlo & Hc & Hst) Hlen Hlt.
    unfold ppush. destruct (N.eqb_spec (plength b) (pcap b)) as [E|_]; [lia|].
    pose proof pf_pos as Hpf.
    assert (Hmod: plength b mod pf = lenN lo).
    { rewrite Hlen, lenN_app, Hlf. rewrite N.add_comm, N.mod_add by lia. apply N.mod_small; lia. }
    assert (Htop: ppush_top b v = Ok (canon ek 0 (lo ++ [v]), st0)).
    { unfold ppush_top. rewrite Hmod. destruct Hst as [[-> ->]|(Hne & Hp & ->)].
      - cbn [app]. rewrite lenN_nil. cbn [N.eqb]. destruct (is_packed ek) eqn:Hp.
        + rewrite canon_0_packed; auto. discriminate.
        + rewrite canon_0_leaf; auto.
      - rewrite Hp. destruct (N.eqb_spec (lenN lo) 0) as [E|_]; [apply lenN_0 in E; congruence|].
        destruct (N.eqb_spec (lenN lo) pf); [lia|]. rewrite canon_0_packed; auto. apply app_ne; discriminate. }
    rewrite Htop. cbn [obind].
    remember (lo ++ [v]) as lo' eqn:Elo.
    assert (Hlo': lenN lo' = lenN lo + 1) by (subst lo'; rewrite lenN_app; reflexivity).
    assert (Hne': lo' <> []) by (subst lo'; apply app_ne; discriminate).
    assert (Hnext: plength b + 1 = c * pf + lenN lo') by (rewrite Hlen, lenN_app, Hlf; lia).
    assert (Hl': (lf ++ lo) ++ [v] = lf ++ lo') by (subst lo'; now rewrite app_assoc).
    rewrite Hl'.
    destruct (N.eq_dec (lenN lo') pf) as [Hfull|Hpart].
    - (* the leaf is complete *)
      assert (F: full 0 lo') by (unfold full; rewrite cap_0; auto).
      destruct (cnt_push 0 c st0 lf lo' Hc F) as (t & st' & M & C').
      assert (Hm: (tz (plength b + 1) - pd)%nat = tz (c + 1)).
      { rewrite Hnext, Hfull. replace (c * pf + pf) with ((c + 1) * pf) by lia.
        unfold pf_of. rewrite tz_mul_pow2 by lia. lia. }
      rewrite Hm, M. cbn [obind]. eexists; split; [reflexivity|]. cbn [pstack plength pdepth pcap plevel].
      split; [|repeat split; rewrite ?lenN_app in *; lia].
      exists (c + 1), (lf ++ lo'), [], ((false, t) :: st').
      split; [now rewrite app_nil_r|]. split; [rewrite lenN_app, Hlf, Hfull; lia|].
      split; [rewrite lenN_nil; lia|]. split; [exact C'|]. left. auto.
    - (* the leaf stays open *)
      assert (Hlt': lenN lo' < pf) by lia.
      assert (Hm: (tz (plength b + 1) - pd)%nat = O).
      { enough (tz (plength b + 1) < pd)%nat by lia. apply tz_mod. fold pf.
        rewrite Hnext, N.add_comm, N.mod_add by lia. rewrite N.mod_small; lia. }
      rewrite Hm. cbn [pmerge_n obind]. eexists; split; [reflexivity|]. cbn [pstack plength pdepth pcap plevel].
      split; [|repeat split; rewrite ?lenN_app in *; lia].
      assert (Hp: is_packed ek = true).
      { destruct (is_packed ek) eqn:Hp; auto. apply unpacked_pd in Hp. unfold pf_of in Hlt'. rewrite Hp, pow2_0 in Hlt'. lia. }
      exists c, lf, lo', st0. split; [reflexivity|]. split; [exact Hlf|]. split; [exact Hlt'|]. split; [exact Hc|].
      right. split; [exact Hne'|]. split; [exact Hp|]. rewrite canon_0_packed; auto.
  Qed.

  Lemma ppush_all_ok : forall vs b l, brep (pstack b) l -> plength b = lenN l -> lenN (l ++ vs) <= pcap b ->
    exists b', ppush_all b vs = Ok b' /\ brep (pstack b') (l ++ vs) /\ plength b' = lenN (l ++ vs) /\
               pdepth b' = pdepth b /\ pcap b' = pcap b /\ plevel b' = plevel b.
  Proof.
    induction vs as [|v vs IH]; intros b l Hb Hlen Hcap.
    - rewrite app_nil_r in *. exists b. cbn [ppush_all]. split; [reflexivity|]. split; [exact Hb|]. split; [exact Hlen|]. auto.
    - cbn [ppush_all]. destruct (ppush_ok b l v Hb Hlen) as (b1 & P & Hb1 & Hlen1 & D1 & C1 & L1).
      { rewrite lenN_app, lenN_cons in Hcap. lia. }
      rewrite P. cbn [obind]. destruct (IH b1 (l ++ [v]) Hb1 Hlen1) as (b2 & P2 & Hb2 & Hlen2 & D2 & C2 & L2).
      { rewrite <- app_assoc. cbn [app]. rewrite C1. exact Hcap. }
      exists b2. rewrite <- app_assoc in *. cbn [app] in *. split; [exact P2|]. split; [exact Hb2|].
      split; [exact Hlen2|]. split; [congruence|]. split; congruence.
  Qed.


  Definition pfinal (b : pbuilder) (st2 : list sent) : outcome (stree * nat * N) :=
    match st2 with
    | [] => Err BuilderStackEmptyFinalize
    | [(_, t)] => Ok (t, pdepth b, plength b)
    | _ => Err BuilderStackLeftover
    end.
  Lemma pfinish_ne_0 b : plevel b = 0 ->
    pfinish_ne b = obind (pfinish_pre b (plength b)) (fun '(n1, st1) =>
                   obind (pfinish_loop 66 (pcap b) (pdepth b) 0 n1 st1) (pfinal b)).
  Proof.
    intros Hlv. unfold pfinish_ne. rewrite Hlv. change (64 <=? 0) with false. change (N.to_nat 0) with O.
    cbv zeta. rewrite pow2_0. replace (plength b + 1 - 1) with (plength b) by lia. rewrite N.div_1_r.
    reflexivity.
  Qed.

  Lemma pmerge_up_single er el n i x e : (n <> O -> N.testbit x (N.of_nat (i + pd)) = false) ->
    pmerge_up n i x [e] er el = Ok [e].
  Proof. intros Hb. destruct n; cbn [pmerge_up]; auto. rewrite Hb; auto. Qed.

  Lemma pfinish_ok b l : brep (pstack b) l -> plength b = lenN l -> lenN l <= pcap b ->
    pcap b = cap ek (pdepth b) -> plevel b = 0 -> (pdepth b + pd <= 63)%nat ->
    pfinish b = Ok (canon ek (pdepth b) l, pdepth b, lenN l).
  Proof.
    intros (c & lf & lo & st0 & -> & Hlf & Hlo & Hc & Hst) Hlen Hcap Hcp Hlv Hd.
    pose proof pf_pos as Hpf. remember (pdepth b) as d eqn:Ed.
    assert (Htail: forall nx p st1, frep p 0 (map snd st1) (lf ++ lo) -> nx = sh p pd -> sh p 0 <= pow2 d ->
              obind (pfinish_loop 66 (pcap b) d 0 nx st1) (pfinal b) = Ok (canon ek d (lf ++ lo), d, lenN (lf ++ lo))).
    { intros nx p st1 F Hnx Hsh.
      destruct (fin_loop_ok 66 d 0 nx p 0 st1 _ F) as (st' & E & Hs); try lia.
      - rewrite pow2_0, N.mul_1_r. exact Hnx.
      - rewrite Hcp, E. cbn [obind]. destruct st' as [|[f t] [|e st']]; cbn [map snd] in Hs; try discriminate.
        injection Hs as ->. cbn [pfinal]. rewrite Hlen, <- Ed. reflexivity. }
    assert (Hmod: plength b mod pf = lenN lo).
    { rewrite Hlen, lenN_app, Hlf. rewrite N.add_comm, N.mod_add by lia. apply N.mod_small; lia. }
    assert (Hcapd: c * pf + lenN lo <= pow2 d * pf).
    { rewrite lenN_app, Hlf, Hcp in Hcap. unfold cap in Hcap. rewrite pow2_add in Hcap. exact Hcap. }
    unfold pfinish. destruct Hst as [[-> Hst]|(Hne & Hp & Hst)].
    - (* no open leaf *)
      rewrite lenN_nil, N.add_0_r in Hcapd. rewrite lenN_nil in Hmod.
      destruct c as [|p].
      + destruct Hc as [Hs ->]. apply map_eq_nil in Hs. rewrite Hst, Hs. cbn [app]. rewrite canon_nil, <- Ed. reflexivity.
      + cbn [cnt] in Hc. pose proof (srep_stack_ne _ _ _ _ Hc) as Hsne.
        destruct (pstack b) as [|e0 st'] eqn:Est; [subst st0; cbn [map] in Hsne; congruence|].
        rewrite pfinish_ne_0 by exact Hlv. rewrite <- Ed.
        assert (Hpre: pfinish_pre b (plength b) = Ok (plength b, pstack b)).
        { unfold pfinish_pre. destruct (is_packed ek); auto. cbv zeta. rewrite Hmod, N.sub_0_r, N.mod_same by lia.
          reflexivity. }
        rewrite Hpre. cbn [obind]. rewrite Est, Hst. apply (Htail _ p).
        * apply srep_frep. rewrite app_nil_r. exact Hc.
        * rewrite Hlen, lenN_app, Hlf, lenN_nil. unfold sh, pf_of. lia.
        * rewrite sh_0. apply N.mul_le_mono_pos_r in Hcapd; lia.
    - (* an open packed leaf on top *)
      assert (Hlo1: 1 <= lenN lo) by (destruct lo; [congruence|rewrite lenN_cons; lia]).
      rewrite Hst. rewrite pfinish_ne_0 by exact Hlv. rewrite <- Ed.
      assert (Hskip: (pf - plength b mod pf) mod pf = pf - lenN lo) by (rewrite Hmod; apply N.mod_small; lia).
      assert (Hc1: c + 1 <= pow2 d).
      { assert (c * pf < pow2 d * pf) by lia. apply N.mul_lt_mono_pos_r in H; lia. }
      assert (Hpre: exists p st1, pfinish_pre b (plength b) = Ok (sh p pd, st1) /\ frep p 0 (map snd st1) (lf ++ lo) /\
                                  sh p 0 <= pow2 d).
      { unfold pfinish_pre. rewrite Hp. cbv zeta. rewrite Hskip, Hlv.
        destruct (N.ltb_spec 0 (pf - lenN lo)) as [_|Hc0]; [|lia]. cbn [andb N.eqb].
        rewrite Hst, <- Ed. rewrite <- (canon_0_packed lo Hp Hne).
        assert (Hx: plength b = c * pow2 pd + lenN lo) by (rewrite Hlen, lenN_app, Hlf; reflexivity).
        destruct c as [|q].
        - destruct Hc as [Hs ->]. apply map_eq_nil in Hs. subst st0.
          rewrite pmerge_up_single.
          + cbn [obind]. exists xH, [(false, canon ek 0 lo)]. split; [|split].
            * rewrite sh_H. f_equal. f_equal. rewrite Hx. unfold pf_of in *. lia.
            * cbn [map snd app]. constructor; auto. rewrite cap_0. lia.
            * rewrite sh_0. lia.
          + intros _. rewrite Hx. cbn [Nat.add]. pose proof (bit_above 0 (lenN lo) pd 0 Hlo) as Hb0.
            rewrite Nat.add_0_r in Hb0. rewrite Hb0. reflexivity.
        - cbn [cnt] in Hc.
          destruct (carry BuilderStackEmptyMergeRight BuilderStackEmptyMergeLeft q 0 d st0 lf false lo (plength b) d Hc Hne)
            as (st2 & M & F2).
          + rewrite cap_0. lia.
          + intros m. rewrite Hx. cbn [Nat.add]. apply bit_above. exact Hlo.
          + lia.
          + rewrite sh_0. lia.
          + rewrite M. cbn [obind]. exists (Pos.succ q), st2. split; [|split].
            * f_equal. f_equal. rewrite Hx. unfold sh, pf_of in *.
              replace (Npos (Pos.succ q)) with (Npos q + 1) by (rewrite N.add_1_r; reflexivity). lia.
            * exact F2.
            * rewrite sh_0. replace (Npos (Pos.succ q)) with (Npos q + 1) by (rewrite N.add_1_r; reflexivity). lia. }
      destruct Hpre as (p & st1 & Hpre & F & Hsh). rewrite Hpre. cbn [obind]. apply (Htail _ p); auto.
  Qed.


  (* ---------- exported theorems: level 0 ---------- *)
  Theorem new_invalid_depth : forall depth level, 63 < depth + N.of_nat pd ->
    builder_new ek depth level = Fail (BuilderInvalidDepth depth).
  Proof.
    intros depth level Hd. unfold builder_new.
    destruct (N.ltb_spec 63 (depth + N.of_nat pd)); [reflexivity|lia].
  Qed.

  Lemma builder_new_ok d lvl : (d + pd <= 63)%nat ->
    builder_new ek (N.of_nat d) lvl =
    Ret {| bstack := []; bdepth := d; blevel := lvl; blength := 0; bcap := cap ek d |}.
  Proof.
    intros Hd. unfold builder_new. destruct (N.ltb_spec 63 (N.of_nat d + N.of_nat pd)); [lia|].
    rewrite Nat2N.id. reflexivity.
  Qed.

  (* push_all from the empty builder: the pure outcome *)
  Lemma ppush_all_new d lvl vs : lenN vs <= cap ek d ->
    exists pb, ppush_all (shb {| bstack := []; bdepth := d; blevel := lvl; blength := 0; bcap := cap ek d |}) vs = Ok pb /\
               brep (pstack pb) vs /\ plength pb = lenN vs /\ pdepth pb = d /\ pcap pb = cap ek d /\ plevel pb = lvl.
  Proof.
    intros Hl.
    destruct (ppush_all_ok vs (shb {| bstack := []; bdepth := d; blevel := lvl; blength := 0; bcap := cap ek d |}) [])
      as (pb & P & Hb & Hlen & D & C & Lv).
    - apply brep_nil. - reflexivity. - exact Hl.
    - exists pb. cbn [app shb pdepth pcap plevel bdepth bcap blevel] in *. repeat split; assumption.
  Qed.

  Lemma srcs_ok_nil s : srcs_ok s [].
  Proof. split; [intros t1 t2 u v []|intros u []]. Qed.

  (* everything at once: shape, allocation discipline, identities name nodes, exact allocation count *)
  Theorem build_canon_full : forall (d : nat) (vs : list T) R s, (d + pd <= 63)%nat -> lenN vs <= cap ek d ->
    wp R (b <- builder_new ek (N.of_nat d) 0 ;; b' <- push_all ek b vs ;; builder_finish ek b')
       (fun o s' => exists t, o = Ok (t, d, lenN vs) /\ shape t = canon ek d vs /\
                    alloc_only s s' /\ fresh_or_from s s' [] t /\ idf [t] /\
                    Npos (next s') = Npos (next s) + snodes (canon ek d vs)) s.
  Proof.
    intros d vs R s Hd Hl. rewrite builder_new_ok by exact Hd. cbn [bind].
    destruct (ppush_all_new d 0 vs Hl) as (pb & P & Hb & Hlen & D & C & Lv).
    apply wp_bind. eapply wp_mono; [|apply (push_all_sim R s []); apply stk_inv_nil].
    intros o s1. rewrite P. intros (b1 & -> & Hshb & Hstep1). cbn [lift]. subst pb.
    eapply wp_mono; [|apply (finish_sim R s []); apply Hstep1].
    assert (Hfin: pfinish (shb b1) = Ok (canon ek d vs, d, lenN vs)).
    { rewrite <- D. apply pfinish_ok; auto.
      - rewrite C. exact Hl. - rewrite C, D. reflexivity. - rewrite D. exact Hd. }
    intros o s2. rewrite Hfin.
    intros (f & t & -> & Hsh & Hstep2). exists t.
    pose proof (step_trans _ _ _ _ _ _ _ _ _ Hstep1 Hstep2) as (A & (_ & I' & Hid) & Cn & _).
    split; [reflexivity|]. split; [exact Hsh|]. split; [exact A|].
    inversion I' as [|e1 l1 He1 _]; subst. split; [apply He1|].
    split; [exact (proj1 (Hid (srcs_ok_nil s)))|].
    revert Cn. cbn [shb pstack bstack map]. wt_simp. rewrite Hsh. cbn [wt fold_right]. lia.
  Qed.

  Theorem build_canon_count : forall (d : nat) (vs : list T) R s, (d + pd_of ek <= 63)%nat -> lenN vs <= cap ek d ->
    wp R (b <- builder_new ek (N.of_nat d) 0 ;; b' <- push_all ek b vs ;; builder_finish ek b')
       (fun o s' => exists t, o = Ok (t, d, lenN vs) /\ shape t = canon ek d vs /\
                    alloc_only s s' /\ fresh_or_from s s' [] t /\
                    Npos (next s') = Npos (next s) + snodes (canon ek d vs)) s.
  Proof.
    intros d vs R s Hd Hl. eapply wp_mono; [|apply build_canon_full; assumption].
    intros o s' (t & Ho & Hsh & A & Ff & _ & Hc). exists t. auto.
  Qed.

  Theorem build_canon : forall (d : nat) (vs : list T) R s, (d + pd_of ek <= 63)%nat -> lenN vs <= cap ek d ->
    wp R (b <- builder_new ek (N.of_nat d) 0 ;; b' <- push_all ek b vs ;; builder_finish ek b')
       (fun o s' => exists t, o = Ok (t, d, lenN vs) /\ shape t = canon ek d vs /\
                    alloc_only s s' /\ fresh_or_from s s' [] t) s.
  Proof.
    intros d vs R s Hd Hl. eapply wp_mono; [|apply build_canon_full; assumption].
    intros o s' (t & Ho & Hsh & A & Ff & _). exists t. auto.
  Qed.

  (* identities name nodes in the tree that was built *)
  Theorem build_canon_idf : forall (d : nat) (vs : list T) R s, (d + pd_of ek <= 63)%nat -> lenN vs <= cap ek d ->
    wp R (b <- builder_new ek (N.of_nat d) 0 ;; b' <- push_all ek b vs ;; builder_finish ek b')
       (fun o s' => exists t, o = Ok (t, d, lenN vs) /\ shape t = canon ek d vs /\
                    alloc_only s s' /\ fresh_or_from s s' [] t /\ idf [t]) s.
  Proof.
    intros d vs R s Hd Hl. eapply wp_mono; [|apply build_canon_full; assumption].
    intros o s' (t & Ho & Hsh & A & Ff & Hi & _). exists t. auto.
  Qed.

  Theorem push_full : forall d vs v R s, (d + pd_of ek <= 63)%nat -> lenN vs = cap ek d ->
    wp R (b <- builder_new ek (N.of_nat d) 0 ;; b' <- push_all ek b vs ;; builder_push ek b' v)
       (fun o _ => o = Err BuilderFull) s.
  Proof.
    intros d vs v R s Hd Hl. rewrite builder_new_ok by exact Hd. cbn [bind].
    destruct (ppush_all_new d 0 vs) as (pb & P & Hb & Hlen & D & C & Lv); [lia|].
    apply wp_bind. eapply wp_mono; [|apply (push_all_sim R s []); apply stk_inv_nil].
    intros o s1. rewrite P. intros (b1 & -> & Hshb & Hstep1). cbn [lift].
    unfold builder_push.
    assert (E: blength b1 = bcap b1).
    { change (plength (shb b1) = pcap (shb b1)). rewrite Hshb. lia. }
    rewrite E, N.eqb_refl. reflexivity.
  Qed.


  (* ---------- level L: pushing the blocks yielded by LevelIter (Builder::push_node) ---------- *)
  Lemma compute_len_elems (t : tree) : compute_len t = lenN (elems t).
  Proof.
    unfold elems. induction t as [i v|i vs|i l IHl r IHr|i d0]; cbn [compute_len shape selems]; auto.
    rewrite lenN_app. lia.
  Qed.
  Lemma selems_canon : forall dd l, lenN l <= cap ek dd -> selems (canon ek dd l) = l.
  Proof.
    induction dd as [|dd IH]; intros l Hl.
    - destruct l as [|v l]; [reflexivity|]. cbn [canon]. destruct (is_packed ek) eqn:Hp; [reflexivity|].
      cbn [selems]. f_equal. rewrite cap_0 in Hl. unfold pf_of in Hl. rewrite (unpacked_pd Hp), pow2_0, lenN_cons in Hl.
      symmetry. apply lenN_0. lia.
    - destruct l as [|v l]; [reflexivity|]. rewrite canon_S by discriminate. cbn [selems].
      rewrite !IH.
      + apply takeN_dropN.
      + rewrite lenN_dropN. rewrite cap_S in Hl. lia.
      + rewrite lenN_takeN. lia.
  Qed.

  Lemma pmerge_avail_n n : forall f t st t' st', pmerge_n n t st = Ok (t', st') ->
    exists f', pmerge_avail n (f, t) st = ((f', t'), st').
  Proof.
    induction n as [|n IH]; intros f t st t' st' M; cbn [pmerge_n pmerge_avail] in *.
    - injection M as <- <-. eauto.
    - destruct st as [|[f0 lft] st]; [discriminate|]. cbn [snd]. apply IH. exact M.
  Qed.

  (* pushing a possibly partial block after c full ones *)
  Lemma cnt_push_partial jj c (st0 : list sent) lf x : cnt jj c (map snd st0) lf -> x <> [] -> lenN x <= cap ek jj ->
    exists t st' p, pmerge_n (tz (c + 1)) (canon ek jj x) st0 = Ok (t, st') /\ Npos p = c + 1 /\
                    frep p jj (t :: map snd st') (lf ++ x).
  Proof.
    intros Hc Hne Hle. destruct c as [|p].
    - destruct Hc as [Hs ->]. apply map_eq_nil in Hs. subst st0. cbn [N.add tz tzp pmerge_n app].
      exists (canon ek jj x), [], xH. split; auto. split; auto. cbn [map]. now constructor.
    - assert (ES: Npos p + 1 = Npos (Pos.succ p)) by (rewrite N.add_1_r; reflexivity).
      rewrite ES. cbn [tz cnt] in *.
      destruct (merge_succ_partial p jj st0 lf x Hc Hne Hle) as (t & st' & M & F).
      exists t, st', (Pos.succ p). auto.
  Qed.

  Section Feed.
    Variables (L d : nat).
    Hypothesis Hpd : (pd <= L)%nat.
    Hypothesis HL : (L <= d + pd)%nat.
    Hypothesis Hd : (d + pd <= 63)%nat.
    Local Notation j := (L - pd)%nat.

    Lemma cap_j : cap ek j = pow2 L.
    Proof. unfold cap. f_equal. lia. Qed.

    Definition bpar (pb : pbuilder) : Prop := pdepth pb = d /\ pcap pb = cap ek d /\ plevel pb = N.of_nat L.
    (* c full level-L blocks have been pushed *)
    Definition lrep (pb : pbuilder) (l : list T) : Prop :=
      plength pb = lenN l /\ exists c, lenN l = c * pow2 L /\ cnt j c (map snd (pstack pb)) l.
    (* all blocks have been pushed; the last one may be partial *)
    Definition lfin (pb : pbuilder) (l : list T) : Prop :=
      plength pb = lenN l /\ exists p r, frep p j (map snd (pstack pb)) l /\
        lenN l = (Npos p - 1) * pow2 L + r /\ 1 <= r /\ r <= pow2 L.

    Lemma cap_le_63 : cap ek d <= 9223372036854775808.
    Proof. unfold cap. change 9223372036854775808 with (pow2 63). apply pow2_mono. exact Hd. Qed.

    Lemma ppush_node_eval pb c x len t st' :
      bpar pb -> plength pb = c * pow2 L -> c * pow2 L + len <= pcap pb -> 0 < len ->
      pmerge_n (tz (c + 1)) x (pstack pb) = Ok (t, st') ->
      exists f, ppush_node pb x len =
                Ok {| pstack := (f, t) :: st'; pdepth := pdepth pb; plevel := plevel pb;
                      plength := c * pow2 L + len; pcap := pcap pb |}.
    Proof.
      intros (D & C & Lv) Hlen Hcap Hpos M. unfold ppush_node. pose proof (pow2_pos L) as HpL.
      rewrite Hlen. destruct (N.eqb_spec (c * pow2 L) (pcap pb)); [lia|].
      rewrite Lv. destruct (N.leb_spec 64 (N.of_nat L)); [lia|].
      rewrite N.shiftr_div_pow2. fold (pow2 L). rewrite N.div_mul by lia.
      assert (Hvm: (if N.of_nat L =? 0 then (tz (c + 1) - pd)%nat else tz (c + 1)) = tz (c + 1)).
      { destruct (N.eqb_spec (N.of_nat L) 0); auto. assert (E0: pd = O) by lia. rewrite E0. lia. }
      cbv zeta. rewrite Hvm. destruct (pmerge_avail_n _ true _ _ _ _ M) as (f & ->).
      destruct (N.ltb_spec usize_max (c * pow2 L + len)) as [Hov|_].
      - exfalso. pose proof cap_le_63. unfold usize_max in Hov. lia.
      - exists f. reflexivity.
    Qed.

    Lemma ppush_node_full pb l x :
      bpar pb -> lrep pb l -> full j x -> lenN l + pow2 L <= pcap pb ->
      exists pb', ppush_node pb (canon ek j x) (pow2 L) = Ok pb' /\ bpar pb' /\ lrep pb' (l ++ x).
    Proof.
      intros Hpar (Hlen & c & Hc & Hcnt) F Hcap. pose proof (pow2_pos L) as HpL.
      destruct (cnt_push j c (pstack pb) l x Hcnt F) as (t & st' & M & C').
      destruct (ppush_node_eval pb c (canon ek j x) (pow2 L) t st' Hpar) as (f & E); auto; try lia.
      eexists. split; [exact E|]. split; [exact Hpar|].
      unfold full in F. rewrite cap_j in F.
      split; cbn [plength pstack map snd]; [rewrite lenN_app; lia|].
      exists (c + 1). split; [rewrite lenN_app; lia|exact C'].
    Qed.

    Lemma ppush_node_last pb l x :
      bpar pb -> lrep pb l -> x <> [] -> lenN x <= pow2 L -> lenN l + lenN x <= pcap pb ->
      exists pb', ppush_node pb (canon ek j x) (lenN x) = Ok pb' /\ bpar pb' /\ lfin pb' (l ++ x).
    Proof.
      intros Hpar (Hlen & c & Hc & Hcnt) Hne Hle Hcap. pose proof (pow2_pos L) as HpL.
      assert (Hx1: 1 <= lenN x) by (destruct x; [congruence|rewrite lenN_cons; lia]).
      destruct (cnt_push_partial j c (pstack pb) l x Hcnt Hne) as (t & st' & p & M & Ep & F); [rewrite cap_j; exact Hle|].
      destruct (ppush_node_eval pb c (canon ek j x) (lenN x) t st' Hpar) as (f & E); auto; try lia.
      eexists. split; [exact E|]. split; [exact Hpar|].
      split; cbn [plength pstack map snd]; [rewrite lenN_app; lia|].
      exists p, (lenN x). split; [exact F|]. split; [rewrite lenN_app; lia|]. lia.
    Qed.


    Lemma lrep_nil pb : pstack pb = [] -> plength pb = 0 -> lrep pb [].
    Proof. intros Hs Hl. split; [exact Hl|]. exists 0. rewrite Hs. split; [reflexivity|]. split; reflexivity. Qed.

    Lemma lrep_brep pb l : L = O -> lrep pb l -> brep (pstack pb) l.
    Proof.
      intros HL0 (Hlen & c & Hc & Hcnt). assert (E0: pd = O) by lia.
      exists c, l, [], (pstack pb). split; [now rewrite app_nil_r|].
      split; [unfold pf_of; rewrite E0; rewrite HL0 in Hc; exact Hc|].
      split; [rewrite lenN_nil; apply pf_pos|].
      split; [rewrite HL0 in Hcnt; exact Hcnt|]. left. auto.
    Qed.
    Lemma brep_lrep pb l : L = O -> brep (pstack pb) l -> plength pb = lenN l -> lrep pb l.
    Proof.
      intros HL0 (c & lf & lo & st0 & -> & Hlf & Hlo & Hc & Hst) Hlen. assert (E0: pd = O) by lia.
      unfold pf_of in *. rewrite E0, pow2_0 in *.
      assert (lo = []) as -> by (apply lenN_0; lia).
      destruct Hst as [[_ Hst]|(Hne & _)]; [|congruence].
      rewrite app_nil_r in *. split; [exact Hlen|]. exists c. rewrite Hst, HL0. split; [rewrite pow2_0; exact Hlf|exact Hc].
    Qed.

    Lemma ppush_level0 pb l v : L = O -> bpar pb -> lrep pb l -> lenN l < pcap pb ->
      exists pb', ppush pb v = Ok pb' /\ bpar pb' /\ lrep pb' (l ++ [v]).
    Proof.
      intros HL0 (D & C & Lv) Hrep Hlt.
      destruct (ppush_ok pb l v (lrep_brep pb l HL0 Hrep) (proj1 Hrep) Hlt) as (pb' & P & Hb & Hlen & D' & C' & Lv').
      exists pb'. split; [exact P|]. split; [unfold bpar; repeat split; congruence|].
      apply brep_lrep; auto.
    Qed.

    Lemma lrep_lfin pb l : lrep pb l -> l <> [] -> lfin pb l.
    Proof.
      intros (Hlen & c & Hc & Hcnt) Hne. split; [exact Hlen|]. pose proof (pow2_pos L) as HpL.
      destruct c as [|p]; [destruct Hcnt as [_ ->]; congruence|].
      exists p, (pow2 L). split; [apply srep_frep; exact Hcnt|]. split; [|lia].
      rewrite Hc, N.mul_sub_distr_r. assert (1 * pow2 L <= Npos p * pow2 L) by (apply N.mul_le_mono_r; lia). lia.
    Qed.

    Lemma pfinish_lfin pb l : bpar pb -> lfin pb l -> lenN l <= pcap pb ->
      pfinish pb = Ok (canon ek d l, d, lenN l).
    Proof.
      intros (D & C & Lv) (Hlen & p & r & F & Hl & Hr1 & Hr2) Hcap. pose proof (pow2_pos L) as HpL.
      unfold pfinish. pose proof (frep_stack_ne _ _ _ _ F) as Hsne.
      destruct (pstack pb) as [|e0 st0] eqn:Est; [cbn [map] in Hsne; congruence|]. rewrite <- Est in *. clear Est e0 st0.
      unfold pfinish_ne. rewrite Lv. destruct (N.leb_spec 64 (N.of_nat L)); [lia|].
      rewrite Nat2N.id. cbv zeta.
      assert (Hnext: (plength pb + pow2 L - 1) / pow2 L = Npos p).
      { rewrite Hlen, Hl. symmetry. apply N.div_unique with (r := r - 1); [lia|].
        rewrite N.mul_sub_distr_r. assert (1 * pow2 L <= Npos p * pow2 L) by (apply N.mul_le_mono_r; lia). lia. }
      rewrite Hnext.
      assert (Hpre: pfinish_pre pb (Npos p) = Ok (Npos p, pstack pb)).
      { unfold pfinish_pre. destruct (is_packed ek); auto. cbv zeta. rewrite Lv.
        destruct (N.eqb_spec (N.of_nat L) 0) as [E0|_]; [|now rewrite andb_false_r].
        assert (E1: pd = O) by lia. unfold pf_of. rewrite E1, pow2_0, N.mod_1_r. reflexivity. }
      rewrite Hpre. cbn [obind].
      assert (Hsh: sh p j <= pow2 d).
      { rewrite C in Hcap. unfold cap in Hcap. rewrite Hl in Hcap.
        assert (Ee: (d + pd = (d + pd - L) + L)%nat) by lia. rewrite Ee, pow2_add in Hcap.
        assert (Ed: (d = (d + pd - L) + j)%nat) by lia. rewrite Ed at 1. rewrite pow2_add. unfold sh.
        remember (pow2 (d + pd - L)) as bb eqn:Eb; clear Eb.
        assert (Hlt: (Npos p - 1) * pow2 L < bb * pow2 L) by lia.
        apply N.mul_lt_mono_pos_r in Hlt; [|lia]. apply N.mul_le_mono_r. lia. }
      destruct (fin_loop_ok 66 d L (Npos p) p j (pstack pb) l F Hsh) as (st' & E & Hs); try lia.
      - replace (j + pd)%nat with L by lia. reflexivity.
      - rewrite D, C, E. cbn [obind]. destruct st' as [|[f t] [|e st']]; cbn [map snd] in Hs; try discriminate.
        injection Hs as ->. rewrite Hlen. reflexivity.
    Qed.

    Lemma items_blocks_ne items rest : items_blocks ek L items rest -> items <> [] -> rest <> [].
    Proof.
      intros IB Hne. destruct IB as [|u blk items rest Hb _ _ _|v items rest _ _ _]; [congruence| |discriminate].
      intro E. apply app_eq_nil in E. tauto.
    Qed.

    Lemma pfeed_ok : forall items rest, items_blocks ek L items rest -> items <> [] ->
      forall pb l, bpar pb -> lrep pb l -> lenN (l ++ rest) <= pcap pb ->
      exists pb', pfeed items L pb = Ok pb' /\ bpar pb' /\ lfin pb' (l ++ rest).
    Proof.
      induction 1 as [|u blk items rest Hne Hsh Hfull IB IH|v items rest HL0 Hp IB IH]; intros Hine pb l Hpar Hrep Hcap.
      - congruence.
      - cbn [pfeed]. rewrite Hsh. pose proof (pow2_pos L) as HpL.
        assert (Hble: lenN blk <= pow2 L) by (destruct Hfull as [->|[_ ?]]; lia).
        rewrite !lenN_app in Hcap.
        destruct items as [|it items].
        + inversion IB; subst. rewrite compute_len_elems. unfold elems. rewrite Hsh, selems_canon by (rewrite cap_j; exact Hble).
          rewrite lenN_nil in Hcap.
          destruct (ppush_node_last pb l blk Hpar Hrep Hne Hble) as (pb' & P & Hpar' & Hfin); [lia|].
          rewrite P. cbn [obind pfeed]. exists pb'. rewrite app_nil_r. auto.
        + assert (Hrne: rest <> []) by (eapply items_blocks_ne; eauto; discriminate).
          destruct Hfull as [Hfull|[? _]]; [|congruence].
          destruct (ppush_node_full pb l blk Hpar Hrep) as (pb1 & P & Hpar1 & Hrep1).
          { unfold full. rewrite cap_j. exact Hfull. } { lia. }
          rewrite P. cbn [obind].
          destruct (IH ltac:(discriminate) pb1 (l ++ blk) Hpar1 Hrep1) as (pb' & P' & Hpar' & Hfin).
          { destruct Hpar as (_ & C & _). destruct Hpar1 as (_ & C1 & _). rewrite C1, <- C, !lenN_app. lia. }
          exists pb'. rewrite app_assoc. auto.
      - cbn [pfeed]. rewrite lenN_app, lenN_cons in Hcap.
        destruct (ppush_level0 pb l v HL0 Hpar Hrep) as (pb1 & P & Hpar1 & Hrep1); [lia|].
        rewrite P. cbn [obind].
        replace (l ++ v :: rest) with ((l ++ [v]) ++ rest) by (rewrite <- app_assoc; reflexivity).
        destruct items as [|it items].
        + inversion IB; subst. cbn [pfeed]. exists pb1. rewrite app_nil_r. split; [reflexivity|]. split; [exact Hpar1|].
          apply lrep_lfin; auto. apply app_ne. discriminate.
        + destruct (IH ltac:(discriminate) pb1 (l ++ [v]) Hpar1 Hrep1) as (pb' & P' & Hpar' & Hfin).
          { destruct Hpar as (_ & C & _). destruct Hpar1 as (_ & C1 & _). rewrite C1, <- C, !lenN_app, lenN_cons, lenN_nil. lia. }
          exists pb'. auto.
    Qed.
  End Feed.


  (* at level 0 of a packed kind with pd > 0 the iterator yields only single values: feeding = pushing *)
  Lemma pfeed_push_all L : forall items rest, items_blocks ek L items rest -> internal_nodes items = [] ->
    forall pb, pfeed items L pb = ppush_all pb rest.
  Proof.
    induction 1 as [|u blk items rest Hne Hsh Hfull IB IH|v items rest HL0 Hp IB IH]; intros Hin pb; cbn [pfeed ppush_all].
    - reflexivity.
    - cbn [internal_nodes flat_map app] in Hin. discriminate.
    - destruct (ppush pb v); cbn [obind]; auto.
  Qed.

  Lemma pfeed_finish d L items rest :
    (d + pd <= 63)%nat -> ((pd <= L)%nat \/ (L = O /\ internal_nodes items = [])) -> (L <= d + pd)%nat ->
    items_blocks ek L items rest -> lenN rest <= cap ek d ->
    exists pb, pfeed items L (shb {| bstack := []; bdepth := d; blevel := N.of_nat L; blength := 0; bcap := cap ek d |}) = Ok pb /\
               pfinish pb = Ok (canon ek d rest, d, lenN rest).
  Proof.
    intros Hd Hcase HL IB Hl. destruct Hcase as [Hpd|[HL0 Hin]].
    - destruct items as [|it items].
      + inversion IB; subst. eexists. split; [reflexivity|]. cbn [pfinish shb pstack map bstack pdepth bdepth].
        rewrite canon_nil. reflexivity.
      + destruct (pfeed_ok L d Hpd HL Hd _ _ IB ltac:(discriminate)
                    (shb {| bstack := []; bdepth := d; blevel := N.of_nat L; blength := 0; bcap := cap ek d |}) [])
          as (pb' & P & Hpar & Hfin).
        * unfold bpar. cbn [shb pdepth pcap plevel bdepth bcap blevel]. auto.
        * apply lrep_nil; reflexivity.
        * cbn [app shb pcap bcap]. exact Hl.
        * exists pb'. split; [exact P|]. cbn [app] in Hfin. apply (pfinish_lfin L d Hpd HL Hd); auto.
          destruct Hpar as (_ & C & _). rewrite C. exact Hl.
    - subst L. rewrite (pfeed_push_all _ _ _ IB Hin).
      destruct (ppush_all_new d (N.of_nat 0) rest Hl) as (pb & P & Hb & Hlen & D & C & Lv).
      exists pb. split; [exact P|]. rewrite <- D. apply pfinish_ok; auto.
      + rewrite C. exact Hl. + rewrite C, D. reflexivity. + rewrite D. exact Hd.
  Qed.

  (* ---------- exported theorems: the builder half of pop_front ---------- *)
  (* master statement; the identity part is conditional on the sources being well-formed and old *)
  Theorem feed_canon_full : forall (d L : nat) items rest R s, (d + pd_of ek <= 63)%nat ->
    ((pd_of ek <= L)%nat \/ (L = O /\ internal_nodes items = [])) -> (L <= d + pd_of ek)%nat ->
    items_blocks ek L items rest -> lenN rest <= cap ek d ->
    wp R (b <- builder_new ek (N.of_nat d) (N.of_nat L) ;; b' <- pop_front_feed ek items L b ;; builder_finish ek b')
       (fun o s' => exists t', o = Ok (t', d, lenN rest) /\ shape t' = canon ek d rest /\
                    alloc_only s s' /\ fresh_or_from s s' (internal_nodes items) t' /\
                    (idf (internal_nodes items) -> (forall u, In u (internal_nodes items) -> below (next s) u) ->
                     idf (t' :: internal_nodes items)) /\
                    (forall u, In u (internal_nodes items) -> subt u t')) s.
  Proof.
    intros d L items rest R s Hd Hcase HL IB Hl. rewrite builder_new_ok by exact Hd. cbn [bind].
    destruct (pfeed_finish d L items rest Hd Hcase HL IB Hl) as (pb & P & Hfin).
    apply wp_bind. eapply wp_mono; [|apply (feed_sim R s (internal_nodes items)); [apply stk_inv_nil|apply incl_refl]].
    intros o s1. rewrite P. intros (b1 & -> & Hshb & Hstep1). cbn [lift]. subst pb.
    eapply wp_mono; [|apply (finish_sim R s (internal_nodes items)); apply Hstep1].
    intros o s2. rewrite Hfin.
    intros (f & t & -> & Hsh & Hstep2). exists t.
    destruct Hstep1 as (A1 & _ & _ & K1). destruct Hstep2 as (A2 & (_ & I' & Hid) & _ & K2).
    split; [reflexivity|]. split; [exact Hsh|]. split; [eapply ao_trans; eauto|].
    inversion I' as [|e1 l1 He1 _]; subst. split; [apply He1|].
    split; [intros Hi Hb; exact (proj1 (Hid (conj Hi Hb)))|].
    intros u Hu.
    assert (Hh: held (srcents items ++ []) u).
    { exists (true, u). split; [apply in_or_app; left; unfold srcents; apply (in_map (fun x => (true, x))); exact Hu|].
      split; [apply subt_refl|left; reflexivity]. }
    destruct (K2 u (K1 u Hh)) as (e & [<-|[]] & Hs & _). exact Hs.
  Qed.

  Theorem feed_canon : forall (d L : nat) items rest R s, (d + pd_of ek <= 63)%nat ->
    ((pd_of ek <= L)%nat \/ (L = O /\ internal_nodes items = [])) -> (L <= d + pd_of ek)%nat ->
    items_blocks ek L items rest -> lenN rest <= cap ek d ->
    wp R (b <- builder_new ek (N.of_nat d) (N.of_nat L) ;; b' <- pop_front_feed ek items L b ;; builder_finish ek b')
       (fun o s' => exists t', o = Ok (t', d, lenN rest) /\ shape t' = canon ek d rest /\
                    alloc_only s s' /\ fresh_or_from s s' (internal_nodes items) t') s.
  Proof.
    intros d L items rest R s Hd Hcase HL IB Hl. eapply wp_mono; [|apply feed_canon_full; eassumption].
    intros o s' (t & Ho & Hsh & A & Ff & _). exists t. auto.
  Qed.

  (* ---------- node count (cost model, C10) ---------- *)
  Lemma lenN_split n (l : list T) : lenN l = lenN (takeN n l) + lenN (dropN n l).
  Proof. rewrite <- lenN_app, takeN_dropN. reflexivity. Qed.

  Lemma snodes_canon_full : forall dd l, full dd l -> snodes (canon ek dd l) + 1 <= 2 * lenN l.
  Proof.
    induction dd as [|dd IH]; intros l F.
    - pose proof (full_ne _ _ F) as Hne. destruct l as [|v l]; [congruence|]. cbn [canon].
      destruct (is_packed ek); cbn [snodes]; rewrite lenN_cons; lia.
    - rewrite canon_S by (eapply full_ne; eauto). cbn [snodes]. unfold full in F. rewrite cap_S in F.
      pose proof (cap_pos dd) as Hc.
      assert (F1: full dd (takeN (cap ek dd) l)) by (unfold full; rewrite lenN_takeN; lia).
      assert (F2: full dd (dropN (cap ek dd) l)) by (unfold full; rewrite lenN_dropN; lia).
      apply IH in F1. apply IH in F2. rewrite (lenN_split (cap ek dd) l). lia.
  Qed.

  Lemma snodes_canon_le : forall dd l, snodes (canon ek dd l) <= 2 * lenN l + 2 * N.of_nat dd + 1.
  Proof.
    induction dd as [|dd IH]; intros l.
    - destruct l as [|v l]; cbn [canon]; [cbn [snodes]; lia|]. destruct (is_packed ek); cbn [snodes]; lia.
    - destruct l as [|v l']; [cbn [canon snodes]; lia|]. remember (v :: l') as l eqn:El.
      rewrite canon_S by (subst l; discriminate). cbn [snodes].
      destruct (N.le_gt_cases (lenN l) (cap ek dd)) as [Hle|Hgt].
      + rewrite takeN_all, dropN_all by auto. rewrite canon_nil. cbn [snodes]. specialize (IH l). lia.
      + assert (F1: full dd (takeN (cap ek dd) l)) by (unfold full; rewrite lenN_takeN; lia).
        apply snodes_canon_full in F1. specialize (IH (dropN (cap ek dd) l)).
        rewrite (lenN_split (cap ek dd) l). lia.
  Qed.

  Theorem build_canon_nodes : forall (d : nat) (vs : list T) R s, (d + pd_of ek <= 63)%nat -> lenN vs <= cap ek d ->
    wp R (b <- builder_new ek (N.of_nat d) 0 ;; b' <- push_all ek b vs ;; builder_finish ek b')
       (fun o s' => Npos (next s') - Npos (next s) <= 2 * lenN vs + 2 * N.of_nat d + 2) s.
  Proof.
    intros d vs R s Hd Hl. eapply wp_mono; [|apply build_canon_count; assumption].
    intros o s' (t & _ & _ & _ & _ & Hc). pose proof (snodes_canon_le d vs). lia.
  Qed.


  (* the same, with the side condition in the form the caller (List::pop_front) obtains it:
     level = compute_level n depth pd is 0 or at least pd, and at level 0 of a kind with pd > 0
     LevelIter yields single values only *)
  Corollary feed_canon' : forall (d L : nat) items rest R s, (d + pd_of ek <= 63)%nat ->
    (L = O \/ (pd_of ek <= L)%nat) -> (L = O -> (0 < pd_of ek)%nat -> internal_nodes items = []) ->
    (L <= d + pd_of ek)%nat -> items_blocks ek L items rest -> lenN rest <= cap ek d ->
    wp R (b <- builder_new ek (N.of_nat d) (N.of_nat L) ;; b' <- pop_front_feed ek items L b ;; builder_finish ek b')
       (fun o s' => exists t', o = Ok (t', d, lenN rest) /\ shape t' = canon ek d rest /\
                    alloc_only s s' /\ fresh_or_from s s' (internal_nodes items) t') s.
  Proof.
    intros d L items rest R s Hd Hcase Hint HL IB Hl. apply feed_canon; auto.
    destruct Hcase as [HL0|Hpd]; [|left; exact Hpd].
    destruct (Nat.eq_dec pd O) as [E0|N0]; [left; lia|right; split; [exact HL0|apply Hint; [exact HL0|lia]]].
  Qed.

  Lemma feed_case L (items : list (level_node T)) : (L = O \/ (pd_of ek <= L)%nat) -> (L = O -> (0 < pd_of ek)%nat -> internal_nodes items = []) ->
    (pd_of ek <= L)%nat \/ (L = O /\ internal_nodes items = []).
  Proof.
    intros Hcase Hint. destruct Hcase as [HL0|Hpd]; [|left; exact Hpd].
    destruct (Nat.eq_dec pd O) as [E0|N0]; [left; lia|right; split; [exact HL0|apply Hint; [exact HL0|lia]]].
  Qed.

  (* identities name nodes in the rebuilt tree together with the retained sources *)
  Theorem feed_canon_idf : forall (d L : nat) items rest R s, (d + pd_of ek <= 63)%nat ->
    (L = O \/ (pd_of ek <= L)%nat) -> (L = O -> (0 < pd_of ek)%nat -> internal_nodes items = []) ->
    (L <= d + pd_of ek)%nat -> items_blocks ek L items rest -> lenN rest <= cap ek d ->
    idf (internal_nodes items) -> (forall u, In u (internal_nodes items) -> below (next s) u) ->
    wp R (b <- builder_new ek (N.of_nat d) (N.of_nat L) ;; b' <- pop_front_feed ek items L b ;; builder_finish ek b')
       (fun o s' => exists t', o = Ok (t', d, lenN rest) /\ shape t' = canon ek d rest /\
                    alloc_only s s' /\ fresh_or_from s s' (internal_nodes items) t' /\
                    idf (t' :: internal_nodes items)) s.
  Proof.
    intros d L items rest R s Hd Hcase Hint HL IB Hl Hi Hb.
    eapply wp_mono; [|apply feed_canon_full; try eassumption; apply feed_case; assumption].
    intros o s' (t & Ho & Hsh & A & Ff & Hid & _). exists t. repeat (split; [assumption|]). apply Hid; assumption.
  Qed.

  (* every Internal item that was pushed survives as a subtree of the result *)
  Theorem feed_canon_retain : forall (d L : nat) items rest R s, (d + pd_of ek <= 63)%nat ->
    (L = O \/ (pd_of ek <= L)%nat) -> (L = O -> (0 < pd_of ek)%nat -> internal_nodes items = []) ->
    (L <= d + pd_of ek)%nat -> items_blocks ek L items rest -> lenN rest <= cap ek d ->
    wp R (b <- builder_new ek (N.of_nat d) (N.of_nat L) ;; b' <- pop_front_feed ek items L b ;; builder_finish ek b')
       (fun o _ => forall t' d' n, o = Ok (t', d', n) -> forall u, In u (internal_nodes items) -> subt u t') s.
  Proof.
    intros d L items rest R s Hd Hcase Hint HL IB Hl.
    eapply wp_mono; [|apply feed_canon_full; try eassumption; apply feed_case; assumption].
    intros o s' (t & Ho & _ & _ & _ & _ & Hret) t' d' n E. rewrite Ho in E. injection E as <- _ _. exact Hret.
  Qed.

End BuilderP.

(* The statement of feed_canon with the original side condition `L = O \/ pd <= L` alone is false:
   at level 0 of a kind with pd > 0 (here u128, pd = 1) two Internal items, each a packed leaf holding
   one value, satisfy items_blocks, but the builder treats each as a complete leaf. *)
Example feed_canon_needs_values_at_level_0 :
  let ek := ek_uint 4 in
  let a := num_le 16 1 in
  let b := num_le 16 2 in
  let items := [LInternal (Packed 100%positive [a]); LInternal (Packed 101%positive [b])] in
  (1 + pd_of ek <= 63)%nat /\ (0 <= 1 + pd_of ek)%nat /\ items_blocks ek 0 items [a; b] /\ lenN [a; b] <= cap ek 1 /\
  fst (run (b0 <- builder_new ek 1 0 ;; b' <- pop_front_feed ek items 0 b0 ;; builder_finish ek b') init_state)
  = Err BuilderStackLeftover.
Proof.
  cbv zeta. split; [cbn; lia|]. split; [lia|]. split; [|split; [vm_compute; discriminate|vm_compute; reflexivity]].
  change [num_le 16 1; num_le 16 2] with ([num_le 16 1] ++ [num_le 16 2]).
  apply ib_internal; [discriminate|reflexivity|left; reflexivity|].
  change [num_le 16 2] with ([num_le 16 2] ++ []) at 2.
  apply ib_internal; [discriminate|reflexivity|left; reflexivity|constructor].
Qed.

Print Assumptions build_canon.
Print Assumptions push_full.
Print Assumptions new_invalid_depth.
Print Assumptions feed_canon.
Print Assumptions feed_canon'.
Print Assumptions build_canon_idf.
Print Assumptions feed_canon_idf.
Print Assumptions feed_canon_retain.
Print Assumptions build_canon_full.
Print Assumptions feed_canon_full.
Print Assumptions build_canon_count.
Print Assumptions build_canon_nodes.
Print Assumptions snodes_canon_le.
