(* Refine.v — the master refinement theorem.
   step_refines : every collection operation of model/System.v refines the plain-sequence
                  specification of Spec.v and preserves the system invariant SysInv;
   run_refines  : hence every history of collection operations executed by the sequential
                  interpreter from the initial state follows an abstract run of the specification;
   corollaries  : reachable_bounds (C05), step_safe (C15), step_regs_frame (C04),
                  clone_allocates_nothing (C10), maps_unobservable (C14);
   specification facts (Section SpecFacts, no model): spec_err_frame, det_op / spec_det (the specification is a
                  function of the abstract state for every operation but `==`; SSZ decoding included, for
                  inputs below 4 GiB), spec_det_eq, and the reading of the decoders' specification:
                  spec_ssz_list_err / spec_ssz_vec_err (EDecode only if no admissible preimage),
                  spec_ssz_list_iff / spec_ssz_vec_iff (success iff admissible preimage, and exactly it),
                  spec_det_ssz_list / spec_det_ssz_vec.
   Proof file; no model code. *)
From Coq Require Import FMapPositive.
From MH Require Import Inv IfaceP IterP IntraP WulP RepeatP CollCtorP CollObsP HashP CodecP SysInv RefineBase RefineA RefineB.
Local Open Scope N_scope.

Ltac spec_inv :=
  repeat match goal with
  | Hx : _ /\ _ |- _ => destruct Hx
  | Hx : exists _, _ |- _ => destruct Hx
  | Hx : _ \/ _ |- _ => destruct Hx
  | Hx : context [if ?c then _ else _] |- _ => destruct c eqn:?
  | Hx : context [match ?x with _ => _ end] |- _ => destruct x eqn:?
  end.

Section SpecFacts.
  Context {T : Type}.
  Variable ek : ekind T.
  Variable H : digest -> digest -> digest.
  Variable capN : N.
  Variable vec_based : bool.
  Variable valid : T -> Prop.
  Notation aval := (@aval T).
  Notation sregs := (@sregs T).
  Notation res := (@res T).
  Notation op := (@op T).
  Notation spec_ok := (spec_ok ek H capN vec_based valid).

  (* what an error leaves behind: kind and contents of every register *)
  Definition contents (a : sregs) : list (option (bool * list T)) :=
    map (option_map (fun x : aval => (a_list x, a_vals x))) a.

  Lemma contents_flush (a : sregs) i x : aget a i = Some x -> contents (aset a i (Some (Spec.flushed capN x))) = contents a.
  Proof.
    unfold aget, aset, contents. revert i. induction a as [|y a IH]; intros [|i]; cbn [nth_error set_nth map]; intros E; auto.
    - destruct y as [y|]; [|discriminate]. injection E as ->. reflexivity.
    - f_equal. apply IH. exact E.
  Qed.

  Lemma spec_err_frame a o e a' : collection_op o = true -> spec_ok a o (RErr e) a' ->
    contents a' = contents a /\ (a' = a \/ exists i n, o = OPopFront i n).
  Proof.
    intros Hc Hs. destruct o; cbn [collection_op] in Hc; try discriminate Hc; cbn [Spec.spec_ok] in Hs;
      unfold write_spec, ctor, with_list in Hs; unfold with_reg, Spec.bad in Hs; spec_inv; subst; try discriminate; auto.
    split; [apply contents_flush; assumption|]. right. eauto.
  Qed.

  (* ---------- determinism of the specification ---------- *)
  Lemma kv_has_get (kvs : list (N * T)) k : kv_has kvs k -> exists v, kv_get kvs k = Some v.
  Proof. unfold kv_has. destruct (kv_get kvs k) as [v|]; [eauto|congruence]. Qed.
  Lemma overlay_len_le kvs (l l1 l2 : list T) : overlay kvs l l1 -> overlay kvs l l2 -> lenN l2 <= lenN l1.
  Proof.
    intros (A1 & A2 & A3 & A4) (B1 & B2 & B3 & B4).
    destruct (N.le_gt_cases (lenN l2) (lenN l1)) as [L|L]; [exact L|]. exfalso.
    destruct (kv_has_get kvs (lenN l2 - 1)) as (v & Ev); [apply B4; lia|].
    apply A2 in Ev. assert (lenN l2 - 1 < lenN l1) by (apply nthN_Some; rewrite Ev; discriminate). lia.
  Qed.
  Lemma overlay_fun kvs (l l1 l2 : list T) : overlay kvs l l1 -> overlay kvs l l2 -> l1 = l2.
  Proof.
    intros O1 O2. pose proof (overlay_len_le _ _ _ _ O1 O2) as L1. pose proof (overlay_len_le _ _ _ _ O2 O1) as L2.
    destruct O1 as (A1 & A2 & A3 & A4), O2 as (B1 & B2 & B3 & B4).
    apply listN_ext. intros k. destruct (kv_get kvs k) as [v|] eqn:Ek.
    - rewrite (A2 k v Ek), (B2 k v Ek). reflexivity.
    - destruct (N.lt_ge_cases k (lenN l)) as [L|L].
      + rewrite (A3 k Ek L), (B3 k Ek L). reflexivity.
      + assert (lenN l1 <= k) as G1.
        { destruct (N.le_gt_cases (lenN l1) k) as [G|G]; [exact G|]. exfalso. apply (A4 k L G). exact Ek. }
        assert (nthN l1 k = None) as -> by (apply nthN_None; exact G1).
        symmetry. apply nthN_None. lia.
  Qed.

  (* operations whose specification is a function of the abstract state: all but `==` (free on dirty
     handles); the two SSZ decoders for inputs below 4 GiB (the specification of decoding is complete
     below the limit of the 4-byte offsets, which matters for variable-size kinds only; the bound is
     imposed for all kinds so that det_op depends on the operation alone) *)
  Definition det_op (o : op) : bool :=
    match o with
    | OEq _ _ => false
    | OSszList _ b | OSszVec _ b => lenN b <? 2 ^ 32
    | _ => collection_op o
    end.

  (* ---------- the specification of SSZ decoding, read off Spec.spec_ok ---------- *)
  (* the answer EDecode is allowed only when there is no admissible preimage (below the offset limit) *)
  Lemma spec_ssz_list_err (a : sregs) d b e a' : (d < nregs)%nat -> spec_ok a (OSszList d b) (RErr e) a' ->
    e = EDecode /\ a' = a /\
    ~ exists l, serialize ek l = b /\ Forall valid l /\ lenN l <= capN /\ (efixed ek = None -> lenN b < 2 ^ 32).
  Proof.
    intros Hd. cbn [Spec.spec_ok]. destruct (Nat.leb_spec nregs d) as [Hle|_]; [lia|].
    intros [[(l & _ & _ & _ & D & _)|[E ->]] C]; [discriminate D|]. injection E as ->.
    split; [reflexivity|]. split; [reflexivity|].
    intros (l & Es & Hv & Hl & H32). destruct (C H32 l Es Hv Hl) as [D _]. discriminate D.
  Qed.
  Lemma spec_ssz_vec_err (a : sregs) d b e a' : (d < nregs)%nat -> spec_ok a (OSszVec d b) (RErr e) a' ->
    e = EDecode /\ a' = a /\
    ~ exists l, serialize ek l = b /\ Forall valid l /\ lenN l = capN /\ (efixed ek = None -> lenN b < 2 ^ 32).
  Proof.
    intros Hd. cbn [Spec.spec_ok]. destruct (Nat.leb_spec nregs d) as [Hle|_]; [lia|].
    intros [[(l & _ & _ & _ & D & _)|[E ->]] C]; [discriminate D|]. injection E as ->.
    split; [reflexivity|]. split; [reflexivity|].
    intros (l & Es & Hv & Hl & H32). destruct (C H32 l Es Hv Hl) as [D _]. discriminate D.
  Qed.
  (* decoding succeeds if and only if the input is the serialization of an in-bounds sequence of valid
     values, and then stores exactly that sequence; otherwise it answers EDecode and changes nothing *)
  Lemma spec_ssz_list_iff (a : sregs) d b r a' : (d < nregs)%nat -> (efixed ek = None -> lenN b < 2 ^ 32) ->
    spec_ok a (OSszList d b) r a' ->
    (r = ROk <-> exists l, serialize ek l = b /\ Forall valid l /\ lenN l <= capN) /\
    (forall l, serialize ek l = b -> Forall valid l -> lenN l <= capN -> r = ROk /\ a' = aset a d (Some (clean_list l))) /\
    (r = ROk \/ r = RErr EDecode /\ a' = a).
  Proof.
    intros Hd H32. cbn [Spec.spec_ok]. destruct (Nat.leb_spec nregs d) as [Hle|_]; [lia|].
    intros [S C]. split; [|split; [exact (C H32)|]].
    - split.
      + intros ->. destruct S as [(l & Es & Hv & Hl & _)|[D _]]; [eauto|discriminate D].
      + intros (l & Es & Hv & Hl). apply (C H32 l Es Hv Hl).
    - destruct S as [(l & _ & _ & _ & -> & _)|[-> ->]]; auto.
  Qed.
  Lemma spec_ssz_vec_iff (a : sregs) d b r a' : (d < nregs)%nat -> (efixed ek = None -> lenN b < 2 ^ 32) ->
    spec_ok a (OSszVec d b) r a' ->
    (r = ROk <-> exists l, serialize ek l = b /\ Forall valid l /\ lenN l = capN) /\
    (forall l, serialize ek l = b -> Forall valid l -> lenN l = capN -> r = ROk /\ a' = aset a d (Some (clean_vec capN l))) /\
    (r = ROk \/ r = RErr EDecode /\ a' = a).
  Proof.
    intros Hd H32. cbn [Spec.spec_ok]. destruct (Nat.leb_spec nregs d) as [Hle|_]; [lia|].
    intros [S C]. split; [|split; [exact (C H32)|]].
    - split.
      + intros ->. destruct S as [(l & Es & Hv & Hl & _)|[D _]]; [eauto|discriminate D].
      + intros (l & Es & Hv & Hl). apply (C H32 l Es Hv Hl).
    - destruct S as [(l & _ & _ & _ & -> & _)|[-> ->]]; auto.
  Qed.

  (* hence the specification of decoding is functional (below the offset limit) *)
  Lemma spec_det_ssz_list (a : sregs) d b r1 a1 r2 a2 : (efixed ek = None -> lenN b < 2 ^ 32) ->
    spec_ok a (OSszList d b) r1 a1 -> spec_ok a (OSszList d b) r2 a2 -> r1 = r2 /\ a1 = a2.
  Proof.
    intros H32. cbn [Spec.spec_ok]. destruct (nregs <=? d)%nat; [unfold Spec.bad; intros [-> ->] [-> ->]; auto|].
    intros [[(l1 & E1 & V1 & L1 & -> & ->)|[-> ->]] C1] [[(l2 & E2 & V2 & L2 & -> & ->)|[-> ->]] C2].
    - destruct (C2 H32 l1 E1 V1 L1) as [_ ->]. auto.
    - destruct (C2 H32 l1 E1 V1 L1) as [D _]. discriminate D.
    - destruct (C1 H32 l2 E2 V2 L2) as [D _]. discriminate D.
    - auto.
  Qed.
  Lemma spec_det_ssz_vec (a : sregs) d b r1 a1 r2 a2 : (efixed ek = None -> lenN b < 2 ^ 32) ->
    spec_ok a (OSszVec d b) r1 a1 -> spec_ok a (OSszVec d b) r2 a2 -> r1 = r2 /\ a1 = a2.
  Proof.
    intros H32. cbn [Spec.spec_ok]. destruct (nregs <=? d)%nat; [unfold Spec.bad; intros [-> ->] [-> ->]; auto|].
    intros [[(l1 & E1 & V1 & L1 & -> & ->)|[-> ->]] C1] [[(l2 & E2 & V2 & L2 & -> & ->)|[-> ->]] C2].
    - destruct (C2 H32 l1 E1 V1 L1) as [_ ->]. auto.
    - destruct (C2 H32 l1 E1 V1 L1) as [D _]. discriminate D.
    - destruct (C1 H32 l2 E2 V2 L2) as [D _]. discriminate D.
    - auto.
  Qed.

  Lemma spec_det_bulk (a : sregs) i kvs r1 a1 r2 a2 :
    spec_ok a (OBulk i kvs) r1 a1 -> spec_ok a (OBulk i kvs) r2 a2 -> r1 = r2 /\ a1 = a2.
  Proof.
    cbn [Spec.spec_ok]. unfold with_list, with_reg.
    destruct (aget a i) as [x|]; [|unfold Spec.bad; intros [-> ->] [-> ->]; auto].
    destruct (a_list x); [|unfold Spec.bad; intros [-> ->] [-> ->]; auto].
    destruct (vec_based && _); [unfold Spec.bad; intros [-> ->] [-> ->]; auto|].
    destruct (a_pend x); [intros [-> ->] [-> ->]; auto|]. cbv zeta.
    intros [(l1 & O1 & C1 & -> & ->)|[(-> & -> & F1)|(k1 & x1 & -> & -> & P1 & P2 & P3 & P4 & P5 & P6 & P7 & P8)]]
           [(l2 & O2 & C2 & -> & ->)|[(-> & -> & F2)|(k2 & x2 & -> & -> & Q1 & Q2 & Q3 & Q4 & Q5 & Q6 & Q7 & Q8)]].
    - rewrite (overlay_fun _ _ _ _ O1 O2). auto.
    - exfalso. destruct O1 as (A1 & A2 & A3 & A4). destruct (kv_has_get kvs capN) as (v & Ev); [apply F2; lia|].
      apply A2 in Ev. assert (capN < lenN l1) by (apply nthN_Some; rewrite Ev; discriminate). lia.
    - exfalso. destruct O1 as (A1 & A2 & A3 & A4). destruct (kv_has_get kvs k2 Q6) as (v & Ev).
      apply A2 in Ev. assert (k2 < lenN l1) by (apply nthN_Some; rewrite Ev; discriminate). apply Q5. apply A4; lia.
    - exfalso. destruct O2 as (A1 & A2 & A3 & A4). destruct (kv_has_get kvs capN) as (v & Ev); [apply F1; lia|].
      apply A2 in Ev. assert (capN < lenN l2) by (apply nthN_Some; rewrite Ev; discriminate). lia.
    - auto.
    - exfalso. apply Q5. apply F1; assumption.
    - exfalso. destruct O2 as (A1 & A2 & A3 & A4). destruct (kv_has_get kvs k1 P6) as (v & Ev).
      apply A2 in Ev. assert (k1 < lenN l2) by (apply nthN_Some; rewrite Ev; discriminate). apply P5. apply A4; lia.
    - exfalso. apply P5. apply F2; assumption.
    - assert (x1 = x2) as <-.
      { destruct (N.lt_trichotomy x1 x2) as [L|[L|L]]; [|exact L|]; exfalso.
        - apply P5. apply Q4; assumption.
        - apply Q5. apply P4; assumption. }
      assert (k1 = k2) as <-; [|auto].
      destruct (N.lt_trichotomy k1 k2) as [L|[L|L]]; [|exact L|]; exfalso.
      + destruct (N.lt_ge_cases k1 usize_max) as [U|U].
        * apply (Q7 k1); [exact P3|lia|exact P6].
        * pose proof (P8 U k2 Q6). lia.
      + destruct (N.lt_ge_cases k2 usize_max) as [U|U].
        * apply (P7 k2); [exact Q3|lia|exact Q6].
        * pose proof (Q8 U k1 P6). lia.
  Qed.

  Theorem spec_det (a : sregs) o r1 a1 r2 a2 : det_op o = true ->
    spec_ok a o r1 a1 -> spec_ok a o r2 a2 -> r1 = r2 /\ a1 = a2.
  Proof.
    intros Hd H1 H2. destruct o; cbn [det_op collection_op] in Hd; try discriminate Hd;
      try (apply (spec_det_bulk _ _ _ _ _ _ _ H1 H2));
      try (apply N.ltb_lt in Hd; apply (spec_det_ssz_list _ _ _ _ _ _ _ (fun _ => Hd) H1 H2));
      try (apply N.ltb_lt in Hd; apply (spec_det_ssz_vec _ _ _ _ _ _ _ (fun _ => Hd) H1 H2));
      cbn [Spec.spec_ok] in H1, H2; unfold write_spec, ctor, with_list in H1, H2; unfold with_reg, Spec.bad in H1, H2;
      spec_inv; subst; try discriminate; auto.
  Qed.
  (* `==` is determined as soon as both handles are clean *)
  Lemma spec_det_eq (a : sregs) i j r1 a1 r2 a2 :
    (forall x, aget a i = Some x -> a_pend x = false) -> (forall y, aget a j = Some y -> a_pend y = false) ->
    spec_ok a (OEq i j) r1 a1 -> spec_ok a (OEq i j) r2 a2 -> r1 = r2 /\ a1 = a2.
  Proof.
    intros Ci Cj. cbn [Spec.spec_ok]. unfold with_reg, Spec.bad.
    destruct (aget a i) as [x|]; [|intros [-> ->] [-> ->]; auto].
    destruct (aget a j) as [y|]; [|intros [-> ->] [-> ->]; auto].
    destruct (Bool.eqb _ _); [|intros [-> ->] [-> ->]; auto].
    intros (-> & b1 & -> & B1) (-> & b2 & -> & B2). split; [|reflexivity]. f_equal.
    specialize (B1 (Ci x eq_refl) (Cj y eq_refl)). specialize (B2 (Ci x eq_refl) (Cj y eq_refl)).
    destruct b1, b2; auto; [symmetry|]; tauto.
  Qed.
End SpecFacts.

(* ---------- C04: the register frame of `step` (no invariant needed) ---------- *)
Section Frame.
  Context {T U : Type}.
  Variable ek : ekind T.
  Variable M : umap_impl T U.
  Variable H : digest -> digest -> digest.
  Variable capN : N.
  Variable vec_based : bool.
  Notation handle := (handle T U).
  Notation sys := (@sys T U).
  Notation res := (@res T).
  Notation op := (@op T).
  Notation step := (step ek M H capN vec_based).

  (* the register an operation may write *)
  Definition dest (o : op) : option nat :=
    match o with
    | ONewList d _ | ONewVec d _ | OListSlow d _ | OVecIter d _ | OEmpty d | ORepeat d _ _ | ORepeatSlow d _ _
    | OFromElem d _ | ODefaultVec d | OSszList d _ | OSszVec d _ | OSerdeList d _ | OSerdeVec d _ => Some d
    | OSet a _ _ | OTouch a _ | OCowInto a _ _ | OCowMake a _ _ | OCowMake2 a _ _ _ | OIterCow a _
    | OPush a _ | OBulk a _ | OApply a | OPopFront a _ | OPopFrontSlow a _ | OIntra a | ODrop a | ORebaseOn a _ => Some a
    | OClone _ b | OToVector _ b | OToList _ b => Some b
    | ORebase _ _ c => Some c
    | _ => None
    end.

  Definition frameQ (s : sys) (od : option nat) (out : outcome (res * sys)) (st' : state) : Prop :=
    match out with
    | Ok (_, s') => s' = s \/ exists d ho, od = Some d /\ s' = rset s d ho
    | _ => True
    end.

  Lemma fq_same R s od r st : wp R (Ret (r, s)) (frameQ s od) st.
  Proof. cbn [wp frameQ]. now left. Qed.
  Lemma fq_rset R s d r ho st : wp R (Ret (r, rset s d ho)) (frameQ s (Some d)) st.
  Proof. cbn [wp frameQ]. right. eauto. Qed.
  Lemma fq_bad R s od st : wp R (System.bad s) (frameQ s od) st.
  Proof. apply fq_same. Qed.
  Lemma fq_bind {A} R s od (m : prog A) (f : A -> prog (res * sys)) st :
    (forall x st', wp R (f x) (frameQ s od) st') -> wp R (bind m f) (frameQ s od) st.
  Proof.
    intros Hf. apply wp_bind. eapply wp_mono; [|apply wp_trivial]. intros [x|e|c] st' _; cbn [lift frameQ]; auto.
  Qed.
  Lemma fq_with_reg R s od i f st : (forall h st', wp R (f h) (frameQ s od) st') -> wp R (System.with_reg s i f) (frameQ s od) st.
  Proof. intros Hf. unfold System.with_reg. destruct (rget s i); [apply Hf|apply fq_bad]. Qed.
  Lemma fq_with_list R s od i f st : (forall h st', wp R (f h) (frameQ s od) st') -> wp R (System.with_list s i f) (frameQ s od) st.
  Proof. intros Hf. unfold System.with_list. apply fq_with_reg. intros h st'. destruct (hlist h); [apply Hf|apply fq_bad]. Qed.
  Lemma fq_with_vector R s od i f st : (forall h st', wp R (f h) (frameQ s od) st') -> wp R (System.with_vector s i f) (frameQ s od) st.
  Proof. intros Hf. unfold System.with_vector. apply fq_with_reg. intros h st'. destruct (hlist h); [apply fq_bad|apply Hf]. Qed.
  Lemma fq_construct R s d m st : wp R (construct s d m) (frameQ s (Some d)) st.
  Proof.
    unfold construct. destruct (nregs <=? d)%nat; [apply fq_bad|]. apply fq_bind. intros [e|h] st'; [apply fq_same|apply fq_rset].
  Qed.
  Lemma fq_inplace R s d m st : wp R (inplace s d m) (frameQ s (Some d)) st.
  Proof. unfold inplace. apply fq_bind. intros [e|h] st'; [apply fq_same|apply fq_rset]. Qed.
  Lemma fq_inplace_e R s d m st : wp R (inplace_e s d m) (frameQ s (Some d)) st.
  Proof. unfold inplace_e. apply fq_bind. intros [e h] st'. apply fq_rset. Qed.

  Lemma step_frame_wp R s o st : collection_op o = true -> wp R (step s o) (frameQ s (dest o)) st.
  Proof.
    intros Hc. destruct o; cbn [collection_op] in Hc; try discriminate Hc; cbn [System.step dest];
      repeat first
        [ apply fq_construct | apply fq_inplace | apply fq_inplace_e | apply fq_same | apply fq_rset | apply fq_bad
        | apply fq_with_reg; intros ? ? | apply fq_with_list; intros ? ? | apply fq_with_vector; intros ? ?
        | apply fq_bind; intros ? ?
        | match goal with
          | |- wp _ (if ?c then _ else _) _ _ => destruct c
          | |- wp _ (match ?x with _ => _ end) _ _ => destruct x
          end ].
  Qed.

  Theorem step_regs_frame s o st r s' st' : collection_op o = true -> run (step s o) st = (Ok (r, s'), st') ->
    bslot s' = bslot s /\ length (regs s') = length (regs s) /\
    (forall i, dest o <> Some i -> nth_error (regs s') i = nth_error (regs s) i) /\
    (dest o = None -> s' = s).
  Proof.
    intros Hc Er. pose proof (wp_run _ _ _ (step_frame_wp Rexact s o st Hc)) as W. rewrite Er in W. cbn [fst snd frameQ] in W.
    destruct W as [->|(d & ho & Ed & ->)].
    - auto.
    - split; [reflexivity|]. split; [cbn [rset regs]; apply length_set_nth|]. split.
      + intros i Hi. cbn [rset regs]. apply nth_error_set_nth_neq. congruence.
      + congruence.
  Qed.

  (* C10: clone copies the handle value (the tree is shared) and touches neither the allocator nor the memo table *)
  Theorem clone_allocates_nothing s a b st :
    snd (run (step s (OClone a b)) st) = st /\
    forall r s', fst (run (step s (OClone a b)) st) = Ok (r, s') ->
      s' = s \/ exists h, rget s a = Some h /\ s' = rset s b (Some h).
  Proof.
    cbn [System.step]. destruct (nregs <=? b)%nat; [cbn; split; [reflexivity|intros r s' E; injection E as _ <-; auto]|].
    unfold System.with_reg. destruct (rget s a) as [h|]; cbn; (split; [reflexivity|]); intros r s' E; injection E as _ <-; eauto.
  Qed.
End Frame.

Section Refine.
  Context {T U : Type}.
  Variable ek : ekind T.
  Variable M : umap_impl T U.
  Variable H : digest -> digest -> digest.
  Variable capN : N.
  Variable vec_based : bool.
  Variable uinv : U -> Prop.
  Variable valid : T -> Prop.
  Hypothesis EKW : ek_wf ek.
  Hypothesis UL : umap_lawful ek M uinv.
  Hypothesis CAP : capacity_ok capN.
  Hypothesis CF : collision_free H.
  Hypothesis TRI : troot_inj ek.
  Hypothesis ECO : ek_codec_on ek valid.
  Notation tree := (tree T).
  Notation handle := (handle T U).
  Notation sys := (@sys T U).
  Notation aval := (@aval T).
  Notation sregs := (@sregs T).
  Notation res := (@res T).
  Notation op := (@op T).
  Notation hinv := (hinv ek M capN uinv).
  Notation gok := (gok ek H).
  Notation SysInv := (SysInv ek M H capN uinv).
  Notation refines := (refines ek M H capN vec_based uinv valid).
  Notation spec_ok := (spec_ok ek H capN vec_based valid).
  Notation step := (step ek M H capN vec_based).
  Notation vals_valid := (vals_valid valid).
  Notation op_valid := (op_valid ek valid).

  (* ================= one step ================= *)
  Theorem step_refines st s a o : collection_op o = true -> op_wf o -> vals_valid a -> SysInv st s a ->
    refines s a o st.
  Proof.
    intros Hc Hw Hv I. destruct (is_opB o) eqn:EB; [eapply step_refines_B; eassumption|].
    destruct o; cbn [collection_op] in Hc; try discriminate Hc; cbn [is_opB] in EB; try discriminate EB.
    - eapply refines_ONewList; eassumption.
    - eapply refines_ONewVec; eassumption.
    - eapply refines_OListSlow; eassumption.
    - eapply refines_OVecIter; eassumption.
    - eapply refines_OEmpty; eassumption.
    - eapply refines_ORepeat; eassumption.
    - eapply refines_ORepeatSlow; eassumption.
    - eapply refines_OFromElem; eassumption.
    - eapply refines_ODefaultVec; eassumption.
    - eapply refines_OSet; eassumption.
    - eapply refines_OTouch; eassumption.
    - eapply refines_OCowInto; eassumption.
    - eapply refines_OCowMake; eassumption.
    - eapply refines_OCowMake2; eassumption.
    - eapply refines_OIterCow; eassumption.
    - eapply refines_OPush; eassumption.
    - eapply refines_OBulk; eassumption.
    - eapply refines_OApply; eassumption.
    - eapply refines_OPopFront; eassumption.
    - eapply refines_OPopFrontSlow; eassumption.
    - eapply refines_OClone; eassumption.
    - eapply refines_OToVector; eassumption.
    - eapply refines_OToList; eassumption.
    - eapply refines_ODrop; eassumption.
  Qed.

  (* the same, about the sequential interpreter *)
  Theorem step_run st s a o : collection_op o = true -> op_wf o -> vals_valid a -> SysInv st s a ->
    exists r s' st' a', run (step s o) st = (Ok (r, s'), st') /\ bslot s' = bslot s /\
      spec_ok a o r a' /\ SysInv st' s' a'.
  Proof.
    intros Hc Hw Hv I. pose proof (wp_run _ _ _ (step_refines st s a o Hc Hw Hv I)) as W.
    destruct (run (step s o) st) as [out st']. cbn [fst snd] in W.
    destruct W as (r & s' & -> & Hb & a' & Hs & I'). exists r, s', st', a'. auto.
  Qed.

  (* ================= runs ================= *)
  Inductive spec_run : sregs -> list op -> list res -> sregs -> Prop :=
  | sr_nil a : spec_run a [] [] a
  | sr_cons a o r a1 os rs a2 : spec_ok a o r a1 -> spec_run a1 os rs a2 -> spec_run a (o :: os) (r :: rs) a2.

  (* the model driver: one `run (step ...)` per operation; None as soon as a step does not return Ok *)
  Fixpoint model_run (s : sys) (st : state) (os : list op) : option (list res * sys * state) :=
    match os with
    | [] => Some ([], s, st)
    | o :: os' =>
        match run (step s o) st with
        | (Ok (r, s'), st') =>
            match model_run s' st' os' with
            | Some (rs, s2, st2) => Some (r :: rs, s2, st2)
            | None => None
            end
        | _ => None
        end
    end.

  Definition op_ok (o : op) : Prop := collection_op o = true /\ op_wf o /\ op_valid o.

  Theorem run_refines_from os : forall st s a, SysInv st s a -> vals_valid a -> Forall op_ok os ->
    exists rs s' st' a', model_run s st os = Some (rs, s', st') /\ spec_run a os rs a' /\
      SysInv st' s' a' /\ vals_valid a' /\ bslot s' = bslot s.
  Proof.
    induction os as [|o os IH]; intros st s a I Hv Hok; cbn [model_run].
    - exists [], s, st, a. split; [reflexivity|]. split; [constructor|auto].
    - inversion Hok as [|o' os' (Hc & Hw & Hov) Hok']. subst o' os'.
      destruct (step_run st s a o Hc Hw Hv I) as (r & s1 & st1 & a1 & Er & Hb & Hs & I1). rewrite Er.
      pose proof (spec_ok_vals_valid ek H capN vec_based valid a o r a1 Hc Hov Hv Hs) as Hv1.
      destruct (IH st1 s1 a1 I1 Hv1 Hok') as (rs & s2 & st2 & a2 & Em & Hr & I2 & Hv2 & Hb2). rewrite Em.
      exists (r :: rs), s2, st2, a2. split; [reflexivity|]. split; [econstructor; eauto|].
      split; [exact I2|]. split; [exact Hv2|congruence].
  Qed.

  Theorem run_refines os : Forall op_ok os ->
    exists rs s' st' a', model_run init_sys init_state os = Some (rs, s', st') /\ spec_run init_sregs os rs a' /\
      SysInv st' s' a' /\ vals_valid a'.
  Proof.
    intros Hok. destruct (run_refines_from os init_state init_sys init_sregs) as (rs & s' & st' & a' & E & R & I & V & _).
    - apply SysInv_init.
    - apply vals_valid_init.
    - exact Hok.
    - exists rs, s', st', a'. auto.
  Qed.

  (* ================= C05: bounds in every reachable state ================= *)
  Theorem SysInv_bounds st s a i h : SysInv st s a -> rget s i = Some h ->
    exists l, aget a i = Some (abs_of M h l) /\ hinv h l /\ lenN l <= capN /\ (hlist h = false -> lenN l = capN) /\
              iface_len M h = lenN l /\ to_vec ek M h = Ret l.
  Proof.
    intros I E. destruct (SysInv_reg ek M H capN uinv st s a i h I E) as (l & Hi & Ea & _).
    exists l. split; [exact Ea|]. split; [exact Hi|]. pose proof Hi as (_ & _ & Hle & _ & Hv & _).
    split; [exact Hle|]. split; [intros Hl; apply (Hv Hl)|].
    split; [eapply obs_len; eauto|eapply obs_to_vec; eauto].
  Qed.

  Definition reachable (s : sys) (st : state) : Prop :=
    exists os rs, Forall op_ok os /\ model_run init_sys init_state os = Some (rs, s, st).
  Lemma reachable_inv s st : reachable s st -> exists a, SysInv st s a /\ vals_valid a.
  Proof.
    intros (os & rs & Hok & Em). destruct (run_refines os Hok) as (rs' & s' & st' & a' & Em' & _ & I & V).
    rewrite Em in Em'. injection Em' as _ <- <-. eauto.
  Qed.
  Theorem reachable_bounds s st i h : reachable s st -> rget s i = Some h ->
    exists l, hinv h l /\ lenN l <= capN /\ (hlist h = false -> lenN l = capN) /\
              iface_len M h = lenN l /\ to_vec ek M h = Ret l.
  Proof.
    intros Hr E. destruct (reachable_inv s st Hr) as (a & I & _).
    destruct (SysInv_bounds st s a i h I E) as (l & _ & R). eauto.
  Qed.

  (* ================= C15: no panic, errors leave the contents alone ================= *)
  Theorem step_safe st s a o : collection_op o = true -> op_wf o -> vals_valid a -> SysInv st s a ->
    exists r s' st' a', run (step s o) st = (Ok (r, s'), st') /\ spec_ok a o r a' /\ SysInv st' s' a' /\
      (forall e, r = RErr e -> contents a' = contents a /\ (a' = a \/ exists i n, o = OPopFront i n)).
  Proof.
    intros Hc Hw Hv I. destruct (step_run st s a o Hc Hw Hv I) as (r & s' & st' & a' & Er & _ & Hs & I').
    exists r, s', st', a'. split; [exact Er|]. split; [exact Hs|]. split; [exact I'|].
    intros e ->. eapply spec_err_frame; eauto.
  Qed.
  Corollary step_no_panic st s a o : collection_op o = true -> op_wf o -> vals_valid a -> SysInv st s a ->
    forall c, fst (run (step s o) st) <> Panic c.
  Proof.
    intros Hc Hw Hv I c. destruct (step_run st s a o Hc Hw Hv I) as (r & s' & st' & a' & Er & _). rewrite Er. discriminate.
  Qed.

  (* ================= determinism of abstract runs ================= *)
  (* the specification answers functionally at (a, o): always, except for SSZ decoding of inputs of 4 GiB or more
     and for `==` on dirty handles *)
  Definition det_at (a : sregs) (o : op) : Prop :=
    det_op o = true \/
    exists i j, o = OEq i j /\ (forall x, aget a i = Some x -> a_pend x = false) /\
                (forall y, aget a j = Some y -> a_pend y = false).
  Lemma spec_det_at a o r1 a1 r2 a2 : det_at a o -> spec_ok a o r1 a1 -> spec_ok a o r2 a2 -> r1 = r2 /\ a1 = a2.
  Proof.
    intros [Hd|(i & j & -> & Ci & Cj)]; [apply spec_det; exact Hd|apply spec_det_eq; assumption].
  Qed.
  (* an abstract run all of whose steps are taken where the specification is functional *)
  Inductive spec_run_det : sregs -> list op -> list res -> sregs -> Prop :=
  | srd_nil a : spec_run_det a [] [] a
  | srd_cons a o r a1 os rs a2 : det_at a o -> spec_ok a o r a1 -> spec_run_det a1 os rs a2 ->
      spec_run_det a (o :: os) (r :: rs) a2.
  Lemma spec_run_det_unique a os rs1 a1 : spec_run_det a os rs1 a1 ->
    forall rs2 a2, spec_run a os rs2 a2 -> rs1 = rs2 /\ a1 = a2.
  Proof.
    induction 1 as [a|a o r a1 os rs a2 Hd Hs Hr IH]; intros rs2 a2' R2; inversion R2; subst.
    - auto.
    - match goal with Hs2 : spec_ok a o ?r' ?a1' |- _ => destruct (spec_det_at a o r a1 r' a1' Hd Hs Hs2) as [<- <-] end.
      match goal with Hr2 : spec_run a1 os _ _ |- _ => destruct (IH _ _ Hr2) as [<- <-] end. auto.
  Qed.
  Lemma spec_run_det_of a os rs a' : Forall (fun o => det_op o = true) os -> spec_run a os rs a' -> spec_run_det a os rs a'.
  Proof.
    intros Hd R. induction R as [a|a o r a1 os rs a2 Hs Hr IH]; [constructor|].
    inversion Hd; subst. econstructor; [left; assumption|exact Hs|apply IH; assumption].
  Qed.
End Refine.

(* ================= C14: the update-map implementation is unobservable ================= *)
Section TwoMaps.
  Context {T U1 U2 : Type}.
  Variable ek : ekind T.
  Variable M1 : umap_impl T U1.
  Variable M2 : umap_impl T U2.
  Variable H : digest -> digest -> digest.
  Variable capN : N.
  Variable vec_based : bool.
  Variable uinv1 : U1 -> Prop.
  Variable uinv2 : U2 -> Prop.
  Variable valid : T -> Prop.
  Hypothesis EKW : ek_wf ek.
  Hypothesis UL1 : umap_lawful ek M1 uinv1.
  Hypothesis UL2 : umap_lawful ek M2 uinv2.
  Hypothesis CAP : capacity_ok capN.
  Hypothesis CF : collision_free H.
  Hypothesis TRI : troot_inj ek.
  Hypothesis ECO : ek_codec_on ek valid.
  Notation spec_run := (spec_run ek H capN vec_based valid).
  Notation spec_run_det := (spec_run_det ek H capN vec_based valid).

  (* both implementations answer every history within the same specification; wherever the specification is
     functional along (one of) the abstract runs — in particular for histories without `==` (SSZ decoding of
     inputs below 4 GiB included: its specification is deterministic), or with `==` only between clean
     handles — the answers are identical *)
  Theorem maps_unobservable os : Forall (op_ok ek valid) os ->
    exists rs1 s1 st1 a1 rs2 s2 st2 a2,
      model_run ek M1 H capN vec_based init_sys init_state os = Some (rs1, s1, st1) /\
      model_run ek M2 H capN vec_based init_sys init_state os = Some (rs2, s2, st2) /\
      spec_run init_sregs os rs1 a1 /\ spec_run init_sregs os rs2 a2 /\
      SysInv ek M1 H capN uinv1 st1 s1 a1 /\ SysInv ek M2 H capN uinv2 st2 s2 a2 /\
      (spec_run_det init_sregs os rs1 a1 -> rs1 = rs2 /\ a1 = a2) /\
      (Forall (fun o => det_op o = true) os -> rs1 = rs2 /\ a1 = a2).
  Proof.
    intros Hok.
    destruct (run_refines ek M1 H capN vec_based uinv1 valid EKW UL1 CAP CF TRI ECO os Hok) as (rs1 & s1 & st1 & a1 & E1 & R1 & I1 & _).
    destruct (run_refines ek M2 H capN vec_based uinv2 valid EKW UL2 CAP CF TRI ECO os Hok) as (rs2 & s2 & st2 & a2 & E2 & R2 & I2 & _).
    exists rs1, s1, st1, a1, rs2, s2, st2, a2. repeat (split; [assumption|]). split.
    - intros Hd. apply (spec_run_det_unique ek H capN vec_based valid _ _ _ _ Hd _ _ R2).
    - intros Hd. apply (spec_run_det_unique ek H capN vec_based valid _ _ _ _ (spec_run_det_of ek H capN vec_based valid _ _ _ _ Hd R1) _ _ R2).
  Qed.
End TwoMaps.

Print Assumptions step_refines.
Print Assumptions step_run.
Print Assumptions run_refines_from.
Print Assumptions run_refines.
Print Assumptions SysInv_bounds.
Print Assumptions reachable_bounds.
Print Assumptions step_safe.
Print Assumptions step_no_panic.
Print Assumptions spec_err_frame.
Print Assumptions step_regs_frame.
Print Assumptions clone_allocates_nothing.
Print Assumptions spec_det.
Print Assumptions spec_ssz_list_err.
Print Assumptions spec_ssz_vec_err.
Print Assumptions spec_ssz_list_iff.
Print Assumptions spec_ssz_vec_iff.
Print Assumptions spec_det_ssz_list.
Print Assumptions spec_det_ssz_vec.
Print Assumptions spec_det_eq.
Print Assumptions spec_run_det_unique.
Print Assumptions maps_unobservable.
