(* CapZeroP.v — capacity 0 is a legal type (List<T, U0> / Vector<T, U0>): closed instances.
   `capacity_ok capN` is `capN <= 2^63` (no lower bound), so every collection-level and system-level theorem
   covers N = 0, the configuration whose only value is the empty collection.  This file instantiates the master
   theorems there (u64 over VecMap, hash Hc; and every kind/map of ClosureP) and evaluates one history in the
   kernel.
     1. capacity_ok_0; list_depth/chunk_depth/cap at 0 (u64 and Hash256) by computation;
     2. run_refines_cap0 (Refine.run_refines at capN := 0, u64/VecMap/Hc), every_configuration_refines_cap0;
     3. cap0_registers_empty: in every reachable state at capacity 0 every register holds the empty collection;
     4. cap0_computed (vm_compute): [OEmpty 0; OPush 0 v; OLen 0; OHash 0; ONewVec 1 []; OHash 1] answers
        [ROk; RErr (ListFull 0); RNum 0; RHash (Hc 0 0); ROk; RHash 0], the same with list-based and vector-based
        backing; cap0_more_computed: the other constructors/observers named in docs/tasks/cap0.md;
        cap0_by_theorem: the same history through run_refines_cap0; cap0_roots: the two SSZ roots.
   Proof file; no model code. *)
From MH Require Import Inv IntraP UMapP HashP SysInv RefineBase Refine Instances BuilderSysP ClosureP.
Local Open Scope N_scope.

(* ====================================================================== *)
(* 1. the capacity                                                          *)
(* ====================================================================== *)
Lemma capacity_ok_0 : capacity_ok 0.
Proof. apply N.leb_le. vm_compute. reflexivity. Qed.

(* depth 0 on both sides (tree depth of the model = chunk depth of the SSZ specification); one leaf of
   packing-factor many values (u64: 4, Hash256: 1) is the smallest tree there is, and it stays empty *)
Example depths_cap0_u64 :
  list_depth (ek_uintW 3) 0 = 0%nat /\ chunk_depth (ek_uintW 3) 0 = 0%nat /\ chunk_count (ek_uintW 3) 0 = 0 /\
  cap (ek_uintW 3) (list_depth (ek_uintW 3) 0) = 4 /\ int_log 0 = 0%nat.
Proof. vm_compute. auto. Qed.
Example depths_cap0_h256 :
  list_depth ek_h256W 0 = 0%nat /\ chunk_depth ek_h256W 0 = 0%nat /\ chunk_count ek_h256W 0 = 0 /\
  cap ek_h256W (list_depth ek_h256W 0) = 1.
Proof. vm_compute. auto. Qed.

(* hash_tree_root of the only value: List = mix_in_length(zero chunk, 0), Vector = the zero chunk *)
Example cap0_roots :
  ssz_root (ek_uintW 3) Hc true 0 [] = Hc 0 0 /\ ssz_root (ek_uintW 3) Hc false 0 [] = 0 /\
  ssz_root ek_h256W Hc true 0 [] = Hc 0 0 /\ ssz_root ek_h256W Hc false 0 [] = 0.
Proof. vm_compute. auto. Qed.

(* ====================================================================== *)
(* 2. the master refinement theorem at capacity 0                           *)
(* ====================================================================== *)
Theorem run_refines_cap0 (vec_based : bool) (os : list (@op U64)) :
  Forall op_plain os ->
  exists rs s' st' a',
    model_run (ek_uintW 3) Mvec Hc 0 vec_based init_sys init_state os = Some (rs, s', st') /\
    spec_run (ek_uintW 3) Hc 0 vec_based (fun _ => True) init_sregs os rs a' /\
    SysInv (ek_uintW 3) Mvec Hc 0 (fun _ => True) st' s' a'.
Proof.
  intros Hok.
  destruct (run_refines (ek_uintW 3) Mvec Hc 0 vec_based (fun _ => True) (fun _ => True) ek_u64W_wf
              (vecmap_lawful (ek_uintW 3)) capacity_ok_0 Hc_collision_free (ek_uintW_troot_inj 3) (ek_uintW_codec_on 3)
              os (op_ok_plain _ os Hok))
    as (rs & s' & st' & a' & E & R & I & _).
  exists rs, s', st', a'. auto.
Qed.

(* all eleven/ten kinds of ClosureP and the three maps *)
Theorem every_configuration_refines_cap0 :
  forall (T : Type) (ek : ekind T), kind_ok T ek ->
  forall (U : Type) (M : umap_impl T U) (uinv : U -> Prop), map_ok U M uinv ->
  forall (vec_based : bool) (os : list (@op T)), Forall op_plain os ->
  exists rs s' st' a',
    model_run ek M Hc 0 vec_based init_sys init_state os = Some (rs, s', st') /\
    spec_run ek Hc 0 vec_based (fun _ => True) init_sregs os rs a' /\
    SysInv ek M Hc 0 uinv st' s' a'.
Proof.
  intros T ek K U M uinv KM vec_based os Hok.
  exact (every_configuration_refines T ek K U M uinv KM 0 vec_based os capacity_ok_0 Hok).
Qed.

(* ====================================================================== *)
(* 3. the only value is the empty collection                                *)
(* ====================================================================== *)
Theorem cap0_registers_empty (vec_based : bool) (os : list (@op U64)) rs s st i h :
  Forall op_plain os ->
  model_run (ek_uintW 3) Mvec Hc 0 vec_based init_sys init_state os = Some (rs, s, st) ->
  rget s i = Some h ->
  hinv (ek_uintW 3) Mvec 0 (fun _ => True) h [] /\ iface_len Mvec h = 0 /\ to_vec (ek_uintW 3) Mvec h = Ret [].
Proof.
  intros Hok Em Er.
  destruct (reachable_bounds (ek_uintW 3) Mvec Hc 0 vec_based (fun _ => True) (fun _ => True) ek_u64W_wf
              (vecmap_lawful (ek_uintW 3)) capacity_ok_0 Hc_collision_free (ek_uintW_troot_inj 3) (ek_uintW_codec_on 3)
              s st i h) as (l & HI & Hle & _ & Hlen & Htv).
  - exists os, rs. split; [apply op_ok_plain; exact Hok|exact Em].
  - exact Er.
  - assert (El : l = []).
    { destruct l as [|x l']; [reflexivity|]. rewrite lenN_cons in Hle. lia. }
    subst l. auto.
Qed.

(* ====================================================================== *)
(* 4. a history at capacity 0, evaluated by the kernel                      *)
(* ====================================================================== *)
(* answers are projected to plain numbers before they are compared (see the note in BuilderSysP.v) *)
Definition answers {A : Type} (x : option (list (@res U64) * A * state)) : option (list (@res N)) :=
  option_map (fun y => map (res_map (@wval _)) (fst (fst y))) x.

Definition hist0 (v : U64) : list (@op U64) :=
  [OEmpty 0; OPush 0 v; OLen 0; OHash 0; ONewVec 1 []; OHash 1].

(* List::empty ok; push -> ListFull{len: 0}; len = 0; hash_tree_root(List) = H(zero chunk, 0);
   Vector::new([]) ok; hash_tree_root(Vector) = zero chunk *)
Example cap0_computed :
  answers (model_run (ek_uintW 3) Mvec Hc 0 true init_sys init_state (hist0 (w64 7))) =
    Some [ROk; RErr (ListFull 0); RNum 0; RHash (Hc 0 0); ROk; RHash 0] /\
  answers (model_run (ek_uintW 3) Mvec Hc 0 false init_sys init_state (hist0 (w64 7))) =
    Some [ROk; RErr (ListFull 0); RNum 0; RHash (Hc 0 0); ROk; RHash 0].
Proof. vm_compute. auto. Qed.

(* the remaining views named in docs/tasks/cap0.md, and the other constructors / observers / mutators *)
Example cap0_more_computed :
  answers (model_run (ek_uintW 3) Mvec Hc 0 true init_sys init_state
    [OEmpty 0; ONewList 2 [w64 7]; ONewVec 2 [w64 7]; OSszList 3 []; OToVector 0 4; OHash 4;
     OPopFront 0 0; OPopFront 0 1; OPopFrontSlow 0 1; ODefaultVec 5; OHash 5; OFromElem 6 (w64 1);
     ORepeat 7 (w64 1) 0; ORepeat 7 (w64 1) 1; ORepeatSlow 7 (w64 1) 1; OGet 0 0; OSet 0 0 (w64 1);
     OIterFrom 0 0; OLevelIter 0 0; OIntra 0; OIntra 5; OEq 0 3; OSszEnc 0; OSszVec 3 []; OToList 5 3;
     ORebaseOn 0 3; OClone 5 6; ORebaseOn 5 6; OParHash 0 3; OBulk 0 []; OBulk 0 [(0, w64 1)]; OApply 0;
     OVecIter 1 []; OListSlow 1 []; OListSlow 1 [w64 1]]) =
  Some [ROk; RErr BuilderFull; RErr (WrongVectorLength 1 0); ROk; ROk; RHash 0;
        ROk; RErr (OutOfBoundsIterFrom 1 0); RErr (OutOfBoundsIterFrom 1 0); ROk; RHash 0; ROk;
        ROk; RErr BuilderFull; RErr BuilderFull; RVal None; RSome false;
        RIter [] [0]; RLevel []; ROk; ROk; RBool true; RBytes [] 0; ROk; ROk;
        ROk; ROk; ROk; RHash (Hc 0 0); ROk; RErr (ListFull 0); ROk;
        ROk; ROk; RErr (ListFull 0)].
Proof. vm_compute. reflexivity. Qed.

(* the same history through the theorem: it runs, follows the plain-sequence specification at capacity 0,
   and ends in a state satisfying the system invariant (for every value v, not only the evaluated one) *)
Example cap0_by_theorem (vec_based : bool) (v : U64) :
  exists rs s' st' a',
    model_run (ek_uintW 3) Mvec Hc 0 vec_based init_sys init_state (hist0 v) = Some (rs, s', st') /\
    spec_run (ek_uintW 3) Hc 0 vec_based (fun _ => True) init_sregs (hist0 v) rs a' /\
    SysInv (ek_uintW 3) Mvec Hc 0 (fun _ => True) st' s' a'.
Proof. apply run_refines_cap0. repeat constructor. Qed.

Print Assumptions capacity_ok_0.
Print Assumptions depths_cap0_u64.
Print Assumptions depths_cap0_h256.
Print Assumptions cap0_roots.
Print Assumptions run_refines_cap0.
Print Assumptions every_configuration_refines_cap0.
Print Assumptions cap0_registers_empty.
Print Assumptions cap0_computed.
Print Assumptions cap0_more_computed.
Print Assumptions cap0_by_theorem.
