(* ConcP.v — concurrency of the hash-memo protocol (rayon::join in Tree::tree_hash).
   1. interleaving semantics `astep` (atomic steps inside nested `Par`s), pools `pstep`/`psteps`,
      rely/guarantee predicate transformer `wpc` (symmetric `Par` rule), `astep_sound`,
      `any_schedule_safe`;
   2. `tree_hash_rg`: the model's `tree_hash` (packed leaves and the PSliceIndex crash branch included)
      satisfies the protocol and returns the specification hash under every schedule;
   3. `progress` (no deadlock), `schedule_length_bounded`, `tree_hash_bounded` (no infinite schedule);
   4. `conc_run_agree`: the sequential interpreter `run` is one particular schedule;
   5. confluence of the final memo table for pools of `tree_hash` threads over sharing trees. *)
From Coq Require Import FMapPositive Lia.
From MH Require Import Defs.
Local Open Scope N_scope.

(* ====================================================================================== *)
(* 1a. Interleaving semantics (independent of element kind, hash and truth)                 *)
(* ====================================================================================== *)

(* one atomic step of one thread; the scheduler picks any enabled redex inside nested Pars.
   Every lock is held for exactly one GetMemo or one SetMemo. *)
Inductive astep : forall {A}, prog A -> state -> prog A -> state -> Prop :=
| s_fresh A (k : id -> prog A) s : astep (Fresh k) s (k (next s)) (bump s)
| s_get A i (k : digest -> prog A) s : astep (GetMemo i k) s (k (mget s i)) s
| s_set A i d (k : prog A) s : astep (SetMemo i d k) s k (mset s i d)
| s_note A t (k : prog A) s : astep (Note t k) s k s
| s_parL A p p' q (k : digest -> digest -> prog A) s s' :
    astep p s p' s' -> astep (Par p q k) s (Par p' q k) s'
| s_parR A p q q' (k : digest -> digest -> prog A) s s' :
    astep q s q' s' -> astep (Par p q k) s (Par p q' k) s'
| s_join A a b (k : digest -> digest -> prog A) s : astep (Par (Ret a) (Ret b) k) s (k a b) s
| s_failL A e q (k : digest -> digest -> prog A) s : astep (Par (Fail e) q k) s (Fail e) s
| s_failR A a e (k : digest -> digest -> prog A) s : astep (Par (Ret a) (Fail e) k) s (Fail e) s
| s_crashL A c q (k : digest -> digest -> prog A) s : astep (Par (Crash c) q k) s (Crash c) s
| s_crashR A a c (k : digest -> digest -> prog A) s : astep (Par (Ret a) (Crash c) k) s (Crash c) s.

(* finite sequences of atomic steps of one thread *)
Inductive asteps {A} : prog A -> state -> prog A -> state -> Prop :=
| as_refl p s : asteps p s p s
| as_step p s p' s' p'' s'' : astep p s p' s' -> asteps p' s' p'' s'' -> asteps p s p'' s''.

(* pools of threads over one shared state *)
Definition pool := list (prog digest).
Inductive pstep : pool -> state -> pool -> state -> Prop :=
| p_here p p' rest s s' : astep p s p' s' -> pstep (p :: rest) s (p' :: rest) s'
| p_there p rest rest' s s' : pstep rest s rest' s' -> pstep (p :: rest) s (p :: rest') s'.
Inductive psteps : pool -> state -> pool -> state -> Prop :=
| ps_refl P s : psteps P s P s
| ps_step P s P' s' P'' s'' : pstep P s P' s' -> psteps P' s' P'' s'' -> psteps P s P'' s''.
(* the same, counting the steps *)
Inductive pstepsn : nat -> pool -> state -> pool -> state -> Prop :=
| psn_refl P s : pstepsn 0 P s P s
| psn_step k P s P' s' P'' s'' : pstep P s P' s' -> pstepsn k P' s' P'' s'' -> pstepsn (S k) P s P'' s''.

Lemma psteps_pstepsn P s P' s' : psteps P s P' s' <-> exists k, pstepsn k P s P' s'.
Proof.
  split.
  - induction 1 as [P s|P s P' s' P'' s'' Hs Hss [k IH]].
    + exists 0%nat. constructor.
    + exists (S k). econstructor; eauto.
  - intros [k Hk]. induction Hk as [P s|k P s P' s' P'' s'' Hs Hss IH]; econstructor; eauto.
Qed.

Definition terminal {A} (p : prog A) : Prop :=
  match p with Ret _ | Fail _ | Crash _ => True | _ => False end.
(* the terminal program carrying a given outcome *)
Definition of_outcome {A} (o : outcome A) : prog A :=
  match o with Ok a => Ret a | Err e => Fail e | Panic c => Crash c end.
Lemma terminal_of_outcome {A} (o : outcome A) : terminal (of_outcome o).
Proof. destruct o; exact I. Qed.

Lemma asteps_trans {A} (p : prog A) s p' s' p'' s'' :
  asteps p s p' s' -> asteps p' s' p'' s'' -> asteps p s p'' s''.
Proof. induction 1 as [|p s p1 s1 p2 s2 Hs Hss IH]; intros Hr; auto. econstructor; eauto. Qed.
Lemma asteps_one {A} (p : prog A) s p' s' : astep p s p' s' -> asteps p s p' s'.
Proof. intros Hs. econstructor; [exact Hs|constructor]. Qed.
Lemma asteps_parL {A} p s p' s' q (k : digest -> digest -> prog A) :
  asteps p s p' s' -> asteps (Par p q k) s (Par p' q k) s'.
Proof. induction 1 as [|p s p1 s1 p2 s2 Hs Hss IH]; [constructor|]. econstructor; [apply s_parL; exact Hs|exact IH]. Qed.
Lemma asteps_parR {A} q s q' s' p (k : digest -> digest -> prog A) :
  asteps q s q' s' -> asteps (Par p q k) s (Par p q' k) s'.
Proof. induction 1 as [|q s q1 s1 q2 s2 Hs Hss IH]; [constructor|]. econstructor; [apply s_parR; exact Hs|exact IH]. Qed.

Lemma psteps_trans P s P' s' P'' s'' : psteps P s P' s' -> psteps P' s' P'' s'' -> psteps P s P'' s''.
Proof. induction 1 as [|P s P1 s1 P2 s2 Hs Hss IH]; intros Hr; auto. econstructor; eauto. Qed.
Lemma psteps_there p P s P' s' : psteps P s P' s' -> psteps (p :: P) s (p :: P') s'.
Proof. induction 1 as [|P s P1 s1 P2 s2 Hs Hss IH]; [constructor|]. econstructor; [apply p_there; exact Hs|exact IH]. Qed.
Lemma psteps_here p s p' s' P : asteps p s p' s' -> psteps (p :: P) s (p' :: P) s'.
Proof. induction 1 as [|p s p1 s1 p2 s2 Hs Hss IH]; [constructor|]. econstructor; [apply p_here; exact Hs|exact IH]. Qed.

Lemma mget_mset s i d j : mget (mset s i d) j = if Pos.eqb j i then d else mget s j.
Proof.
  unfold mget, mset; cbn. destruct (Pos.eqb_spec j i) as [->|Hne].
  - rewrite PositiveMap.gss. reflexivity.
  - rewrite PositiveMap.gso by auto. reflexivity.
Qed.
Lemma mget_bump s j : mget (bump s) j = mget s j.
Proof. reflexivity. Qed.

(* ====================================================================================== *)
(* 4. The sequential interpreter is one particular schedule                                 *)
(* ====================================================================================== *)
Theorem conc_run_agree {A} (m : prog A) : forall s o s',
  run m s = (o, s') -> asteps m s (of_outcome o) s'.
Proof.
  induction m as [A a|A e|A c|A k IH|A i k IH|A i d k IH|A p IHp q IHq k IHk|A t k IH];
    cbn [run]; intros s o s' Hrun.
  - injection Hrun as <- <-. constructor.
  - injection Hrun as <- <-. constructor.
  - injection Hrun as <- <-. constructor.
  - econstructor; [apply s_fresh|]. apply IH. exact Hrun.
  - econstructor; [apply s_get|]. apply IH. exact Hrun.
  - econstructor; [apply s_set|]. apply IH. exact Hrun.
  - destruct (run p s) as [oa s1] eqn:Hp. specialize (IHp _ _ _ Hp).
    destruct oa as [a|e|c]; cbn [of_outcome] in IHp.
    + destruct (run q s1) as [ob s2] eqn:Hq. specialize (IHq _ _ _ Hq).
      eapply asteps_trans; [apply asteps_parL; exact IHp|].
      eapply asteps_trans; [apply asteps_parR; exact IHq|].
      destruct ob as [b|e|c]; cbn [of_outcome].
      * econstructor; [apply s_join|]. apply IHk. exact Hrun.
      * injection Hrun as <- <-. apply asteps_one. apply s_failR.
      * injection Hrun as <- <-. apply asteps_one. apply s_crashR.
    + injection Hrun as <- <-.
      eapply asteps_trans; [apply asteps_parL; exact IHp|]. apply asteps_one. apply s_failL.
    + injection Hrun as <- <-.
      eapply asteps_trans; [apply asteps_parL; exact IHp|]. apply asteps_one. apply s_crashL.
  - econstructor; [apply s_note|]. apply IH. exact Hrun.
Qed.

(* ... hence also one schedule of the singleton pool (and of any pool, run thread by thread) *)
Corollary conc_run_agree_pool (m : prog digest) s o s' rest :
  run m s = (o, s') -> psteps (m :: rest) s (of_outcome o :: rest) s'.
Proof. intros Hrun. apply psteps_here. apply conc_run_agree. exact Hrun. Qed.

(* ====================================================================================== *)
(* 3. Progress and termination                                                              *)
(* ====================================================================================== *)

(* a thread that is not finished can always take a step, whatever the state: nothing blocks *)
Lemma progress {A} (p : prog A) : forall s, terminal p \/ exists p' s', astep p s p' s'.
Proof.
  induction p as [A a|A e|A c|A k IH|A i k IH|A i d k IH|A p IHp q IHq k IHk|A t k IH]; intros s; cbn; auto.
  - right. eexists _, _. constructor.
  - right. eexists _, _. constructor.
  - right. eexists _, _. constructor.
  - right. destruct (IHp s) as [Tp|(p' & s' & Sp)].
    + destruct p; cbn in Tp; try contradiction.
      * destruct (IHq s) as [Tq|(q' & s' & Sq)].
        -- destruct q; cbn in Tq; try contradiction.
           ++ eexists _, _. apply s_join.
           ++ eexists _, _. apply s_failR.
           ++ eexists _, _. apply s_crashR.
        -- eexists _, _. apply s_parR. exact Sq.
      * eexists _, _. apply s_failL.
      * eexists _, _. apply s_crashL.
    + eexists _, _. apply s_parL. exact Sp.
  - right. eexists _, _. constructor.
Qed.

(* a pool in which some thread is unfinished can step *)
Lemma pool_progress (P : pool) s : Forall terminal P \/ exists P' s', pstep P s P' s'.
Proof.
  induction P as [|p P IH]; [left; constructor|].
  destruct (progress p s) as [Tp|(p' & s' & Sp)].
  - destruct IH as [TP|(P' & s' & SP)].
    + left. constructor; auto.
    + right. eexists _, _. apply p_there. exact SP.
  - right. eexists _, _. apply p_here. exact Sp.
Qed.

(* a step bound that does not depend on what is read or which ids are handed out; defined by
   recursion on the program so that no inversion on the indexed family is needed *)
Fixpoint bnd {A} (p : prog A) (n : nat) : Prop :=
  match p with
  | Ret _ | Fail _ | Crash _ => True
  | Fresh k => exists n', n = S n' /\ forall i, bnd (k i) n'
  | GetMemo _ k => exists n', n = S n' /\ forall d, bnd (k d) n'
  | SetMemo _ _ k => exists n', n = S n' /\ bnd k n'
  | Note _ k => exists n', n = S n' /\ bnd k n'
  | Par p q k => exists np nq nk, n = S (np + nq + nk) /\ bnd p np /\ bnd q nq /\ forall a b, bnd (k a b) nk
  end.

Lemma bnd_mono {A} (p : prog A) : forall n m, bnd p n -> (n <= m)%nat -> bnd p m.
Proof.
  induction p as [A a|A e|A c|A k IH|A i k IH|A i d k IH|A p IHp q IHq k IHk|A t k IH]; cbn; intros n m B Hm; auto.
  - destruct B as (n' & -> & B). destruct m; [lia|]. exists m. split; auto. intros j. eapply IH; eauto. lia.
  - destruct B as (n' & -> & B). destruct m; [lia|]. exists m. split; auto. intros j. eapply IH; eauto. lia.
  - destruct B as (n' & -> & B). destruct m; [lia|]. exists m. split; auto. eapply IH; eauto. lia.
  - destruct B as (np & nq & nk & -> & Bp & Bq & Bk). destruct m; [lia|].
    exists np, nq, (m - np - nq)%nat. split; [lia|]. repeat split; auto. intros a b. eapply IHk; eauto. lia.
  - destruct B as (n' & -> & B). destruct m; [lia|]. exists m. split; auto. eapply IH; eauto. lia.
Qed.

(* every atomic step strictly decreases the bound *)
Lemma astep_decreases : forall A (p p' : prog A) s s', astep p s p' s' ->
  forall n, bnd p n -> exists n', (n' < n)%nat /\ bnd p' n'.
Proof.
  induction 1 as [A k s|A i k s|A i d k s|A t k s|A p p' q k s s' Hs IH|A p q q' k s s' Hs IH
                 |A a b k s|A e q k s|A a e k s|A c q k s|A a c k s]; cbn [bnd]; intros n B.
  - destruct B as (n' & -> & B). exists n'. split; [lia|apply B].
  - destruct B as (n' & -> & B). exists n'. split; [lia|apply B].
  - destruct B as (n' & -> & B). exists n'. split; [lia|apply B].
  - destruct B as (n' & -> & B). exists n'. split; [lia|apply B].
  - destruct B as (np & nq & nk & -> & Bp & Bq & Bk). destruct (IH _ Bp) as (np' & Hlt & Bp').
    exists (S (np' + nq + nk)). split; [lia|]. exists np', nq, nk. auto.
  - destruct B as (np & nq & nk & -> & Bp & Bq & Bk). destruct (IH _ Bq) as (nq' & Hlt & Bq').
    exists (S (np + nq' + nk)). split; [lia|]. exists np, nq', nk. auto.
  - destruct B as (np & nq & nk & -> & Bp & Bq & Bk). exists nk. split; [lia|apply Bk].
  - exists 0%nat. destruct B as (np & nq & nk & -> & _). split; [lia|exact I].
  - exists 0%nat. destruct B as (np & nq & nk & -> & _). split; [lia|exact I].
  - exists 0%nat. destruct B as (np & nq & nk & -> & _). split; [lia|exact I].
  - exists 0%nat. destruct B as (np & nq & nk & -> & _). split; [lia|exact I].
Qed.

(* pools: the sum of the bounds decreases with every step of every schedule *)
Fixpoint pbnd (P : pool) (ns : list nat) : Prop :=
  match P, ns with [], [] => True | p :: P', n :: ns' => bnd p n /\ pbnd P' ns' | _, _ => False end.
Lemma pstep_decreases P s P' s' : pstep P s P' s' -> forall ns, pbnd P ns ->
  exists ns', pbnd P' ns' /\ (list_sum ns' < list_sum ns)%nat.
Proof.
  induction 1 as [p p' rest s s' Hs|p rest rest' s s' Hs IH]; intros ns B;
    destruct ns as [|n ns]; cbn in B; try contradiction; destruct B as [Bp Br].
  - destruct (astep_decreases _ _ _ _ _ Hs _ Bp) as (n' & Hlt & Bp'). exists (n' :: ns).
    split; [cbn; auto|]. cbn [list_sum fold_right]. apply Nat.add_lt_mono_r. exact Hlt.
  - destruct (IH _ Br) as (ns' & Br' & Hlt). exists (n :: ns').
    split; [cbn; auto|]. cbn [list_sum fold_right]. apply Nat.add_lt_mono_l. exact Hlt.
Qed.
(* a schedule of length k needs total bound >= k: no infinite schedules *)
Theorem schedule_length_bounded k P s P' s' : pstepsn k P s P' s' ->
  forall ns, pbnd P ns -> (k <= list_sum ns)%nat.
Proof.
  induction 1 as [P s|k P s P' s' P'' s'' Hs Hss IH]; intros ns B; [lia|].
  destruct (pstep_decreases _ _ _ _ Hs _ B) as (ns' & B' & Hlt). specialize (IH _ B'). lia.
Qed.

(* ... and every pool with a bound can be run to completion from any state (by any scheduler that
   keeps picking enabled threads): together with `progress` this is deadlock freedom *)
Theorem pool_terminates : forall ns P s, pbnd P ns ->
  exists P' s', psteps P s P' s' /\ Forall terminal P'.
Proof.
  intros ns. remember (list_sum ns) as n eqn:En. assert (Hle : (list_sum ns <= n)%nat) by lia. clear En.
  revert ns Hle. induction n as [|n IH]; intros ns Hle P s B.
  - destruct (pool_progress P s) as [TP|(P' & s' & SP)].
    + exists P, s. split; [constructor|exact TP].
    + destruct (pstep_decreases _ _ _ _ SP _ B) as (ns' & _ & Hlt). lia.
  - destruct (pool_progress P s) as [TP|(P' & s' & SP)].
    + exists P, s. split; [constructor|exact TP].
    + destruct (pstep_decreases _ _ _ _ SP _ B) as (ns' & B' & Hlt).
      destruct (IH ns') with (P := P') (s := s') as (P'' & s'' & Hps & HT); [lia|exact B'|].
      exists P'', s''. split; [econstructor; eassumption|exact HT].
Qed.

(* ====================================================================================== *)
(* 1b. Rely/guarantee predicate transformer                                                 *)
(* ====================================================================================== *)
Section Conc.
  Context {T : Type}.
  Variable ek : ekind T.
  Variable H : digest -> digest -> digest.
  Variable truth : id -> digest.
  Notation tree := (tree T).

  (* rely: a memo read returns nothing (0) or the truth; guarantee: only the truth is written *)
  Definition Rr (i : id) (d : digest) : Prop := d = 0 \/ d = truth i.
  Definition Gw (i : id) (d : digest) : Prop := d = truth i.

  (* state independent; the Par rule is symmetric in the two threads *)
  Fixpoint wpc {A} (m : prog A) (Q : outcome A -> Prop) : Prop :=
    match m with
    | Ret a => Q (Ok a) | Fail e => Q (Err e) | Crash c => Q (Panic c)
    | Fresh k => forall i, wpc (k i) Q
    | GetMemo i k => forall d, Rr i d -> wpc (k d) Q
    | SetMemo i d k => Gw i d /\ wpc k Q
    | Par p q k => exists Qp Qq, wpc p Qp /\ wpc q Qq /\
          (forall e, Qp (Err e) -> Q (Err e)) /\ (forall c, Qp (Panic c) -> Q (Panic c)) /\
          (forall a, Qp (Ok a) -> forall ob, Qq ob ->
             match ob with Ok b => wpc (k a b) Q | Err e => Q (Err e) | Panic c => Q (Panic c) end)
    | Note _ k => wpc k Q
    end.

  Lemma wpc_mono {A} (m : prog A) : forall (Q Q' : outcome A -> Prop),
    (forall o, Q o -> Q' o) -> wpc m Q -> wpc m Q'.
  Proof.
    induction m as [A a|A e|A c|A k IH|A i k IH|A i d k IH|A p IHp q IHq k IHk|A t k IH];
      cbn [wpc]; intros Q Q' HQ W; auto.
    - intros i. eapply IH; eauto.
    - intros d Hd. eapply IH; eauto.
    - destruct W as [G W]. split; auto. eapply IH; eauto.
    - destruct W as (Qp & Qq & Wp & Wq & JE & JP & J). exists Qp, Qq. repeat split; auto.
      intros a Ha ob Hb. specialize (J a Ha ob Hb). destruct ob as [b|e|c]; auto. eapply IHk; eauto.
    - eapply IH; eauto.
  Qed.

  (* the shared-state invariant: every memo is absent or true *)
  Definition memo_ok (s : state) : Prop := forall i, mget s i = 0 \/ mget s i = truth i.

  Lemma astep_sound : forall A (p p' : prog A) s s', astep p s p' s' ->
    forall Q, memo_ok s -> wpc p Q -> memo_ok s' /\ wpc p' Q.
  Proof.
    induction 1 as [A k s|A i k s|A i d k s|A t k s|A p p' q k s s' Hs IH|A p q q' k s s' Hs IH
                   |A a b k s|A e q k s|A a e k s|A c q k s|A a c k s]; cbn [wpc]; intros Q M W.
    - split; auto.
    - split; auto. apply W. apply M.
    - destruct W as [G W]. split; auto. intros j. rewrite mget_mset.
      destruct (Pos.eqb_spec j i) as [->|Hne]; auto.
    - split; auto.
    - destruct W as (Qp & Qq & Wp & Wq & J). destruct (IH _ M Wp) as [M' Wp']. split; auto. exists Qp, Qq; auto.
    - destruct W as (Qp & Qq & Wp & Wq & J). destruct (IH _ M Wq) as [M' Wq']. split; auto. exists Qp, Qq; auto.
    - destruct W as (Qp & Qq & Wp & Wq & JE & JP & J). split; auto. apply (J a Wp (Ok b) Wq).
    - destruct W as (Qp & Qq & Wp & Wq & JE & JP & J). split; auto.
    - destruct W as (Qp & Qq & Wp & Wq & JE & JP & J). split; auto. apply (J a Wp (Err e) Wq).
    - destruct W as (Qp & Qq & Wp & Wq & JE & JP & J). split; auto.
    - destruct W as (Qp & Qq & Wp & Wq & JE & JP & J). split; auto. apply (J a Wp (Panic c) Wq).
  Qed.

  Lemma asteps_sound {A} (p p' : prog A) s s' : asteps p s p' s' ->
    forall Q, memo_ok s -> wpc p Q -> memo_ok s' /\ wpc p' Q.
  Proof.
    induction 1 as [|p s p1 s1 p2 s2 Hs Hss IH]; intros Q M W; auto.
    destruct (astep_sound _ _ _ _ _ Hs _ M W). eauto.
  Qed.

  (* interference: another thread's step never invalidates wpc (it is state independent) *)
  Definition pool_ok (P : pool) (Qs : list (outcome digest -> Prop)) : Prop :=
    Forall2 (fun p Q => wpc p Q) P Qs.

  Lemma pstep_sound P s P' s' : pstep P s P' s' ->
    forall Qs, memo_ok s -> pool_ok P Qs -> memo_ok s' /\ pool_ok P' Qs.
  Proof.
    induction 1 as [p p' rest s s' Hs|p rest rest' s s' Hs IH]; intros Qs M OK; inversion OK; subst.
    - match goal with Hw : wpc p _ |- _ => destruct (astep_sound _ _ _ _ _ Hs _ M Hw) end.
      split; auto. constructor; auto.
    - match goal with Hr : Forall2 _ rest _ |- _ => destruct (IH _ M Hr) end.
      split; auto. constructor; auto.
  Qed.

  Theorem any_schedule_safe P s P' s' : psteps P s P' s' ->
    forall Qs, memo_ok s -> pool_ok P Qs -> memo_ok s' /\ pool_ok P' Qs.
  Proof.
    induction 1 as [|P s P1 s1 P2 s2 Hs Hss IH]; intros Qs M OK; auto.
    destruct (pstep_sound _ _ _ _ Hs _ M OK). eauto.
  Qed.

  (* what safety means for a finished thread: its outcome satisfies its postcondition *)
  Lemma wpc_terminal {A} (o : outcome A) Q : wpc (of_outcome o) Q <-> Q o.
  Proof. destruct o; cbn; tauto. Qed.

  (* ==================================================================================== *)
  (* 2. The memo protocol of Tree::tree_hash / PackedLeaf::tree_hash                        *)
  (* ==================================================================================== *)
  Theorem tree_hash_rg (t : tree) :
    (forall u, subt u t -> has_memo u = true -> truth (idof u) = hash_spec ek H u) ->
    (forall i vs, subt (Packed i vs) t -> lenN vs <= pf_of ek) ->
    wpc (tree_hash ek H t) (fun o => o = Ok (hash_spec ek H t)).
  Proof.
    induction t as [i v|i vs|i l IHl r IHr|i d]; intros TR PK;
      try (pose proof (TR _ (or_introl eq_refl) eq_refl) as X; cbn [idof hash_spec shape shash] in X);
      cbn [tree_hash wpc hash_spec shape shash].
    - intros e [E|E]; subst e.
      + cbn [N.eqb negb wpc]. split; [unfold Gw; congruence|reflexivity].
      + rewrite X. destruct (etroot ek v =? 0) eqn:Z; cbn [negb wpc].
        * split; [unfold Gw; congruence|reflexivity].
        * reflexivity.
    - assert (Hlen : (pf_of ek <? lenN vs) = false).
      { apply N.ltb_ge. apply (PK i vs). left. reflexivity. }
      intros e [E|E]; subst e.
      + cbn [N.eqb negb]. rewrite Hlen. cbn [wpc]. split; [unfold Gw; congruence|reflexivity].
      + rewrite X. destruct (chunk_of ek vs =? 0) eqn:Z; cbn [negb].
        * rewrite Hlen. cbn [wpc]. split; [unfold Gw; congruence|reflexivity].
        * reflexivity.
    - assert (Hl : wpc (tree_hash ek H l) (fun o => o = Ok (hash_spec ek H l))).
      { apply IHl; [intros u Hu; apply TR|intros j ws Hu; apply (PK j ws)]; cbn [subt]; auto. }
      assert (Hr : wpc (tree_hash ek H r) (fun o => o = Ok (hash_spec ek H r))).
      { apply IHr; [intros u Hu; apply TR|intros j ws Hu; apply (PK j ws)]; cbn [subt]; auto. }
      unfold hash_spec in Hl, Hr.
      assert (Hpar : wpc (Par (tree_hash ek H l) (tree_hash ek H r) (fun a b => SetMemo i (H a b) (Ret (H a b))))
                         (fun o => o = Ok (H (shash ek H (shape l)) (shash ek H (shape r))))).
      { cbn [wpc]. exists (fun o => o = Ok (shash ek H (shape l))), (fun o => o = Ok (shash ek H (shape r))).
        repeat split; auto; try discriminate.
        intros a Ha ob Hb. injection Ha as ->. subst ob. cbn [wpc]. split; [unfold Gw; congruence|reflexivity]. }
      intros e [E|E]; subst e.
      + cbn [N.eqb negb]. exact Hpar.
      + rewrite X. destruct (H (shash ek H (shape l)) (shash ek H (shape r)) =? 0) eqn:Z; cbn [negb wpc];
          [exact Hpar|reflexivity].
    - reflexivity.
  Qed.

  (* ---------- three atomic steps per node ---------- *)
  Fixpoint size (t : tree) : nat := match t with Node _ l r => S (size l + size r) | _ => 1%nat end.
  Lemma size_nodes (t : tree) : size t = length (nodes t).
  Proof.
    induction t as [i v|i vs|i l IHl r IHr|i d]; cbn [size nodes length]; auto.
    rewrite app_length. congruence.
  Qed.

  Theorem tree_hash_bounded (t : tree) : bnd (tree_hash ek H t) (3 * size t).
  Proof.
    induction t as [i v|i vs|i l IHl r IHr|i d]; cbn [tree_hash bnd size].
    - exists 2%nat. split; [lia|]. intros e. destruct (negb (e =? 0)); cbn [bnd]; auto. exists 1%nat. cbn [bnd]. auto.
    - exists 2%nat. split; [lia|]. intros e. destruct (negb (e =? 0)); cbn [bnd]; auto.
      destruct (pf_of ek <? lenN vs); cbn [bnd]; auto. exists 1%nat. cbn [bnd]. auto.
    - exists (3 * size l + 3 * size r + 2)%nat. split; [lia|]. intros e. destruct (negb (e =? 0)); cbn [bnd]; auto.
      exists (3 * size l)%nat, (3 * size r)%nat, 1%nat. split; [lia|]. repeat split; auto.
      intros a b. cbn [bnd]. exists 0%nat. cbn [bnd]. auto.
    - exact I.
  Qed.

  (* a pool of hashing threads: every schedule has at most 3 * (total number of nodes) steps *)
  Lemma pool_bounded (ts : list tree) :
    pbnd (map (tree_hash ek H) ts) (map (fun t => (3 * size t)%nat) ts).
  Proof. induction ts as [|t ts IH]; cbn [map pbnd]; auto. split; [apply tree_hash_bounded|exact IH]. Qed.

  Corollary tree_hash_pool_bounded (ts : list tree) k s P' s' :
    pstepsn k (map (tree_hash ek H) ts) s P' s' ->
    (k <= 3 * length (flat_map nodes ts))%nat.
  Proof.
    intros Hk. pose proof (schedule_length_bounded _ _ _ _ _ Hk _ (pool_bounded ts)) as Hb.
    assert (Hsum : list_sum (map (fun t => (3 * size t)%nat) ts) = (3 * length (flat_map nodes ts))%nat).
    { clear. induction ts as [|t ts IH]; [reflexivity|].
      cbn [map list_sum fold_right flat_map]. fold (list_sum (map (fun t => (3 * size t)%nat) ts)).
      rewrite IH, app_length, size_nodes. lia. }
    lia.
  Qed.

End Conc.


(* ====================================================================================== *)
(* 5a. A state-dependent rely/guarantee logic (generic in the invariant and the rely)       *)
(* ====================================================================================== *)
(* `wps m Q s`: the thread m, started in any state reachable from s by interference (`rely`) in
   which the global invariant holds, only takes steps that re-establish the invariant and stay
   inside `rely`, and if it terminates then Q holds of its outcome in every later state
   (postconditions are stable by construction). `Par` is symmetric. *)
Section RG.
  Variable Inv : state -> Prop.
  Variable rely : state -> state -> Prop.
  Hypothesis rely_refl : forall s, rely s s.
  Hypothesis rely_trans : forall a b c, rely a b -> rely b c -> rely a c.

  Definition stab (P : state -> Prop) (s : state) : Prop := forall s', rely s s' -> Inv s' -> P s'.

  Fixpoint wps {A} (m : prog A) (Q : outcome A -> state -> Prop) (s : state) : Prop :=
    match m with
    | Ret a => stab (Q (Ok a)) s | Fail e => stab (Q (Err e)) s | Crash c => stab (Q (Panic c)) s
    | Fresh k => stab (fun s' => Inv (bump s') /\ rely s' (bump s') /\ wps (k (next s')) Q (bump s')) s
    | GetMemo i k => stab (fun s' => wps (k (mget s' i)) Q s') s
    | SetMemo i d k => stab (fun s' => Inv (mset s' i d) /\ rely s' (mset s' i d) /\ wps k Q (mset s' i d)) s
    | Note _ k => wps k Q s
    | Par p q k => exists Qp Qq, wps p Qp s /\ wps q Qq s /\
        stab (fun s1 => forall oa, stab (Qp oa) s1 ->
                match oa with
                | Ok a => forall ob, stab (Qq ob) s1 ->
                    match ob with
                    | Ok b => wps (k a b) Q s1
                    | Err e => stab (Q (Err e)) s1 | Panic c => stab (Q (Panic c)) s1
                    end
                | Err e => stab (Q (Err e)) s1 | Panic c => stab (Q (Panic c)) s1
                end) s
    end.

  Lemma stab_stable P s s' : rely s s' -> stab P s -> stab P s'.
  Proof. intros Hr Hs s'' Hr' Hi. apply Hs; eauto. Qed.
  Lemma stab_here P s : Inv s -> stab P s -> P s.
  Proof. intros Hi Hs. apply Hs; auto. Qed.

  Lemma wps_stable {A} (m : prog A) : forall Q s s', rely s s' -> wps m Q s -> wps m Q s'.
  Proof.
    induction m as [A a|A e|A c|A k IH|A i k IH|A i d k IH|A p IHp q IHq k IHk|A t k IH];
      cbn [wps]; intros Q s s' Hr W; try (eapply stab_stable; eassumption).
    - destruct W as (Qp & Qq & Wp & Wq & J). exists Qp, Qq. repeat split; eauto.
      eapply stab_stable; eassumption.
    - eauto.
  Qed.

  Lemma wps_terminal {A} (o : outcome A) Q s : Inv s -> wps (of_outcome o) Q s -> Q o s.
  Proof. destruct o; cbn [of_outcome wps]; intros Hi W; apply (stab_here _ _ Hi W). Qed.
  Lemma terminal_inv {A} (p : prog A) : terminal p -> exists o, p = of_outcome o.
  Proof.
    destruct p; cbn; intros Ht; try contradiction;
      [exists (Ok a)|exists (Err e)|exists (Panic s)]; reflexivity.
  Qed.

  Lemma wps_sound : forall A (p p' : prog A) s s', astep p s p' s' ->
    forall Q, Inv s -> wps p Q s -> Inv s' /\ rely s s' /\ wps p' Q s'.
  Proof.
    induction 1 as [A k s|A i k s|A i d k s|A t k s|A p p' q k s s' Hs IH|A p q q' k s s' Hs IH
                   |A a b k s|A e q k s|A a e k s|A c q k s|A a c k s]; cbn [wps]; intros Q Hi W.
    - apply (stab_here _ _ Hi W).
    - split; [exact Hi|split; [apply rely_refl|]]. apply (stab_here _ _ Hi W).
    - apply (stab_here _ _ Hi W).
    - auto.
    - destruct W as (Qp & Qq & Wp & Wq & J). destruct (IH _ Hi Wp) as (Hi' & Hr & Wp').
      split; [exact Hi'|split; [exact Hr|]]. exists Qp, Qq. repeat split; auto.
      + eapply wps_stable; eassumption.
      + eapply stab_stable; eassumption.
    - destruct W as (Qp & Qq & Wp & Wq & J). destruct (IH _ Hi Wq) as (Hi' & Hr & Wq').
      split; [exact Hi'|split; [exact Hr|]]. exists Qp, Qq. repeat split; auto.
      + eapply wps_stable; eassumption.
      + eapply stab_stable; eassumption.
    - destruct W as (Qp & Qq & Wp & Wq & J). split; [exact Hi|split; [apply rely_refl|]].
      cbn [wps] in Wp, Wq. exact (stab_here _ _ Hi J (Ok a) Wp (Ok b) Wq).
    - destruct W as (Qp & Qq & Wp & Wq & J). split; [exact Hi|split; [apply rely_refl|]].
      cbn [wps] in Wp. exact (stab_here _ _ Hi J (Err e) Wp).
    - destruct W as (Qp & Qq & Wp & Wq & J). split; [exact Hi|split; [apply rely_refl|]].
      cbn [wps] in Wp, Wq. exact (stab_here _ _ Hi J (Ok a) Wp (Err e) Wq).
    - destruct W as (Qp & Qq & Wp & Wq & J). split; [exact Hi|split; [apply rely_refl|]].
      cbn [wps] in Wp. exact (stab_here _ _ Hi J (Panic c) Wp).
    - destruct W as (Qp & Qq & Wp & Wq & J). split; [exact Hi|split; [apply rely_refl|]].
      cbn [wps] in Wp, Wq. exact (stab_here _ _ Hi J (Ok a) Wp (Panic c) Wq).
  Qed.

  Definition pool_oks (P : pool) (Qs : list (outcome digest -> state -> Prop)) (s : state) : Prop :=
    Forall2 (fun p Q => wps p Q s) P Qs.

  Lemma pool_oks_stable P Qs s s' : rely s s' -> pool_oks P Qs s -> pool_oks P Qs s'.
  Proof. intros Hr. induction 1; constructor; auto. eapply wps_stable; eassumption. Qed.

  Lemma pstep_sounds P s P' s' : pstep P s P' s' ->
    forall Qs, Inv s -> pool_oks P Qs s -> Inv s' /\ rely s s' /\ pool_oks P' Qs s'.
  Proof.
    induction 1 as [p p' rest s s' Hs|p rest rest' s s' Hs IH]; intros Qs Hi OK; inversion OK; subst.
    - match goal with Hw : wps p _ _ |- _ => destruct (wps_sound _ _ _ _ _ Hs _ Hi Hw) as (Hi' & Hr & Hw') end.
      split; [exact Hi'|split; [exact Hr|]]. constructor; auto.
      eapply pool_oks_stable; eassumption.
    - match goal with Hr : Forall2 _ rest _ |- _ => destruct (IH _ Hi Hr) as (Hi' & Hr' & OK') end.
      split; [exact Hi'|split; [exact Hr'|]]. constructor; auto.
      eapply wps_stable; eassumption.
  Qed.

  Theorem any_schedule_safes P s P' s' : psteps P s P' s' ->
    forall Qs, Inv s -> pool_oks P Qs s -> Inv s' /\ rely s s' /\ pool_oks P' Qs s'.
  Proof.
    induction 1 as [|P s P1 s1 P2 s2 Hs Hss IH]; intros Qs Hi OK; auto.
    destruct (pstep_sounds _ _ _ _ Hs _ Hi OK) as (Hi1 & Hr1 & OK1).
    destruct (IH _ Hi1 OK1) as (Hi2 & Hr2 & OK2). eauto.
  Qed.
End RG.


(* ====================================================================================== *)
(* 5b. Confluence of the memo table for pools of tree_hash threads                          *)
(* ====================================================================================== *)
(* identities name memo-carrying nodes (weaker than `idf`: Zero nodes, which carry no memo, are
   unconstrained) *)
Definition idf_memo {T} (ts : list (tree T)) : Prop :=
  forall t1 t2 u v, In t1 ts -> In t2 ts -> subt u t1 -> subt v t2 ->
    has_memo u = true -> has_memo v = true -> idof u = idof v -> u = v.
Lemma idf_idf_memo {T} (ts : list (tree T)) : idf ts -> idf_memo ts.
Proof. intros HI t1 t2 u v H1 H2 Hu Hv _ _ E. exact (HI t1 t2 u v H1 H2 Hu Hv E). Qed.

Section Confluence.
  Context {T : Type}.
  Variable ek : ekind T.
  Variable H : digest -> digest -> digest.
  Variable truth : id -> digest.
  Notation tree := (tree T).
  Variable ts : list tree.       (* the roots hashed concurrently; sharing allowed *)
  Variable s0 : state.           (* the state in which the pool is started *)

  (* the universe of nodes *)
  Definition inU (u : tree) : Prop := exists t, In t ts /\ subt u t.

  Hypothesis truth_ok : forall u, inU u -> has_memo u = true -> truth (idof u) = hash_spec ek H u.
  Hypothesis valid0 : forall t, In t ts -> mvalid ek H s0 t.
  Hypothesis IDF : idf_memo ts.
  Hypothesis PK : forall i vs, inU (Packed i vs) -> lenN vs <= pf_of ek.

  (* j is (the id of) a node reachable from u through nodes that carry no memo in s0, u included *)
  Fixpoint need (u : tree) (j : id) : Prop :=
    has_memo u = true /\ mget s0 (idof u) = 0 /\
    (j = idof u \/ match u with Node _ l r => need l j \/ need r j | _ => False end).
  Definition needed (j : id) : Prop := exists t, In t ts /\ need t j.
  Definition done (s : state) (u : tree) : Prop := forall j, need u j -> mget s j = truth j.

  Definition relyT (s s' : state) : Prop :=
    next s' = next s /\ forall i, mget s' i = mget s i \/ mget s' i = truth i.
  Definition InvT (s : state) : Prop :=
    next s = next s0 /\
    (forall i, mget s i = mget s0 i \/ (mget s i = truth i /\ needed i)) /\
    (forall u, inU u -> has_memo u = true -> mget s0 (idof u) = 0 -> mget s (idof u) <> 0 -> done s u).

  Lemma relyT_refl s : relyT s s.
  Proof. split; auto. Qed.
  Lemma relyT_trans a b c : relyT a b -> relyT b c -> relyT a c.
  Proof.
    intros [Hn1 H1] [Hn2 H2]. split; [congruence|]. intros i.
    destruct (H2 i) as [E2|E2]; [|auto]. rewrite E2. apply H1.
  Qed.
  Lemma done_stable s s' u : relyT s s' -> done s u -> done s' u.
  Proof. intros [_ Hr] Hd j Hj. destruct (Hr j) as [E|E]; [rewrite E|]; auto. Qed.

  Lemma inU_sub u v : inU u -> subt v u -> inU v.
  Proof.
    intros (t & Ht & Hu) Hv. exists t. split; [exact Ht|].
    revert Hu. clear - Hv. revert u v Hv.
    induction t as [i w|i ws|i l IHl r IHr|i d]; intros u v Hv [->|Hu]; auto; cbn [subt] in Hu |- *;
      try contradiction.
    right. destruct Hu as [Hu|Hu]; [left; eapply IHl|right; eapply IHr]; eauto.
  Qed.
  Lemma inU_l i l r : inU (Node i l r) -> inU l.
  Proof. intros Hu. apply (inU_sub _ _ Hu). cbn [subt]. right. left. destruct l; left; reflexivity. Qed.
  Lemma inU_r i l r : inU (Node i l r) -> inU r.
  Proof. intros Hu. apply (inU_sub _ _ Hu). cbn [subt]. right. right. destruct r; left; reflexivity. Qed.
  Lemma inU_id u v : inU u -> inU v -> has_memo u = true -> has_memo v = true -> idof u = idof v -> u = v.
  Proof. intros (t1 & Ht1 & Hu) (t2 & Ht2 & Hv) Mu Mv E. exact (IDF t1 t2 u v Ht1 Ht2 Hu Hv Mu Mv E). Qed.

  Lemma memo0 u : inU u -> has_memo u = true ->
    mget s0 (idof u) = 0 \/ mget s0 (idof u) = truth (idof u).
  Proof.
    intros HU Hm. destruct HU as (t & Ht & Hu).
    destruct (valid0 t Ht u Hu Hm) as [E|E]; [left; exact E|right].
    rewrite E. symmetry. apply truth_ok; [exists t; auto|exact Hm].
  Qed.

  Lemma InvT_s0 : InvT s0.
  Proof. split; [reflexivity|split; [auto|]]. intros u _ _ E N. contradiction. Qed.

  (* reading a non-zero memo: it is the hash, and everything below has been (and stays) recorded *)
  Lemma read_nonzero s u : InvT s -> inU u -> has_memo u = true -> mget s (idof u) <> 0 ->
    mget s (idof u) = hash_spec ek H u /\ stab InvT relyT (fun s' => done s' u) s.
  Proof.
    intros (_ & I1 & I2) HU Hm Hnz. split.
    - rewrite <- (truth_ok u HU Hm). destruct (I1 (idof u)) as [E|[E _]]; [|exact E].
      destruct (memo0 u HU Hm) as [E0|E0]; congruence.
    - intros s' [_ Hr] (_ & I1' & I2').
      destruct (N.eq_dec (mget s0 (idof u)) 0) as [Z|NZ].
      + apply I2'; auto. destruct (Hr (idof u)) as [E|E]; [congruence|].
        rewrite E. destruct (I1 (idof u)) as [E1|[E1 _]]; congruence.
      + intros j Hj. destruct u; cbn [need idof] in Hj, NZ; destruct Hj as (_ & Z & _); contradiction.
  Qed.
  (* reading zero: the memo was absent initially *)
  Lemma read_zero s u : InvT s -> inU u -> has_memo u = true -> mget s (idof u) = 0 ->
    mget s0 (idof u) = 0.
  Proof.
    intros (_ & I1 & _) HU Hm Z. destruct (memo0 u HU Hm) as [E0|E0]; [exact E0|].
    destruct (I1 (idof u)) as [E|[E _]]; congruence.
  Qed.

  (* recording the hash of u once everything strictly below has been recorded *)
  Lemma write_ok s u : InvT s -> inU u -> has_memo u = true -> mget s0 (idof u) = 0 ->
    (forall j, need u j -> needed j) ->
    (forall j, need u j -> j = idof u \/ mget s j = truth j) ->
    let s' := mset s (idof u) (truth (idof u)) in
    InvT s' /\ relyT s s' /\ done s' u.
  Proof.
    intros (I0 & I1 & I2) HU Hm Z Hsub Hbelow s'.
    assert (Hr : relyT s s').
    { split; [reflexivity|]. intros j. unfold s'. rewrite mget_mset.
      destruct (Pos.eqb_spec j (idof u)) as [->|Hne]; auto. }
    assert (Hd : done s' u).
    { intros j Hj. unfold s'. rewrite mget_mset.
      destruct (Pos.eqb_spec j (idof u)) as [->|Hne]; [reflexivity|].
      destruct (Hbelow j Hj) as [E|E]; [contradiction|exact E]. }
    split; [|split; [exact Hr|exact Hd]].
    split; [exact I0|split].
    - intros j. unfold s'. rewrite mget_mset. destruct (Pos.eqb_spec j (idof u)) as [->|Hne]; [|apply I1].
      right. split; [reflexivity|]. apply Hsub. destruct u; cbn [need idof has_memo] in *; auto; discriminate.
    - intros v HV Hmv Zv Hnz.
      destruct (Pos.eqb_spec (idof v) (idof u)) as [E|Hne].
      + rewrite (inU_id v u HV HU Hmv Hm E). exact Hd.
      + apply (done_stable s s' v Hr). apply I2; auto.
        unfold s' in Hnz. rewrite mget_mset in Hnz.
        destruct (Pos.eqb_spec (idof v) (idof u)); [contradiction|exact Hnz].
  Qed.

  Definition postT (u : tree) (o : outcome digest) (s : state) : Prop :=
    o = Ok (hash_spec ek H u) /\ done s u.

  Lemma stab_post_ret s u e :
    e = hash_spec ek H u -> stab InvT relyT (fun s' => done s' u) s ->
    stab InvT relyT (postT u (Ok e)) s.
  Proof. intros -> Hs s' Hr Hi. split; [reflexivity|apply Hs; auto]. Qed.

  Lemma tree_hash_wps (u : tree) : inU u -> (forall j, need u j -> needed j) ->
    forall s, wps InvT relyT (tree_hash ek H u) (postT u) s.
  Proof.
    induction u as [i v|i vs|i l IHl r IHr|i d]; intros HU Hsub s; cbn [tree_hash wps].
    - (* Leaf *)
      intros s1 _ Hi1. set (u := Leaf i v) in *.
      destruct (N.eqb_spec (mget s1 i) 0) as [Z|NZ]; cbn [negb wps].
      + pose proof (read_zero s1 u Hi1 HU eq_refl Z) as Z0.
        intros s2 _ Hi2.
        assert (Ht : etroot ek v = truth i) by (symmetry; apply (truth_ok u HU eq_refl)).
        rewrite Ht.
        destruct (write_ok s2 u Hi2 HU eq_refl Z0 Hsub) as (Hi3 & Hr3 & Hd3).
        { intros j (_ & _ & [E|[]]). left. exact E. }
        split; [exact Hi3|split; [exact Hr3|]].
        apply stab_post_ret; [rewrite <- Ht; reflexivity|].
        intros s4 Hr4 _. eapply done_stable; eassumption.
      + destruct (read_nonzero s1 u Hi1 HU eq_refl NZ) as [E Hst].
        apply stab_post_ret; assumption.
    - (* Packed *)
      intros s1 _ Hi1. set (u := Packed i vs) in *.
      assert (Hlen : (pf_of ek <? lenN vs) = false) by (apply N.ltb_ge; apply (PK i vs HU)).
      destruct (N.eqb_spec (mget s1 i) 0) as [Z|NZ]; cbn [negb].
      + rewrite Hlen. cbn [wps].
        pose proof (read_zero s1 u Hi1 HU eq_refl Z) as Z0.
        intros s2 _ Hi2.
        assert (Ht : chunk_of ek vs = truth i) by (symmetry; apply (truth_ok u HU eq_refl)).
        rewrite Ht.
        destruct (write_ok s2 u Hi2 HU eq_refl Z0 Hsub) as (Hi3 & Hr3 & Hd3).
        { intros j (_ & _ & [E|[]]). left. exact E. }
        split; [exact Hi3|split; [exact Hr3|]].
        apply stab_post_ret; [rewrite <- Ht; reflexivity|].
        intros s4 Hr4 _. eapply done_stable; eassumption.
      + cbn [wps]. destruct (read_nonzero s1 u Hi1 HU eq_refl NZ) as [E Hst].
        apply stab_post_ret; assumption.
    - (* Node *)
      intros s1 _ Hi1. set (u := Node i l r) in *.
      destruct (N.eqb_spec (mget s1 i) 0) as [Z|NZ]; cbn [negb wps].
      + pose proof (read_zero s1 u Hi1 HU eq_refl Z) as Z0.
        assert (Hsl : forall j, need l j -> needed j).
        { intros j Hj. apply Hsub. unfold u. cbn [need has_memo idof]. auto. }
        assert (Hsr : forall j, need r j -> needed j).
        { intros j Hj. apply Hsub. unfold u. cbn [need has_memo idof]. auto. }
        exists (postT l), (postT r).
        split; [apply IHl; [exact (inU_l _ _ _ HU)|exact Hsl]|].
        split; [apply IHr; [exact (inU_r _ _ _ HU)|exact Hsr]|].
        intros s2 _ Hi2 oa Ha. pose proof (stab_here InvT relyT relyT_refl _ s2 Hi2 Ha) as [Ea _].
        subst oa. intros ob Hb. pose proof (stab_here InvT relyT relyT_refl _ s2 Hi2 Hb) as [Eb _].
        subst ob. cbn [wps]. intros s3 Hr3 Hi3.
        assert (Ht : H (hash_spec ek H l) (hash_spec ek H r) = truth i)
          by (symmetry; apply (truth_ok u HU eq_refl)).
        rewrite Ht.
        destruct (Ha s3 Hr3 Hi3) as [_ Hdl]. destruct (Hb s3 Hr3 Hi3) as [_ Hdr].
        destruct (write_ok s3 u Hi3 HU eq_refl Z0 Hsub) as (Hi4 & Hr4 & Hd4).
        { intros j (_ & _ & [E|[Hj|Hj]]); [left; exact E|right; apply Hdl; exact Hj|right; apply Hdr; exact Hj]. }
        split; [exact Hi4|split; [exact Hr4|]].
        apply stab_post_ret; [rewrite <- Ht; reflexivity|].
        intros s5 Hr5 _. eapply done_stable; eassumption.
      + destruct (read_nonzero s1 u Hi1 HU eq_refl NZ) as [E Hst].
        apply stab_post_ret; assumption.
    - (* Zero *)
      intros s1 _ _. split; [reflexivity|]. intros j (Hm & _). discriminate.
  Qed.

  Lemma pool_oks_init : forall ts', (forall t, In t ts' -> In t ts) ->
    pool_oks InvT relyT (map (tree_hash ek H) ts') (map postT ts') s0.
  Proof.
    induction ts' as [|t ts' IH]; intros Hin; cbn [map]; constructor.
    - apply tree_hash_wps.
      + exists t. split; [apply Hin; left; reflexivity|destruct t; left; reflexivity].
      + intros j Hj. exists t. split; [apply Hin; left; reflexivity|exact Hj].
    - apply IH. intros t' Ht'. apply Hin. right. exact Ht'.
  Qed.

  Lemma pool_oks_final s' : InvT s' -> forall ts' P',
    pool_oks InvT relyT P' (map postT ts') s' -> Forall terminal P' ->
    P' = map (fun t => Ret (hash_spec ek H t)) ts' /\ forall t, In t ts' -> done s' t.
  Proof.
    intros Hi. induction ts' as [|t ts' IH]; intros P' OK HT; cbn [map] in OK; inversion OK; subst.
    - split; [reflexivity|]. intros t [].
    - inversion HT; subst.
      match goal with Hr : Forall2 _ _ (map postT ts') |- _ => destruct (IH _ Hr) as [E Hd]; [assumption|] end.
      match goal with Ht : terminal ?x |- _ => destruct (terminal_inv x Ht) as [o ->] end.
      match goal with Hw : wps _ _ _ _ _ |- _ =>
        destruct (wps_terminal _ _ relyT_refl _ _ _ Hi Hw) as [Eo Hdt] end.
      subst o. cbn [of_outcome map]. split; [rewrite E; reflexivity|].
      intros t' [<-|Ht']; auto.
  Qed.

  (* Every terminated schedule of the pool ends with the same results, the same allocator position
     and the same memo table: the initial table plus the true hash of every needed node. *)
  Theorem tree_hash_pool_confluent P' s' :
    psteps (map (tree_hash ek H) ts) s0 P' s' -> Forall terminal P' ->
    P' = map (fun t => Ret (hash_spec ek H t)) ts /\
    next s' = next s0 /\
    (forall i, needed i -> mget s' i = truth i) /\
    (forall i, ~ needed i -> mget s' i = mget s0 i) /\
    (forall i, mget s' i = mget s0 i \/ mget s' i = truth i) /\
    (forall t, In t ts -> has_memo t = true -> mget s' (idof t) = hash_spec ek H t).
  Proof.
    intros Hps HT.
    destruct (any_schedule_safes InvT relyT relyT_refl relyT_trans _ _ _ _ Hps _ InvT_s0
                (pool_oks_init ts (fun t Ht => Ht))) as (Hi & [Hn Hr] & OK).
    destruct (pool_oks_final s' Hi ts P' OK HT) as [EP Hd].
    assert (Hneeded : forall i, needed i -> mget s' i = truth i).
    { intros i (t & Ht & Hj). apply (Hd t Ht i Hj). }
    split; [exact EP|split; [exact Hn|split; [exact Hneeded|split; [|split; [exact Hr|]]]]].
    - intros i Hnn. destruct Hi as (_ & I1 & _). destruct (I1 i) as [E|[_ Hc]]; [exact E|contradiction].
    - intros t Ht Hm.
      assert (HU : inU t) by (exists t; split; [exact Ht|destruct t; left; reflexivity]).
      rewrite <- (truth_ok t HU Hm).
      destruct (memo0 t HU Hm) as [Z|E0].
      + apply Hneeded. exists t. split; [exact Ht|]. destruct t; cbn [need has_memo idof] in *; auto.
      + destruct (Hr (idof t)) as [E|E]; congruence.
  Qed.

  (* At every point of every schedule (terminated or not): no allocation, every changed memo is the
     true hash of a needed node, and the memos of all the trees stay valid *)
  Theorem tree_hash_pool_prefix P' s' :
    psteps (map (tree_hash ek H) ts) s0 P' s' ->
    next s' = next s0 /\
    (forall i, mget s' i = mget s0 i \/ (mget s' i = truth i /\ needed i)) /\
    (forall t, In t ts -> mvalid ek H s' t).
  Proof.
    intros Hps.
    destruct (any_schedule_safes InvT relyT relyT_refl relyT_trans _ _ _ _ Hps _ InvT_s0
                (pool_oks_init ts (fun t Ht => Ht))) as ((Hn & I1 & _) & _ & _).
    split; [exact Hn|split; [exact I1|]].
    intros t Ht u Hu Hm. destruct (I1 (idof u)) as [E|[E _]].
    - rewrite E. apply (valid0 t Ht u Hu Hm).
    - right. rewrite E. apply truth_ok; [exists t; auto|exact Hm].
  Qed.

  (* Schedule independence, stated without reference to the description of the table *)
  Corollary tree_hash_pool_deterministic P1 s1 P2 s2 :
    psteps (map (tree_hash ek H) ts) s0 P1 s1 -> Forall terminal P1 ->
    psteps (map (tree_hash ek H) ts) s0 P2 s2 -> Forall terminal P2 ->
    P1 = P2 /\ next s1 = next s2 /\ forall i, mget s1 i = mget s2 i.
  Proof.
    intros H1 T1 H2 T2.
    destruct (any_schedule_safes InvT relyT relyT_refl relyT_trans _ _ _ _ H1 _ InvT_s0
                (pool_oks_init ts (fun t Ht => Ht))) as ((_ & I1 & _) & _ & _).
    destruct (any_schedule_safes InvT relyT relyT_refl relyT_trans _ _ _ _ H2 _ InvT_s0
                (pool_oks_init ts (fun t Ht => Ht))) as ((_ & I2 & _) & _ & _).
    destruct (tree_hash_pool_confluent _ _ H1 T1) as (E1 & N1 & A1 & _).
    destruct (tree_hash_pool_confluent _ _ H2 T2) as (E2 & N2 & A2 & _).
    split; [congruence|split; [congruence|]]. intros i.
    destruct (I1 i) as [U1|[U1 Hn1]]; destruct (I2 i) as [U2|[U2 Hn2]]; try congruence.
    - rewrite (A1 i Hn2). congruence.
    - rewrite (A2 i Hn1). congruence.
  Qed.
End Confluence.


(* ====================================================================================== *)
(* 5c. The final table as an explicit function of the roots and the initial state           *)
(* ====================================================================================== *)
Section FinalTable.
  Context {T : Type}.
  Variable ek : ekind T.
  Variable H : digest -> digest -> digest.
  Notation tree := (tree T).

  Lemma subt_nodes (u t : tree) : subt u t <-> In u (nodes t).
  Proof.
    induction t as [i v|i vs|i l IHl r IHr|i d]; cbn [subt nodes In]; try (intuition congruence).
    rewrite in_app_iff, <- IHl, <- IHr. intuition congruence.
  Qed.

  (* with identities naming nodes, the true hash of an identity can be looked up in the roots *)
  Definition truth_of (ts : list tree) (i : id) : digest :=
    match find (fun u => has_memo u && Pos.eqb (idof u) i) (flat_map nodes ts) with
    | Some u => hash_spec ek H u
    | None => 0
    end.

  Lemma truth_of_ok ts : idf_memo ts -> forall u, inU ts u -> has_memo u = true ->
    truth_of ts (idof u) = hash_spec ek H u.
  Proof.
    intros IDF u (t & Ht & Hu) Hm. unfold truth_of.
    destruct (find (fun u0 => has_memo u0 && Pos.eqb (idof u0) (idof u)) (flat_map nodes ts)) as [v|] eqn:F.
    - apply find_some in F. destruct F as [Hin E]. apply andb_true_iff in E. destruct E as [Hmv E].
      apply Pos.eqb_eq in E.
      apply in_flat_map in Hin. destruct Hin as (t2 & Ht2 & Hv). apply subt_nodes in Hv.
      rewrite (IDF t2 t v u Ht2 Ht Hv Hu Hmv Hm E). reflexivity.
    - exfalso. assert (Hin : In u (flat_map nodes ts)).
      { apply in_flat_map. exists t. split; [exact Ht|apply subt_nodes; exact Hu]. }
      pose proof (find_none _ _ F u Hin) as E. cbn beta in E. rewrite Hm, Pos.eqb_refl in E. discriminate.
  Qed.

  (* `need`, decided *)
  Fixpoint needb (s0 : state) (u : tree) (j : id) : bool :=
    has_memo u && (mget s0 (idof u) =? 0) &&
    (Pos.eqb j (idof u) || match u with Node _ l r => needb s0 l j || needb s0 r j | _ => false end).
  Lemma needb_spec s0 u j : needb s0 u j = true <-> need s0 u j.
  Proof.
    induction u as [i v|i vs|i l IHl r IHr|i d]; cbn [needb need];
      rewrite !andb_true_iff, !orb_true_iff, N.eqb_eq, Pos.eqb_eq;
      try rewrite IHl, IHr; intuition discriminate.
  Qed.

  Lemma need_node s0 (u : tree) j : need s0 u j ->
    exists v, subt v u /\ has_memo v = true /\ idof v = j.
  Proof.
    induction u as [i v|i vs|i l IHl r IHr|i d]; intros (Hm & _ & Hd).
    - destruct Hd as [->|[]]. exists (Leaf i v). split; [left; reflexivity|split; reflexivity].
    - destruct Hd as [->|[]]. exists (Packed i vs). split; [left; reflexivity|split; reflexivity].
    - destruct Hd as [->|[Hd|Hd]].
      + exists (Node i l r). split; [left; reflexivity|split; reflexivity].
      + destruct (IHl Hd) as (v & Hv & Hmv & Ev). exists v. cbn [subt]. auto.
      + destruct (IHr Hd) as (v & Hv & Hmv & Ev). exists v. cbn [subt]. auto.
    - discriminate.
  Qed.

  (* the table every terminated schedule produces *)
  Definition final_memo (ts : list tree) (s0 : state) (i : id) : digest :=
    if existsb (fun t => needb s0 t i) ts then truth_of ts i else mget s0 i.

  Theorem tree_hash_pool_final_table (ts : list tree) (s0 : state) P' s' :
    idf_memo ts -> (forall t, In t ts -> mvalid ek H s0 t) ->
    (forall t i vs, In t ts -> subt (Packed i vs) t -> lenN vs <= pf_of ek) ->
    psteps (map (tree_hash ek H) ts) s0 P' s' -> Forall terminal P' ->
    P' = map (fun t => Ret (hash_spec ek H t)) ts /\
    next s' = next s0 /\
    forall i, mget s' i = final_memo ts s0 i.
  Proof.
    intros IDF V PK Hps HT.
    destruct (tree_hash_pool_confluent ek H (truth_of ts) ts s0) with (P' := P') (s' := s')
      as (EP & Hn & Hneed & Hnot & _); auto.
    - intros u HU Hm. apply truth_of_ok; assumption.
    - intros i vs (t & Ht & Hu). eapply PK; eassumption.
    - split; [exact EP|split; [exact Hn|]]. intros i. unfold final_memo.
      destruct (existsb (fun t => needb s0 t i) ts) eqn:E.
      + apply Hneed. apply existsb_exists in E. destruct E as (t & Ht & Hb).
        exists t. split; [exact Ht|apply needb_spec; exact Hb].
      + apply Hnot. intros (t & Ht & Hj).
        assert (E' : existsb (fun t => needb s0 t i) ts = true).
        { apply existsb_exists. exists t. split; [exact Ht|apply needb_spec; exact Hj]. }
        congruence.
  Qed.

  (* in particular every memo-carrying root ends up hashed, and nothing else is disturbed *)
  Corollary tree_hash_pool_roots (ts : list tree) (s0 : state) P' s' :
    idf_memo ts -> (forall t, In t ts -> mvalid ek H s0 t) ->
    (forall t i vs, In t ts -> subt (Packed i vs) t -> lenN vs <= pf_of ek) ->
    psteps (map (tree_hash ek H) ts) s0 P' s' -> Forall terminal P' ->
    (forall t, In t ts -> has_memo t = true -> mget s' (idof t) = hash_spec ek H t) /\
    (forall t, In t ts -> mvalid ek H s' t) /\
    (forall i, mget s' i = mget s0 i \/
               exists u, inU ts u /\ has_memo u = true /\ idof u = i /\ mget s' i = hash_spec ek H u).
  Proof.
    intros IDF V PK Hps HT.
    assert (TO : forall u, inU ts u -> has_memo u = true -> truth_of ts (idof u) = hash_spec ek H u)
      by (intros u HU Hm; apply truth_of_ok; assumption).
    destruct (tree_hash_pool_confluent ek H (truth_of ts) ts s0) with (P' := P') (s' := s')
      as (EP & Hn & Hneed & Hnot & Hr & Hroot); auto.
    { intros i vs (t & Ht & Hu). eapply PK; eassumption. }
    split; [exact Hroot|split].
    - intros t Ht u Hu Hm.
      assert (HU : inU ts u) by (exists t; auto).
      destruct (Hr (idof u)) as [E|E].
      + rewrite E. apply (V t Ht u Hu Hm).
      + right. rewrite E. apply TO; assumption.
    - intros i. destruct (existsb (fun t => needb s0 t i) ts) eqn:E.
      + right. apply existsb_exists in E. destruct E as (t & Ht & Hb). apply needb_spec in Hb.
        destruct (need_node s0 t i Hb) as (v & Hv & Hmv & Ev).
        assert (HV : inU ts v) by (exists t; auto).
        exists v. repeat split; auto. rewrite <- Ev. rewrite <- (TO v HV Hmv). apply Hneed.
        rewrite Ev. exists t. auto.
      + left. apply Hnot. intros (t & Ht & Hj).
        assert (E' : existsb (fun t => needb s0 t i) ts = true).
        { apply existsb_exists. exists t. split; [exact Ht|apply needb_spec; exact Hj]. }
        congruence.
  Qed.
  (* ... at every point of every schedule the memos of all roots stay valid and nothing is allocated *)
  Corollary tree_hash_pool_mvalid (ts : list tree) (s0 : state) P' s' :
    idf_memo ts -> (forall t, In t ts -> mvalid ek H s0 t) ->
    (forall t i vs, In t ts -> subt (Packed i vs) t -> lenN vs <= pf_of ek) ->
    psteps (map (tree_hash ek H) ts) s0 P' s' ->
    next s' = next s0 /\ forall t, In t ts -> mvalid ek H s' t.
  Proof.
    intros IDF V PK Hps.
    destruct (tree_hash_pool_prefix ek H (truth_of ts) ts s0) with (P' := P') (s' := s')
      as (Hn & _ & HV); auto.
    - intros u HU Hm. apply truth_of_ok; assumption.
    - intros i vs (t & Ht & Hu). eapply PK; eassumption.
  Qed.

  (* every schedule can be completed, and every completion yields the table above *)
  Corollary tree_hash_pool_completes (ts : list tree) (s0 : state) P1 s1 :
    psteps (map (tree_hash ek H) ts) s0 P1 s1 ->
    exists P' s', psteps P1 s1 P' s' /\ Forall terminal P'.
  Proof.
    intros Hps. apply psteps_pstepsn in Hps. destruct Hps as [k Hk].
    assert (Hb : exists ns, pbnd P1 ns).
    { pose proof (pool_bounded ek H ts) as B. revert B.
      generalize (map (fun t : tree => (3 * size t)%nat) ts).
      induction Hk as [P s|k P s P' s' P'' s'' Hs Hss IH]; intros ns B; [eauto|].
      destruct (pstep_decreases _ _ _ _ Hs _ B) as (ns' & B' & _). eauto. }
    destruct Hb as [ns B]. eapply pool_terminates; eassumption.
  Qed.

  (* the extracted sequential interpreter is one of the schedules, hence computes exactly this *)
  Corollary tree_hash_run_final (t : tree) (s0 : state) o s' :
    idf_memo [t] -> mvalid ek H s0 t ->
    (forall i vs, subt (Packed i vs) t -> lenN vs <= pf_of ek) ->
    run (tree_hash ek H t) s0 = (o, s') ->
    o = Ok (hash_spec ek H t) /\ next s' = next s0 /\ forall i, mget s' i = final_memo [t] s0 i.
  Proof.
    intros IDF V PK Hrun.
    pose proof (conc_run_agree_pool _ _ _ _ [] Hrun) as Hps.
    assert (HV : forall t', In t' [t] -> mvalid ek H s0 t') by (intros t' [<-|[]]; exact V).
    assert (HP : forall t' i vs, In t' [t] -> subt (Packed i vs) t' -> lenN vs <= pf_of ek)
      by (intros t' i vs [<-|[]]; apply PK).
    assert (HT : Forall terminal [of_outcome o]) by (constructor; [apply terminal_of_outcome|constructor]).
    destruct (tree_hash_pool_final_table [t] s0 [of_outcome o] s' IDF HV HP Hps HT) as (EP & Hn & Hm).
    split; [|split; assumption]. cbn [map] in EP. destruct o; cbn [of_outcome] in EP; congruence.
  Qed.
End FinalTable.

Print Assumptions astep_sound.
Print Assumptions any_schedule_safe.
Print Assumptions tree_hash_rg.
Print Assumptions progress.
Print Assumptions schedule_length_bounded.
Print Assumptions tree_hash_bounded.
Print Assumptions tree_hash_pool_bounded.
Print Assumptions conc_run_agree.
Print Assumptions wps_sound.
Print Assumptions any_schedule_safes.
Print Assumptions tree_hash_wps.
Print Assumptions tree_hash_pool_confluent.
Print Assumptions tree_hash_pool_deterministic.
Print Assumptions tree_hash_pool_final_table.
Print Assumptions tree_hash_pool_roots.
Print Assumptions tree_hash_pool_prefix.
Print Assumptions tree_hash_pool_mvalid.
Print Assumptions pool_terminates.
Print Assumptions tree_hash_pool_completes.
Print Assumptions tree_hash_run_final.
