(* NestedP.v — task `nested` (wave 5): a nested collection as the element kind.
   The element kind `ek_nl H` of model/Elem.v (a milhouse `List<u64, U64>` used as an element, as in
   `List<List<u64, U64>, N>`) restricted to its well-formed byte strings (`nl_ok`) is a lawful kind:
     ek_nlW, ek_nlW_wf, ek_nlW_codec_on, ek_nlW_agree (agreement with the raw kind the driver runs),
     ek_nlW_troot_inj (from collision_free H; via mroot_inj, chunks32_inj, nl_root_inj).
   Its element root is the SSZ hash_tree_root of a List[uint64, 64]:
     nl_bytes (encoding of a list of u64), nl_bytes_ok / nl_ok_surj / nl_bytes_inj (nl_ok = image of nl_bytes),
     mroot_merkleize (mroot = HashP.merkleize), chunks32_pack (chunks32 = HashP.chunks = pack),
     mroot_is_merkle, ek_nlW_root_is_ssz, nl_root_is_inner_list_root (= what the model computes for the inner
     List<u64, U64>: a depth-4 tree), mroot_not_inj_without_length.
   Closed instances of the master theorems (hash Hc, BTreeMap update map):
     run_refines_nl, step_refines_nl, maps_unobservable_nl, par_hash_nl, par_mix_nl (C16), history_nl.
   Proof file; no model code. *)
From Coq Require Import FMapPositive Eqdep_dec.
From MH Require Import Inv IfaceP IterP WulP IntraP CollCtorP CollObsP UMapP CodecP HashP SysInv RefineBase RefineB Refine
  Instances.
Local Open Scope N_scope.

(* ====================================================================== *)
(* generic facts on firstn / skipn / byte strings                           *)
(* ====================================================================== *)
Lemma valid_bytes_firstn n b : valid_bytes b = true -> valid_bytes (firstn n b) = true.
Proof.
  intros Hv. rewrite <- (firstn_skipn n b), valid_bytes_app in Hv. apply andb_true_iff in Hv. tauto.
Qed.
Lemma valid_bytes_skipn n b : valid_bytes b = true -> valid_bytes (skipn n b) = true.
Proof.
  intros Hv. rewrite <- (firstn_skipn n b), valid_bytes_app in Hv. apply andb_true_iff in Hv. tauto.
Qed.

Lemma app_inj_len {A} : forall (a1 a2 b1 b2 : list A), length a1 = length a2 ->
  a1 ++ b1 = a2 ++ b2 -> a1 = a2 /\ b1 = b2.
Proof.
  induction a1 as [|x a1 IH]; intros [|y a2] b1 b2 HL E; cbn [length] in HL; try discriminate HL; cbn [app] in E.
  - auto.
  - injection E as -> E. injection HL as HL. destruct (IH a2 b1 b2 HL E) as [-> ->]. auto.
Qed.

Section Nested.
  Variable H : digest -> digest -> digest.

  (* ====================================================================== *)
  (* 1. the lawful kind                                                      *)
  (* ====================================================================== *)
  Definition ek_nlW : ekind (BV nl_ok) := ek_sub (ek_nl H) nl_ok (exist _ [] eq_refl).

  Theorem ek_nlW_wf : ek_wf ek_nlW.
  Proof. apply ek_sub_wf; reflexivity. Qed.

  Theorem ek_nlW_codec_on : ek_codec_on ek_nlW (fun _ => True).
  Proof. apply ek_sub_codec_on; try reflexivity. intros s E. discriminate. Qed.

  (* agreement with the raw kind the driver runs: by definition, except for decoding *)
  Theorem ek_nlW_agree :
    epd (ek_nl H) = epd ek_nlW /\ efixed (ek_nl H) = efixed ek_nlW /\
    (forall v, epenc (ek_nl H) (bval v) = epenc ek_nlW v) /\ (forall v, etroot (ek_nl H) (bval v) = etroot ek_nlW v) /\
    (forall v, eenc (ek_nl H) (bval v) = eenc ek_nlW v) /\ (forall b, edec (ek_nl H) b = option_map bval (edec ek_nlW b)) /\
    (forall v u, eeqb (ek_nl H) (bval v) (bval u) = eeqb ek_nlW v u).
  Proof. apply sub_agree. reflexivity. Qed.

  (* ====================================================================== *)
  (* 2. mroot: the zero subtree, injectivity at equal length                  *)
  (* ====================================================================== *)
  Lemma mroot_nil d : mroot H d [] = zh_el H d.
  Proof. destruct d; reflexivity. Qed.

  Lemma mroot_S d cs :
    mroot H (S d) cs = H (mroot H d (firstn (Nat.pow 2 d) cs)) (mroot H d (skipn (Nat.pow 2 d) cs)).
  Proof.
    destruct cs as [|c cs']; [|reflexivity].
    rewrite firstn_nil, skipn_nil, !(mroot_nil d). reflexivity.
  Qed.

  Lemma mroot_0_cons c cs : mroot H 0 (c :: cs) = c.
  Proof. reflexivity. Qed.

  (* equal roots of equally long chunk lists that fit the tree: equal lists.  (Without the length
     hypothesis this is false: trailing zero chunks are indistinguishable from padding.) *)
  Theorem mroot_inj : collision_free H -> forall d cs1 cs2,
    length cs1 = length cs2 -> (length cs1 <= Nat.pow 2 d)%nat ->
    mroot H d cs1 = mroot H d cs2 -> cs1 = cs2.
  Proof.
    intros [CF _]. induction d as [|d IH]; intros cs1 cs2 HL Hle E.
    - cbn [Nat.pow] in Hle.
      destruct cs1 as [|c1 [|c1' cs1]], cs2 as [|c2 [|c2' cs2]]; cbn [length] in HL, Hle; try lia; auto.
      cbn [mroot] in E. now subst c2.
    - rewrite !mroot_S in E. apply CF in E. destruct E as [E1 E2].
      cbn [Nat.pow] in Hle.
      assert (P2 : (0 < Nat.pow 2 d)%nat) by (apply Nat.neq_0_lt_0, Nat.pow_nonzero; lia).
      remember (Nat.pow 2 d) as p eqn:Ep. clear Ep.
      apply IH in E1; [| rewrite !firstn_length; lia | rewrite firstn_length; lia].
      apply IH in E2; [| rewrite !skipn_length; lia | rewrite skipn_length; lia].
      rewrite <- (firstn_skipn p cs1), <- (firstn_skipn p cs2). congruence.
  Qed.

  (* ====================================================================== *)
  (* 3. chunks32: length, injectivity on valid byte strings of equal length  *)
  (* ====================================================================== *)
  Lemma chunks32_nil f : chunks32 f [] = [].
  Proof. destruct f; reflexivity. Qed.
  Lemma chunks32_S f x b : chunks32 (S f) (x :: b) = le_num (firstn 32 (x :: b)) :: chunks32 f (skipn 32 (x :: b)).
  Proof. reflexivity. Qed.

  Lemma chunks32_length_le : forall f b k, (length b <= 32 * k)%nat -> (length (chunks32 f b) <= k)%nat.
  Proof.
    induction f as [|f IH]; intros b k Hb; [cbn; lia|].
    destruct b as [|x b]; [cbn; lia|]. rewrite chunks32_S. cbn [length].
    destruct k as [|k]; [cbn [length] in Hb; lia|].
    apply le_n_S. apply IH. rewrite skipn_length. lia.
  Qed.

  Lemma chunks32_length_eq : forall f a b, length a = length b -> length (chunks32 f a) = length (chunks32 f b).
  Proof.
    induction f as [|f IH]; intros a b HL; [reflexivity|].
    destruct a as [|x a], b as [|y b]; cbn [length] in HL; try (exfalso; lia); [reflexivity|].
    rewrite !chunks32_S. cbn [length]. f_equal. apply IH. rewrite !skipn_length. cbn [length]. lia.
  Qed.

  Theorem chunks32_inj : forall f a b,
    length a = length b -> (length a <= 32 * f)%nat -> valid_bytes a = true -> valid_bytes b = true ->
    chunks32 f a = chunks32 f b -> a = b.
  Proof.
    induction f as [|f IH]; intros a b HL Hf Va Vb E.
    - destruct a, b; cbn [length] in *; try lia. reflexivity.
    - destruct a as [|x a], b as [|y b]; cbn [length] in HL; try (exfalso; lia); [reflexivity|].
      rewrite !chunks32_S in E. injection E as E1 E2.
      rewrite <- (firstn_skipn 32 (x :: a)), <- (firstn_skipn 32 (y :: b)). f_equal.
      + apply le_num_inj; [|now apply valid_bytes_firstn|now apply valid_bytes_firstn|exact E1].
        rewrite !firstn_length. cbn [length]. lia.
      + apply IH; [| |now apply valid_bytes_skipn|now apply valid_bytes_skipn|exact E2].
        * rewrite !skipn_length. cbn [length]. lia.
        * rewrite skipn_length. lia.
  Qed.

  (* ====================================================================== *)
  (* 4. the element root is injective on well-formed values                   *)
  (* ====================================================================== *)
  Lemma nl_ok_inv b : nl_ok b = true ->
    (length b mod 8 = 0)%nat /\ (length b <= 512)%nat /\ valid_bytes b = true.
  Proof.
    unfold nl_ok. intros E. apply andb_true_iff in E. destruct E as [E E3].
    apply andb_true_iff in E. destruct E as [E1 E2].
    apply Nat.eqb_eq in E1. apply Nat.leb_le in E2. auto.
  Qed.

  Theorem nl_root_inj : collision_free H -> forall a b, nl_ok a = true -> nl_ok b = true ->
    etroot (ek_nl H) a = etroot (ek_nl H) b -> a = b.
  Proof.
    intros CF a b Ha Hb. cbn [ek_nl etroot]. intros E.
    apply (proj1 CF) in E. destruct E as [E1 E2].
    apply nl_ok_inv in Ha, Hb. destruct Ha as (Ma & La & Va), Hb as (Mb & Lb & Vb).
    assert (HL : length a = length b).
    { apply Nat2N.inj in E2.
      pose proof (Nat.div_mod (length a) 8 ltac:(lia)) as Da.
      pose proof (Nat.div_mod (length b) 8 ltac:(lia)) as Db. lia. }
    apply (chunks32_inj 17); [exact HL|lia|exact Va|exact Vb|].
    apply (mroot_inj CF 4); [now apply chunks32_length_eq| |exact E1].
    change (Nat.pow 2 4) with 16%nat. apply chunks32_length_le. lia.
  Qed.

  Theorem ek_nlW_troot_inj : collision_free H -> troot_inj ek_nlW.
  Proof. intros CF. apply ek_sub_troot_inj. apply (nl_root_inj CF). Qed.
End Nested.

(* ====================================================================== *)
(* 5. the element root is the SSZ hash_tree_root of a List[uint64, 64]       *)
(* ====================================================================== *)
Lemma le_num_app a : forall b, le_num (a ++ b) = le_num a + 256 ^ lenN a * le_num b.
Proof.
  induction a as [|x a IH]; intros b; cbn [app le_num].
  - change (lenN (@nil N)) with 0. rewrite N.pow_0_r. lia.
  - rewrite IH, lenN_cons, N.pow_succ_r'. lia.
Qed.

Lemma pow2_of_nat d : pow2 d = N.of_nat (Nat.pow 2 d).
Proof.
  induction d as [|d IH]; [reflexivity|].
  rewrite pow2_S, IH, Nat.pow_succ_r', Nat2N.inj_mul. reflexivity.
Qed.
Lemma to_nat_pow2 d : N.to_nat (pow2 d) = Nat.pow 2 d.
Proof. rewrite pow2_of_nat. apply Nat2N.id. Qed.

(* the SSZ bytes of a list of u64 values *)
Definition nl_bytes (xs : list U64) : bytes := concat (map repr xs).

Lemma length_repr_u64 (x : U64) : length (repr x) = 8%nat.
Proof. unfold repr. apply length_num_le. Qed.

Lemma length_nl_bytes xs : length (nl_bytes xs) = (8 * length xs)%nat.
Proof.
  unfold nl_bytes. induction xs as [|x xs IH]; [reflexivity|].
  cbn [map concat length]. rewrite app_length, IH, length_repr_u64. lia.
Qed.

Lemma valid_nl_bytes xs : valid_bytes (nl_bytes xs) = true.
Proof.
  unfold nl_bytes. induction xs as [|x xs IH]; [reflexivity|].
  cbn [map concat]. rewrite valid_bytes_app, IH. destruct (repr_wf x) as [_ ->]. reflexivity.
Qed.

Lemma nl_bytes_ok xs : (length xs <= 64)%nat -> nl_ok (nl_bytes xs) = true.
Proof.
  intros Hl. unfold nl_ok. rewrite valid_nl_bytes, length_nl_bytes.
  rewrite Nat.mul_comm, Nat.mod_mul by lia. cbn [Nat.eqb andb].
  rewrite andb_true_r. apply Nat.leb_le. lia.
Qed.

Lemma nl_bytes_inj : forall xs ys, nl_bytes xs = nl_bytes ys -> xs = ys.
Proof.
  unfold nl_bytes. induction xs as [|x xs IH]; intros [|y ys] E; cbn [map concat] in E; auto.
  - exfalso. apply (f_equal (@length N)) in E. rewrite app_length, length_repr_u64 in E. cbn [length] in E. lia.
  - exfalso. apply (f_equal (@length N)) in E. rewrite app_length, length_repr_u64 in E. cbn [length] in E. lia.
  - apply app_inj_len in E; [|now rewrite !length_repr_u64]. destruct E as [E1 E2].
    apply repr_inj in E1. apply IH in E2. congruence.
Qed.

(* every byte string of 8k bytes is the encoding of k values *)
Lemma nl_bytes_surj : forall k b, length b = (8 * k)%nat -> valid_bytes b = true ->
  exists xs, nl_bytes xs = b /\ length xs = k.
Proof.
  induction k as [|k IH]; intros b Hl Hv.
  - exists []. destruct b; [auto|cbn [length] in Hl; lia].
  - destruct (IH (skipn 8 b)) as (xs & E & Lx); [rewrite skipn_length; lia|now apply valid_bytes_skipn|].
    destruct (repr_surj (Nat.pow 2 3) (firstn 8 b)) as (x & Ex & _).
    { split; [rewrite firstn_length; change (Nat.pow 2 3) with 8%nat; lia|now apply valid_bytes_firstn]. }
    exists (x :: xs). split; [|cbn [length]; lia].
    unfold nl_bytes in *. cbn [map concat]. rewrite E, Ex. apply firstn_skipn.
Qed.

Lemma nl_ok_surj b : nl_ok b = true -> exists xs, nl_bytes xs = b /\ (length xs <= 64)%nat.
Proof.
  intros Hb. apply nl_ok_inv in Hb. destruct Hb as (Mb & Lb & Vb).
  pose proof (Nat.div_mod (length b) 8 ltac:(lia)) as Db.
  destruct (nl_bytes_surj (length b / 8) b) as (xs & E & Lx); [lia|exact Vb|].
  exists xs. split; [exact E|lia].
Qed.

Lemma firstn_nl_bytes : forall k xs, firstn (8 * k) (nl_bytes xs) = nl_bytes (firstn k xs).
Proof.
  unfold nl_bytes. induction k as [|k IH]; intros xs; [reflexivity|].
  destruct xs as [|x xs]; [reflexivity|]. cbn [map concat firstn].
  replace (8 * S k)%nat with (length (repr x) + 8 * k)%nat by (rewrite length_repr_u64; lia).
  rewrite firstn_app_2, IH. reflexivity.
Qed.
Lemma skipn_nl_bytes : forall k xs, skipn (8 * k) (nl_bytes xs) = nl_bytes (skipn k xs).
Proof.
  unfold nl_bytes. induction k as [|k IH]; intros xs; [reflexivity|].
  destruct xs as [|x xs]; [reflexivity|]. cbn [map concat skipn].
  rewrite skipn_app, length_repr_u64.
  rewrite skipn_all2 by (rewrite length_repr_u64; lia).
  replace (8 * S k - 8)%nat with (8 * k)%nat by lia. cbn [app]. apply IH.
Qed.

(* one packed chunk: the little-endian number of up to four u64 encodings *)
Lemma le_num_nl_bytes xs : le_num (nl_bytes xs) = chunk_of (ek_uintW 3) xs.
Proof.
  unfold nl_bytes. induction xs as [|x xs IH]; [reflexivity|].
  cbn [map concat chunk_of]. rewrite le_num_app, IH, le_num_repr.
  unfold lenN. rewrite length_repr_u64. reflexivity.
Qed.

Section MerkleSpec.
  Variable H : digest -> digest -> digest.

  Lemma zh_el_zh d : zh_el H d = zh H d.
  Proof. induction d as [|d IH]; [reflexivity|]. cbn [zh_el zh]. now rewrite IH. Qed.

  (* `mroot` IS HashP's merkleize (the specification used for collections), on every chunk list *)
  Theorem mroot_merkleize : forall d cs, mroot H d cs = merkleize H d cs.
  Proof.
    induction d as [|d IH]; intros cs.
    - destruct cs; reflexivity.
    - rewrite mroot_S, merkleize_S, takeN_firstn, dropN_skipn, to_nat_pow2, !IH. reflexivity.
  Qed.

  (* `chunks32` of the encoding is HashP's pack(values) *)
  Theorem chunks32_pack : forall f xs, (length xs <= 4 * f)%nat ->
    chunks32 f (nl_bytes xs) = HashP.chunks (ek_uintW 3) xs.
  Proof.
    change (HashP.chunks (ek_uintW 3)) with (HashP.pack (ek_uintW 3)). unfold pack.
    induction f as [|f IH]; intros xs Hl.
    - destruct xs; [reflexivity|cbn [length] in Hl; lia].
    - destruct xs as [|x xs]; [reflexivity|].
      rewrite groupsL_unfold by discriminate. cbn [map].
      rewrite takeN_firstn, dropN_skipn.
      change (N.to_nat (pf_of (ek_uintW 3))) with 4%nat.
      rewrite <- le_num_nl_bytes, <- firstn_nl_bytes.
      rewrite <- IH; [|rewrite skipn_length; unfold U64 in *; lia].
      rewrite <- skipn_nl_bytes.
      change (8 * 4)%nat with 32%nat.
      destruct (nl_bytes (x :: xs)) as [|y b] eqn:Eb; [|reflexivity].
      apply (f_equal (@length N)) in Eb. rewrite length_nl_bytes in Eb. cbn [length] in Eb. lia.
  Qed.

  (* the root of a nested-list element = hash_tree_root of the SSZ type List[uint64, 64] *)
  Theorem mroot_is_merkle (xs : list U64) : lenN xs <= 64 ->
    etroot (ek_nl H) (nl_bytes xs) = ssz_root (ek_uintW 3) H true 64 xs.
  Proof.
    intros Hl. unfold lenN in Hl.
    cbn [ek_nl etroot ssz_root]. unfold hash_tree_root_list.
    change (chunk_depth (ek_uintW 3) 64) with 4%nat.
    rewrite mroot_merkleize, chunks32_pack by lia. f_equal.
    rewrite length_nl_bytes, Nat.mul_comm, Nat.div_mul by lia. reflexivity.
  Qed.

  (* in terms of the lawful kind: every value is the encoding of at most 64 u64 values, and its root
     is their List[uint64, 64] root *)
  Corollary ek_nlW_root_is_ssz (v : BV nl_ok) :
    exists xs : list U64, bval v = nl_bytes xs /\ lenN xs <= 64 /\
      etroot (ek_nlW H) v = ssz_root (ek_uintW 3) H true 64 xs.
  Proof.
    destruct (nl_ok_surj (bval v) (bval_ok v)) as (xs & E & Lx).
    assert (HL : lenN xs <= 64) by (unfold lenN; lia).
    exists xs. split; [now rewrite E|]. split; [exact HL|].
    cbn [ek_nlW ek_sub etroot]. rewrite <- E. now apply mroot_is_merkle.
  Qed.

  (* ... and it is what the model itself computes for the inner collection: build the milhouse
     List<u64, U64> of the values (a tree of depth 4 over packed leaves) and take its tree_hash_root *)
  Lemma capacity_ok_64 : capacity_ok 64.
  Proof. apply N.leb_le; vm_compute; reflexivity. Qed.

  Theorem nl_root_is_inner_list_root (xs : list U64) : lenN xs <= 64 ->
    exists h : handle U64 mvmap,
      fst (run (list_try_from_iter (ek_uintW 3) Mmv 64 xs) init_state) = Ok h /\
      hdepth h = 4%nat /\ hlist h = true /\
      fst (run (coll_tree_hash_root (ek_uintW 3) Mmv H h)
               (snd (run (list_try_from_iter (ek_uintW 3) Mmv 64 xs) init_state)))
        = Ok (etroot (ek_nl H) (nl_bytes xs)).
  Proof.
    intros Hl.
    destruct (built_state (ek_uintW 3) Mmv H 64 mv_inv ek_u64W_wf Mmv_lawful capacity_ok_64 xs Hl)
      as (h & E & HI & HP & HL & GK).
    exists h. split; [exact E|]. split; [|split; [exact HL|]].
    - destruct HI as (_ & Hd & _). transitivity (list_depth (ek_uintW 3) 64); [exact Hd|vm_compute; reflexivity].
    - pose proof (wp_run _ _ _ (coll_root_spec (ek_uintW 3) Mmv H 64 mv_inv Mmv_lawful capacity_ok_64 h xs _ _
                                  (conj HI HP) GK (or_introl eq_refl))) as W.
      cbv beta in W. destruct W as (W & _). rewrite W, HL. f_equal. symmetry. now apply mroot_is_merkle.
  Qed.

  (* the length hypothesis of mroot_inj is necessary: a trailing zero chunk is indistinguishable from
     padding (which is why the element root mixes in the number of values) *)
  Example mroot_not_inj_without_length : mroot H 1 [0] = mroot H 1 [] /\ [0] <> @nil digest.
  Proof. split; [reflexivity|discriminate]. Qed.
End MerkleSpec.

(* ====================================================================== *)
(* 6. closed instances of the master theorems                               *)
(* ====================================================================== *)
Definition NL : Type := BV nl_ok.
Definition Mbt_nl : umap_impl NL (btmap NL) := @btmap_impl NL.

Lemma Mbt_nl_lawful : umap_lawful (ek_nlW Hc) Mbt_nl bt_sorted.
Proof. apply btmap_lawful. Qed.

Theorem run_refines_nl (capN : N) (vec_based : bool) (os : list (@op NL)) :
  capacity_ok capN -> Forall op_plain os ->
  exists rs s' st' a',
    model_run (ek_nlW Hc) Mbt_nl Hc capN vec_based init_sys init_state os = Some (rs, s', st') /\
    spec_run (ek_nlW Hc) Hc capN vec_based (fun _ => True) init_sregs os rs a' /\
    SysInv (ek_nlW Hc) Mbt_nl Hc capN bt_sorted st' s' a'.
Proof.
  intros CAP Hok.
  destruct (run_refines (ek_nlW Hc) Mbt_nl Hc capN vec_based bt_sorted (fun _ => True) (ek_nlW_wf Hc) Mbt_nl_lawful CAP
              Hc_collision_free (ek_nlW_troot_inj Hc Hc_collision_free) (ek_nlW_codec_on Hc) os (op_ok_plain _ os Hok))
    as (rs & s' & st' & a' & E & R & I & _).
  exists rs, s', st', a'. auto.
Qed.

Theorem step_refines_nl (capN : N) (vec_based : bool) st s a (o : @op NL) :
  capacity_ok capN -> op_plain o -> SysInv (ek_nlW Hc) Mbt_nl Hc capN bt_sorted st s a ->
  refines (ek_nlW Hc) Mbt_nl Hc capN vec_based bt_sorted (fun _ => True) s a o st.
Proof.
  intros CAP [Hco Hw] SI.
  apply (step_refines (ek_nlW Hc) Mbt_nl Hc capN vec_based bt_sorted (fun _ => True) (ek_nlW_wf Hc) Mbt_nl_lawful CAP
           Hc_collision_free (ek_nlW_troot_inj Hc Hc_collision_free) (ek_nlW_codec_on Hc) st s a o Hco Hw); [|exact SI].
  apply Forall_forall. intros [x|] _; cbn [reg_valid]; [|exact I]. apply Forall_forall. intros v _. exact I.
Qed.

(* C14 for the nested kind: VecMap and BTreeMap are indistinguishable *)
Theorem maps_unobservable_nl (capN : N) (vec_based : bool) (os : list (@op NL)) :
  capacity_ok capN -> Forall op_plain os ->
  exists rs1 s1 st1 a1 rs2 s2 st2 a2,
    model_run (ek_nlW Hc) (@vecmap_impl NL) Hc capN vec_based init_sys init_state os = Some (rs1, s1, st1) /\
    model_run (ek_nlW Hc) (@btmap_impl NL) Hc capN vec_based init_sys init_state os = Some (rs2, s2, st2) /\
    spec_run (ek_nlW Hc) Hc capN vec_based (fun _ => True) init_sregs os rs1 a1 /\
    spec_run (ek_nlW Hc) Hc capN vec_based (fun _ => True) init_sregs os rs2 a2 /\
    (Forall (fun o => det_op o = true) os -> rs1 = rs2 /\ a1 = a2).
Proof.
  intros CAP Hok.
  destruct (maps_unobservable (ek_nlW Hc) (@vecmap_impl NL) (@btmap_impl NL) Hc capN vec_based (fun _ => True) bt_sorted
              (fun _ => True) (ek_nlW_wf Hc) (vecmap_lawful _) (btmap_lawful _) CAP Hc_collision_free
              (ek_nlW_troot_inj Hc Hc_collision_free) (ek_nlW_codec_on Hc) os (op_ok_plain _ os Hok))
    as (rs1 & s1 & st1 & a1 & rs2 & s2 & st2 & a2 & E1 & E2 & R1 & R2 & _ & _ & _ & D).
  exists rs1, s1, st1, a1, rs2, s2, st2, a2. auto 10.
Qed.

(* C16 for the nested kind: the parallel hashing operations refine the specification in every state
   satisfying the system invariant *)
Theorem par_hash_nl (capN : N) (vec_based : bool) st s a (i : nat) (k : N) :
  capacity_ok capN -> SysInv (ek_nlW Hc) Mbt_nl Hc capN bt_sorted st s a ->
  refines (ek_nlW Hc) Mbt_nl Hc capN vec_based bt_sorted (fun _ => True) s a (OParHash i k) st.
Proof.
  intros CAP SI.
  exact (refines_OParHash (ek_nlW Hc) Mbt_nl Hc capN vec_based bt_sorted (fun _ => True) Mbt_nl_lawful CAP st s a i k SI).
Qed.
Theorem par_mix_nl (capN : N) (vec_based : bool) st s a (i : nat) (vs : list NL) :
  capacity_ok capN -> SysInv (ek_nlW Hc) Mbt_nl Hc capN bt_sorted st s a ->
  refines (ek_nlW Hc) Mbt_nl Hc capN vec_based bt_sorted (fun _ => True) s a (OParMix i vs) st.
Proof.
  intros CAP SI.
  exact (refines_OParMix (ek_nlW Hc) Mbt_nl Hc capN vec_based bt_sorted (fun _ => True) (ek_nlW_wf Hc) Mbt_nl_lawful CAP st s a i vs SI).
Qed.

(* a concrete history with the same element at several positions, hashed in parallel, cloned, mixed *)
Example history_nl (v w : NL) :
  exists rs s' st' a',
    model_run (ek_nlW Hc) Mbt_nl Hc 8 false init_sys init_state
      [ORepeat 0 v 5; OParHash 0 4; OClone 0 1; OParMix 1 [w; v]; OHash 0] = Some (rs, s', st') /\
    spec_run (ek_nlW Hc) Hc 8 false (fun _ => True) init_sregs
      [ORepeat 0 v 5; OParHash 0 4; OClone 0 1; OParMix 1 [w; v]; OHash 0] rs a' /\
    SysInv (ek_nlW Hc) Mbt_nl Hc 8 bt_sorted st' s' a'.
Proof.
  apply run_refines_nl.
  - apply capacity_ok_8.
  - repeat constructor.
Qed.

Print Assumptions ek_nlW_wf.
Print Assumptions ek_nlW_codec_on.
Print Assumptions ek_nlW_agree.
Print Assumptions mroot_inj.
Print Assumptions chunks32_inj.
Print Assumptions nl_root_inj.
Print Assumptions ek_nlW_troot_inj.
Print Assumptions nl_bytes_ok.
Print Assumptions nl_ok_surj.
Print Assumptions nl_bytes_inj.
Print Assumptions mroot_merkleize.
Print Assumptions chunks32_pack.
Print Assumptions mroot_is_merkle.
Print Assumptions ek_nlW_root_is_ssz.
Print Assumptions nl_root_is_inner_list_root.
Print Assumptions mroot_not_inj_without_length.
Print Assumptions run_refines_nl.
Print Assumptions step_refines_nl.
Print Assumptions maps_unobservable_nl.
Print Assumptions par_hash_nl.
Print Assumptions par_mix_nl.
Print Assumptions history_nl.
