(* ListN.v — lemmas about the binary-indexed list functions of Base.v (takeN, dropN, nthN, setN,
   lenN, repeatN) and about powers of two. Proof library; no model code. *)
From MH Require Export Base.
Local Open Scope N_scope.

Section ListN.
  Context {A : Type}.
  Implicit Types l : list A.

  Lemma lenN_nil : lenN (@nil A) = 0. Proof. reflexivity. Qed.
  Lemma lenN_cons x l : lenN (x :: l) = N.succ (lenN l).
  Proof. unfold lenN. cbn [length]. lia. Qed.
  Lemma lenN_app l1 l2 : lenN (l1 ++ l2) = lenN l1 + lenN l2.
  Proof. unfold lenN. rewrite app_length. lia. Qed.
  Lemma lenN_0 l : lenN l = 0 -> l = [].
  Proof. destruct l; [auto|rewrite lenN_cons; lia]. Qed.

  Lemma takeN_firstn : forall l n, takeN n l = firstn (N.to_nat n) l.
  Proof.
    induction l as [|x l IH]; intros n; cbn [takeN]. { now rewrite firstn_nil. }
    destruct (N.eqb_spec n 0) as [->|E]; [reflexivity|].
    replace (N.to_nat n) with (S (N.to_nat (N.pred n))) by lia. cbn [firstn]. now rewrite IH.
  Qed.
  Lemma dropN_skipn : forall l n, dropN n l = skipn (N.to_nat n) l.
  Proof.
    induction l as [|x l IH]; intros n; cbn [dropN]. { now rewrite skipn_nil. }
    destruct (N.eqb_spec n 0) as [->|E]; [reflexivity|].
    replace (N.to_nat n) with (S (N.to_nat (N.pred n))) by lia. cbn [skipn]. now rewrite IH.
  Qed.
  Lemma nthN_nth_error : forall l n, nthN l n = nth_error l (N.to_nat n).
  Proof.
    induction l as [|x l IH]; intros n; cbn [nthN]. { now destruct (N.to_nat n). }
    destruct (N.eqb_spec n 0) as [->|E]; [reflexivity|].
    replace (N.to_nat n) with (S (N.to_nat (N.pred n))) by lia. cbn [nth_error]. now rewrite IH.
  Qed.

  Lemma nth_error_skipn l c k : nth_error (skipn c l) k = nth_error l (c + k).
  Proof. revert l; induction c; intros l; cbn; auto. destruct l; cbn; auto. now destruct k. Qed.
  Lemma list_ext' (a b : list A) : (forall k, nth_error a k = nth_error b k) -> a = b.
  Proof.
    revert b; induction a as [|x a IH]; intros [|y b] Hk; auto.
    - specialize (Hk O); discriminate. - specialize (Hk O); discriminate.
    - f_equal. { specialize (Hk O). now injection Hk. } apply IH. intros k. apply (Hk (S k)).
  Qed.

  Lemma takeN_dropN n l : takeN n l ++ dropN n l = l.
  Proof. rewrite takeN_firstn, dropN_skipn. apply firstn_skipn. Qed.
  Lemma lenN_takeN n l : lenN (takeN n l) = N.min n (lenN l).
  Proof. unfold lenN. rewrite takeN_firstn, firstn_length. lia. Qed.
  Lemma lenN_dropN n l : lenN (dropN n l) = lenN l - n.
  Proof. unfold lenN. rewrite dropN_skipn, skipn_length. lia. Qed.
  Lemma takeN_0 l : takeN 0 l = []. Proof. destruct l; reflexivity. Qed.
  Lemma dropN_0 l : dropN 0 l = l. Proof. destruct l; reflexivity. Qed.
  Lemma takeN_nil n : takeN n (@nil A) = []. Proof. reflexivity. Qed.
  Lemma dropN_nil n : dropN n (@nil A) = []. Proof. reflexivity. Qed.

  Lemma takeN_app_exact l1 l2 : takeN (lenN l1) (l1 ++ l2) = l1.
  Proof. rewrite takeN_firstn. unfold lenN. rewrite Nat2N.id. rewrite firstn_app, Nat.sub_diag, firstn_all. cbn. apply app_nil_r. Qed.
  Lemma dropN_app_exact l1 l2 : dropN (lenN l1) (l1 ++ l2) = l2.
  Proof. rewrite dropN_skipn. unfold lenN. rewrite Nat2N.id. rewrite skipn_app, Nat.sub_diag, skipn_all. reflexivity. Qed.
  Lemma takeN_all n l : lenN l <= n -> takeN n l = l.
  Proof. intros Hn. rewrite takeN_firstn. apply firstn_all2. unfold lenN in Hn. lia. Qed.
  Lemma dropN_all n l : lenN l <= n -> dropN n l = [].
  Proof. intros Hn. rewrite dropN_skipn. apply skipn_all2. unfold lenN in Hn. lia. Qed.
  Lemma takeN_app_le n l1 l2 : n <= lenN l1 -> takeN n (l1 ++ l2) = takeN n l1.
  Proof. intros Hn. rewrite !takeN_firstn, firstn_app. unfold lenN in Hn.
    replace (N.to_nat n - length l1)%nat with O by lia. cbn. apply app_nil_r. Qed.
  Lemma dropN_app_le n l1 l2 : n <= lenN l1 -> dropN n (l1 ++ l2) = dropN n l1 ++ l2.
  Proof. intros Hn. rewrite !dropN_skipn, skipn_app. unfold lenN in Hn.
    replace (N.to_nat n - length l1)%nat with O by lia. reflexivity. Qed.
  Lemma dropN_dropN a b l : dropN a (dropN b l) = dropN (b + a) l.
  Proof.
    apply list_ext'. intros k. rewrite !dropN_skipn, !nth_error_skipn. f_equal. lia.
  Qed.
  Lemma takeN_takeN a b l : takeN a (takeN b l) = takeN (N.min a b) l.
  Proof. rewrite !takeN_firstn, firstn_firstn. f_equal. lia. Qed.

  Lemma nth_error_firstn_lt l c k : (k < c)%nat -> nth_error (firstn c l) k = nth_error l k.
  Proof. revert l k; induction c; intros l k Hk; [lia|]. destruct l, k; cbn; auto. apply IHc; lia. Qed.
  Lemma nth_error_firstn_ge l c k : (c <= k)%nat -> nth_error (firstn c l) k = None.
  Proof. intros. apply nth_error_None. rewrite firstn_length. lia. Qed.

  Lemma nthN_takeN l c k : nthN (takeN c l) k = if k <? c then nthN l k else None.
  Proof.
    rewrite !nthN_nth_error, takeN_firstn. destruct (N.ltb_spec k c).
    - apply nth_error_firstn_lt. lia. - apply nth_error_firstn_ge. lia.
  Qed.
  Lemma nthN_dropN l c k : nthN (dropN c l) k = nthN l (c + k).
  Proof. rewrite !nthN_nth_error, dropN_skipn, nth_error_skipn. f_equal. lia. Qed.
  Lemma nthN_nil k : nthN (@nil A) k = None. Proof. reflexivity. Qed.
  Lemma nthN_None l k : nthN l k = None <-> lenN l <= k.
  Proof. rewrite nthN_nth_error, nth_error_None. unfold lenN. lia. Qed.
  Lemma nthN_Some l k : nthN l k <> None <-> k < lenN l.
  Proof. rewrite nthN_nth_error, nth_error_Some. unfold lenN. lia. Qed.
  Lemma nthN_app_l l1 l2 k : k < lenN l1 -> nthN (l1 ++ l2) k = nthN l1 k.
  Proof. intros Hk. rewrite !nthN_nth_error. apply nth_error_app1. unfold lenN in Hk. lia. Qed.
  Lemma nthN_app_r l1 l2 k : lenN l1 <= k -> nthN (l1 ++ l2) k = nthN l2 (k - lenN l1).
  Proof. intros Hk. rewrite !nthN_nth_error. unfold lenN in *. rewrite nth_error_app2 by lia. f_equal. lia. Qed.

  Lemma list_ext (a b : list A) : (forall k, nth_error a k = nth_error b k) -> a = b.
  Proof. apply list_ext'. Qed.
  Lemma listN_ext (a b : list A) : (forall k, nthN a k = nthN b k) -> a = b.
  Proof. intros Hk. apply list_ext. intros k. specialize (Hk (N.of_nat k)). rewrite !nthN_nth_error, Nat2N.id in Hk. exact Hk. Qed.

  Lemma nthN_setN l i x k : nthN (setN l i x) k = if (k =? i) && (i <? lenN l) then Some x else nthN l k.
  Proof.
    revert i k; induction l as [|y l IH]; intros i k; cbn [setN nthN].
    - rewrite lenN_nil. destruct (k =? i); cbn; [destruct (i <? 0) eqn:E; [apply N.ltb_lt in E; lia|reflexivity]|reflexivity].
    - rewrite lenN_cons. destruct (N.eqb_spec i 0) as [->|Ei]; cbn [nthN].
      + destruct (N.eqb_spec k 0) as [->|Ek]; cbn.
        * destruct (N.ltb_spec 0 (N.succ (lenN l))); [reflexivity|lia].
        * reflexivity.
      + destruct (N.eqb_spec k 0) as [->|Ek].
        * destruct (N.eqb_spec 0 i); [lia|]. reflexivity.
        * rewrite IH. destruct (N.eqb_spec (N.pred k) (N.pred i)), (N.eqb_spec k i); try lia; cbn; auto.
          destruct (N.ltb_spec (N.pred i) (lenN l)), (N.ltb_spec i (N.succ (lenN l))); try lia; auto.
  Qed.
  Lemma lenN_setN l i x : lenN (setN l i x) = lenN l.
  Proof.
    revert i; induction l as [|y l IH]; intros i; cbn [setN]; auto.
    destruct (i =? 0); rewrite !lenN_cons; auto. now rewrite IH.
  Qed.

  Lemma lenN_repeatN_pos (x : A) p : lenN (repeatN_pos x p) = Npos p.
  Proof.
    induction p as [p IH|p IH|]; cbn [repeatN_pos].
    - rewrite lenN_cons, lenN_app, IH. lia.
    - rewrite lenN_app, IH. lia.
    - reflexivity.
  Qed.
  Lemma lenN_repeatN (x : A) n : lenN (repeatN x n) = n.
  Proof. destruct n; [reflexivity|apply lenN_repeatN_pos]. Qed.
  Lemma repeatN_pos_In (x : A) p y : In y (repeatN_pos x p) -> y = x.
  Proof.
    induction p as [p IH|p IH|]; cbn [repeatN_pos]; intros Hin.
    - destruct Hin as [<-|Hin]; auto. apply in_app_or in Hin. tauto.
    - apply in_app_or in Hin. tauto.
    - destruct Hin as [<-|[]]; auto.
  Qed.
  Lemma repeatN_spec (x : A) n : repeatN x n = repeat x (N.to_nat n).
  Proof.
    assert (forall l, (forall y, In y l -> y = x) -> l = repeat x (length l)) as Hrep.
    { induction l as [|y l IH]; intros Hy; cbn; auto. rewrite (Hy y) by (left; auto). f_equal. apply IH. intros z Hz. apply Hy. now right. }
    destruct n as [|p]; [reflexivity|]. cbn [repeatN].
    rewrite (Hrep (repeatN_pos x p) (repeatN_pos_In x p)). f_equal.
    pose proof (lenN_repeatN_pos x p) as Hl. unfold lenN in Hl. lia.
  Qed.
End ListN.

(* ---------- powers of two ---------- *)
Lemma pow2_pos k : 0 < pow2 k.
Proof. unfold pow2. apply N.neq_0_lt_0, N.pow_nonzero; lia. Qed.
Lemma pow2_S k : pow2 (S k) = 2 * pow2 k.
Proof. unfold pow2. replace (N.of_nat (S k)) with (N.succ (N.of_nat k)) by lia. apply N.pow_succ_r'. Qed.
Lemma pow2_0 : pow2 0 = 1. Proof. reflexivity. Qed.
Lemma pow2_add a b : pow2 (a + b) = pow2 a * pow2 b.
Proof. unfold pow2. rewrite Nat2N.inj_add. apply N.pow_add_r. Qed.
Lemma pow2_mono a b : (a <= b)%nat -> pow2 a <= pow2 b.
Proof. intros. unfold pow2. apply N.pow_le_mono_r; lia. Qed.
Lemma pow2_lt_inv a b : pow2 a < pow2 b -> (a < b)%nat.
Proof. intros Hl. destruct (le_lt_dec b a) as [L|L]; auto. apply pow2_mono in L. lia. Qed.
Lemma pow2_inj a b : pow2 a = pow2 b -> a = b.
Proof. unfold pow2. intros E. apply N.pow_inj_r in E; lia. Qed.

(* i mod 2^(k+1) split by bit k *)
Lemma mod_pow2_succ i k :
  i mod pow2 (S k) = i mod pow2 k + (if N.testbit i (N.of_nat k) then pow2 k else 0).
Proof.
  rewrite N.testbit_eqb, pow2_S. pose proof (pow2_pos k) as Hk. unfold pow2 in *.
  remember (2 ^ N.of_nat k) as p eqn:Ep. clear Ep.
  rewrite N.mul_comm, N.mod_mul_r by lia.
  destruct (N.eqb_spec ((i / p) mod 2) 1) as [E|E].
  - rewrite E, N.mul_1_r. reflexivity.
  - pose proof (N.mod_upper_bound (i/p) 2 ltac:(lia)) as Hb. revert E Hb.
    generalize ((i / p) mod 2) as b. intros b E Hb.
    assert (b = 0) as -> by lia. rewrite N.mul_0_r. reflexivity.
Qed.

(* trailing zeros *)
Lemma tz_succ_double p : tz (Npos (xO p)) = S (tz (Npos p)). Proof. reflexivity. Qed.
Lemma tz_odd p : tz (Npos (xI p)) = O. Proof. reflexivity. Qed.
