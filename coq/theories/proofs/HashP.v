(* HashP.v — task `hash`: the SSZ hash_tree_root specification (written from the consensus-spec text),
   the hash of a canonical tree is the SSZ merkleization, injectivity at equal length, int_log,
   the sequential specification of tree_hash, and the root of a collection is the SSZ root. *)
From Coq Require Import FMapPositive.
From MH Require Export Defs.
Local Open Scope N_scope.

(* ---------- generic list lemmas ---------- *)
Lemma takeN_map {A B} (f : A -> B) : forall l n, takeN n (map f l) = map f (takeN n l).
Proof.
  induction l as [|x l IH]; intros n; cbn [map takeN]; auto.
  destruct (n =? 0); cbn [map]; auto. now rewrite IH.
Qed.
Lemma dropN_map {A B} (f : A -> B) : forall l n, dropN n (map f l) = map f (dropN n l).
Proof.
  induction l as [|x l IH]; intros n; cbn [map dropN]; auto.
  destruct (n =? 0); cbn [map]; auto.
Qed.
Lemma lenN_map {A B} (f : A -> B) l : lenN (map f l) = lenN l.
Proof. unfold lenN. now rewrite map_length. Qed.
Lemma repeatN_add {A} (x : A) a b : repeatN x (a + b) = repeatN x a ++ repeatN x b.
Proof. rewrite !repeatN_spec, N2Nat.inj_add. apply repeat_app. Qed.

Section HashP.
  Context {T : Type}.
  Variable ek : ekind T.
  Variable H : digest -> digest -> digest.
  Hypothesis EKW : ek_wf ek.
  Notation tree := (tree T).
  Notation stree := (stree T).

  (* ====================================================================== *)
  (* Part A — the SSZ specification (consensus-specs, ssz/simple-serialize.md, "Merkleization") *)
  (* ====================================================================== *)

  (* pack(values): serialise the basic values, split into 32-byte chunks (the last one right-padded
     with zero bytes). A chunk holds pf = 32 / size values; as a little-endian number it is
     `chunk_of` of its group of values (zero padding does not change the number). *)
  Fixpoint groups (fuel : nat) (l : list T) : list (list T) :=
    match fuel with
    | O => []
    | S f => match l with
             | [] => []
             | _ :: _ => takeN (pf_of ek) l :: groups f (dropN (pf_of ek) l)
             end
    end.
  Definition groupsL (l : list T) : list (list T) := groups (length l) l.
  Definition pack (l : list T) : list digest := map (chunk_of ek) (groupsL l).
  (* the chunks that are merkleized: pack(values) for basic element types, the element roots for
     composite element types *)
  Definition chunks (l : list T) : list digest :=
    if is_packed ek then pack l else map (etroot ek) l.

  (* merkleize(chunks, limit) with limit padded to 2^depth: root of the perfect binary tree of the
     given depth whose leaves are the chunks followed by zero chunks *)
  Fixpoint merkleize (depth : nat) (cs : list digest) : digest :=
    match cs with
    | [] => zh H depth
    | c :: _ =>
        match depth with
        | O => c
        | S d' => H (merkleize d' (takeN (pow2 d') cs)) (merkleize d' (dropN (pow2 d') cs))
        end
    end.

  (* the naive definition: pad first, then hash the full tree *)
  Fixpoint merkle_full (depth : nat) (cs : list digest) : digest :=
    match depth with
    | O => hd 0 cs
    | S d' => H (merkle_full d' (takeN (pow2 d') cs)) (merkle_full d' (dropN (pow2 d') cs))
    end.
  Definition merkleize_naive (depth : nat) (cs : list digest) : digest :=
    merkle_full depth (cs ++ repeatN 0 (pow2 depth - lenN cs)).

  (* chunk_count(type): (N * size + 31) / 32 = ceil (N / pf) for List[basic, N] and Vector[basic, N],
     N for composite element types *)
  Definition chunk_count (n : N) : N :=
    if is_packed ek then (n + pf_of ek - 1) / pf_of ek else n.
  (* next_pow_of_two(limit) = 2^ceil_log2(limit) *)
  Definition ceil_log2 (n : N) : nat := N.to_nat (N.log2_up n).
  Definition chunk_depth (n : N) : nat := ceil_log2 (chunk_count n).

  (* mix_in_length(merkleize(pack(value), limit=chunk_count(type)), len(value)) *)
  Definition hash_tree_root_list (n : N) (l : list T) : digest :=
    H (merkleize (chunk_depth n) (chunks l)) (lenN l).
  Definition hash_tree_root_vector (n : N) (l : list T) : digest :=
    merkleize (chunk_depth n) (chunks l).

  (* ====================================================================== *)
  (* Part B.1 — hash of a canonical tree = merkleization *)
  (* ====================================================================== *)
  Lemma pf_pos : 0 < pf_of ek.
  Proof. apply pow2_pos. Qed.

  Lemma cap_pf d : cap ek d = pow2 d * pf_of ek.
  Proof. unfold cap, pf_of. apply pow2_add. Qed.

  Lemma canon_nil d : canon ek d [] = SZero d.
  Proof. destruct d; reflexivity. Qed.
  Lemma canon_S d l : l <> [] ->
    canon ek (S d) l = SNode (canon ek d (takeN (cap ek d) l)) (canon ek d (dropN (cap ek d) l)).
  Proof. destruct l; [congruence|reflexivity]. Qed.

  Lemma shash_canon_S d l :
    shash ek H (canon ek (S d) l) =
    H (shash ek H (canon ek d (takeN (cap ek d) l))) (shash ek H (canon ek d (dropN (cap ek d) l))).
  Proof.
    destruct l as [|v l'].
    - rewrite takeN_nil, dropN_nil, !canon_nil. reflexivity.
    - rewrite canon_S by congruence. reflexivity.
  Qed.

  Lemma merkleize_nil d : merkleize d [] = zh H d.
  Proof. destruct d; reflexivity. Qed.
  Lemma merkleize_S d cs :
    merkleize (S d) cs = H (merkleize d (takeN (pow2 d) cs)) (merkleize d (dropN (pow2 d) cs)).
  Proof.
    destruct cs as [|c cs']; [|reflexivity].
    rewrite takeN_nil, dropN_nil, !merkleize_nil. reflexivity.
  Qed.
  Lemma merkleize_0_cons c cs : merkleize 0 (c :: cs) = c.
  Proof. reflexivity. Qed.

  (* --- grouping --- *)
  Lemma length_dropN_pf (x : T) l : (length (dropN (pf_of ek) (x :: l)) <= length l)%nat.
  Proof.
    pose proof pf_pos as Hp. pose proof (lenN_dropN (pf_of ek) (x :: l)) as Hd.
    rewrite lenN_cons in Hd. unfold lenN in Hd. lia.
  Qed.

  Lemma groups_fuel : forall f g l, (length l <= f)%nat -> (length l <= g)%nat -> groups f l = groups g l.
  Proof.
    induction f as [|f IH]; intros g l Hf Hg.
    - destruct l; [|cbn in Hf; lia]. destruct g; reflexivity.
    - destruct g as [|g].
      + destruct l; [reflexivity|cbn in Hg; lia].
      + destruct l as [|x l]; [reflexivity|]. cbn [groups]. f_equal.
        cbn [length] in Hf, Hg. pose proof (length_dropN_pf x l).
        apply IH; lia.
  Qed.

  Lemma groupsL_nil : groupsL [] = [].
  Proof. reflexivity. Qed.
  Lemma groupsL_unfold l : l <> [] -> groupsL l = takeN (pf_of ek) l :: groupsL (dropN (pf_of ek) l).
  Proof.
    destruct l as [|x l]; [congruence|intros _].
    unfold groupsL. cbn [length groups]. f_equal.
    pose proof (length_dropN_pf x l). apply groups_fuel; lia.
  Qed.

  Lemma groupsL_app : forall k l1 l2, lenN l1 = k * pf_of ek -> groupsL (l1 ++ l2) = groupsL l1 ++ groupsL l2.
  Proof.
    pose proof pf_pos as Hp.
    induction k as [|k IH] using N.peano_ind; intros l1 l2 Hl.
    - rewrite N.mul_0_l in Hl. apply lenN_0 in Hl. subst l1. reflexivity.
    - assert (pf_of ek <= lenN l1) as Hle by (rewrite Hl; remember (pf_of ek) as p; clear Heqp; nia).
      assert (l1 <> []) as Hne1 by (intros ->; rewrite lenN_nil in Hle; lia).
      assert (l1 ++ l2 <> []) as Hne by (destruct l1; [congruence|discriminate]).
      rewrite (groupsL_unfold _ Hne), (groupsL_unfold _ Hne1).
      rewrite takeN_app_le, dropN_app_le by exact Hle.
      cbn [app]. f_equal. apply IH.
      rewrite lenN_dropN, Hl. remember (pf_of ek) as p. clear Heqp. nia.
  Qed.

  Lemma lenN_groupsL_exact : forall k l, lenN l = k * pf_of ek -> lenN (groupsL l) = k.
  Proof.
    pose proof pf_pos as Hp.
    induction k as [|k IH] using N.peano_ind; intros l Hl.
    - rewrite N.mul_0_l in Hl. apply lenN_0 in Hl. subst l. reflexivity.
    - assert (l <> []) as Hne.
      { intros ->. rewrite lenN_nil in Hl. remember (pf_of ek) as p; clear Heqp; nia. }
      rewrite (groupsL_unfold _ Hne), lenN_cons. f_equal. apply IH.
      rewrite lenN_dropN, Hl. remember (pf_of ek) as p. clear Heqp. nia.
  Qed.
  Lemma lenN_groupsL_le : forall k l, lenN l <= k * pf_of ek -> lenN (groupsL l) <= k.
  Proof.
    pose proof pf_pos as Hp.
    induction k as [|k IH] using N.peano_ind; intros l Hl.
    - rewrite N.mul_0_l in Hl. assert (lenN l = 0) as Hz by lia. apply lenN_0 in Hz. subst l. cbn. lia.
    - destruct l as [|x l]; [cbn; lia|].
      rewrite groupsL_unfold by congruence. rewrite lenN_cons.
      apply -> N.succ_le_mono. apply IH.
      rewrite lenN_dropN. remember (pf_of ek) as p. clear Heqp. nia.
  Qed.

  Lemma takeN_groupsL n l : takeN n (groupsL l) = groupsL (takeN (n * pf_of ek) l).
  Proof.
    destruct (N.le_gt_cases (lenN l) (n * pf_of ek)) as [Hle|Hgt].
    - rewrite (takeN_all (n * pf_of ek) l Hle). apply takeN_all. now apply lenN_groupsL_le.
    - assert (lenN (takeN (n * pf_of ek) l) = n * pf_of ek) as Hl by (rewrite lenN_takeN; lia).
      rewrite <- (takeN_dropN (n * pf_of ek) l) at 1.
      rewrite (groupsL_app n _ _ Hl).
      rewrite <- (lenN_groupsL_exact n _ Hl) at 1. apply takeN_app_exact.
  Qed.
  Lemma dropN_groupsL n l : dropN n (groupsL l) = groupsL (dropN (n * pf_of ek) l).
  Proof.
    destruct (N.le_gt_cases (lenN l) (n * pf_of ek)) as [Hle|Hgt].
    - rewrite (dropN_all (n * pf_of ek) l Hle). rewrite groupsL_nil. apply dropN_all. now apply lenN_groupsL_le.
    - assert (lenN (takeN (n * pf_of ek) l) = n * pf_of ek) as Hl by (rewrite lenN_takeN; lia).
      rewrite <- (takeN_dropN (n * pf_of ek) l) at 1.
      rewrite (groupsL_app n _ _ Hl).
      rewrite <- (lenN_groupsL_exact n _ Hl) at 1. apply dropN_app_exact.
  Qed.

  Lemma unpacked_pd : is_packed ek = false -> pd_of ek = O.
  Proof. unfold is_packed, pd_of. destruct (epd ek); [discriminate|reflexivity]. Qed.
  Lemma unpacked_cap d : is_packed ek = false -> cap ek d = pow2 d.
  Proof. intros Hu. unfold cap. rewrite (unpacked_pd Hu), Nat.add_0_r. reflexivity. Qed.

  Lemma takeN_chunks d l : takeN (pow2 d) (chunks l) = chunks (takeN (cap ek d) l).
  Proof.
    unfold chunks. destruct (is_packed ek) eqn:Hp.
    - unfold pack. rewrite takeN_map, takeN_groupsL, cap_pf. reflexivity.
    - rewrite takeN_map, (unpacked_cap d Hp). reflexivity.
  Qed.
  Lemma dropN_chunks d l : dropN (pow2 d) (chunks l) = chunks (dropN (cap ek d) l).
  Proof.
    unfold chunks. destruct (is_packed ek) eqn:Hp.
    - unfold pack. rewrite dropN_map, dropN_groupsL, cap_pf. reflexivity.
    - rewrite dropN_map, (unpacked_cap d Hp). reflexivity.
  Qed.

  Lemma cap_0 : cap ek 0 = pf_of ek.
  Proof. reflexivity. Qed.

  Theorem shash_canon_merkle : forall d l, lenN l <= cap ek d ->
    shash ek H (canon ek d l) = merkleize d (chunks l).
  Proof.
    induction d as [|d IH]; intros l Hl.
    - destruct l as [|v l'].
      + unfold chunks, pack. destruct (is_packed ek); reflexivity.
      + rewrite cap_0 in Hl. cbn [canon]. unfold chunks. destruct (is_packed ek) eqn:Hp.
        * unfold pack. rewrite groupsL_unfold by congruence.
          rewrite (takeN_all _ _ Hl), (dropN_all _ _ Hl), groupsL_nil. reflexivity.
        * reflexivity.
    - rewrite shash_canon_S, merkleize_S, takeN_chunks, dropN_chunks.
      pose proof (pow2_pos (d + pd_of ek)) as Hpos.
      assert (cap ek (S d) = 2 * cap ek d) as Hc by (unfold cap; cbn [Nat.add]; apply pow2_S).
      rewrite Hc in Hl. unfold cap in Hl, Hpos |- *. fold (cap ek d) in *.
      rewrite !IH; [reflexivity| |].
      + rewrite lenN_dropN. lia.
      + rewrite lenN_takeN. lia.
  Qed.

  (* ====================================================================== *)
  (* Part A, sanity — merkleize equals the naive pad-then-hash definition *)
  (* ====================================================================== *)
  Lemma takeN_app_exact' {A} n (l1 l2 : list A) : lenN l1 = n -> takeN n (l1 ++ l2) = l1.
  Proof. intros <-. apply takeN_app_exact. Qed.
  Lemma dropN_app_exact' {A} n (l1 l2 : list A) : lenN l1 = n -> dropN n (l1 ++ l2) = l2.
  Proof. intros <-. apply dropN_app_exact. Qed.

  Theorem merkleize_pad : forall d cs, lenN cs <= pow2 d -> merkleize d cs = merkleize_naive d cs.
  Proof.
    unfold merkleize_naive.
    induction d as [|d IH]; intros cs Hl.
    - change (pow2 0) with 1 in *.
      destruct cs as [|c [|c' cs']]; [reflexivity|reflexivity|].
      rewrite !lenN_cons in Hl. lia.
    - rewrite merkleize_S. cbn [merkle_full]. rewrite pow2_S in Hl |- *.
      pose proof (pow2_pos d) as Hpos. remember (pow2 d) as p eqn:Ep.
      destruct (N.le_gt_cases (lenN cs) p) as [Hle|Hgt].
      + rewrite (takeN_all p cs Hle), (dropN_all p cs Hle).
        replace (2 * p - lenN cs) with ((p - lenN cs) + p) by lia.
        rewrite repeatN_add, app_assoc.
        assert (lenN (cs ++ repeatN 0 (p - lenN cs)) = p) as Hlen by (rewrite lenN_app, lenN_repeatN; lia).
        rewrite (takeN_app_exact' p _ _ Hlen), (dropN_app_exact' p _ _ Hlen).
        rewrite (IH cs Hle), (IH [] ltac:(rewrite lenN_nil; lia)).
        change (lenN (@nil digest)) with 0. rewrite N.sub_0_r. reflexivity.
      + rewrite takeN_app_le, dropN_app_le by lia.
        rewrite (IH (takeN p cs)) by (rewrite lenN_takeN; lia).
        rewrite (IH (dropN p cs)) by (rewrite lenN_dropN; lia).
        rewrite lenN_takeN, lenN_dropN.
        replace (p - N.min p (lenN cs)) with 0 by lia.
        replace (p - (lenN cs - p)) with (2 * p - lenN cs) by lia.
        cbn [repeatN]. rewrite app_nil_r. reflexivity.
  Qed.

  (* ====================================================================== *)
  (* Part B.3 — injectivity at equal length *)
  (* ====================================================================== *)
  Lemma chunk_of_inj : is_packed ek = true -> forall l1 l2, length l1 = length l2 ->
    chunk_of ek l1 = chunk_of ek l2 -> l1 = l2.
  Proof.
    intros Hp. induction l1 as [|a l1 IH]; intros [|b l2] Hlen Hc; cbn [length] in Hlen; try lia; auto.
    cbn [chunk_of] in Hc.
    pose proof (ek_penc_lt ek EKW Hp a) as Ha. pose proof (ek_penc_lt ek EKW Hp b) as Hb.
    remember (2 ^ vbits ek) as B eqn:EB. clear EB.
    remember (chunk_of ek l1) as c1 eqn:E1. remember (chunk_of ek l2) as c2 eqn:E2.
    assert (c1 = c2) as Hcc.
    { destruct (N.lt_trichotomy c1 c2) as [Hlt|[Heq|Hgt]]; [exfalso; nia|exact Heq|exfalso; nia]. }
    assert (epenc ek a = epenc ek b) as Hab by (subst c2; lia).
    apply (ek_penc_inj ek EKW Hp) in Hab. subst b. f_equal.
    apply IH; [lia|congruence].
  Qed.

  Theorem shash_canon_inj : collision_free H -> troot_inj ek -> forall d l1 l2,
    lenN l1 = lenN l2 -> lenN l1 <= cap ek d ->
    shash ek H (canon ek d l1) = shash ek H (canon ek d l2) -> l1 = l2.
  Proof.
    intros [CF _] TI.
    induction d as [|d IH]; intros l1 l2 HL Hc Hh.
    - destruct l1 as [|a l1], l2 as [|b l2]; auto; try (rewrite lenN_cons, lenN_nil in HL; lia).
      cbn [canon] in Hh. destruct (is_packed ek) eqn:Hp; cbn [shash] in Hh.
      + apply (chunk_of_inj Hp); [|exact Hh]. unfold lenN in HL. lia.
      + apply (TI Hp) in Hh. subst b.
        rewrite (unpacked_cap 0 Hp), pow2_0 in Hc. rewrite !lenN_cons in HL. rewrite lenN_cons in Hc.
        assert (lenN l1 = 0) as Z1 by lia. assert (lenN l2 = 0) as Z2 by lia.
        apply lenN_0 in Z1, Z2. now subst.
    - rewrite !shash_canon_S in Hh. apply CF in Hh as [HA HB].
      pose proof (pow2_pos (d + pd_of ek)) as Hpos.
      assert (cap ek (S d) = 2 * cap ek d) as Hcs by (unfold cap; cbn [Nat.add]; apply pow2_S).
      rewrite Hcs in Hc. unfold cap in Hc, Hpos. fold (cap ek d) in *.
      apply IH in HA; [| rewrite !lenN_takeN; lia | rewrite lenN_takeN; lia].
      apply IH in HB; [| rewrite !lenN_dropN; lia | rewrite lenN_dropN; lia].
      rewrite <- (takeN_dropN (cap ek d) l1), <- (takeN_dropN (cap ek d) l2). congruence.
  Qed.

  (* ====================================================================== *)
  (* Part B.2 — int_log and the depth of a collection *)
  (* ====================================================================== *)
  Lemma int_log_aux_spec : forall f d n,
    (forall d', (d' < d)%nat -> pow2 d' < n) -> n <= pow2 (d + f) ->
    n <= pow2 (int_log_aux f d n) /\ (forall d', (d' < int_log_aux f d n)%nat -> pow2 d' < n).
  Proof.
    induction f as [|f IH]; intros d n Hlow Hup; cbn [int_log_aux].
    - rewrite Nat.add_0_r in Hup. auto.
    - destruct (N.leb_spec n (pow2 d)) as [Hle|Hgt]; [auto|].
      apply IH.
      + intros d' Hd'. destruct (Nat.eq_dec d' d) as [->|Hne]; [exact Hgt|apply Hlow; lia].
      + replace (S d + f)%nat with (d + S f)%nat by lia. exact Hup.
  Qed.

  Lemma int_log_spec_gen : forall n, n <= pow2 64 ->
    n <= pow2 (int_log n) /\ (forall d, n <= pow2 d -> (int_log n <= d)%nat).
  Proof.
    intros n Hn. unfold int_log.
    destruct (int_log_aux_spec 64 0 n) as [Hub Hleast].
    - intros d' Hd'. lia.
    - exact Hn.
    - split; [exact Hub|]. intros d Hd.
      destruct (le_lt_dec (int_log_aux 64 0 n) d) as [Hle|Hlt]; [exact Hle|].
      apply Hleast in Hlt. lia.
  Qed.

  Lemma int_log_spec : forall n, n <= 2 ^ 63 ->
    n <= pow2 (int_log n) /\ (forall d, n <= pow2 d -> (int_log n <= d)%nat).
  Proof.
    intros n Hn. apply int_log_spec_gen.
    change (2 ^ 63) with (pow2 63) in Hn. pose proof (pow2_mono 63 64 ltac:(lia)). lia.
  Qed.

  Lemma int_log_le_64 n : (int_log n <= 64)%nat.
  Proof.
    unfold int_log.
    assert (forall f d, (int_log_aux f d n <= d + f)%nat) as Hb.
    { induction f as [|f IH]; intros d; cbn [int_log_aux]; [lia|].
      destruct (n <=? pow2 d); [lia|]. specialize (IH (S d)). lia. }
    apply (Hb 64%nat O).
  Qed.

  Lemma chunk_count_le n m : chunk_count n <= m <-> n <= m * pf_of ek.
  Proof.
    unfold chunk_count. destruct (is_packed ek) eqn:Hp.
    - pose proof pf_pos as Hpos. remember (pf_of ek) as p eqn:Ep. clear Ep.
      pose proof (N.div_mod (n + p - 1) p ltac:(lia)) as Hdm.
      pose proof (N.mod_upper_bound (n + p - 1) p ltac:(lia)) as Hmod.
      remember ((n + p - 1) / p) as q eqn:Eq. remember ((n + p - 1) mod p) as r eqn:Er. clear Eq Er.
      split; intros Hle; nia.
    - unfold pf_of. rewrite (unpacked_pd Hp), pow2_0. lia.
  Qed.

  (* capacity 0 (List<T, U0> / Vector<T, U0>): no chunk, depth 0 on both sides *)
  Lemma chunk_count_0 : chunk_count 0 = 0.
  Proof.
    unfold chunk_count. destruct (is_packed ek); [|reflexivity].
    pose proof pf_pos as Hpos. apply N.div_small. lia.
  Qed.
  Lemma list_depth_0 : list_depth ek 0 = 0%nat.
  Proof. unfold list_depth. change (int_log 0) with 0%nat. reflexivity. Qed.
  Lemma chunk_depth_0 : chunk_depth 0 = 0%nat.
  Proof. unfold chunk_depth, ceil_log2. rewrite chunk_count_0. reflexivity. Qed.

  Theorem depth_is_chunk_depth : forall n, n <= 2 ^ 63 -> list_depth ek n = chunk_depth n.
  Proof.
    intros n Hn. destruct (N.eq_0_gt_0_cases n) as [->|H1].
    { rewrite list_depth_0, chunk_depth_0. reflexivity. }
    destruct (int_log_spec n Hn) as [Hub Hleast].
    unfold list_depth, chunk_depth, ceil_log2.
    remember (int_log n) as d eqn:Ed. clear Ed.
    assert (0 < chunk_count n) as Hcpos.
    { destruct (N.eq_0_gt_0_cases (chunk_count n)) as [Hz|Hz]; [|exact Hz].
      assert (chunk_count n <= 0) as Hz' by lia. apply chunk_count_le in Hz'. lia. }
    apply Nat.le_antisymm.
    - (* d - pd <= ceil_log2: the chunk count fits in 2^e, so n fits in 2^(e+pd) *)
      remember (N.to_nat (N.log2_up (chunk_count n))) as e eqn:Ee.
      assert (chunk_count n <= pow2 e) as Hce.
      { unfold pow2. rewrite Ee, N2Nat.id. apply (N.log2_up_le_pow2 _ _ Hcpos). lia. }
      apply chunk_count_le in Hce. unfold pf_of in Hce. rewrite <- pow2_add in Hce.
      apply Hleast in Hce. lia.
    - (* ceil_log2 <= d - pd *)
      assert (N.log2_up (chunk_count n) <= N.of_nat (d - pd_of ek)) as Hl; [|lia].
      apply (N.log2_up_le_pow2 _ _ Hcpos). fold (pow2 (d - pd_of ek)).
      apply chunk_count_le. unfold pf_of. rewrite <- pow2_add.
      pose proof (pow2_mono d (d - pd_of ek + pd_of ek) ltac:(lia)). lia.
  Qed.

  (* ====================================================================== *)
  (* Part B.4 — sequential specification of tree_hash under exact memo reads *)
  (* ====================================================================== *)
  Lemma mget_mset s i d j : mget (mset s i d) j = if Pos.eqb j i then d else mget s j.
  Proof.
    unfold mget, mset; cbn [memo]. destruct (Pos.eqb_spec j i) as [->|Hne].
    - rewrite PositiveMap.gss. reflexivity.
    - rewrite PositiveMap.gso by auto. reflexivity.
  Qed.

  Lemma hash_spec_leaf i v : hash_spec ek H (Leaf i v) = etroot ek v.
  Proof. reflexivity. Qed.
  Lemma hash_spec_packed i vs : hash_spec ek H (Packed i vs) = chunk_of ek vs.
  Proof. reflexivity. Qed.
  Lemma hash_spec_node i (l r : tree) : hash_spec ek H (Node i l r) = H (hash_spec ek H l) (hash_spec ek H r).
  Proof. reflexivity. Qed.
  Lemma hash_spec_zero i d : hash_spec ek H (@Zero T i d) = zh H d.
  Proof. reflexivity. Qed.

  Lemma subt_refl (t : tree) : subt t t.
  Proof. destruct t; left; reflexivity. Qed.
  Lemma subt_trans (u v t : tree) : subt u v -> subt v t -> subt u t.
  Proof.
    revert u v. induction t as [i w|i ws|i l IHl r IHr|i d]; intros u v Huv [->|Hv]; auto; cbn in Hv |- *; try contradiction.
    right. destruct Hv as [Hv|Hv]; [left; eapply IHl|right; eapply IHr]; eauto.
  Qed.
  Lemma subt_In_id (u t : tree) : subt u t -> In_id (idof u) t.
  Proof.
    induction t as [i w|i ws|i l IHl r IHr|i d]; intros [->|Hu]; try (left; reflexivity); cbn in Hu; try contradiction.
    right. destruct Hu as [Hu|Hu]; [left|right]; auto.
  Qed.

  (* nothing is allocated; a memo changes only from absent (0) to the true hash of the memo-carrying
     subtree of t it labels (a memo that is set is never overwritten) *)
  Definition changes (s s' : state) (t : tree) : Prop :=
    next s' = next s /\
    forall j, mget s' j = mget s j \/
      exists u, subt u t /\ has_memo u = true /\ idof u = j /\ mget s j = 0 /\ mget s' j = hash_spec ek H u.

  Lemma changes_refl s t : changes s s t.
  Proof. split; [reflexivity|]. intros j. left. reflexivity. Qed.

  (* frame: memos of identities that do not occur in t are untouched *)
  Lemma changes_outside s s' t : changes s s' t -> forall j, ~ In_id j t -> mget s' j = mget s j.
  Proof.
    intros [_ C] j Hj. destruct (C j) as [E|(u & Hu & _ & Eid & _ & _)]; [exact E|].
    exfalso. apply Hj. rewrite <- Eid. now apply subt_In_id.
  Qed.
  Lemma changes_memo_below s s' t : changes s s' t -> below (next s) t -> memo_below s -> memo_below s'.
  Proof.
    intros Ch B MB j Hj. destruct Ch as [Hn C]. rewrite Hn in Hj.
    destruct (C j) as [E|(u & Hu & _ & Eid & _ & _)]; [rewrite E; now apply MB|].
    exfalso. apply subt_In_id in Hu. apply B in Hu. rewrite Eid in Hu. lia.
  Qed.

  Lemma mvalid_changes_gen s s' t t2 :
    changes s s' t -> mvalid ek H s t2 ->
    (forall u v, subt u t -> subt v t2 -> idof u = idof v -> u = v) -> mvalid ek H s' t2.
  Proof.
    intros [_ C] V IDF v Hv Hm. destruct (C (idof v)) as [E|(u & Hu & Hmu & Eid & _ & Ev)].
    - rewrite E. apply V; auto.
    - right. rewrite Ev. f_equal. eapply IDF; eauto.
  Qed.

  (* the frame lemma other handles use: validity of the memos of any other tree whose identities are
     consistent with t's is preserved by hashing t *)
  Theorem mvalid_changes : forall s s' t t2,
    changes s s' t -> idf [t; t2] -> mvalid ek H s t2 -> mvalid ek H s' t2.
  Proof.
    intros s s' t t2 Ch IDF V. eapply mvalid_changes_gen; [exact Ch|exact V|].
    intros u v Hu Hv. apply (IDF t t2); cbn; auto.
  Qed.

  Lemma idf_sub (t : tree) : idf [t] -> forall u v, subt u t -> subt v t -> idof u = idof v -> u = v.
  Proof. intros IDF u v Hu Hv. apply (IDF t t); cbn; auto. Qed.
  Lemma idf_single_sub (t t' : tree) : idf [t] -> subt t' t -> idf [t'].
  Proof.
    intros IDF Hs t1 t2 u v [<-|[]] [<-|[]] Hu Hv.
    apply (idf_sub t IDF); eapply subt_trans; eauto.
  Qed.

  Definition th_post (t : tree) (s0 : state) (o : outcome digest) (s' : state) : Prop :=
    o = Ok (hash_spec ek H t) /\ changes s0 s' t /\ mvalid ek H s' t /\
    (has_memo t = true -> mget s' (idof t) = hash_spec ek H t).

  Theorem tree_hash_exact : forall t s, idf [t] -> mvalid ek H s t ->
    (forall vs i, subt (Packed i vs) t -> lenN vs <= pf_of ek) ->
    wp Rexact (tree_hash ek H t) (th_post t s) s.
  Proof.
    induction t as [i v|i vs|i l IHl r IHr|i d]; intros s IDF V PK; cbn [tree_hash wp].
    - (* Leaf *)
      intros e He. unfold Rexact in He. subst e.
      pose proof (V _ (or_introl eq_refl) eq_refl) as Hv. cbn [idof] in Hv. rewrite hash_spec_leaf in Hv.
      destruct (N.eqb_spec (mget s i) 0) as [Z|NZ]; cbn [negb wp].
      + assert (Ch: changes s (mset s i (etroot ek v)) (Leaf i v)).
        { split; [reflexivity|]. intros j. rewrite mget_mset. destruct (Pos.eqb_spec j i) as [->|Hne]; auto.
          right. exists (Leaf i v). cbn. auto. }
        split; [reflexivity|split; [exact Ch|split]].
        * eapply mvalid_changes_gen; [exact Ch|exact V|]. intros u w [->|[]] [->|[]] _. reflexivity.
        * intros _. cbn [idof]. rewrite mget_mset, Pos.eqb_refl. reflexivity.
      + destruct Hv as [Hv|Hv]; [congruence|].
        split; [rewrite hash_spec_leaf; congruence|split; [apply changes_refl|split; [exact V|]]].
        intros _. exact Hv.
    - (* Packed *)
      intros e He. unfold Rexact in He. subst e.
      pose proof (V _ (or_introl eq_refl) eq_refl) as Hv. cbn [idof] in Hv. rewrite hash_spec_packed in Hv.
      pose proof (PK vs i (or_introl eq_refl)) as Hlen.
      destruct (N.eqb_spec (mget s i) 0) as [Z|NZ]; cbn [negb wp].
      + match goal with |- context [N.ltb ?a ?b] => destruct (N.ltb_spec a b) as [Hlt|Hge] end; [lia|].
        cbn [wp].
        assert (Ch: changes s (mset s i (chunk_of ek vs)) (Packed i vs)).
        { split; [reflexivity|]. intros j. rewrite mget_mset. destruct (Pos.eqb_spec j i) as [->|Hne]; auto.
          right. exists (Packed i vs). cbn. auto. }
        split; [reflexivity|split; [exact Ch|split]].
        * eapply mvalid_changes_gen; [exact Ch|exact V|]. intros u w [->|[]] [->|[]] _. reflexivity.
        * intros _. cbn [idof]. rewrite mget_mset, Pos.eqb_refl. reflexivity.
      + destruct Hv as [Hv|Hv]; [congruence|].
        split; [rewrite hash_spec_packed; congruence|split; [apply changes_refl|split; [exact V|]]].
        intros _. exact Hv.
    - (* Node *)
      intros e He. unfold Rexact in He. subst e.
      pose proof (V _ (or_introl eq_refl) eq_refl) as Hv. cbn [idof] in Hv. rewrite hash_spec_node in Hv.
      assert (Sl: subt l (Node i l r)) by (right; left; apply subt_refl).
      assert (Sr: subt r (Node i l r)) by (right; right; apply subt_refl).
      assert (IDFl: idf [l]) by (apply (idf_single_sub (Node i l r)); assumption).
      assert (IDFr: idf [r]) by (apply (idf_single_sub (Node i l r)); assumption).
      assert (Vl: mvalid ek H s l) by (intros u Hu; apply V; eapply subt_trans; eauto).
      assert (Vr: mvalid ek H s r) by (intros u Hu; apply V; eapply subt_trans; eauto).
      assert (PKl: forall vs j, subt (Packed j vs) l -> lenN vs <= pf_of ek)
        by (intros vs j Hu; apply (PK vs j); eapply subt_trans; eauto).
      assert (PKr: forall vs j, subt (Packed j vs) r -> lenN vs <= pf_of ek)
        by (intros vs j Hu; apply (PK vs j); eapply subt_trans; eauto).
      destruct (N.eqb_spec (mget s i) 0) as [Z|NZ]; cbn [negb wp].
      + eapply wp_mono; [|apply (IHl s IDFl Vl PKl)].
        intros [a|e1|c1] s1 (Ea & Ch1 & V1 & M1); try discriminate. injection Ea as ->.
        assert (Vr1: mvalid ek H s1 r).
        { eapply mvalid_changes_gen; [exact Ch1|exact Vr|]. intros u w Hu Hw.
          apply (idf_sub _ IDF); eapply subt_trans; eauto. }
        eapply wp_mono; [|apply (IHr s1 IDFr Vr1 PKr)].
        intros [b|e2|c2] s2 (Eb & Ch2 & V2 & M2); try discriminate. injection Eb as ->.
        cbn [wp].
        remember (mset s2 i (H (hash_spec ek H l) (hash_spec ek H r))) as s3 eqn:Es3.
        assert (Ch: changes s s3 (Node i l r)).
        { destruct Ch1 as [N1 C1], Ch2 as [N2 C2]. split; [subst s3; cbn [mset next]; congruence|].
          intros j. subst s3. rewrite mget_mset.
          destruct (Pos.eqb_spec j i) as [->|NE].
          - right. exists (Node i l r). cbn. auto.
          - destruct (C2 j) as [E2|(u & Hu & Hm & Ej & Z2 & Ev)].
            + rewrite E2. destruct (C1 j) as [E1|(u & Hu & Hm & Ej & Z1 & Ev)]; auto.
              right. exists u. split; [eapply subt_trans; eauto|auto].
            + right. exists u. split; [eapply subt_trans; eauto|].
              assert (mget s j = 0) as Z0.
              { destruct (C1 j) as [E1|(u1 & _ & _ & _ & Z1 & _)]; [congruence|exact Z1]. }
              auto. }
        split; [reflexivity|split; [exact Ch|split]].
        * eapply mvalid_changes_gen; [exact Ch|exact V|]. intros u w Hu Hw. apply (idf_sub _ IDF); auto.
        * intros _. subst s3. cbn [idof]. rewrite mget_mset, Pos.eqb_refl. reflexivity.
      + destruct Hv as [Hv|Hv]; [congruence|].
        split; [rewrite hash_spec_node; congruence|split; [apply changes_refl|split; [exact V|]]].
        intros _. exact Hv.
    - (* Zero *)
      split; [reflexivity|split; [apply changes_refl|split; [exact V|]]]. intros F; discriminate.
  Qed.

  (* a packed leaf of a tree in canonical form holds at most pf values *)
  Lemma canon_packed_le : forall d (t : tree) l, shape t = canon ek d l -> lenN l <= cap ek d ->
    forall vs i, subt (Packed i vs) t -> lenN vs <= pf_of ek.
  Proof.
    induction d as [|d IH]; intros t l Hs Hl vs i Hu.
    - destruct l as [|v l'].
      + rewrite canon_nil in Hs. destruct t; cbn [shape] in Hs; try discriminate.
        destruct Hu as [Hu|[]]; discriminate.
      + cbn [canon] in Hs. destruct (is_packed ek).
        * destruct t; cbn [shape] in Hs; try discriminate. injection Hs as ->.
          destruct Hu as [Hu|[]]. injection Hu as _ ->. rewrite cap_0 in Hl. exact Hl.
        * destruct t; cbn [shape] in Hs; try discriminate. destruct Hu as [Hu|[]]; discriminate.
    - destruct l as [|v l'].
      + rewrite canon_nil in Hs. destruct t; cbn [shape] in Hs; try discriminate.
        destruct Hu as [Hu|[]]; discriminate.
      + rewrite canon_S in Hs by congruence.
        destruct t as [j w|j ws|j tl tr|j z]; cbn [shape] in Hs; try discriminate.
        injection Hs as Hsl Hsr.
        pose proof (pow2_pos (d + pd_of ek)) as Hpos.
        assert (cap ek (S d) = 2 * cap ek d) as Hc by (unfold cap; cbn [Nat.add]; apply pow2_S).
        rewrite Hc in Hl. unfold cap in Hl, Hpos. fold (cap ek d) in *.
        assert (lenN (takeN (cap ek d) (v :: l')) <= cap ek d) as HA by (rewrite lenN_takeN; lia).
        assert (lenN (dropN (cap ek d) (v :: l')) <= cap ek d) as HB by (rewrite lenN_dropN; lia).
        destruct Hu as [Hu|[Hu|Hu]]; [discriminate| |].
        * exact (IH tl _ Hsl HA vs i Hu).
        * exact (IH tr _ Hsr HB vs i Hu).
  Qed.

  (* ====================================================================== *)
  (* Part B.5 — the root of a collection is the SSZ hash_tree_root *)
  (* ====================================================================== *)
  Lemma cap_list_depth n : n <= 2 ^ 63 -> n <= cap ek (list_depth ek n).
  Proof.
    intros Hn. destruct (int_log_spec n Hn) as [Hub _].
    unfold cap, list_depth.
    pose proof (pow2_mono (int_log n) (int_log n - pd_of ek + pd_of ek) ltac:(lia)). lia.
  Qed.

  Section Root.
    Context {U : Type}.
    Variable M : umap_impl T U.

    Definition ssz_root (is_list : bool) (n : N) (l : list T) : digest :=
      if is_list then hash_tree_root_list n l else hash_tree_root_vector n l.

    (* h: a List (hlist h = true) or Vector handle of type capacity n whose backing tree is the
       canonical tree of l, whose length (pending updates included) is that of l *)
    Theorem root_is_ssz : forall (n : N) (h : handle T U) (l : list T) (s : state),
      n <= 2 ^ 63 -> lenN l <= n ->
      shape (htree h) = canon ek (list_depth ek n) l ->
      iface_len M h = lenN l ->
      idf [htree h] -> mvalid ek H s (htree h) ->
      wp Rexact (coll_tree_hash_root ek M H h)
         (fun o s' => o = Ok (ssz_root (hlist h) n l) /\
                      changes s s' (htree h) /\ mvalid ek H s' (htree h) /\
                      (has_memo (htree h) = true -> mget s' (idof (htree h)) = hash_spec ek H (htree h))) s.
    Proof.
      intros n h l s Hn Hl Hs Hlen IDF V.
      pose proof (cap_list_depth n Hn) as Hcap.
      assert (lenN l <= cap ek (list_depth ek n)) as Hlc by lia.
      unfold coll_tree_hash_root. apply wp_bind.
      eapply wp_mono; [|apply (tree_hash_exact (htree h) s IDF V)].
      - intros [a|e|c] s' (Ea & Ch & V' & M'); try discriminate. injection Ea as ->.
        assert (hash_spec ek H (htree h) = merkleize (chunk_depth n) (chunks l)) as Hroot.
        { unfold hash_spec. rewrite Hs, (shash_canon_merkle _ _ Hlc), (depth_is_chunk_depth n Hn). reflexivity. }
        cbn [lift]. unfold ssz_root. destruct (hlist h); cbn [wp].
        + split; [|auto]. unfold hash_tree_root_list. rewrite Hroot, Hlen. reflexivity.
        + split; [|auto]. unfold hash_tree_root_vector. rewrite Hroot. reflexivity.
      - exact (canon_packed_le _ _ _ Hs Hlc).
    Qed.

    (* the same from the per-handle invariant of Defs.v, for a handle without pending updates
       (the condition under which System.step hashes, and which the Rust code asserts) *)
    Theorem root_is_ssz_hinv : forall (uinv : U -> Prop) (n : N) (h : handle T U) (l : list T) (s : state),
      umap_lawful ek M uinv -> n <= 2 ^ 63 ->
      hinv ek M n uinv h l -> has_pending M h = false ->
      idf [htree h] -> mvalid ek H s (htree h) ->
      wp Rexact (coll_tree_hash_root ek M H h)
         (fun o s' => o = Ok (ssz_root (hlist h) n l) /\
                      changes s s' (htree h) /\ mvalid ek H s' (htree h) /\
                      (has_memo (htree h) = true -> mget s' (idof (htree h)) = hash_spec ek H (htree h))) s.
    Proof.
      intros uinv n h l s UL Hn HI HP IDF V.
      destruct HI as ((bl & Hs & Hbl & Hag & Hul) & Hd & Hln & _ & _ & Hui).
      assert (forall k, uget M (hupd h) k = None) as Hnone.
      { apply (ul_len_0 ek M uinv UL _ Hui). unfold has_pending, uis_empty in HP.
        apply negb_false_iff in HP. now apply N.eqb_eq in HP. }
      destruct Hag as (Hle & _ & Hsame & Hext).
      assert (lenN l <= lenN bl) as Hle'.
      { destruct (N.le_gt_cases (lenN l) (lenN bl)) as [Hc|Hc]; [exact Hc|].
        exfalso. apply (Hext (lenN bl)); [lia|exact Hc|apply Hnone]. }
      assert (bl = l) as ->.
      { apply listN_ext. intros k. destruct (N.lt_ge_cases k (lenN bl)) as [Hk|Hk].
        - symmetry. apply Hsame; [apply Hnone|exact Hk].
        - transitivity (@None T); [|symmetry]; apply nthN_None; lia. }
      apply root_is_ssz; auto.
      rewrite <- Hd. exact Hs.
    Qed.
    (* the sequential interpreter (what is extracted and run against the Rust code) returns the SSZ root *)
    Corollary root_is_ssz_run : forall (n : N) (h : handle T U) (l : list T) (s : state),
      n <= 2 ^ 63 -> lenN l <= n ->
      shape (htree h) = canon ek (list_depth ek n) l ->
      iface_len M h = lenN l ->
      idf [htree h] -> mvalid ek H s (htree h) ->
      fst (run (coll_tree_hash_root ek M H h) s) = Ok (ssz_root (hlist h) n l).
    Proof.
      intros n h l s Hn Hl Hs Hlen IDF V.
      pose proof (wp_run _ _ _ (root_is_ssz n h l s Hn Hl Hs Hlen IDF V)) as Hr.
      cbv beta in Hr. tauto.
    Qed.
  End Root.

End HashP.


(* P9's negative result on a concrete instance (element kind Hash256, any H): without the length
   hypothesis the hash of a canonical tree does not determine the list — [z; z] and [z] with z the
   all-zero hash have the same depth-1 tree hash (the F2 phenomenon). *)
Theorem shash_not_inj_without_length : forall H : digest -> digest -> digest,
  let z := repeat 0 32%nat in
  [z; z] <> [z] /\ lenN [z; z] <> lenN [z] /\
  lenN [z; z] <= cap ek_h256 1 /\ lenN [z] <= cap ek_h256 1 /\
  shash ek_h256 H (canon ek_h256 1 [z; z]) = shash ek_h256 H (canon ek_h256 1 [z]).
Proof.
  intros H z. repeat split; try discriminate; vm_compute; congruence.
Qed.

(* ---------- sanity checks of the specification by computation (tests, not theorems) ---------- *)
Example chunks_u64 :
  chunks (ek_uint 3) (map (num_le 8) [1; 2; 3; 4; 5]) = [1 + 2 * 2 ^ 64 + 3 * 2 ^ 128 + 4 * 2 ^ 192; 5].
Proof. vm_compute. reflexivity. Qed.
Example chunks_u8 : chunks (ek_uint 0) (map (num_le 1) [7; 1; 255]) = [7 + 1 * 2 ^ 8 + 255 * 2 ^ 16].
Proof. vm_compute. reflexivity. Qed.
Example chunks_h256 : chunks ek_h256 (map (num_le 32) [7; 0; 9]) = [7; 0; 9].
Proof. vm_compute. reflexivity. Qed.
Example chunk_depth_u64_16 : chunk_depth (ek_uint 3) 16 = 2%nat /\ list_depth (ek_uint 3) 16 = 2%nat.
Proof. vm_compute. auto. Qed.
Example chunk_depth_u64_17 : chunk_depth (ek_uint 3) 17 = 3%nat /\ list_depth (ek_uint 3) 17 = 3%nat.
Proof. vm_compute. auto. Qed.
Example chunk_depth_u64_3 : chunk_depth (ek_uint 3) 3 = 0%nat /\ list_depth (ek_uint 3) 3 = 0%nat.
Proof. vm_compute. auto. Qed.
Example chunk_depth_h256_big : chunk_depth ek_h256 (2 ^ 40) = 40%nat /\ list_depth ek_h256 (2 ^ 40) = 40%nat.
Proof. vm_compute. auto. Qed.
Example chunk_depth_u8_max : chunk_depth (ek_uint 0) (2 ^ 63) = 58%nat /\ list_depth (ek_uint 0) (2 ^ 63) = 58%nat.
Proof. vm_compute. auto. Qed.
Example merkleize_3 : forall H a b c,
  merkleize H 2 [a; b; c] = H (H a b) (H c 0) /\ merkleize H 3 [a] = H (H (H a 0) (H 0 0)) (H (H 0 0) (H 0 0)).
Proof. intros. vm_compute. auto. Qed.

Print Assumptions merkleize_pad.
Print Assumptions shash_canon_merkle.
Print Assumptions shash_canon_inj.
Print Assumptions shash_not_inj_without_length.
Print Assumptions int_log_spec.
Print Assumptions depth_is_chunk_depth.
Print Assumptions mvalid_changes.
Print Assumptions tree_hash_exact.
Print Assumptions root_is_ssz.
Print Assumptions root_is_ssz_hinv.
Print Assumptions root_is_ssz_run.
