(* RebaseP.v — proofs about Tree::rebase_on (model/Rebase.v) and List/Vector::rebase_on
   (coll_rebase_on, model/Coll.v).  Proof file; no model code.

   Section assumptions (premises of every exported theorem): EKW : ek_wf ek, and
   hs_inj : the specification hash is injective on canonical trees of equal full depth and length
   (wfc); hs_inj_from_canon_inj derives it from a statement of the form of HashP.shash_canon_inj.

   Exported:
   1. rebase_shape / rebase_shape_vec     demonic reads (Rdem truth): no Err/Panic, replacement has orig's
                                          shape, Equal* only for equal shapes            (post)
   2. rebase_state / rebase_state_vec     exact reads: frame, memo_below kept, below, mvalid, fresh_or_from,
                                          fresh identities used once                       (post2)
      post2_replacement, idf_install      uniform reading of post2; idf is kept when the result is installed
   3. rebase_sharing / _vec               demonic reads, disjoint identities: sharing, EqualNoop unreachable (post8)
      rebase_sharing_exact / _vec         the same under exact reads, together with post2
      rebase_full_gen                     2 and 3 for ANY read relation whose reads are sound (reads_ok)
   4. coll_rebase_on_spec, coll_rebase_on_hinv, coll_rebase_on_sharing (exact reads), coll_rebase_on_dem (demonic)
   List form: lengths = Some (n1, n2); vector form (_vec): lengths = None and equal element counts;
   the *_gen lemmas cover both through lens_ok. *)
From Coq Require Import FMapPositive.
From MH Require Import Defs.
Local Open Scope N_scope.

Section RebaseP.
Context {T : Type}.
Variable ek : ekind T.
Variable H : digest -> digest -> digest.
Hypothesis EKW : ek_wf ek.
Notation tree := (tree T).
Notation stree := (stree T).
Notation action := (action T).

(* ---------- element / list equality ---------- *)
Lemma list_eqb_spec : forall a b : list T, list_eqb ek a b = true <-> a = b.
Proof.
  induction a as [|x a IHa]; intros [|y b]; cbn [list_eqb]; split; intros E; try discriminate; auto.
  - apply andb_prop in E as [E1 E2]. apply (ek_eqb_spec ek EKW) in E1. apply IHa in E2. congruence.
  - injection E as -> ->. apply andb_true_intro. split; [apply (ek_eqb_spec ek EKW); reflexivity|apply IHa; reflexivity].
Qed.

Lemma pd_unpacked : is_packed ek = false -> pd_of ek = O.
Proof. unfold is_packed, pd_of. destruct (epd ek); [discriminate|reflexivity]. Qed.

(* ---------- inversion of canon ---------- *)
Lemma canon_node_inv d l a b : canon ek d l = SNode a b ->
  exists d', d = S d' /\ a = canon ek d' (takeN (cap ek d') l) /\ b = canon ek d' (dropN (cap ek d') l).
Proof.
  destruct d as [|d']; destruct l as [|v l]; cbn [canon]; try discriminate.
  - destruct (is_packed ek); discriminate.
  - intros E. injection E as <- <-. exists d'. auto.
Qed.
Lemma canon_leaf_inv d l v : canon ek d l = SLeaf v -> d = O /\ is_packed ek = false.
Proof.
  destruct d as [|d']; destruct l as [|w l]; cbn [canon]; try discriminate.
  destruct (is_packed ek); [discriminate|auto].
Qed.
Lemma canon_packed_inv d l vs : canon ek d l = SPacked vs -> d = O /\ is_packed ek = true.
Proof.
  destruct d as [|d']; destruct l as [|w l]; cbn [canon]; try discriminate.
  destruct (is_packed ek); [auto|discriminate].
Qed.

Lemma cap_S d : cap ek (S d) = 2 * cap ek d.
Proof. unfold cap. cbn [Nat.add]. apply pow2_S. Qed.

(* ---------- well-formedness indexed by the model's full depth and the element count ---------- *)
Definition wfc (fd : nat) (n : N) (t : tree) : Prop :=
  exists d l, fd = (d + pd_of ek)%nat /\ shape t = canon ek d l /\ lenN l = n /\ n <= cap ek d.

Lemma minN_min a b : minN a b = N.min a b.
Proof. unfold minN. destruct (N.leb_spec a b); lia. Qed.

Lemma wfc_node fd n i l r : wfc (S fd) n (Node i l r) ->
  wfc fd (minN n (pow2 fd)) l /\ wfc fd (n - minN n (pow2 fd)) r.
Proof.
  intros (d & bl & Efd & Esh & Elen & Ebd). cbn [shape] in Esh. symmetry in Esh.
  apply canon_node_inv in Esh as (d' & -> & El & Er).
  assert (Ed : fd = (d' + pd_of ek)%nat) by lia. rewrite cap_S in Ebd.
  assert (Ec : cap ek d' = pow2 fd) by (unfold cap; rewrite Ed; reflexivity).
  rewrite minN_min, <- Ec. remember (cap ek d') as c eqn:Hc. clear Ec. split.
  - exists d', (takeN c bl). split; [exact Ed|]. split; [exact El|]. rewrite lenN_takeN, <- Hc. clear Hc. lia.
  - exists d', (dropN c bl). split; [exact Ed|]. split; [exact Er|]. rewrite lenN_dropN, <- Hc. clear Hc. lia.
Qed.
Lemma wfc_leaf fd n i v : wfc fd n (Leaf i v) -> fd = pd_of ek /\ is_packed ek = false.
Proof.
  intros (d & bl & Efd & Esh & _). cbn [shape] in Esh. symmetry in Esh. apply canon_leaf_inv in Esh as [-> Hp]. auto.
Qed.
Lemma wfc_packed fd n i vs : wfc fd n (Packed i vs) -> fd = pd_of ek /\ is_packed ek = true.
Proof.
  intros (d & bl & Efd & Esh & _). cbn [shape] in Esh. symmetry in Esh. apply canon_packed_inv in Esh as [-> Hp]. auto.
Qed.
Lemma wfc_node_depth fd n i l r : wfc fd n (Node i l r) -> exists fd', fd = S fd' /\ (pd_of ek <= fd')%nat.
Proof.
  intros (d & bl & Efd & Esh & _). cbn [shape] in Esh. symmetry in Esh.
  apply canon_node_inv in Esh as (d' & -> & _). exists (d' + pd_of ek)%nat. split; lia.
Qed.

(* the (orig, base) constructor combinations on which rebase_on fails do not occur for two trees of
   the same full depth *)
Lemma wfc_leaf_packed fd n1 n2 i v j vs : wfc fd n1 (Leaf i v) -> wfc fd n2 (Packed j vs) -> False.
Proof. intros W1 W2. apply wfc_leaf in W1 as [_ E1]. apply wfc_packed in W2 as [_ E2]. congruence. Qed.
Lemma wfc_leaf_node fd n1 n2 i v j l r : wfc fd n1 (Leaf i v) -> wfc fd n2 (Node j l r) -> False.
Proof. intros W1 W2. apply wfc_leaf in W1 as [E1 _]. apply wfc_node_depth in W2 as (fd' & E2 & E3). lia. Qed.
Lemma wfc_packed_node fd n1 n2 i vs j l r : wfc fd n1 (Packed i vs) -> wfc fd n2 (Node j l r) -> False.
Proof. intros W1 W2. apply wfc_packed in W1 as [E1 _]. apply wfc_node_depth in W2 as (fd' & E2 & E3). lia. Qed.

(* ---------- the lengths argument ---------- *)
(* Some (n1, n2) for lists; None for vectors, where both trees hold the same number of elements *)
Definition lens_ok (lengths : option (N * N)) (n1 n2 : N) : Prop :=
  match lengths with Some (a, b) => a = n1 /\ b = n2 | None => n1 = n2 end.
Lemma lens_ok_eq lengths n1 n2 : lens_ok lengths n1 n2 ->
  (match lengths with None => true | Some (a, b) => a =? b end) = true -> n1 = n2.
Proof. destruct lengths as [[a b]|]; cbn; [intros [-> ->] E; apply N.eqb_eq; exact E|auto]. Qed.
Lemma lens_ok_left lengths n1 n2 ml : lens_ok lengths n1 n2 ->
  lens_ok (match lengths with None => None | Some (a, b) => Some (minN a ml, minN b ml) end) (minN n1 ml) (minN n2 ml).
Proof. destruct lengths as [[a b]|]; cbn; [intros [-> ->]; auto|intros ->; auto]. Qed.
Lemma lens_ok_right lengths n1 n2 ml : lens_ok lengths n1 n2 ->
  lens_ok (match lengths with None => None | Some (a, b) => Some (a - minN a ml, b - minN b ml) end)
          (n1 - minN n1 ml) (n2 - minN n2 ml).
Proof. destruct lengths as [[a b]|]; cbn; [intros [-> ->]; auto|intros ->; auto]. Qed.

(* ---------- subtrees, identities ---------- *)
Lemma subt_refl (t : tree) : subt t t.
Proof. destruct t; left; reflexivity. Qed.
Lemma subt_left (u : tree) i l r : subt u l -> subt u (Node i l r).
Proof. intros Hu. right. left. exact Hu. Qed.
Lemma subt_right (u : tree) i l r : subt u r -> subt u (Node i l r).
Proof. intros Hu. right. right. exact Hu. Qed.

(* identities shared between orig and base name identical subtrees (a consequence of idf [orig; base]) *)
Definition xid (orig base : tree) : Prop :=
  forall u v, subt u orig -> subt v base -> idof u = idof v -> u = v.
Lemma idf_xid orig base : idf [orig; base] -> xid orig base.
Proof. intros I u v Hu Hv E. apply (I orig base u v); cbn; auto. Qed.
Lemma xid_children i1 l1 r1 i2 l2 r2 : xid (Node i1 l1 r1) (Node i2 l2 r2) -> xid l1 l2 /\ xid r1 r2.
Proof.
  intros X. split; intros u v Hu Hv; apply X.
  - apply subt_left; exact Hu. - apply subt_left; exact Hv.
  - apply subt_right; exact Hu. - apply subt_right; exact Hv.
Qed.

(* wfc is what the per-handle invariant gives, and the injectivity premise below is an instance of
   HashP.shash_canon_inj *)
Lemma hs_inj_from_canon_inj :
  (forall d l1 l2, lenN l1 = lenN l2 -> lenN l1 <= cap ek d ->
     shash ek H (canon ek d l1) = shash ek H (canon ek d l2) -> l1 = l2) ->
  forall fd n t1 t2, wfc fd n t1 -> wfc fd n t2 ->
    hash_spec ek H t1 = hash_spec ek H t2 -> shape t1 = shape t2.
Proof.
  intros Inj fd n t1 t2 (d1 & b1 & E1 & S1 & L1 & C1) (d2 & b2 & E2 & S2 & L2 & C2) Hh.
  assert (d2 = d1) by lia. subst d2. unfold hash_spec in Hh. rewrite S1, S2 in Hh |- *.
  f_equal. apply (Inj d1); [congruence|rewrite L1; exact C1|exact Hh].
Qed.

(* Section hypothesis: the specification hash is injective on canonical trees of equal depth and
   length (proved from collision freedom in task `hash` as shash_canon_inj) *)
Hypothesis hs_inj : forall fd n t1 t2, wfc fd n t1 -> wfc fd n t2 ->
  hash_spec ek H t1 = hash_spec ek H t2 -> shape t1 = shape t2.

(* ==================== 1. shape, demonic reads ==================== *)
Variable truth : id -> digest.
(* truth assigns to (the identity of) every memo-carrying node of t its specification hash *)
Definition tr_ok (t : tree) : Prop :=
  forall u, subt u t -> has_memo u = true -> truth (idof u) = hash_spec ek H u.
Lemma tr_ok_children i l r : tr_ok (Node i l r) -> tr_ok l /\ tr_ok r.
Proof. intros Tr. split; intros u Hu; apply Tr; [apply subt_left|apply subt_right]; exact Hu. Qed.

Definition post (orig base : tree) (a : outcome action) (s' : state) : Prop :=
  match a with
  | Ok NotEqualNoop => True
  | Ok (NotEqualReplace t) => shape t = shape orig
  | Ok EqualNoop => shape orig = shape base
  | Ok (EqualReplace t) => t = base /\ shape orig = shape base
  | _ => False
  end.

Ltac ptr_eq_case X :=
  let Eid := fresh "Eid" in
  match goal with |- context [Pos.eqb ?a ?b] => destruct (Pos.eqb_spec a b) as [Eid|Eid] end;
  [ match goal with |- wp _ _ (_ ?a ?b) _ =>
      assert (a = b) as EE by (apply X; [apply subt_refl|apply subt_refl|exact Eid]) end | ].

Lemma rebase_shape_gen : forall orig base lengths fd n1 n2 s,
  lens_ok lengths n1 n2 -> wfc fd n1 orig -> wfc fd n2 base ->
  tr_ok orig -> tr_ok base -> xid orig base ->
  wp (Rdem truth) (rebase_on ek orig base lengths fd) (post orig base) s.
Proof.
  induction orig as [io v1|io vs1|io l1 IHl r1 IHr|io z1]; intros base lengths fd n1 n2 s L W1 W2 T1 T2 X;
    destruct base as [ib v2|ib vs2|ib l2 r2|ib z2]; cbn [rebase_on idof];
    (ptr_eq_case X; [rewrite EE; cbn [wp post]; reflexivity|]).
  all: try solve [ cbn [wp post]; exact I ].
  all: try solve [ exfalso; eauto using wfc_leaf_packed, wfc_leaf_node, wfc_packed_node ].
  - destruct (eeqb ek v1 v2) eqn:E; cbn [wp post]; [|exact I].
    apply (ek_eqb_spec ek EKW) in E. subst. auto.
  - destruct (list_eqb ek vs1 vs2) eqn:E; cbn [wp post]; [|exact I].
    apply list_eqb_spec in E. subst. auto.
  - (* node / node *)
    destruct (wfc_node_depth _ _ _ _ _ W1) as (nfd & -> & _).
    cbn [wp]. intros oh Ho bh Hb.
    destruct (negb (oh =? 0) && (oh =? bh) && (match lengths with None => true | Some (a, b) => a =? b end)) eqn:SC.
    + apply andb_prop in SC as [SC Hn]. apply andb_prop in SC as [Hnz He].
      apply N.eqb_eq in He. apply negb_true_iff, N.eqb_neq in Hnz.
      apply (lens_ok_eq _ _ _ L) in Hn. subst n2.
      cbn [wp post]. split; [reflexivity|].
      pose proof (T1 _ (subt_refl _) eq_refl) as X1. pose proof (T2 _ (subt_refl _) eq_refl) as X2. cbn [idof] in X1, X2.
      apply (hs_inj _ _ _ _ W1 W2). destruct Ho as [Ho|Ho], Hb as [Hb|Hb]; congruence.
    + clear SC. apply wfc_node in W1 as [W1l W1r]. apply wfc_node in W2 as [W2l W2r].
      destruct (tr_ok_children _ _ _ T1) as [T1l T1r]. destruct (tr_ok_children _ _ _ T2) as [T2l T2r].
      destruct (xid_children _ _ _ _ _ _ X) as [Xl Xr].
      apply wp_bind. eapply wp_mono; [|apply (IHl l2 _ nfd _ _ s (lens_ok_left _ _ _ _ L) W1l W2l T1l T2l Xl)].
      intros [la|e|c] s1 Hla; cbn [post] in Hla; try contradiction; cbn [lift].
      apply wp_bind. eapply wp_mono; [|apply (IHr r2 _ nfd _ _ s1 (lens_ok_right _ _ _ _ L) W1r W2r T1r T2r Xr)].
      intros [ra|e|c] s2 Hra; cbn [post] in Hra; try contradiction; cbn [lift].
      destruct la, ra; cbn [wp post shape] in *; intuition (subst; cbn [shape]; congruence).
  - destruct (Nat.eqb_spec z1 z2) as [E|E]; cbn [wp post]; [|exact I]. subst. auto.
Qed.

(* exported forms: lists pass Some (n1, n2), vectors pass None and hold equally many elements *)
Theorem rebase_shape : forall fd orig base n1 n2 s,
  wfc fd n1 orig -> wfc fd n2 base -> tr_ok orig -> tr_ok base -> xid orig base ->
  wp (Rdem truth) (rebase_on ek orig base (Some (n1, n2)) fd) (post orig base) s.
Proof. intros. eapply rebase_shape_gen; eauto. cbn. auto. Qed.
Theorem rebase_shape_vec : forall fd orig base n s,
  wfc fd n orig -> wfc fd n base -> tr_ok orig -> tr_ok base -> xid orig base ->
  wp (Rdem truth) (rebase_on ek orig base None fd) (post orig base) s.
Proof. intros. eapply rebase_shape_gen; eauto. cbn. auto. Qed.

(* ==================== 2. state: frame, fresh identities, memo validity; exact reads ==================== *)
Lemma hash_spec_shape (a b : tree) : shape a = shape b -> hash_spec ek H a = hash_spec ek H b.
Proof. unfold hash_spec. intros ->. reflexivity. Qed.
Lemma subt_In (u : tree) : forall t, subt u t -> In_id (idof u) t.
Proof.
  induction t as [i v|i vs|i l IHl r IHr|i d]; cbn [subt In_id]; intros [->|Hs]; cbn [In_id idof]; auto; try contradiction.
  destruct Hs as [Hs|Hs]; auto.
Qed.
Lemma subt_trans (u v : tree) : forall t, subt u v -> subt v t -> subt u t.
Proof.
  induction t as [i w|i vs|i l IHl r IHr|i d]; cbn [subt]; intros Huv [->|Hs]; auto; try contradiction.
  destruct Hs as [Hs|Hs]; auto.
Qed.

Lemma frame_refl s : frame s s. Proof. split; [lia|auto]. Qed.
Lemma frame_trans a b c : frame a b -> frame b c -> frame a c.
Proof. intros [F1 F2] [F3 F4]. split; [lia|]. intros j Hj. rewrite F4 by lia. auto. Qed.
(* frame plus preservation of "no memo above the allocation pointer" *)
Definition ext (s s' : state) : Prop := frame s s' /\ (memo_below s -> memo_below s').
Lemma ext_refl s : ext s s. Proof. split; [apply frame_refl|auto]. Qed.
Lemma ext_trans a b c : ext a b -> ext b c -> ext a c.
Proof. intros [F1 M1] [F2 M2]. split; [eapply frame_trans; eauto|auto]. Qed.

Lemma mvalid_frame s s' (t : tree) : frame s s' -> below (next s) t -> mvalid ek H s t -> mvalid ek H s' t.
Proof. intros [_ F] B V u Hu Hm. rewrite F; auto. apply subt_In in Hu. apply B in Hu. exact Hu. Qed.
Lemma below_mono n n' (t : tree) : (n <= n')%positive -> below n t -> below n' t.
Proof. intros Hle B i Hi. apply B in Hi. lia. Qed.
Lemma below_node n i (l r : tree) : (i < n)%positive -> below n l -> below n r -> below n (Node i l r).
Proof. intros Hi Bl Br j [->|[Hj|Hj]]; auto. Qed.
Lemma below_children n i (l r : tree) : below n (Node i l r) -> below n l /\ below n r.
Proof. intros B. split; intros j Hj; apply B; cbn [In_id]; auto. Qed.
Lemma mvalid_children s i (l r : tree) : mvalid ek H s (Node i l r) -> mvalid ek H s l /\ mvalid ek H s r.
Proof. intros V. split; intros u Hu; apply V; [apply subt_left|apply subt_right]; exact Hu. Qed.

Lemma mget_mset' s i d j : mget (mset s i d) j = if Pos.eqb j i then d else mget s j.
Proof.
  unfold mget, mset; cbn [memo]. destruct (Pos.eqb_spec j i) as [->|Hn].
  - rewrite PositiveMap.gss. reflexivity.
  - rewrite PositiveMap.gso by auto. reflexivity.
Qed.

(* effect of building a replacement node: Fresh then SetMemo *)
Lemma mk_ext s oh : ext s (mset (bump s) (next s) oh).
Proof.
  split; [split|]; cbn [next mset bump]; [lia| |].
  - intros j Hj. rewrite mget_mset'. destruct (Pos.eqb_spec j (next s)); [lia|]. reflexivity.
  - intros Mb j Hj. cbn [next mset bump] in Hj. rewrite mget_mset'. destruct (Pos.eqb_spec j (next s)); [lia|].
    unfold mget; cbn [memo bump]. apply Mb. lia.
Qed.
Lemma mk_valid s oh (l r orig_node : tree) :
  below (next s) l -> below (next s) r -> mvalid ek H s l -> mvalid ek H s r ->
  (oh = 0 \/ oh = hash_spec ek H orig_node) -> shape (Node (next s) l r) = shape orig_node ->
  mvalid ek H (mset (bump s) (next s) oh) (Node (next s) l r) /\
  below (next (mset (bump s) (next s) oh)) (Node (next s) l r).
Proof.
  intros Bl Br Vl Vr Hoh Hsh. split.
  - intros u [->|[Hu|Hu]] Hm.
    + cbn [idof]. rewrite mget_mset', Pos.eqb_refl. rewrite (hash_spec_shape _ _ Hsh). exact Hoh.
    + rewrite mget_mset'. pose proof (Bl _ (subt_In _ _ Hu)) as Hlt. destruct (Pos.eqb_spec (idof u) (next s)); [lia|]. apply Vl; auto.
    + rewrite mget_mset'. pose proof (Br _ (subt_In _ _ Hu)) as Hlt. destruct (Pos.eqb_spec (idof u) (next s)); [lia|]. apply Vr; auto.
  - cbn [next mset bump]. apply below_node; [lia| |]; eapply below_mono; eauto; lia.
Qed.

(* fresh_or_from: weakening of the allocation interval and of the sources *)
Lemma fof_weaken sa sb s s' (srcs srcs' : list tree) t :
  fresh_or_from sa sb srcs t -> (next s <= next sa)%positive -> (next sb <= next s')%positive ->
  (forall t0, In t0 srcs -> exists t1, In t1 srcs' /\ subt t0 t1) -> fresh_or_from s s' srcs' t.
Proof.
  intros Fo L1 L2 Hsrc u Hu. destruct (Fo u Hu) as [(t0 & Hin & Hs)|[Ha Hb]]; [left|right; lia].
  destruct (Hsrc t0 Hin) as (t1 & Hin1 & Hs1). exists t1. split; [exact Hin1|]. eapply subt_trans; eauto.
Qed.
Lemma fof_src s s' (srcs : list tree) t : In t srcs -> fresh_or_from s s' srcs t.
Proof. intros Hin u Hu. left. exists t. auto. Qed.
Lemma fof_node s s' (srcs : list tree) i l r :
  (next s <= i)%positive -> (i < next s')%positive -> fresh_or_from s s' srcs l -> fresh_or_from s s' srcs r ->
  fresh_or_from s s' srcs (Node i l r).
Proof. intros L1 L2 Fl Fr u [->|[Hu|Hu]]; [right; cbn [idof]; lia|apply Fl; exact Hu|apply Fr; exact Hu]. Qed.

(* identities allocated from n on are used once in t *)
Definition fresh_uniq (n : positive) (t : tree) : Prop :=
  forall u v, subt u t -> subt v t -> idof u = idof v -> (n <= idof u)%positive -> u = v.
Lemma fu_below n (t : tree) : below n t -> fresh_uniq n t.
Proof. intros B u v Hu _ _ Hn. apply subt_In, B in Hu. lia. Qed.
Lemma fu_weaken s0 s s' (srcs : list tree) t :
  (forall t0, In t0 srcs -> below (next s0) t0) -> fresh_or_from s s' srcs t ->
  fresh_uniq (next s) t -> fresh_uniq (next s0) t.
Proof.
  intros Bs Fo Fu u v Hu Hv E Hn. apply Fu; auto.
  destruct (Fo u Hu) as [(t0 & Hin & Hs)|[Ha _]]; [|exact Ha].
  apply subt_In in Hs. apply (Bs _ Hin) in Hs. lia.
Qed.
Lemma fu_node s s1 s2 (srcsL srcsR : list tree) i L R :
  (next s2 <= i)%positive -> below (next s2) L -> below (next s2) R ->
  (forall t0, In t0 srcsL -> below (next s) t0) -> (forall t0, In t0 srcsR -> below (next s) t0) ->
  fresh_or_from s s1 srcsL L -> fresh_or_from s1 s2 srcsR R ->
  fresh_uniq (next s) L -> fresh_uniq (next s) R -> fresh_uniq (next s) (Node i L R).
Proof.
  intros Hi BL BR BsL BsR FL FR UL UR u v Hu Hv E Hn.
  assert (InL : forall w, subt w L -> (idof w < next s2)%positive) by (intros w Hw; apply BL, subt_In, Hw).
  assert (InR : forall w, subt w R -> (idof w < next s2)%positive) by (intros w Hw; apply BR, subt_In, Hw).
  assert (XL : forall w, subt w L -> (next s <= idof w)%positive -> (idof w < next s1)%positive).
  { intros w Hw Hge. destruct (FL w Hw) as [(t0 & Hin & Hs)|[_ Hb]]; [|exact Hb].
    apply subt_In in Hs. apply (BsL _ Hin) in Hs. lia. }
  assert (XR : forall w, subt w R -> (next s <= idof w)%positive -> (next s1 <= idof w)%positive).
  { intros w Hw Hge. destruct (FR w Hw) as [(t0 & Hin & Hs)|[Ha _]]; [|exact Ha].
    apply subt_In in Hs. apply (BsR _ Hin) in Hs. lia. }
  destruct Hu as [->|[Hu|Hu]], Hv as [->|[Hv|Hv]]; cbn [idof] in *; auto.
  - apply InL in Hv. lia.
  - apply InR in Hv. lia.
  - apply InL in Hu. lia.
  - pose proof (XL _ Hu Hn). rewrite E in Hn. pose proof (XR _ Hv Hn). lia.
  - apply InR in Hu. lia.
  - pose proof (XR _ Hu Hn). rewrite E in Hn. pose proof (XL _ Hv Hn). lia.
Qed.
(* installing a tree built from retained and fresh nodes keeps "identities name nodes" *)
Lemma idf_install s s' (srcs : list tree) t :
  (forall t0, In t0 srcs -> below (next s) t0) -> idf srcs ->
  fresh_or_from s s' srcs t -> fresh_uniq (next s) t -> idf (t :: srcs).
Proof.
  intros Bs I Fo Fu.
  assert (Old : forall u, (exists t0, In t0 srcs /\ subt u t0) -> (idof u < next s)%positive).
  { intros u (t0 & Hin & Hs). apply subt_In in Hs. apply (Bs _ Hin) in Hs. exact Hs. }
  assert (Cl : forall t1 u, In t1 (t :: srcs) -> subt u t1 ->
            (exists t0, In t0 srcs /\ subt u t0) \/ (subt u t /\ (next s <= idof u)%positive)).
  { intros t1 u [<-|Hin] Hu; [|left; eauto]. destruct (Fo u Hu) as [Hs|[Ha _]]; [left; exact Hs|right; auto]. }
  intros t1 t2 u v H1 H2 Hu Hv E.
  destruct (Cl _ _ H1 Hu) as [Su|[Su Gu]], (Cl _ _ H2 Hv) as [Sv|[Sv Gv]].
  - destruct Su as (a & Ha & Hua), Sv as (b & Hb & Hvb). apply (I a b); auto.
  - apply Old in Su. lia.
  - apply Old in Sv. lia.
  - apply Fu; auto.
Qed.

Definition post2 (orig base : tree) (s0 : state) (a : outcome action) (s' : state) : Prop :=
  ext s0 s' /\
  match a with
  | Ok NotEqualNoop => True
  | Ok (NotEqualReplace t) =>
      shape t = shape orig /\ below (next s') t /\ mvalid ek H s' t /\ fresh_or_from s0 s' [orig; base] t /\
      fresh_uniq (next s0) t
  | Ok EqualNoop => shape orig = shape base
  | Ok (EqualReplace t) => t = base /\ shape orig = shape base
  | _ => False end.

(* the child a parent will use: the replacement if there is one, else the original *)
Definition eff (a : action) (c : tree) : tree :=
  match a with NotEqualReplace t | EqualReplace t => t | _ => c end.

Lemma eff_ok c cb sa sb sc a :
  post2 c cb sa (Ok a) sb -> frame sb sc ->
  below (next sa) c -> below (next sa) cb -> mvalid ek H sa c -> mvalid ek H sa cb ->
  shape (eff a c) = shape c /\ below (next sc) (eff a c) /\ mvalid ek H sc (eff a c) /\
  fresh_or_from sa sb [c; cb] (eff a c) /\ fresh_uniq (next sa) (eff a c).
Proof.
  intros [[Fab _] P] Fbc Bc Bcb Vc Vcb. pose proof (frame_trans _ _ _ Fab Fbc) as Fac.
  assert (Nab: (next sa <= next sb)%positive) by apply Fab.
  assert (Nbc: (next sb <= next sc)%positive) by apply Fbc.
  destruct a as [|t| |t]; cbn [eff] in *.
  - split; [reflexivity|]. split; [eapply below_mono; [|exact Bc]; lia|].
    split; [eapply mvalid_frame; [exact Fac|exact Bc|exact Vc]|]. split; [apply fof_src; cbn; auto|apply fu_below; exact Bc].
  - destruct P as (Sh & B & V & Fo & Fu). split; [exact Sh|]. split; [eapply below_mono; [|exact B]; lia|].
    split; [eapply mvalid_frame; [exact Fbc|exact B|exact V]|]. split; [exact Fo|exact Fu].
  - split; [reflexivity|]. split; [eapply below_mono; [|exact Bc]; lia|].
    split; [eapply mvalid_frame; [exact Fac|exact Bc|exact Vc]|]. split; [apply fof_src; cbn; auto|apply fu_below; exact Bc].
  - destruct P as (-> & Sh). split; [now symmetry|]. split; [eapply below_mono; [|exact Bcb]; lia|].
    split; [eapply mvalid_frame; [exact Fac|exact Bcb|exact Vcb]|]. split; [apply fof_src; cbn; auto|apply fu_below; exact Bcb].
Qed.

Definition replacement (a : action) : option tree :=
  match a with NotEqualReplace t | EqualReplace t => Some t | _ => None end.

(* uniform reading of post2: whatever tree the caller installs is below the allocation pointer, has
   valid memos and consists of retained nodes of orig/base and freshly allocated nodes *)
Lemma post2_replacement orig base s a s' t :
  post2 orig base s (Ok a) s' -> below (next s) base -> mvalid ek H s base -> replacement a = Some t ->
  shape t = shape orig /\ below (next s') t /\ mvalid ek H s' t /\ fresh_or_from s s' [orig; base] t /\
  fresh_uniq (next s) t /\ (forall b, a = EqualReplace b -> t = base).
Proof.
  intros [[F _] P] Bb Vb Hr. destruct a as [|t'| |t']; cbn [replacement] in Hr; try discriminate; injection Hr as ->.
  - destruct P as (Sh & B & V & Fo & Fu). repeat (split; [assumption|]). discriminate.
  - destruct P as (-> & Sh). split; [now symmetry|]. split; [eapply below_mono; [apply F|exact Bb]|].
    split; [eapply mvalid_frame; eauto|]. split; [apply fof_src; cbn; auto|]. split; [apply fu_below; exact Bb|auto].
Qed.

(* ==================== 3. sharing (C08): rebasing an unrelated copy ==================== *)
(* lock-step relation: wherever orig and base have the same shape at the same position, res holds
   base's own subtree, identities included *)
Fixpoint shares (res orig base : tree) : Prop :=
  (shape orig = shape base -> res = base) /\
  match res, orig, base with
  | Node _ rl rr, Node _ ol or_, Node _ bl br => shares rl ol bl /\ shares rr or_ br
  | _, _, _ => True end.
(* no position at which both are defined has equal shapes *)
Fixpoint differs (orig base : tree) : Prop :=
  shape orig <> shape base /\
  match orig, base with
  | Node _ ol or_, Node _ bl br => differs ol bl /\ differs or_ br
  | _, _ => True end.
Lemma differs_neq o b : differs o b -> shape o <> shape b.
Proof. destruct o; cbn [differs]; intros [Hd _]; exact Hd. Qed.
Lemma shares_self : forall x o, shares x o x.
Proof. induction x as [i v|i vs|i l IHl r IHr|i d]; intros o; cbn [shares]; split; auto. destruct o; auto. Qed.
Lemma differs_shares : forall o b, differs o b -> shares o o b.
Proof.
  induction o as [i v|i vs|i l IHl r IHr|i d]; intros b [Hd Hc]; cbn [shares]; split; try contradiction; auto.
  destruct b; auto. destruct Hc. split; auto.
Qed.

Definition post8 (orig base : tree) (a : outcome action) (s' : state) : Prop :=
  match a with
  | Ok NotEqualNoop => differs orig base
  | Ok (NotEqualReplace t) => shape t = shape orig /\ shape orig <> shape base /\ shares t orig base
  | Ok EqualNoop => False
  | Ok (EqualReplace t) => t = base /\ shape orig = shape base
  | _ => False
  end.
Lemma post8_eff orig base a s : post8 orig base (Ok a) s ->
  shape (eff a orig) = shape orig /\ shares (eff a orig) orig base.
Proof.
  destruct a; cbn [post8 eff]; intros P.
  - split; auto. now apply differs_shares.
  - destruct P as (S1 & _ & S2). auto.
  - contradiction.
  - destruct P as [-> S1]. split; [now symmetry|apply shares_self].
Qed.

(* orig shares no memory with base *)
Definition disj (orig base : tree) : Prop := forall u v, subt u orig -> subt v base -> idof u <> idof v.
Lemma disj_children i1 l1 r1 i2 l2 r2 : disj (Node i1 l1 r1) (Node i2 l2 r2) -> disj l1 l2 /\ disj r1 r2.
Proof.
  intros X. split; intros u v Hu Hv; apply X.
  - apply subt_left; exact Hu. - apply subt_left; exact Hv.
  - apply subt_right; exact Hu. - apply subt_right; exact Hv.
Qed.

Lemma rebase_sharing_gen : forall orig base lengths fd n1 n2 s,
  lens_ok lengths n1 n2 -> wfc fd n1 orig -> wfc fd n2 base ->
  tr_ok orig -> tr_ok base -> disj orig base ->
  wp (Rdem truth) (rebase_on ek orig base lengths fd) (post8 orig base) s.
Proof.
  induction orig as [io v1|io vs1|io l1 IHl r1 IHr|io z1]; intros base lengths fd n1 n2 s L W1 W2 T1 T2 DJ;
    destruct base as [ib v2|ib vs2|ib l2 r2|ib z2]; cbn [rebase_on idof];
    (match goal with |- context [Pos.eqb ?a ?b] => destruct (Pos.eqb_spec a b) as [Eid|Eid] end;
      [ exfalso; eapply DJ; [apply subt_refl|apply subt_refl|exact Eid] | ]).
  all: try solve [ cbn [wp post8 differs shape]; split; [discriminate|exact I] ].
  all: try solve [ exfalso; eauto using wfc_leaf_packed, wfc_leaf_node, wfc_packed_node ].
  - destruct (eeqb ek v1 v2) eqn:E; cbn [wp post8 differs shape].
    + apply (ek_eqb_spec ek EKW) in E. subst. auto.
    + split; [|exact I]. intros EE. injection EE as ->.
      assert (eeqb ek v2 v2 = true) by (apply (ek_eqb_spec ek EKW); reflexivity). congruence.
  - destruct (list_eqb ek vs1 vs2) eqn:E; cbn [wp post8 differs shape].
    + apply list_eqb_spec in E. subst. auto.
    + split; [|exact I]. intros EE. injection EE as ->.
      assert (list_eqb ek vs2 vs2 = true) by (apply list_eqb_spec; reflexivity). congruence.
  - (* node / node *)
    destruct (wfc_node_depth _ _ _ _ _ W1) as (nfd & -> & _).
    cbn [wp]. intros oh Ho bh Hb.
    destruct (negb (oh =? 0) && (oh =? bh) && (match lengths with None => true | Some (a, b) => a =? b end)) eqn:SC.
    + apply andb_prop in SC as [SC Hn]. apply andb_prop in SC as [Hnz He].
      apply N.eqb_eq in He. apply negb_true_iff, N.eqb_neq in Hnz.
      apply (lens_ok_eq _ _ _ L) in Hn. subst n2.
      cbn [wp post8]. split; [reflexivity|].
      pose proof (T1 _ (subt_refl _) eq_refl) as X1. pose proof (T2 _ (subt_refl _) eq_refl) as X2. cbn [idof] in X1, X2.
      apply (hs_inj _ _ _ _ W1 W2). destruct Ho as [Ho|Ho], Hb as [Hb|Hb]; congruence.
    + clear SC. apply wfc_node in W1 as [W1l W1r]. apply wfc_node in W2 as [W2l W2r].
      destruct (tr_ok_children _ _ _ T1) as [T1l T1r]. destruct (tr_ok_children _ _ _ T2) as [T2l T2r].
      destruct (disj_children _ _ _ _ _ _ DJ) as [Dl Dr].
      apply wp_bind. eapply wp_mono; [|apply (IHl l2 _ nfd _ _ s (lens_ok_left _ _ _ _ L) W1l W2l T1l T2l Dl)].
      intros [la|e|c] s1 Pl; cbn [post8] in Pl; try contradiction; cbn [lift].
      apply wp_bind. eapply wp_mono; [|apply (IHr r2 _ nfd _ _ s1 (lens_ok_right _ _ _ _ L) W1r W2r T1r T2r Dr)].
      intros [ra|e|c] s2 Pr; cbn [post8] in Pr; try contradiction; cbn [lift].
      destruct (post8_eff _ _ _ s1 Pl) as [ShL SL]. destruct (post8_eff _ _ _ s2 Pr) as [ShR SR].
      (* every node-rebuilding arm builds Node i (eff la l1) (eff ra r1) and at least one child is "not equal" *)
      assert (MK: forall i st (Hneq: shape l1 <> shape l2 \/ shape r1 <> shape r2),
              post8 (Node io l1 r1) (Node ib l2 r2) (Ok (NotEqualReplace (Node i (eff la l1) (eff ra r1)))) st).
      { intros i st Hneq; cbn [post8 shape]; split; [congruence|]; split.
        - intro EE; injection EE as E1 E2; destruct Hneq; congruence.
        - cbn [shares]; split; [intro EE; exfalso; cbn [shape] in EE; injection EE as E1 E2; destruct Hneq; congruence | split; assumption ]. }
      destruct la as [|tl| |tl], ra as [|tr| |tr]; cbn [eff] in *; try contradiction; cbn [wp].
      all: try solve [ apply MK; first [ left; first [apply (differs_neq _ _ Pl) | apply Pl] | right; first [apply (differs_neq _ _ Pr) | apply Pr] ] ].
      all: try solve [ cbn [post8 differs]; split; [intro EE; cbn [shape] in EE; injection EE as E1 E2; apply (differs_neq _ _ Pl); exact E1 | split; assumption] ].
      all: try solve [ destruct Pl as [-> El], Pr as [-> Er]; split; [reflexivity|cbn [shape]; congruence] ].
  - destruct (Nat.eqb_spec z1 z2) as [E|E]; cbn [wp post8 differs shape].
    + subst. auto.
    + split; [|exact I]. intros EE. injection EE as ->. apply E. reflexivity.
Qed.

Theorem rebase_sharing : forall fd orig base n1 n2 s,
  wfc fd n1 orig -> wfc fd n2 base -> tr_ok orig -> tr_ok base -> disj orig base ->
  wp (Rdem truth) (rebase_on ek orig base (Some (n1, n2)) fd) (post8 orig base) s.
Proof. intros. eapply rebase_sharing_gen; eauto. cbn. auto. Qed.
Theorem rebase_sharing_vec : forall fd orig base n s,
  wfc fd n orig -> wfc fd n base -> tr_ok orig -> tr_ok base -> disj orig base ->
  wp (Rdem truth) (rebase_on ek orig base None fd) (post8 orig base) s.
Proof. intros. eapply rebase_sharing_gen; eauto. cbn. auto. Qed.

(* ==================== 2+3 combined, for any read relation whose reads are sound ==================== *)
(* The 16-arm combination step of rebase_on as a pure function of the two child actions and the
   identity the rebuilt node receives. *)
Definition arm (la ra : action) (l1 r1 base : tree) (i : id) : action :=
  match la, ra with
  | NotEqualNoop, (NotEqualNoop | EqualNoop) | EqualNoop, NotEqualNoop => NotEqualNoop
  | EqualNoop, EqualNoop => EqualNoop
  | EqualReplace _, (EqualReplace _ | EqualNoop) => EqualReplace base
  | _, _ => NotEqualReplace (Node i (eff la l1) (eff ra r1))
  end.
Definition arm_allocs (la ra : action) : bool :=
  match la, ra with
  | NotEqualNoop, (NotEqualNoop | EqualNoop) | EqualNoop, NotEqualNoop => false
  | EqualNoop, EqualNoop => false
  | EqualReplace _, (EqualReplace _ | EqualNoop) => false
  | _, _ => true
  end.

Lemma post8_arm io l1 r1 ib l2 r2 la ra i s1 s2 st :
  post8 l1 l2 (Ok la) s1 -> post8 r1 r2 (Ok ra) s2 ->
  post8 (Node io l1 r1) (Node ib l2 r2) (Ok (arm la ra l1 r1 (Node ib l2 r2) i)) st.
Proof.
  intros Pl Pr.
  destruct (post8_eff _ _ _ s1 Pl) as [ShL SL]. destruct (post8_eff _ _ _ s2 Pr) as [ShR SR].
  assert (MK: forall (Hneq: shape l1 <> shape l2 \/ shape r1 <> shape r2),
          post8 (Node io l1 r1) (Node ib l2 r2) (Ok (NotEqualReplace (Node i (eff la l1) (eff ra r1)))) st).
  { intros Hneq; cbn [post8 shape]; split; [congruence|]; split.
    - intro EE; injection EE as E1 E2; destruct Hneq; congruence.
    - cbn [shares]; split; [intro EE; exfalso; cbn [shape] in EE; injection EE as E1 E2; destruct Hneq; congruence | split; assumption ]. }
  destruct la as [|tl| |tl], ra as [|tr| |tr]; cbn [eff arm post8] in *; try contradiction.
  all: try solve [ apply MK; first [ left; first [apply (differs_neq _ _ Pl) | apply Pl] | right; first [apply (differs_neq _ _ Pr) | apply Pr] ] ].
  all: try solve [ cbn [differs]; split; [intro EE; cbn [shape] in EE; injection EE as E1 E2; apply (differs_neq _ _ Pl); exact E1 | split; assumption] ].
  all: try solve [ destruct Pl as [-> El], Pr as [-> Er]; split; [reflexivity|cbn [shape]; congruence] ].
Qed.

Section Master.
Variable R : state -> id -> digest -> Prop.

(* in every later state, a read of the memo of a node of t returns 0 or the node's specification hash *)
Definition reads_ok (s : state) (t : tree) : Prop :=
  forall s' u d, frame s s' -> subt u t -> has_memo u = true -> R s' (idof u) d -> d = 0 \/ d = hash_spec ek H u.
Lemma reads_ok_children s i l r : reads_ok s (Node i l r) -> reads_ok s l /\ reads_ok s r.
Proof. intros Ro. split; intros s' u d F Hu; apply Ro; auto; [apply subt_left|apply subt_right]; exact Hu. Qed.
Lemma reads_ok_frame s s1 t : frame s s1 -> reads_ok s t -> reads_ok s1 t.
Proof. intros F Ro s' u d F' Hu. apply Ro; auto. eapply frame_trans; eauto. Qed.

Lemma wp_arm la ra l1 r1 base oh (Q : outcome action -> state -> Prop) s2 :
  (if arm_allocs la ra then Q (Ok (arm la ra l1 r1 base (next s2))) (mset (bump s2) (next s2) oh)
   else Q (Ok (arm la ra l1 r1 base (next s2))) s2) ->
  wp R (let mk l r := Note tag_rebuild (Fresh (fun i => SetMemo i oh (Ret (NotEqualReplace (Node i l r))))) in
        match la, ra with
        | NotEqualNoop, (NotEqualNoop | EqualNoop) | EqualNoop, NotEqualNoop => Ret NotEqualNoop
        | EqualNoop, EqualNoop => Ret EqualNoop
        | (NotEqualNoop | EqualNoop), NotEqualReplace nr => mk l1 nr
        | (NotEqualNoop | EqualNoop), EqualReplace nr => mk l1 nr
        | NotEqualReplace nl, (NotEqualNoop | EqualNoop) => mk nl r1
        | NotEqualReplace nl, NotEqualReplace nr => mk nl nr
        | NotEqualReplace nl, EqualReplace nr => mk nl nr
        | EqualReplace nl, NotEqualNoop => mk nl r1
        | EqualReplace nl, NotEqualReplace nr => mk nl nr
        | EqualReplace _, EqualReplace _ | EqualReplace _, EqualNoop => Ret (EqualReplace base)
        end) Q s2.
Proof. destruct la, ra; cbn [arm_allocs arm eff wp]; auto. Qed.

Definition post_full (orig base : tree) (s0 : state) (a : outcome action) (s' : state) : Prop :=
  post2 orig base s0 a s' /\ (disj orig base -> post8 orig base a s').

Lemma rebase_full_gen : forall orig base lengths fd n1 n2 s,
  lens_ok lengths n1 n2 -> wfc fd n1 orig -> wfc fd n2 base ->
  below (next s) orig -> below (next s) base -> mvalid ek H s orig -> mvalid ek H s base -> xid orig base ->
  reads_ok s orig -> reads_ok s base ->
  wp R (rebase_on ek orig base lengths fd) (post_full orig base s) s.
Proof.
  induction orig as [io v1|io vs1|io l1 IHl r1 IHr|io z1];
    intros base lengths fd n1 n2 s L W1 W2 B1 B2 V1 V2 X Ro1 Ro2;
    destruct base as [ib v2|ib vs2|ib l2 r2|ib z2]; cbn [rebase_on idof];
    (match goal with |- context [Pos.eqb ?a ?b] => destruct (Pos.eqb_spec a b) as [Eid|Eid] end;
     [ cbn [wp]; split;
       [ match goal with |- post2 ?a ?b _ _ _ =>
           assert (a = b) as EE by (apply X; [apply subt_refl|apply subt_refl|exact Eid]); rewrite EE end;
         split; [apply ext_refl|reflexivity]
       | intros DJ; exfalso; eapply DJ; [apply subt_refl|apply subt_refl|exact Eid] ] | ]).
  all: try solve [ cbn [wp]; split; [split; [apply ext_refl|exact I]|intros _; cbn [post8 differs shape]; split; [discriminate|exact I]] ].
  all: try solve [ exfalso; eauto using wfc_leaf_packed, wfc_leaf_node, wfc_packed_node ].
  - destruct (eeqb ek v1 v2) eqn:E; cbn [wp]; (split; [split; [apply ext_refl|]|intros _]); cbn [post8 differs shape].
    + apply (ek_eqb_spec ek EKW) in E. subst. auto.
    + apply (ek_eqb_spec ek EKW) in E. subst. auto.
    + exact I.
    + split; [|exact I]. intros EE. injection EE as ->.
      assert (eeqb ek v2 v2 = true) by (apply (ek_eqb_spec ek EKW); reflexivity). congruence.
  - destruct (list_eqb ek vs1 vs2) eqn:E; cbn [wp]; (split; [split; [apply ext_refl|]|intros _]); cbn [post8 differs shape].
    + apply list_eqb_spec in E. subst. auto.
    + apply list_eqb_spec in E. subst. auto.
    + exact I.
    + split; [|exact I]. intros EE. injection EE as ->.
      assert (list_eqb ek vs2 vs2 = true) by (apply list_eqb_spec; reflexivity). congruence.
  - (* node / node *)
    destruct (wfc_node_depth _ _ _ _ _ W1) as (nfd & -> & _).
    cbn [wp]. intros oh Hoh bh Hbh.
    pose proof (Ro1 s _ oh (frame_refl s) (subt_refl _) eq_refl Hoh) as Ho.
    pose proof (Ro2 s _ bh (frame_refl s) (subt_refl _) eq_refl Hbh) as Hb.
    destruct (negb (oh =? 0) && (oh =? bh) &&
              (match lengths with None => true | Some (a, b) => a =? b end)) eqn:SC.
    + apply andb_prop in SC as [SC Hn]. apply andb_prop in SC as [Hnz He].
      apply N.eqb_eq in He. apply negb_true_iff, N.eqb_neq in Hnz.
      apply (lens_ok_eq _ _ _ L) in Hn. subst n2.
      assert (Sh : shape (Node io l1 r1) = shape (Node ib l2 r2)).
      { apply (hs_inj _ _ _ _ W1 W2). destruct Ho, Hb; congruence. }
      cbn [wp]. split; [split; [apply ext_refl|]|intros _]; (split; [reflexivity|exact Sh]).
    + clear SC.
      destruct (below_children _ _ _ _ B1) as [Bl1 Br1]. destruct (below_children _ _ _ _ B2) as [Bl2 Br2].
      destruct (mvalid_children _ _ _ _ V1) as [Vl1 Vr1]. destruct (mvalid_children _ _ _ _ V2) as [Vl2 Vr2].
      destruct (reads_ok_children _ _ _ _ Ro1) as [Rl1 Rr1]. destruct (reads_ok_children _ _ _ _ Ro2) as [Rl2 Rr2].
      apply wfc_node in W1 as [W1l W1r]. apply wfc_node in W2 as [W2l W2r].
      destruct (xid_children _ _ _ _ _ _ X) as [Xl Xr].
      apply wp_bind. eapply wp_mono;
        [| apply (IHl l2 _ nfd _ _ s (lens_ok_left _ _ _ _ L) W1l W2l Bl1 Bl2 Vl1 Vl2 Xl Rl1 Rl2) ].
      intros [la|e|c] s1 [Pl Sl]; [|destruct Pl as [_ []]|destruct Pl as [_ []]]. cbn [lift].
      assert (E1: ext s s1) by apply Pl. assert (F1: frame s s1) by apply E1.
      assert (N1: (next s <= next s1)%positive) by apply F1.
      assert (Br1' : below (next s1) r1) by (eapply below_mono; [|exact Br1]; lia).
      assert (Br2' : below (next s1) r2) by (eapply below_mono; [|exact Br2]; lia).
      assert (Vr1' : mvalid ek H s1 r1) by (eapply mvalid_frame; [exact F1|exact Br1|exact Vr1]).
      assert (Vr2' : mvalid ek H s1 r2) by (eapply mvalid_frame; [exact F1|exact Br2|exact Vr2]).
      apply wp_bind. eapply wp_mono;
        [| apply (IHr r2 _ nfd _ _ s1 (lens_ok_right _ _ _ _ L) W1r W2r Br1' Br2' Vr1' Vr2' Xr
                    (reads_ok_frame _ _ _ F1 Rr1) (reads_ok_frame _ _ _ F1 Rr2)) ].
      intros [ra|e|c] s2 [Pr Sr]; [|destruct Pr as [_ []]|destruct Pr as [_ []]]. cbn [lift].
      assert (E2: ext s1 s2) by apply Pr. assert (F2: frame s1 s2) by apply E2.
      assert (N2: (next s1 <= next s2)%positive) by apply F2.
      assert (E02: ext s s2) by (eapply ext_trans; eauto).
      destruct (eff_ok l1 l2 s s1 s2 la Pl F2 Bl1 Bl2 Vl1 Vl2) as (ShL & BL & VL & FL & UL).
      destruct (eff_ok r1 r2 s1 s2 s2 ra Pr (frame_refl s2) Br1' Br2' Vr1' Vr2') as (ShR & BR & VR & FR & UR).
      assert (MK: post2 (Node io l1 r1) (Node ib l2 r2) s
                    (Ok (NotEqualReplace (Node (next s2) (eff la l1) (eff ra r1)))) (mset (bump s2) (next s2) oh)).
      { split; [eapply ext_trans; [exact E02|apply mk_ext]|].
        assert (Sh: shape (Node (next s2) (eff la l1) (eff ra r1)) = shape (Node io l1 r1)) by (cbn [shape]; congruence).
        destruct (mk_valid s2 oh (eff la l1) (eff ra r1) (Node io l1 r1) BL BR VL VR Ho Sh) as [MV MB].
        split; [exact Sh|]. split; [exact MB|]. split; [exact MV|].
        assert (SrcL : forall t0, In t0 [l1; l2] -> below (next s) t0) by (intros t0 [<-|[<-|[]]]; assumption).
        assert (SrcR : forall t0, In t0 [r1; r2] -> below (next s) t0) by (intros t0 [<-|[<-|[]]]; assumption).
        split; [|eapply (fu_node s s1 s2 [l1; l2] [r1; r2]); eauto; [lia|];
                 eapply (fu_weaken s s1 s2 [r1; r2]); eauto].
        apply fof_node; cbn [next mset bump]; [lia|lia| |].
        - eapply fof_weaken; [exact FL|lia|cbn [next mset bump]; lia|].
          intros t0 [<-|[<-|[]]]; [exists (Node io l1 r1)|exists (Node ib l2 r2)]; (split; [cbn; auto|apply subt_left, subt_refl]).
        - eapply fof_weaken; [exact FR|lia|cbn [next mset bump]; lia|].
          intros t0 [<-|[<-|[]]]; [exists (Node io l1 r1)|exists (Node ib l2 r2)]; (split; [cbn; auto|apply subt_right, subt_refl]). }
      assert (S8 : forall st, disj (Node io l1 r1) (Node ib l2 r2) ->
                post8 (Node io l1 r1) (Node ib l2 r2) (Ok (arm la ra l1 r1 (Node ib l2 r2) (next s2))) st).
      { intros st DJ. destruct (disj_children _ _ _ _ _ _ DJ) as [Dl Dr]. eapply post8_arm; [apply Sl, Dl|apply Sr, Dr]. }
      apply wp_arm.
      assert (P2 : post2 (Node io l1 r1) (Node ib l2 r2) s (Ok (arm la ra l1 r1 (Node ib l2 r2) (next s2)))
                     (if arm_allocs la ra then mset (bump s2) (next s2) oh else s2)).
      { destruct Pl as [_ Pl]. destruct Pr as [_ Pr].
        destruct la as [|tl| |tl], ra as [|tr| |tr]; cbn [eff arm arm_allocs] in MK |- *; try exact MK.
        all: try solve [ split; [exact E02|exact I] ].
        * split; [exact E02|]. cbn [shape]. congruence.
        * destruct Pl as [-> El]. split; [exact E02|]. split; [reflexivity|]. cbn [shape]. congruence.
        * destruct Pl as [-> El]. destruct Pr as [-> Er]. split; [exact E02|]. split; [reflexivity|]. cbn [shape]. congruence. }
      destruct (arm_allocs la ra); (split; [exact P2|apply S8]).
  - destruct (Nat.eqb_spec z1 z2) as [E|E]; cbn [wp]; (split; [split; [apply ext_refl|]|intros _]); cbn [post8 differs shape].
    + subst. auto.
    + subst. auto.
    + exact I.
    + split; [|exact I]. intros EE. injection EE as ->. apply E. reflexivity.
Qed.
End Master.

(* exact reads are sound when the memos of the tree are valid and its identities allocated *)
Lemma reads_ok_exact s t : below (next s) t -> mvalid ek H s t -> reads_ok Rexact s t.
Proof.
  intros B V s' u d [_ F] Hu Hm Hr. unfold Rexact in Hr. subst d.
  rewrite F by (apply B, subt_In, Hu). apply V; auto.
Qed.
(* demonic reads are sound when truth is the specification hash *)
Lemma reads_ok_dem s t : tr_ok t -> reads_ok (Rdem truth) s t.
Proof. intros Tr s' u d _ Hu Hm [-> | ->]; [left; reflexivity|right; apply Tr; auto]. Qed.

(* ---------- 2. exported: state-passing specification under exact reads ---------- *)
Lemma rebase_state_gen : forall orig base lengths fd n1 n2 s,
  lens_ok lengths n1 n2 -> wfc fd n1 orig -> wfc fd n2 base ->
  below (next s) orig -> below (next s) base -> mvalid ek H s orig -> mvalid ek H s base -> xid orig base ->
  wp Rexact (rebase_on ek orig base lengths fd) (post2 orig base s) s.
Proof.
  intros orig base lengths fd n1 n2 s L W1 W2 B1 B2 V1 V2 X.
  eapply wp_mono; [|eapply (rebase_full_gen Rexact); eauto using reads_ok_exact].
  intros o s' [P2 _]. exact P2.
Qed.
Theorem rebase_state : forall fd orig base n1 n2 s,
  wfc fd n1 orig -> wfc fd n2 base ->
  below (next s) orig -> below (next s) base -> mvalid ek H s orig -> mvalid ek H s base -> xid orig base ->
  wp Rexact (rebase_on ek orig base (Some (n1, n2)) fd) (post2 orig base s) s.
Proof. intros. eapply rebase_state_gen; eauto. cbn. auto. Qed.
Theorem rebase_state_vec : forall fd orig base n s,
  wfc fd n orig -> wfc fd n base ->
  below (next s) orig -> below (next s) base -> mvalid ek H s orig -> mvalid ek H s base -> xid orig base ->
  wp Rexact (rebase_on ek orig base None fd) (post2 orig base s) s.
Proof. intros. eapply rebase_state_gen; eauto. cbn. auto. Qed.

(* C08 for the run semantics: exact reads, orig shares no identity with base *)
Theorem rebase_sharing_exact_gen : forall orig base lengths fd n1 n2 s,
  lens_ok lengths n1 n2 -> wfc fd n1 orig -> wfc fd n2 base ->
  below (next s) orig -> below (next s) base -> mvalid ek H s orig -> mvalid ek H s base -> disj orig base ->
  wp Rexact (rebase_on ek orig base lengths fd)
     (fun a s' => post2 orig base s a s' /\ post8 orig base a s') s.
Proof.
  intros orig base lengths fd n1 n2 s L W1 W2 B1 B2 V1 V2 DJ.
  eapply wp_mono; [|eapply (rebase_full_gen Rexact); eauto using reads_ok_exact].
  - intros o s' [P2 P8]. auto.
  - intros u v Hu Hv E. exfalso. eapply DJ; eauto.
Qed.

Theorem rebase_sharing_exact : forall fd orig base n1 n2 s,
  wfc fd n1 orig -> wfc fd n2 base ->
  below (next s) orig -> below (next s) base -> mvalid ek H s orig -> mvalid ek H s base -> disj orig base ->
  wp Rexact (rebase_on ek orig base (Some (n1, n2)) fd)
     (fun a s' => post2 orig base s a s' /\ post8 orig base a s') s.
Proof. intros. eapply rebase_sharing_exact_gen; eauto. cbn. auto. Qed.
Theorem rebase_sharing_exact_vec : forall fd orig base n s,
  wfc fd n orig -> wfc fd n base ->
  below (next s) orig -> below (next s) base -> mvalid ek H s orig -> mvalid ek H s base -> disj orig base ->
  wp Rexact (rebase_on ek orig base None fd)
     (fun a s' => post2 orig base s a s' /\ post8 orig base a s') s.
Proof. intros. eapply rebase_sharing_exact_gen; eauto. cbn. auto. Qed.

(* what the caller ends up holding shares with base wherever the shapes agree *)
Lemma post8_shares orig base a s' : post8 orig base (Ok a) s' ->
  shares (match replacement a with Some t => t | None => orig end) orig base.
Proof. intros P. apply post8_eff in P as [_ P]. destruct a; exact P. Qed.

(* ==================== 4. collection level: List::rebase_on / Vector::rebase_on ==================== *)
Context {U : Type}.
Variable M : umap_impl T U.
Notation handle := (handle T U).

Lemma habs_wfc (h : handle) l : habs ek M h l -> hblen h <= cap ek (hdepth h) ->
  wfc (hdepth h + pd_of ek) (hblen h) (htree h).
Proof. intros (bl & Sh & Len & _) Hb. exists (hdepth h), bl. auto. Qed.
Lemma habs_with_tree (h : handle) l t : habs ek M h l -> shape t = shape (htree h) -> habs ek M (with_tree h t) l.
Proof.
  intros (bl & Sh & Len & Ag & Ul) E. exists bl. cbn [with_tree htree hdepth hblen hupd]. rewrite E. auto.
Qed.

(* the handle after the call: same abstract list, same fields except the tree, whose shape is unchanged;
   allocation facts for the installed tree *)
Definition coll_post (h base : handle) (l : list T) (s : state) (o : outcome handle) (s' : state) : Prop :=
  exists h', o = Ok h' /\ habs ek M h' l /\ hupd h' = hupd h /\ hblen h' = hblen h /\ hdepth h' = hdepth h /\
    hlist h' = hlist h /\ shape (htree h') = shape (htree h) /\
    frame s s' /\ (memo_below s -> memo_below s') /\
    below (next s') (htree h') /\ mvalid ek H s' (htree h') /\
    fresh_or_from s s' [htree h; htree base] (htree h') /\ fresh_uniq (next s) (htree h').

Lemma coll_rebase_on_full : forall (h base : handle) l lb s,
  habs ek M h l -> habs ek M base lb ->
  hlist h = hlist base -> hdepth h = hdepth base -> (hlist h = false -> hblen h = hblen base) ->
  hblen h <= cap ek (hdepth h) -> hblen base <= cap ek (hdepth base) ->
  below (next s) (htree h) -> below (next s) (htree base) ->
  mvalid ek H s (htree h) -> mvalid ek H s (htree base) -> xid (htree h) (htree base) ->
  wp Rexact (coll_rebase_on ek h base)
     (fun o s' => coll_post h base l s o s' /\
        (disj (htree h) (htree base) -> forall h', o = Ok h' -> shares (htree h') (htree h) (htree base))) s.
Proof.
  intros h base l lb s A1 A2 Hk Hd Hv Hb1 Hb2 B1 B2 V1 V2 X.
  pose proof (habs_wfc _ _ A1 Hb1) as W1. pose proof (habs_wfc _ _ A2 Hb2) as W2. rewrite <- Hd in W2.
  assert (L : lens_ok (if hlist h then Some (hblen h, hblen base) else None) (hblen h) (hblen base))
    by (destruct (hlist h); cbn [lens_ok]; auto).
  unfold coll_rebase_on. apply wp_bind. eapply wp_mono;
    [| exact (rebase_full_gen Rexact _ _ _ _ _ _ s L W1 W2 B1 B2 V1 V2 X
                (reads_ok_exact _ _ B1 V1) (reads_ok_exact _ _ B2 V2))].
  intros [a|e|c] s' [P P8]; [|destruct P as [_ []]|destruct P as [_ []]]. cbn [lift].
  assert (Ex : ext s s') by apply P. destruct Ex as [F Mb]. assert (Nx : (next s <= next s')%positive) by apply F.
  assert (Keep : coll_post h base l s (Ok h) s').
  { exists h. repeat (split; [solve [auto]|]). split; [eapply below_mono; [exact Nx|exact B1]|].
    split; [eapply mvalid_frame; eauto|]. split; [apply fof_src; cbn; auto|apply fu_below; exact B1]. }
  assert (Repl : forall t, replacement a = Some t -> coll_post h base l s (Ok (with_tree h t)) s').
  { intros t Hr. destruct (post2_replacement _ _ _ _ _ _ P B2 V2 Hr) as (Sh & Bt & Vt & Ft & Ut & _).
    exists (with_tree h t). split; [reflexivity|]. split; [apply habs_with_tree; auto|].
    cbn [with_tree htree hdepth hblen hupd hlist]. repeat (split; [solve [auto]|]). auto. }
  assert (Sh8 : disj (htree h) (htree base) ->
            shares (match replacement a with Some t => t | None => htree h end) (htree h) (htree base))
    by (intros DJ; apply (post8_shares _ _ _ s'), P8, DJ).
  destruct a as [|t| |t]; cbn [wp replacement] in *; (split; [auto; apply Repl; reflexivity|]).
  all: intros DJ h' Eh; injection Eh as <-; cbn [with_tree htree]; apply Sh8, DJ.
Qed.

Theorem coll_rebase_on_spec : forall (h base : handle) l lb s,
  habs ek M h l -> habs ek M base lb ->
  hlist h = hlist base -> hdepth h = hdepth base -> (hlist h = false -> hblen h = hblen base) ->
  hblen h <= cap ek (hdepth h) -> hblen base <= cap ek (hdepth base) ->
  below (next s) (htree h) -> below (next s) (htree base) ->
  mvalid ek H s (htree h) -> mvalid ek H s (htree base) -> xid (htree h) (htree base) ->
  wp Rexact (coll_rebase_on ek h base) (coll_post h base l s) s.
Proof.
  intros. eapply wp_mono; [|eapply coll_rebase_on_full; eauto]. intros o s' [P _]. exact P.
Qed.

(* C08 at the collection level: after rebasing a handle that shares no node with base, its tree holds
   base's own subtree at every position where the two trees had equal shapes (in particular the whole
   tree of base when the backing lists are equal) *)
Theorem coll_rebase_on_sharing : forall (h base : handle) l lb s,
  habs ek M h l -> habs ek M base lb ->
  hlist h = hlist base -> hdepth h = hdepth base -> (hlist h = false -> hblen h = hblen base) ->
  hblen h <= cap ek (hdepth h) -> hblen base <= cap ek (hdepth base) ->
  below (next s) (htree h) -> below (next s) (htree base) ->
  mvalid ek H s (htree h) -> mvalid ek H s (htree base) -> disj (htree h) (htree base) ->
  wp Rexact (coll_rebase_on ek h base)
     (fun o s' => coll_post h base l s o s' /\
        forall h', o = Ok h' -> shares (htree h') (htree h) (htree base)) s.
Proof.
  intros h base l lb s A1 A2 Hk Hd Hv Hb1 Hb2 B1 B2 V1 V2 DJ.
  eapply wp_mono; [|eapply coll_rebase_on_full; eauto].
  - intros o s' [P S8]. auto.
  - intros u v Hu Hv' E. exfalso. eapply DJ; eauto.
Qed.

(* shape-only version under demonic reads: needs neither allocation nor memo-validity premises *)
Theorem coll_rebase_on_dem : forall (h base : handle) l lb s,
  habs ek M h l -> habs ek M base lb ->
  hlist h = hlist base -> hdepth h = hdepth base -> (hlist h = false -> hblen h = hblen base) ->
  hblen h <= cap ek (hdepth h) -> hblen base <= cap ek (hdepth base) ->
  tr_ok (htree h) -> tr_ok (htree base) -> xid (htree h) (htree base) ->
  wp (Rdem truth) (coll_rebase_on ek h base)
     (fun o s' => exists h', o = Ok h' /\ habs ek M h' l /\ hupd h' = hupd h /\ hblen h' = hblen h /\
        hdepth h' = hdepth h /\ hlist h' = hlist h /\ shape (htree h') = shape (htree h)) s.
Proof.
  intros h base l lb s A1 A2 Hk Hd Hv Hb1 Hb2 T1 T2 X.
  pose proof (habs_wfc _ _ A1 Hb1) as W1. pose proof (habs_wfc _ _ A2 Hb2) as W2. rewrite <- Hd in W2.
  assert (L : lens_ok (if hlist h then Some (hblen h, hblen base) else None) (hblen h) (hblen base))
    by (destruct (hlist h); cbn [lens_ok]; auto).
  unfold coll_rebase_on. apply wp_bind. eapply wp_mono; [| exact (rebase_shape_gen _ _ _ _ _ _ s L W1 W2 T1 T2 X)].
  intros [a|e|c] s' P; cbn [post] in P; try contradiction. cbn [lift].
  assert (Repl : forall t, shape t = shape (htree h) ->
            exists h', Ok (with_tree h t) = Ok h' /\ habs ek M h' l /\ hupd h' = hupd h /\ hblen h' = hblen h /\
              hdepth h' = hdepth h /\ hlist h' = hlist h /\ shape (htree h') = shape (htree h)).
  { intros t Sh. exists (with_tree h t). split; [reflexivity|]. split; [apply habs_with_tree; auto|].
    cbn [with_tree htree hdepth hblen hupd hlist]. auto 10. }
  destruct a as [|t| |t]; cbn [wp].
  - exists h. auto 10.
  - apply Repl, P.
  - exists h. auto 10.
  - destruct P as [-> Sh]. apply Repl. now symmetry.
Qed.

(* the same under the per-handle invariant of Defs.v, which supplies depth, bounds and vector lengths *)
Lemma int_log_aux_spec n : forall fuel d, n <= pow2 (d + fuel) -> n <= pow2 (int_log_aux fuel d n).
Proof.
  induction fuel as [|f IH]; intros d Hn; cbn [int_log_aux].
  - rewrite Nat.add_0_r in Hn. exact Hn.
  - destruct (N.leb_spec n (pow2 d)) as [Hle|Hgt]; [exact Hle|]. apply IH.
    replace (S d + f)%nat with (d + S f)%nat by lia. exact Hn.
Qed.
Lemma cap_list_depth capN : capacity_ok capN -> capN <= cap ek (list_depth ek capN).
Proof.
  intros Hc. unfold capacity_ok in Hc. unfold cap, list_depth.
  assert (H1 : capN <= pow2 (int_log capN)).
  { unfold int_log. apply int_log_aux_spec. cbn [Nat.add].
    assert (E : 2 ^ 63 <= pow2 64) by (unfold pow2; apply N.pow_le_mono_r; lia). lia. }
  pose proof (pow2_mono (int_log capN) (int_log capN - pd_of ek + pd_of ek) ltac:(lia)) as H2. lia.
Qed.

Theorem coll_rebase_on_hinv : forall capN (uinv : U -> Prop) (h base : handle) l lb s,
  capacity_ok capN -> hinv ek M capN uinv h l -> hinv ek M capN uinv base lb -> hlist h = hlist base ->
  below (next s) (htree h) -> below (next s) (htree base) ->
  mvalid ek H s (htree h) -> mvalid ek H s (htree base) -> xid (htree h) (htree base) ->
  wp Rexact (coll_rebase_on ek h base)
     (fun o s' => coll_post h base l s o s' /\ forall h', o = Ok h' -> hinv ek M capN uinv h' l) s.
Proof.
  intros capN uinv h base l lb s Cok I1 I2 Hk B1 B2 V1 V2 X.
  destruct I1 as (A1 & D1 & Ll1 & Bl1 & Vec1 & U1). destruct I2 as (A2 & D2 & Ll2 & Bl2 & Vec2 & U2).
  pose proof (cap_list_depth capN Cok) as Hc.
  eapply wp_mono; [|eapply (coll_rebase_on_spec h base l lb s A1 A2 Hk); auto].
  - intros o s' P. split; [exact P|]. intros h' ->. destruct P as (h2 & Eo & A & Eu & Eb & Ed & El & _).
    injection Eo as <-. unfold hinv. rewrite Eu, Eb, Ed, El. auto 10.
  - congruence.
  - intros Hf. rewrite Hk in Hf. destruct (Vec1 ltac:(congruence)) as [-> _]. destruct (Vec2 Hf) as [-> _]. reflexivity.
  - rewrite D1. lia.
  - rewrite D2. lia.
Qed.

End RebaseP.

Print Assumptions rebase_shape.
Print Assumptions rebase_shape_vec.
Print Assumptions rebase_state.
Print Assumptions rebase_state_vec.
Print Assumptions rebase_sharing.
Print Assumptions rebase_sharing_vec.
Print Assumptions rebase_full_gen.
Print Assumptions rebase_sharing_exact_gen.
Print Assumptions rebase_sharing_exact.
Print Assumptions rebase_sharing_exact_vec.
Print Assumptions coll_rebase_on_spec.
Print Assumptions coll_rebase_on_sharing.
Print Assumptions coll_rebase_on_dem.
Print Assumptions coll_rebase_on_hinv.
