(* Spec.v — the abstract specification: a register file of plain bounded sequences.
   This is the "ordinary bounded sequence" the properties talk about (C01), with the SSZ root
   (HashP: hash_tree_root from the consensus-spec text) and SSZ serialization (CodecP) as the only
   non-trivial ingredients. It mentions neither trees, nor identities, nor memos, nor update maps.
   `spec_ok a o r a'` : in abstract state a, operation o may answer r and lead to a'.
   Builder operations are outside this alphabet (they are specified by C17's theorems). *)
From MH Require Export Inv HashP CodecP IterP.
Local Open Scope N_scope.

Section Spec.
  Context {T : Type}.
  Variable ek : ekind T.
  Variable H : digest -> digest -> digest.
  Variable capN : N.
  Variable vec_based : bool.
  Variable valid : T -> Prop.          (* well-formed element values (CodecP.ek_codec_on) *)
  Notation aval := (@aval T).
  Notation res := (@res T).

  Definition sregs := list (option aval).
  Definition aget (a : sregs) (i : nat) : option aval :=
    match nth_error a i with Some (Some x) => Some x | _ => None end.
  Definition aset (a : sregs) (i : nat) (x : option aval) : sregs := set_nth a i x.
  Definition init_sregs : sregs := repeat None nregs.

  Definition mk (is_list : bool) (vs : list T) (pend : bool) (blen : N) : aval :=
    {| a_list := is_list; a_vals := vs; a_pend := pend; a_blen := blen |}.
  Definition clean_list (vs : list T) : aval := mk true vs false (lenN vs).
  Definition clean_vec (vs : list T) : aval := mk false vs false capN.
  Definition len (x : aval) : N := lenN (a_vals x).
  Definition root_of (x : aval) : digest := ssz_root ek H (a_list x) capN (a_vals x).
  Definition flushed (x : aval) : aval := mk (a_list x) (a_vals x) false (if a_list x then len x else capN).

  Definition pd := pd_of ek.
  Definition depth := list_depth ek capN.

  (* consecutive blocks of 2^level elements (level iteration) *)
  Fixpoint chunks (fuel : nat) (c : N) (l : list T) : list (list T) :=
    match fuel with
    | O => []
    | S f => match l with [] => [] | _ => takeN c l :: chunks f c (dropN c l) end
    end.
  Definition level_blocks (i : N) (rest : list T) : list (bool * list T) :=
    let level := compute_level i depth pd in
    if Nat.eqb level 0 && Nat.ltb 0 pd then map (fun v => (false, [v])) rest
    else map (fun b => (true, b)) (chunks (S (length rest)) (pow2 level) rest).

  (* the pending map described by an insertion sequence: later insertions win *)
  Fixpoint kv_get (kvs : list (N * T)) (k : N) : option T :=
    match kvs with
    | [] => None
    | (j, v) :: r => match kv_get r k with Some w => Some w | None => if j =? k then Some v else None end
    end.
  Definition kv_has (kvs : list (N * T)) (k : N) : Prop := kv_get kvs k <> None.
  (* l' is l overlaid with the map: overwrites below len, contiguous extension above *)
  Definition overlay (kvs : list (N * T)) (l l' : list T) : Prop :=
    lenN l <= lenN l' /\
    (forall k v, kv_get kvs k = Some v -> nthN l' k = Some v) /\
    (forall k, kv_get kvs k = None -> k < lenN l -> nthN l' k = nthN l k) /\
    (forall k, lenN l <= k -> k < lenN l' -> kv_has kvs k).

  Fixpoint iter_cow_vals (items : list (option T)) (vs : list T) (j : N) : list T :=
    match items with
    | [] => vs
    | it :: r => iter_cow_vals r (match it with Some v => if j <? lenN vs then setN vs j v else vs | None => vs end) (j + 1)
    end.
  Fixpoint iter_cow_wrote (items : list (option T)) (n : N) (j : N) : bool :=
    match items with
    | [] => false
    | it :: r => (match it with Some _ => j <? n | None => false end) || iter_cow_wrote r n (j + 1)
    end.

  Fixpoint mix_roots (x : aval) (vs : list T) (j : N) : list digest :=
    match vs with
    | [] => []
    | v :: r =>
        let l := a_vals x in
        let l' := if lenN l =? 0 then l else setN l (j mod lenN l) v in
        ssz_root ek H (a_list x) capN l' :: mix_roots x r (j + 1)
    end.

  Definition bad (a : sregs) (r : res) (a' : sregs) : Prop := r = RErr EBadReg /\ a' = a.

  (* result of a constructor writing register d *)
  Definition ctor (a : sregs) (d : nat) (ok : option aval) (e : error) (r : res) (a' : sregs) : Prop :=
    if (nregs <=? d)%nat then bad a r a' else
    match ok with
    | Some x => r = ROk /\ a' = aset a d (Some x)
    | None => r = RErr e /\ a' = a
    end.

  Definition with_reg (a : sregs) (i : nat) (k : aval -> Prop) (r : res) (a' : sregs) : Prop :=
    match aget a i with Some x => k x | None => bad a r a' end.
  Definition with_list (a : sregs) (i : nat) (k : aval -> Prop) (r : res) (a' : sregs) : Prop :=
    with_reg a i (fun x => if a_list x then k x else bad a r a') r a'.

  Definition write_spec (a : sregs) (i : nat) (idx : N) (v : T) (r : res) (a' : sregs) : Prop :=
    with_reg a i (fun x =>
      if idx <? len x
      then r = RSome true /\ a' = aset a i (Some (mk (a_list x) (setN (a_vals x) idx v) true (a_blen x)))
      else r = RSome false /\ a' = a) r a'.

  Definition spec_ok (a : sregs) (o : op (T := T)) (r : res) (a' : sregs) : Prop :=
    match o with
    | ONewList d vs => ctor a d (if lenN vs <=? capN then Some (clean_list vs) else None) BuilderFull r a'
    | ONewVec d vs => ctor a d (if lenN vs =? capN then Some (clean_vec vs) else None) (WrongVectorLength (lenN vs) capN) r a'
    | OListSlow d vs => ctor a d (if lenN vs <=? capN then Some (clean_list vs) else None) (ListFull capN) r a'
    | OVecIter d vs =>
        ctor a d (if lenN vs =? capN then Some (clean_vec vs) else None)
             (if capN <? lenN vs then BuilderFull else WrongVectorLength (lenN vs) capN) r a'
    | OEmpty d => ctor a d (Some (clean_list [])) BuilderFull r a'
    | ORepeat d v n | ORepeatSlow d v n =>
        ctor a d (if n <=? capN then Some (clean_list (repeatN v n)) else None) BuilderFull r a'
    | OFromElem d v => ctor a d (Some (clean_vec (repeatN v capN))) BuilderFull r a'
    | ODefaultVec d => ctor a d (Some (clean_vec (repeatN (edefault ek) capN))) BuilderFull r a'
    (* SSZ decoding. First conjunct (strictness): the only answers are success and EDecode, and success
       means that the input is the canonical serialization of an in-bounds sequence of well-formed values,
       which is then stored. Second conjunct (completeness and exactness): whenever the input is the
       canonical serialization of such a sequence l, decoding succeeds and stores exactly l. Together:
       decoding succeeds if and only if the input is the serialization of an admissible sequence, and then
       yields exactly that sequence; in particular the answer RErr EDecode is allowed only when no
       admissible preimage exists (Refine.spec_ssz_list_err / spec_ssz_vec_err), and the specification is a
       function of (a, b) (Refine.spec_det). The side condition of the second conjunct is the limit of
       the 4-byte offsets: for a variable-size kind and an input of 4 GiB or more it stays open. *)
    | OSszList d b =>
        if (nregs <=? d)%nat then bad a r a' else
        ((exists l, serialize ek l = b /\ Forall valid l /\ lenN l <= capN /\ r = ROk /\ a' = aset a d (Some (clean_list l)))
         \/ (r = RErr EDecode /\ a' = a)) /\
        ((efixed ek = None -> lenN b < 2 ^ 32) ->
         forall l, serialize ek l = b -> Forall valid l -> lenN l <= capN ->
                   r = ROk /\ a' = aset a d (Some (clean_list l)))
    | OSszVec d b =>
        if (nregs <=? d)%nat then bad a r a' else
        ((exists l, serialize ek l = b /\ Forall valid l /\ lenN l = capN /\ r = ROk /\ a' = aset a d (Some (clean_vec l)))
         \/ (r = RErr EDecode /\ a' = a)) /\
        ((efixed ek = None -> lenN b < 2 ^ 32) ->
         forall l, serialize ek l = b -> Forall valid l -> lenN l = capN ->
                   r = ROk /\ a' = aset a d (Some (clean_vec l)))
    | OSerdeList d vs => ctor a d (if lenN vs <=? capN then Some (clean_list vs) else None) ESerde r a'
    | OSerdeVec d vs => ctor a d (if lenN vs =? capN then Some (clean_vec vs) else None) ESerde r a'
    | OGet i idx | OCowRead i idx => with_reg a i (fun x => r = RVal (nthN (a_vals x) idx) /\ a' = a) r a'
    | OLen i => with_reg a i (fun x => r = RNum (len x) /\ a' = a) r a'
    | OIterFrom i idx => with_reg a i (fun x =>
        a' = a /\ if len x <? idx then r = RErr (OutOfBoundsIterFrom idx (len x))
                  else r = RIter (dropN idx (a_vals x)) (hints_from (len x - idx))) r a'
    | OLevelIter i idx => with_list a i (fun x =>
        a' = a /\ if len x <? idx then r = RErr (OutOfBoundsIterFrom idx (len x))
                  else if a_pend x then r = RErr LevelIterPendingUpdates
                  else r = RLevel (level_blocks idx (dropN idx (a_vals x)))) r a'
    | OEq i j => with_reg a i (fun x => with_reg a j (fun y =>
        if Bool.eqb (a_list x) (a_list y)
        then a' = a /\ exists b, r = RBool b /\ (a_pend x = false -> a_pend y = false -> (b = true <-> a_vals x = a_vals y))
        else bad a r a') r a') r a'
    | OSszEnc i => with_reg a i (fun x =>
        r = RBytes (serialize ek (a_vals x)) (lenN (serialize ek (a_vals x))) /\ a' = a) r a'
    | OSerdeSer i => with_reg a i (fun x => r = RVals (a_vals x) /\ a' = a) r a'
    | OSet i idx v | OCowInto i idx v | OCowMake i idx v => write_spec a i idx v r a'
    | OCowMake2 i idx v w => write_spec a i idx w r a'
    | OTouch i idx => with_reg a i (fun x =>
        if idx <? len x then r = RSome true /\ a' = aset a i (Some (mk (a_list x) (a_vals x) true (a_blen x)))
        else r = RSome false /\ a' = a) r a'
    | OIterCow i items => with_list a i (fun x =>
        r = RNum (N.min (lenN items) (len x)) /\
        a' = aset a i (Some (mk true (iter_cow_vals items (a_vals x) 0)
                                 (a_pend x || iter_cow_wrote items (len x) 0) (a_blen x)))) r a'
    | OPush i v => with_list a i (fun x =>
        if len x =? capN then r = RErr (ListFull capN) /\ a' = a
        else r = ROk /\ a' = aset a i (Some (mk true (a_vals x ++ [v]) true (a_blen x)))) r a'
    | OBulk i kvs => with_list a i (fun x =>
        if vec_based && existsb (fun kv => 65536 <=? fst kv) kvs then bad a r a' else
        if a_pend x then r = RErr BulkUpdateUnclean /\ a' = a else
        let l := a_vals x in
        (exists l', overlay kvs l l' /\ lenN l' <= capN /\ r = ROk /\
                    a' = aset a i (Some (mk true l' (negb (match kvs with [] => true | _ => false end)) (a_blen x))))
        \/ (r = RErr (ListFull capN) /\ a' = a /\ forall j, lenN l <= j -> j <= capN -> kv_has kvs j)
        \/ (exists k x0, r = RErr (OutOfBoundsUpdate k x0) /\ a' = a /\
              lenN l <= x0 /\ x0 <= capN /\ x0 < k /\ (forall j, lenN l <= j -> j < x0 -> kv_has kvs j) /\
              ~ kv_has kvs x0 /\ kv_has kvs k /\
              (forall j, x0 < j -> j < N.min k usize_max -> ~ kv_has kvs j) /\
              (usize_max <= k -> forall j, kv_has kvs j -> j <= k))) r a'
    | OApply i => with_reg a i (fun x => r = ROk /\ a' = aset a i (Some (flushed x))) r a'
    | OPopFront i n => with_list a i (fun x =>
        if len x <? n then r = RErr (OutOfBoundsIterFrom n (len x)) /\ a' = aset a i (Some (flushed x))
        else r = ROk /\ a' = aset a i (Some (clean_list (dropN n (a_vals x))))) r a'
    | OPopFrontSlow i n => with_list a i (fun x =>
        if len x <? n then r = RErr (OutOfBoundsIterFrom n (len x)) /\ a' = a
        else r = ROk /\ a' = aset a i (Some (clean_list (dropN n (a_vals x))))) r a'
    | OClone i j => if (nregs <=? j)%nat then bad a r a' else
        with_reg a i (fun x => r = ROk /\ a' = aset a j (Some x)) r a'
    | OToVector i j => if (nregs <=? j)%nat then bad a r a' else
        with_list a i (fun x =>
          if len x =? capN
          then r = ROk /\ a' = aset a j (Some (mk false (a_vals x) (if a_blen x =? capN then a_pend x else false) capN))
          else r = RErr (WrongVectorLength (len x) capN) /\ a' = a) r a'
    | OToList i j => if (nregs <=? j)%nat then bad a r a' else
        with_reg a i (fun x => if a_list x then bad a r a'
                               else r = ROk /\ a' = aset a j (Some (mk true (a_vals x) (a_pend x) capN))) r a'
    | ORebaseOn i j => with_reg a i (fun x => with_reg a j (fun y =>
        if Bool.eqb (a_list x) (a_list y) then r = ROk /\ a' = a else bad a r a') r a') r a'
    | ORebase i j k => if (nregs <=? k)%nat then bad a r a' else
        with_reg a i (fun x => with_reg a j (fun y =>
        if Bool.eqb (a_list x) (a_list y) then r = ROk /\ a' = aset a k (Some x) else bad a r a') r a') r a'
    | OIntra i => with_reg a i (fun x => r = ROk /\ a' = aset a i (Some (flushed x))) r a'
    | OHash i | OParHash i _ => with_reg a i (fun x =>
        a' = a /\ if a_pend x then r = RErr EPending else r = RHash (root_of x)) r a'
    | OParMix i vs => with_reg a i (fun x =>
        a' = a /\ if a_pend x then r = RErr EPending else r = RHashes (mix_roots x vs 0 ++ [root_of x])) r a'
    | ODrop i => with_reg a i (fun _ => r = ROk /\ a' = aset a i None) r a'
    | OBNew _ _ | OBPush _ | OBPushNode _ _ | OBFinish => True
    end.

  Definition collection_op (o : op (T := T)) : bool :=
    match o with OBNew _ _ | OBPush _ | OBPushNode _ _ | OBFinish => false | _ => true end.
End Spec.
